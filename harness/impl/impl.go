// Package impl wraps the real RedisGO code for in-process use by the checks.
package impl

import (
	"context"
	"fmt"
	"io"
	"log"
	"net"
	"os"
	"runtime/debug"
	"strings"
	"sync"

	"github.com/innovationb1ue/RedisGO/config"
	"github.com/innovationb1ue/RedisGO/logger"
	"github.com/innovationb1ue/RedisGO/memdb"
	"github.com/innovationb1ue/RedisGO/resp"
	"github.com/innovationb1ue/RedisGO/server"
	"verif/harness/respcodec"
)

var once sync.Once

// Init performs what main.go does before serving: config, logger, command registration.
func Init(shards int) {
	once.Do(func() {
		if shards <= 0 {
			shards = 16
		}
		dir, _ := os.MkdirTemp("", "verif-log-")
		cfg := &config.Config{ShardNum: shards, ChanBufferSize: 10, Databases: 16, LogDir: dir, LogLevel: "panic"}
		config.Configures = cfg
		if err := logger.SetUp(cfg); err != nil {
			panic(err)
		}
		logger.Disable()
		log.SetOutput(io.Discard)
		os.RemoveAll(dir)
		memdb.RegisterKeyCommands()
		memdb.RegisterStringCommands()
		memdb.RegisterListCommands()
		memdb.RegisterSetCommands()
		memdb.RegisterHashCommands()
		memdb.RegisterPubSubCommands()
		memdb.RegisterSortedSetCommands()
		memdb.RegisterStreamCommands()
		memdb.RegisterRaftCommand()
	})
}

// Srv is one in-process server (Manager with its databases).
type Srv struct {
	Mgr *server.Manager
	Ctx context.Context
}

func NewSrv(ndb int) *Srv {
	Init(0)
	if ndb <= 0 {
		ndb = 1
	}
	return &Srv{Mgr: server.NewManager(&config.Config{Databases: ndb}), Ctx: context.Background()}
}

// Reply is the canonical reply (DESIGN.md §2.4).
//   K: "int" (V = ASCII decimal bytes), "str" (V = payload bytes; W = "bulk" | "status"),
//      "nil", "err" (E = "WRONGTYPE" | "OTHER"), "arr" (A = elements), "panic" (E = site), "gonil"
type Reply struct {
	K string  `json:"k"`
	V []int   `json:"v"`
	E string  `json:"e"`
	A []Reply `json:"a"`
	W string  `json:"-"`
	// Raw wire bytes (not serialised to traces)
	Raw []byte `json:"-"`
	Msg string `json:"-"`
	// NilRes marks the "-unknown error" reply the connection loop writes when an executor returned a Go nil
	NilRes bool `json:"nilres,omitempty"`
}

func B2I(b []byte) []int {
	out := make([]int, len(b))
	for i, c := range b {
		out[i] = int(c)
	}
	return out
}

func I2B(v []int) []byte {
	out := make([]byte, len(v))
	for i, c := range v {
		out[i] = byte(c)
	}
	return out
}

func FromValue(v respcodec.Value) Reply {
	switch v.Kind {
	case '+':
		return Reply{K: "str", V: B2I(v.Str), W: "status", A: []Reply{}}
	case '$':
		return Reply{K: "str", V: B2I(v.Str), W: "bulk", A: []Reply{}}
	case ':':
		return Reply{K: "int", V: B2I([]byte(fmt.Sprintf("%d", v.Int))), A: []Reply{}}
	case 'n', 'N':
		return Reply{K: "nil", V: []int{}, A: []Reply{}}
	case '-':
		e := "OTHER"
		if strings.HasPrefix(string(v.Str), "WRONGTYPE") {
			e = "WRONGTYPE"
		}
		return Reply{K: "err", V: []int{}, E: e, Msg: string(v.Str), A: []Reply{}, NilRes: string(v.Str) == "unknown error"}
	case '*':
		r := Reply{K: "arr", V: []int{}, A: make([]Reply, 0, len(v.Elems))}
		for _, e := range v.Elems {
			r.A = append(r.A, FromValue(e))
		}
		return r
	}
	return Reply{K: "bad", V: []int{}, A: []Reply{}}
}

// Canon converts wire bytes of exactly one reply into the canonical form.
func Canon(raw []byte) Reply {
	vals, err := respcodec.DecodeAll(raw)
	if err != nil || len(vals) != 1 {
		return Reply{K: "malformed", V: []int{}, A: []Reply{}, Raw: raw, Msg: fmt.Sprintf("%d values, err=%v, raw=%q", len(vals), err, raw)}
	}
	r := FromValue(vals[0])
	r.Raw = raw
	return r
}

// Exec runs one command through Manager.ExecCommand (the anchored dispatch point) under recover.
func (s *Srv) Exec(argv [][]byte) (rep Reply) {
	return s.ExecConn(argv, nil)
}

func (s *Srv) ExecConn(argv [][]byte, conn net.Conn) (rep Reply) {
	defer func() {
		if r := recover(); r != nil {
			rep = Reply{K: "panic", V: []int{}, A: []Reply{}, E: panicSite(), Msg: fmt.Sprint(r)}
		}
	}()
	// the real server hands every command freshly parsed buffers, and executors may keep them (SET stores cmd[2]
	// itself): never let two commands share argument memory
	fresh := make([][]byte, len(argv))
	for i, a := range argv {
		fresh[i] = append([]byte{}, a...)
	}
	res := s.Mgr.ExecCommand(s.Ctx, fresh, conn)
	if res == nil {
		// Handle() turns a nil result into "-unknown error"
		return Reply{K: "err", V: []int{}, A: []Reply{}, E: "OTHER", Msg: "gonil", NilRes: true}
	}
	return Canon(res.ToBytes())
}

// ExecDeferred runs the executor now and returns a function that serialises the reply later - what a connection
// handler does: the executor returns (and releases its locks), THEN the reply is turned into bytes and written. A reply
// that still references stored memory can be changed by another command in between.
func (s *Srv) ExecDeferred(argv [][]byte) (serialise func() Reply) {
	var early *Reply
	var res resp.RedisData
	func() {
		defer func() {
			if r := recover(); r != nil {
				early = &Reply{K: "panic", V: []int{}, A: []Reply{}, E: panicSite(), Msg: fmt.Sprint(r)}
			}
		}()
		fresh := make([][]byte, len(argv))
		for i, a := range argv {
			fresh[i] = append([]byte{}, a...)
		}
		res = s.Mgr.ExecCommand(s.Ctx, fresh, nil)
	}()
	return func() (rep Reply) {
		if early != nil {
			return *early
		}
		if res == nil {
			return Reply{K: "err", V: []int{}, A: []Reply{}, E: "OTHER", Msg: "gonil", NilRes: true}
		}
		defer func() {
			if r := recover(); r != nil {
				rep = Reply{K: "panic", V: []int{}, A: []Reply{}, E: panicSite(), Msg: fmt.Sprint(r)}
			}
		}()
		return Canon(res.ToBytes())
	}
}

func panicSite() string {
	st := string(debug.Stack())
	// first frame inside the repository after the panic frames
	lines := strings.Split(st, "\n")
	for i, l := range lines {
		if strings.Contains(l, "/repo/") && !strings.Contains(l, "verif") && i > 0 {
			p := strings.TrimSpace(l)
			if j := strings.Index(p, " +0x"); j > 0 {
				p = p[:j]
			}
			p = strings.TrimPrefix(p, "/repo/")
			return p
		}
	}
	return "unknown"
}

// S converts a string argv for convenience.
func S(args ...string) [][]byte {
	out := make([][]byte, len(args))
	for i, a := range args {
		out[i] = []byte(a)
	}
	return out
}
