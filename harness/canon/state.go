//go:build verif

package canon

import (
	"bytes"
	"encoding/json"
	"fmt"
	"math"
	"sort"
	"strconv"
	"strings"

	"github.com/innovationb1ue/RedisGO/memdb"
	"verif/harness/impl"
)

// ModelKey is one key of the model state as printed by MCBase.tla StJ.
type ModelKey struct {
	K  []int           `json:"k"`
	T  string          `json:"t"`
	V  json.RawMessage `json:"v"`
	Lo int64           `json:"lo"`
	Hi int64           `json:"hi"`
}

type ModelState []ModelKey

func ParseModelState(b []byte) (ModelState, error) {
	var ms ModelState
	err := json.Unmarshal(b, &ms)
	return ms, err
}

func KindDetail(pats []Pat, got impl.Reply) string {
	gk := got.K
	if gk == "err" {
		gk = "err:" + got.E
	}
	set := map[string]bool{}
	for _, p := range pats {
		k := p.K
		if k == "err" {
			k = "err:" + p.E
		}
		set[k] = true
	}
	var ks []string
	for k := range set {
		ks = append(ks, k)
	}
	sort.Strings(ks)
	if set[gk] || (gk == "arr" && (set["uarr"] || set["upairs"] || set["zwin"])) || (gk == "int" && set["irange"]) {
		return "value"
	}
	return "got " + gk + " want " + strings.Join(ks, "|")
}

func q(b []byte) string { return strconv.Quote(string(b)) }

func parseScore(s string) float64 {
	switch s {
	case "inf", "+inf":
		return math.Inf(1)
	case "-inf":
		return math.Inf(-1)
	}
	f, _ := strconv.ParseFloat(s, 64)
	return f
}

// checkZTree evaluates the structural invariants of the AVL tree of a sorted set (C12).
func checkZTree(v memdb.VerifValue) string {
	count := 0
	names := map[string]float64{}
	var prev *float64
	var bad string
	var walk func(n *memdb.VerifZNode) int64
	walk = func(n *memdb.VerifZNode) int64 {
		if n == nil {
			return 0
		}
		hl := walk(n.Left)
		if prev != nil && !(*prev < n.Score) && bad == "" {
			bad = fmt.Sprintf("BST order broken at score %v", n.Score)
		}
		sc := n.Score
		prev = &sc
		count++
		if len(n.Names) == 0 && bad == "" {
			bad = fmt.Sprintf("node with score %v has no member", n.Score)
		}
		for _, nm := range n.Names {
			if _, dup := names[nm]; dup && bad == "" {
				bad = fmt.Sprintf("member %q in two nodes", nm)
			}
			names[nm] = n.Score
		}
		hr := walk(n.Right)
		h := hl
		if hr > h {
			h = hr
		}
		h++
		if bad == "" && (hl-hr > 1 || hr-hl > 1) {
			bad = fmt.Sprintf("unbalanced at score %v (left height %d, right height %d)", n.Score, hl, hr)
		}
		// stored height: the code initialises leaves with height 0 or 1 depending on its convention;
		// accept either convention but require consistency: stored = computed or computed-1
		if bad == "" && n.Height != h && n.Height != h-1 {
			bad = fmt.Sprintf("stored height %d at score %v, computed %d", n.Height, n.Score, h)
		}
		return h
	}
	walk(v.ZRoot)
	if bad != "" {
		return bad
	}
	if count != v.ZLen {
		return fmt.Sprintf("len=%d but %d nodes", v.ZLen, count)
	}
	if len(v.ZDict) != len(names) {
		return fmt.Sprintf("dict has %d members, nodes list %d", len(v.ZDict), len(names))
	}
	for nm, sc := range names {
		ds, ok := v.ZDict[nm]
		if !ok {
			return fmt.Sprintf("member %q missing from dict", nm)
		}
		if ds != sc || !v.ZDictLive[nm] {
			return fmt.Sprintf("dict[%q] points to a stale node (score %v, tree %v)", nm, ds, sc)
		}
	}
	return ""
}

// DiffState compares the implementation's structural dump with the model state; "" = equal.
// A result starting with "structure:" is a violated structural invariant of the implementation.
func DiffState(ms ModelState, srv *impl.Srv, shift int64) string {
	dump := memdb.VerifDump(srv.Mgr.DBs[0])
	byKey := map[string]memdb.VerifValue{}
	objs := map[uintptr]string{}
	for _, v := range dump {
		byKey[v.Key] = v
		if v.Obj != 0 {
			if other, dup := objs[v.Obj]; dup {
				return fmt.Sprintf("structure: keys %q and %q share one %s object (a command on either changes both)", other, v.Key, v.Type)
			}
			objs[v.Obj] = v.Key
		}
	}
	seen := map[string]bool{}
	for _, mk := range ms {
		key := string(impl.I2B(mk.K))
		seen[key] = true
		v, ok := byKey[key]
		if !ok {
			return fmt.Sprintf("key %q missing in implementation (model type %s)", key, mk.T)
		}
		if v.Type != mk.T {
			return fmt.Sprintf("key %q has type %s, model %s", key, v.Type, mk.T)
		}
		// deadline
		if (mk.Hi >= 0) != (v.TTL != 0) {
			return fmt.Sprintf("key %q deadline presence: impl %d, model [%d,%d]", key, v.TTL, mk.Lo, mk.Hi)
		}
		if mk.Hi >= 0 {
			// StJ prints lo/hi relative to T0; shift = realNow - T0, so TTL - shift - T0 is the relative deadline
			rel := v.TTL - shift - ModelT0
			if rel < mk.Lo-1 || rel > mk.Hi+1 {
				return fmt.Sprintf("key %q deadline %d (relative %d) outside model window [%d,%d]", key, v.TTL, rel, mk.Lo, mk.Hi)
			}
		}
		switch mk.T {
		case "string":
			var mv []int
			json.Unmarshal(mk.V, &mv)
			if !bytes.Equal(impl.I2B(mv), v.Str) {
				return fmt.Sprintf("key %q = %s, model %s", key, q(v.Str), q(impl.I2B(mv)))
			}
		case "list":
			var mv [][]int
			json.Unmarshal(mk.V, &mv)
			if !v.ListFwdOK || !v.ListBckOK {
				return fmt.Sprintf("structure: list %q walk does not reach the sentinel (fwd %v back %v)", key, v.ListFwdOK, v.ListBckOK)
			}
			if len(v.ListFwd) != v.ListLen || len(v.ListBack) != v.ListLen {
				return fmt.Sprintf("structure: list %q Len=%d forward=%d backward=%d", key, v.ListLen, len(v.ListFwd), len(v.ListBack))
			}
			for i := range v.ListFwd {
				if !bytes.Equal(v.ListFwd[i], v.ListBack[len(v.ListBack)-1-i]) {
					return fmt.Sprintf("structure: list %q forward and backward walks differ at %d", key, i)
				}
			}
			if len(mv) != len(v.ListFwd) {
				return fmt.Sprintf("list %q has %d elements, model %d", key, len(v.ListFwd), len(mv))
			}
			for i := range mv {
				if !bytes.Equal(impl.I2B(mv[i]), v.ListFwd[i]) {
					return fmt.Sprintf("list %q[%d] = %s, model %s", key, i, q(v.ListFwd[i]), q(impl.I2B(mv[i])))
				}
			}
		case "hash":
			var mv [][][]int
			json.Unmarshal(mk.V, &mv)
			if len(mv) != len(v.Hash) {
				return fmt.Sprintf("hash %q has %d fields, model %d", key, len(v.Hash), len(mv))
			}
			for _, p := range mv {
				f, val := string(impl.I2B(p[0])), impl.I2B(p[1])
				iv, ok := v.Hash[f]
				if !ok || !bytes.Equal(iv, val) {
					return fmt.Sprintf("hash %q[%q] = %s (present %v), model %s", key, f, q(iv), ok, q(val))
				}
			}
		case "set":
			var mv [][]int
			json.Unmarshal(mk.V, &mv)
			if len(mv) != len(v.Set) {
				return fmt.Sprintf("set %q has %d members, model %d", key, len(v.Set), len(mv))
			}
			have := map[string]bool{}
			for _, m := range v.Set {
				have[m] = true
			}
			for _, m := range mv {
				if !have[string(impl.I2B(m))] {
					return fmt.Sprintf("set %q lacks member %s", key, q(impl.I2B(m)))
				}
			}
		case "zset":
			if s := checkZTree(v); s != "" {
				return "structure: zset " + strconv.Quote(key) + ": " + s
			}
			var mv [][][]int
			json.Unmarshal(mk.V, &mv)
			if len(mv) != len(v.ZDict) {
				return fmt.Sprintf("zset %q has %d members, model %d", key, len(v.ZDict), len(mv))
			}
			for _, p := range mv {
				m, sc := string(impl.I2B(p[0])), parseScore(string(impl.I2B(p[1])))
				is, ok := v.ZDict[m]
				if !ok || is != sc {
					return fmt.Sprintf("zset %q member %q score %v (present %v), model %v", key, m, is, ok, sc)
				}
			}
		case "stream":
			var mv []json.RawMessage
			json.Unmarshal(mk.V, &mv)
			if v.StreamMapLen != len(v.StreamIDs) {
				return fmt.Sprintf("structure: stream %q has %d ids but %d map entries", key, len(v.StreamIDs), v.StreamMapLen)
			}
			if len(mv) != len(v.StreamIDs) {
				return fmt.Sprintf("stream %q has %d entries, model %d", key, len(v.StreamIDs), len(mv))
			}
			for i, raw := range mv {
				var pair []json.RawMessage
				json.Unmarshal(raw, &pair)
				var id []int
				var fs [][]int
				json.Unmarshal(pair[0], &id)
				json.Unmarshal(pair[1], &fs)
				iid := fmt.Sprintf("%d-%d", v.StreamIDs[i][0], v.StreamIDs[i][1])
				if iid != string(impl.I2B(id)) {
					return fmt.Sprintf("stream %q entry %d id %s, model %s", key, i, iid, impl.I2B(id))
				}
				if len(fs) != len(v.StreamFields[i]) {
					return fmt.Sprintf("stream %q entry %s has %d field items, model %d", key, iid, len(v.StreamFields[i]), len(fs))
				}
				for j := range fs {
					if string(impl.I2B(fs[j])) != v.StreamFields[i][j] {
						return fmt.Sprintf("stream %q entry %s item %d = %q, model %q", key, iid, j, v.StreamFields[i][j], impl.I2B(fs[j]))
					}
				}
			}
		}
	}
	for k, v := range byKey {
		if !seen[k] {
			return fmt.Sprintf("implementation has extra key %q (type %s)", k, v.Type)
		}
	}
	// deadlines without a key
	for k := range memdb.VerifTTLKeys(srv.Mgr.DBs[0]) {
		if _, ok := byKey[k]; !ok {
			return fmt.Sprintf("structure: deadline recorded for missing key %q", k)
		}
	}
	return ""
}

// T0 of the model; the walker passes shift = realNow - T0, so T0 itself is needed to make deadlines relative.
var ModelT0 int64 = 1000

// StructureOK evaluates the implementation-level structural invariants on the whole keyspace (no model needed):
// list links vs cached length, sorted-set AVL shape / len / dict, stream id list vs entry map, no deadline recorded
// for a missing key, key counter = stored keys. "" = all hold.
func StructureOK(srv *impl.Srv) string {
	db := srv.Mgr.DBs[0]
	dump := memdb.VerifDump(db)
	keys := map[string]bool{}
	objs := map[uintptr]string{}
	for _, v := range dump {
		keys[v.Key] = true
		if v.Obj != 0 {
			// every key owns its value: two keys holding ONE list / hash / set / sorted set / stream object change together
			if other, dup := objs[v.Obj]; dup {
				return fmt.Sprintf("keys %q and %q share one %s object (a command on either changes both)", other, v.Key, v.Type)
			}
			objs[v.Obj] = v.Key
		}
		switch v.Type {
		case "list":
			if !v.ListFwdOK || !v.ListBckOK || len(v.ListFwd) != v.ListLen || len(v.ListBack) != v.ListLen {
				return fmt.Sprintf("list %q: Len=%d forward walk=%d backward walk=%d (sentinels reached: %v %v)", v.Key, v.ListLen, len(v.ListFwd), len(v.ListBack), v.ListFwdOK, v.ListBckOK)
			}
			if v.ListLen == 0 {
				return fmt.Sprintf("list %q is empty but still stored", v.Key)
			}
			for i := range v.ListFwd {
				if !bytes.Equal(v.ListFwd[i], v.ListBack[len(v.ListBack)-1-i]) {
					return fmt.Sprintf("list %q forward and backward walks differ at %d", v.Key, i)
				}
			}
		case "zset":
			if s := checkZTree(v); s != "" {
				return "zset " + strconv.Quote(v.Key) + ": " + s
			}
		case "stream":
			if v.StreamMapLen != len(v.StreamIDs) {
				return fmt.Sprintf("stream %q has %d ids but %d map entries", v.Key, len(v.StreamIDs), v.StreamMapLen)
			}
		}
	}
	for k := range memdb.VerifTTLKeys(db) {
		if !keys[k] {
			return fmt.Sprintf("deadline recorded for missing key %q", k)
		}
	}
	if n := memdb.VerifKeyCount(db); n != int64(len(dump)) {
		return fmt.Sprintf("key counter %d but %d keys stored", n, len(dump))
	}
	return ""
}
