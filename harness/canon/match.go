// Package canon implements, for the Go edge walker, the same reply-pattern matching rules as
// spec/KsMatch.tla (ReplyMatch) and the projection of implementation state to the model's state shape.
package canon

import (
	"bytes"
	"sort"
	"strconv"

	"verif/harness/impl"
)

// Pat is a reply pattern as emitted by the TLA+ model (ToJson of Rp records).
type Pat struct {
	K string `json:"k"`
	V []int  `json:"v"`
	E string `json:"e"`
	A []Pat  `json:"a"`
}

func eqInts(a, b []int) bool {
	if len(a) != len(b) {
		return false
	}
	for i := range a {
		if a[i] != b[i] {
			return false
		}
	}
	return true
}

func coreEq(p Pat, g impl.Reply) bool {
	return p.K == g.K && eqInts(p.V, g.V) && p.E == g.E
}

func intOf(v []int) (int64, bool) {
	n, err := strconv.ParseInt(string(impl.I2B(v)), 10, 64)
	return n, err == nil
}

type item struct{ k, e, v string }

func itemOfPat(p Pat) item        { return item{p.K, p.E, string(impl.I2B(p.V))} }
func itemOfRep(g impl.Reply) item { return item{g.K, g.E, string(impl.I2B(g.V))} }

func bagEq(a, b []string) bool {
	if len(a) != len(b) {
		return false
	}
	x := append([]string{}, a...)
	y := append([]string{}, b...)
	sort.Strings(x)
	sort.Strings(y)
	for i := range x {
		if x[i] != y[i] {
			return false
		}
	}
	return true
}

func key(i item) string { return i.k + "\x00" + i.e + "\x00" + i.v }

// Match reports whether the observed canonical reply g matches pattern p.
func Match(p Pat, g impl.Reply) bool {
	switch p.K {
	case "any":
		return true
	case "uarr":
		if g.K != "arr" {
			return false
		}
		var a, b []string
		for _, x := range p.A {
			a = append(a, key(itemOfPat(x)))
		}
		for _, x := range g.A {
			b = append(b, key(itemOfRep(x)))
		}
		return bagEq(a, b)
	case "upairs":
		if g.K != "arr" || len(g.A)%2 != 0 || len(p.A)%2 != 0 {
			return false
		}
		var a, b []string
		for i := 0; i+1 < len(p.A); i += 2 {
			a = append(a, key(itemOfPat(p.A[i]))+"\x01"+key(itemOfPat(p.A[i+1])))
		}
		for i := 0; i+1 < len(g.A); i += 2 {
			b = append(b, key(itemOfRep(g.A[i]))+"\x01"+key(itemOfRep(g.A[i+1])))
		}
		return bagEq(a, b)
	case "arr":
		if g.K != "arr" || len(g.A) != len(p.A) {
			return false
		}
		for i := range p.A {
			if !Match(p.A[i], g.A[i]) {
				return false
			}
		}
		return true
	case "irange":
		if g.K != "int" || len(p.A) != 2 {
			return false
		}
		n, ok := intOf(g.V)
		lo, _ := intOf(p.A[0].V)
		hi, _ := intOf(p.A[1].V)
		return ok && n >= lo && n <= hi
	case "zwin":
		return g.K == "arr" && zwinMatch(p, g)
	}
	return coreEq(p, g)
}

func strsOfPat(p Pat) [][]byte {
	var out [][]byte
	for _, x := range p.A {
		out = append(out, impl.I2B(x.V))
	}
	return out
}

// zwinMatch mirrors ZWinMatch in KsMatch.tla.
func zwinMatch(p Pat, g impl.Reply) bool {
	if len(p.A) != 6 {
		return false
	}
	ms := strsOfPat(p.A[0])
	scs := strsOfPat(p.A[1])
	stA, _ := intOf(p.A[2].V)
	cnt, _ := intOf(p.A[3].V)
	revN, _ := intOf(p.A[4].V)
	wsN, _ := intOf(p.A[5].V)
	rev, ws := revN == 1, wsN == 1
	var flat [][]byte
	for _, x := range g.A {
		if x.K != "str" {
			return false
		}
		flat = append(flat, impl.I2B(x.V))
	}
	var mem, sco [][]byte
	if ws {
		if len(flat)%2 != 0 {
			return false
		}
		for i := 0; i+1 < len(flat); i += 2 {
			mem = append(mem, flat[i])
			sco = append(sco, flat[i+1])
		}
	} else {
		mem = flat
	}
	if rev {
		for i, j := 0, len(mem)-1; i < j; i, j = i+1, j-1 {
			mem[i], mem[j] = mem[j], mem[i]
		}
		for i, j := 0, len(sco)-1; i < j; i, j = i+1, j-1 {
			sco[i], sco[j] = sco[j], sco[i]
		}
	}
	if int64(len(mem)) != cnt {
		return false
	}
	seen := map[string]bool{}
	for j, m := range mem {
		if seen[string(m)] {
			return false
		}
		seen[string(m)] = true
		pos := -1
		for i := range ms {
			if bytes.Equal(ms[i], m) {
				pos = i
			}
		}
		if pos < 0 {
			return false
		}
		lo, hi := pos, pos
		for lo > 0 && bytes.Equal(scs[lo-1], scs[pos]) {
			lo--
		}
		for hi+1 < len(ms) && bytes.Equal(scs[hi+1], scs[pos]) {
			hi++
		}
		at := int(stA) + j
		if at < lo || at > hi {
			return false
		}
		if ws && !bytes.Equal(sco[j], scs[pos]) {
			return false
		}
	}
	return true
}
