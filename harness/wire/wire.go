// Package wire drives the real connection handler (Manager.Handle over net.Pipe, or a real server over TCP) with
// pipelined commands and decodes the reply stream with the independent RESP codec (C03).
package wire

import (
	"context"
	"fmt"
	"math/rand"
	"net"
	"sync/atomic"
	"time"

	"github.com/innovationb1ue/RedisGO/config"
	"github.com/innovationb1ue/RedisGO/server"
	"verif/harness/impl"
	"verif/harness/respcodec"
)

// HungBatches counts batches whose replies were still missing after the extended wait.
var HungBatches int32

type Conn struct {
	C         net.Conn
	buf       []byte
	Cancel    context.CancelFunc
	Mgr       *server.Manager
	R         *rand.Rand // when set, requests are written in random-sized chunks
	SkipExtra bool       // do not wait 2 ms for stray bytes after the last reply
}

// NewPipe starts Manager.Handle on one end of a net.Pipe for a fresh Manager with ndb databases.
func NewPipe(ndb int) *Conn {
	impl.Init(0)
	mgr := server.NewManager(&config.Config{Databases: ndb})
	return AttachPipe(mgr)
}

// AttachPipe opens another connection to an existing Manager.
func AttachPipe(mgr *server.Manager) *Conn {
	ctx, cancel := context.WithCancel(context.Background())
	a, b := net.Pipe()
	go mgr.Handle(ctx, b)
	return &Conn{C: a, Cancel: cancel, Mgr: mgr}
}

// NewClusterPipe serves a fresh single-database Manager through the REAL cluster connection handler and apply
// loop (server.VerifLocalCluster: only the Raft layer is replaced by a marshal/unmarshal loop).
func NewClusterPipe() *Conn {
	impl.Init(0)
	mgr := server.NewManager(&config.Config{Databases: 1})
	ctx, cancel := context.WithCancel(context.Background())
	serve := server.VerifLocalCluster(ctx, mgr)
	a, b := net.Pipe()
	go serve(b)
	return &Conn{C: a, Cancel: cancel, Mgr: mgr}
}

func DialTCP(addr string) (*Conn, error) {
	c, err := net.DialTimeout("tcp", addr, 3*time.Second)
	if err != nil {
		return nil, err
	}
	return &Conn{C: c, Cancel: func() {}}, nil
}

func (c *Conn) Close() {
	c.Cancel()
	c.C.Close()
}

// Result of one pipelined batch.
type Result struct {
	Replies []impl.Reply // decoded replies, in order (at most len(cmds))
	Problem string       // "" or: short (fewer replies than commands), malformed (undecodable stream), extra (bytes after the last reply)
	Detail  string
}

// Batch writes all commands back to back and reads exactly one reply per command.
func (c *Conn) Batch(cmds [][][]byte, timeout time.Duration) Result {
	var req []byte
	for _, a := range cmds {
		req = append(req, respcodec.EncodeCommand(a)...)
	}
	done := make(chan error, 1)
	go func() {
		c.C.SetWriteDeadline(time.Now().Add(timeout))
		if c.R == nil {
			_, err := c.C.Write(req)
			done <- err
			return
		}
		for len(req) > 0 {
			n := 1 + c.R.Intn(24)
			if n > len(req) {
				n = len(req)
			}
			if _, err := c.C.Write(req[:n]); err != nil {
				done <- err
				return
			}
			req = req[n:]
		}
		done <- nil
	}()
	var res Result
	extended := false
	deadline := time.Now().Add(timeout)
	tmp := make([]byte, 65536)
	pos := 0
	for len(res.Replies) < len(cmds) {
		for len(res.Replies) < len(cmds) {
			v, np, err := respcodec.Decode(c.buf, pos)
			if err == respcodec.ErrIncomplete {
				break
			}
			if err != nil {
				res.Problem, res.Detail = "malformed", fmt.Sprintf("reply %d: %v in %q", len(res.Replies)+1, err, trunc(c.buf[pos:]))
				c.buf = nil
				return res
			}
			r := impl.FromValue(v)
			res.Replies = append(res.Replies, r)
			pos = np
		}
		if len(res.Replies) == len(cmds) {
			break
		}
		c.C.SetReadDeadline(deadline)
		n, err := c.C.Read(tmp)
		c.buf = append(c.buf, tmp[:n]...)
		if ne, ok := err.(net.Error); ok && ne.Timeout() && n == 0 && !extended && atomic.LoadInt32(&HungBatches) < 3 {
			// A reply that is never written stays missing however long one waits; a starved process delivers it late.
			// Believe the timeout only after waiting ten times longer (for the first few, which is enough for a verdict).
			extended = true
			deadline = time.Now().Add(10 * timeout)
			continue
		}
		if err != nil && n == 0 {
			if ne, ok := err.(net.Error); ok && ne.Timeout() {
				atomic.AddInt32(&HungBatches, 1)
			}
			res.Problem, res.Detail = "short", fmt.Sprintf("%d replies for %d commands (%v); pending bytes %q", len(res.Replies), len(cmds), err, trunc(c.buf[pos:]))
			c.buf = nil
			return res
		}
	}
	c.buf = c.buf[pos:]
	if c.SkipExtra {
		<-done
		return res
	}
	// anything beyond the last reply? (a reply written in two values, a stray write)
	c.C.SetReadDeadline(time.Now().Add(2 * time.Millisecond))
	n, _ := c.C.Read(tmp)
	if n > 0 || len(c.buf) > 0 {
		extra := append(append([]byte{}, c.buf...), tmp[:n]...)
		res.Problem, res.Detail = "extra", fmt.Sprintf("%d unexpected bytes after the last reply: %q", len(extra), trunc(extra))
		c.buf = nil
	}
	<-done
	return res
}

func trunc(b []byte) []byte {
	if len(b) > 80 {
		return b[:80]
	}
	return b
}
