// Package respcodec is an independent RESP2 encoder/decoder written from the protocol
// description (not from /repo/resp). It is the reference framing used by every check.
package respcodec

import (
	"errors"
	"fmt"
	"strconv"
)

// Value is a decoded RESP value.
type Value struct {
	Kind  byte // '+', '-', ':', '$', '*', 'n' (nil bulk), 'N' (nil array)
	Str   []byte
	Int   int64
	Elems []Value
}

var ErrIncomplete = errors.New("incomplete")

// EncodeCommand encodes argv as an array of bulk strings.
func EncodeCommand(argv [][]byte) []byte {
	out := []byte("*" + strconv.Itoa(len(argv)) + "\r\n")
	for _, a := range argv {
		out = append(out, '$')
		out = append(out, strconv.Itoa(len(a))...)
		out = append(out, '\r', '\n')
		out = append(out, a...)
		out = append(out, '\r', '\n')
	}
	return out
}

func readLine(b []byte, pos int) ([]byte, int, error) {
	for i := pos; i+1 < len(b); i++ {
		if b[i] == '\r' && b[i+1] == '\n' {
			return b[pos:i], i + 2, nil
		}
		if b[i] == '\n' {
			return nil, 0, fmt.Errorf("bare LF in header line at %d", i)
		}
		if b[i] == '\r' {
			return nil, 0, fmt.Errorf("bare CR in header line at %d", i)
		}
	}
	return nil, 0, ErrIncomplete
}

// Decode decodes one value starting at b[pos]; returns the value and the next position.
func Decode(b []byte, pos int) (Value, int, error) {
	if pos >= len(b) {
		return Value{}, 0, ErrIncomplete
	}
	t := b[pos]
	switch t {
	case '+', '-':
		line, np, err := readLine(b, pos+1)
		if err != nil {
			return Value{}, 0, err
		}
		return Value{Kind: t, Str: append([]byte{}, line...)}, np, nil
	case ':':
		line, np, err := readLine(b, pos+1)
		if err != nil {
			return Value{}, 0, err
		}
		n, perr := strconv.ParseInt(string(line), 10, 64)
		if perr != nil {
			return Value{}, 0, fmt.Errorf("bad integer %q", line)
		}
		return Value{Kind: ':', Int: n}, np, nil
	case '$':
		line, np, err := readLine(b, pos+1)
		if err != nil {
			return Value{}, 0, err
		}
		n, perr := strconv.ParseInt(string(line), 10, 64)
		if perr != nil || n < -1 {
			return Value{}, 0, fmt.Errorf("bad bulk length %q", line)
		}
		if n == -1 {
			return Value{Kind: 'n'}, np, nil
		}
		if np+int(n)+2 > len(b) {
			return Value{}, 0, ErrIncomplete
		}
		if b[np+int(n)] != '\r' || b[np+int(n)+1] != '\n' {
			return Value{}, 0, fmt.Errorf("bulk of length %d not terminated by CRLF", n)
		}
		return Value{Kind: '$', Str: append([]byte{}, b[np:np+int(n)]...)}, np + int(n) + 2, nil
	case '*':
		line, np, err := readLine(b, pos+1)
		if err != nil {
			return Value{}, 0, err
		}
		n, perr := strconv.ParseInt(string(line), 10, 64)
		if perr != nil || n < -1 {
			return Value{}, 0, fmt.Errorf("bad array length %q", line)
		}
		if n == -1 {
			return Value{Kind: 'N'}, np, nil
		}
		v := Value{Kind: '*', Elems: make([]Value, 0, n)}
		for i := int64(0); i < n; i++ {
			e, p2, err := Decode(b, np)
			if err != nil {
				return Value{}, 0, err
			}
			v.Elems = append(v.Elems, e)
			np = p2
		}
		return v, np, nil
	}
	return Value{}, 0, fmt.Errorf("bad type byte %q at %d", t, pos)
}

// DecodeAll decodes a complete stream of values; error if anything is left over or malformed.
func DecodeAll(b []byte) ([]Value, error) {
	var out []Value
	pos := 0
	for pos < len(b) {
		v, np, err := Decode(b, pos)
		if err != nil {
			return out, err
		}
		out = append(out, v)
		pos = np
	}
	return out, nil
}
