// ksgen: B2 driver for the sequential keyspace families. Runs seeded random programmes against the real
// in-process server (Manager.ExecCommand) and records one ndjson trace for TraceKs.tla.
package main

import (
	"bufio"
	"encoding/json"
	"flag"
	"fmt"
	"math/rand"
	"os"
	"time"

	"verif/harness/impl"
	"verif/harness/tracegen"
)

type line struct {
	Ev    string      `json:"ev"`
	P     int         `json:"p"`
	Now   int64       `json:"now"`
	Argv  [][]int     `json:"argv"`
	Reply *impl.Reply `json:"reply,omitempty"`
}

func main() {
	family := flag.String("family", "string", "string|keys|list|hash|set|zset|stream")
	seed := flag.Int64("seed", 1, "seed")
	progs := flag.Int("progs", 100, "number of programmes")
	steps := flag.Int("steps", 30, "commands per programme")
	out := flag.String("out", "trace.ndjson", "output")
	pbase := flag.Int("pbase", 0, "first programme number")
	flag.Parse()

	f, err := os.Create(*out)
	if err != nil {
		panic(err)
	}
	w := bufio.NewWriterSize(f, 1<<20)
	enc := json.NewEncoder(w)
	r := rand.New(rand.NewSource(*seed))
	keysets := map[string][]string{
		"string": {"k1", "k2", "K1", "k3"}, "keys": {"k1", "k2", "K1", "s1"},
		"list": {"l1", "l2", "L1"}, "hash": {"h1", "h2", "H1"}, "set": {"s1", "s2", "s3", "S1"},
		"zset": {"z1", "z2", "Z1"}, "stream": {"x1", "x2", "X1"},
	}
	panics := 0
	for p := 0; p < *progs; p++ {
		pn := *pbase + p
		srv := impl.NewSrv(1)
		g := &tracegen.Gen{R: rand.New(rand.NewSource(r.Int63())), Family: *family, Keys: keysets[*family]}
		enc.Encode(line{Ev: "reset", P: pn, Argv: [][]int{}})
		var cmds [][]string
		cmds = append(cmds, g.Prelude()...)
		nsetup := len(cmds)
		n := *steps/2 + g.R.Intn(*steps)
		for i := 0; i < n; i++ {
			cmds = append(cmds, g.Next())
		}
		for ci, c := range cmds {
			argv := impl.S(c...)
			ev := "cmd"
			if ci < nsetup {
				ev = "setup"
			}
			now := time.Now().Unix()
			rep := srv.Exec(argv)
			av := make([][]int, len(argv))
			for i, a := range argv {
				av[i] = impl.B2I(a)
			}
			enc.Encode(line{Ev: ev, P: pn, Now: now, Argv: av, Reply: &rep})
			if rep.K == "panic" {
				panics++
				break // the keyspace may hold a lock / be inconsistent: end this programme
			}
		}
	}
	w.Flush()
	f.Close()
	fmt.Printf("programmes=%d panics=%d\n", *progs, panics)
}
