// ksgen: B2 driver for the sequential keyspace families. Runs seeded random programmes against the real
// in-process server (Manager.ExecCommand) and records one ndjson trace for TraceKs.tla.
package main

import (
	"bufio"
	"encoding/json"
	"flag"
	"fmt"
	"math/rand"
	"os"
	"strings"
	"time"

	"verif/harness/canon"
	"verif/harness/impl"
	"verif/harness/tracegen"
	"verif/harness/wire"
)

type line struct {
	Ev    string      `json:"ev"`
	P     int         `json:"p"`
	Now   int64       `json:"now"`
	Argv  [][]int     `json:"argv"`
	Reply *impl.Reply `json:"reply,omitempty"`
}

func main() {
	family := flag.String("family", "string", "string|keys|list|hash|set|zset|stream")
	seed := flag.Int64("seed", 1, "seed")
	progs := flag.Int("progs", 100, "number of programmes")
	steps := flag.Int("steps", 30, "commands per programme")
	out := flag.String("out", "trace.ndjson", "output")
	pbase := flag.Int("pbase", 0, "first programme number")
	mode := flag.String("mode", "inproc", "inproc (Manager.ExecCommand) | pipe (pipelined through Manager.Handle over net.Pipe) | clusterpipe (through the real cluster handler and apply loop, Raft replaced in process) | tcp (pipelined to -addr)")
	addr := flag.String("addr", "", "host:port of a running server (mode tcp)")
	replicas := flag.String("replicas", "", "comma separated host:port of further nodes of the same cluster: after each programme every key is read back through each of them (recorded as commands, so the model checks them too)")
	noNonce := flag.Bool("nononce", false, "do not interleave PING <nonce> (alignment is C03's business)")
	flag.Parse()

	f, err := os.Create(*out)
	if err != nil {
		panic(err)
	}
	w := bufio.NewWriterSize(f, 1<<20)
	enc := json.NewEncoder(w)
	r := rand.New(rand.NewSource(*seed))
	keysets := map[string][]string{
		"string": {"k1", "k2", "K1", "k3"}, "keys": {"k1", "k2", "K1", "s1"},
		"list": {"l1", "l2", "L1"}, "hash": {"h1", "h2", "H1"}, "set": {"s1", "s2", "s3", "S1"},
		"zset": {"z1", "z2", "Z1"}, "stream": {"x1", "x2", "X1"}, "zsetdeep": {"zd"}, "lifecycle": {"q1", "q2"}, "listdeep": {"ld"}, "streamdeep": {"xd"},
	}
	panics := 0
	wireProblems := 0
	structural := 0
	for p := 0; p < *progs; p++ {
		pn := *pbase + p
		srv := impl.NewSrv(1)
		g := &tracegen.Gen{R: rand.New(rand.NewSource(r.Int63())), Family: *family, Keys: keysets[*family]}
		enc.Encode(line{Ev: "reset", P: pn, Argv: [][]int{}})
		var cmds [][]string
		cmds = append(cmds, g.Prelude()...)
		nsetup := len(cmds)
		cmds = append(cmds, g.Aliasing(pn)...)
		cmds = append(cmds, g.Staleness(pn)...)
		n := *steps/2 + g.R.Intn(*steps)
		for i := 0; i < n; i++ {
			cmds = append(cmds, g.Next())
		}
		emit := func(ci int, c []string, now int64, rep impl.Reply) {
			argv := impl.S(c...)
			ev := "cmd"
			if ci < nsetup {
				ev = "setup"
			}
			av := make([][]int, len(argv))
			for i, a := range argv {
				av[i] = impl.B2I(a)
			}
			enc.Encode(line{Ev: ev, P: pn, Now: now, Argv: av, Reply: &rep})
		}
		if *mode == "inproc" {
			for ci, c := range cmds {
				now := time.Now().Unix()
				rep := srv.Exec(impl.S(c...))
				if rep.K != "panic" {
					// structural invariants of the implementation after EVERY command ("at every intermediate state")
					if bad := canon.StructureOK(srv); bad != "" {
						structural++
						rep = impl.Reply{K: "structure", V: []int{}, A: []impl.Reply{}, E: bad}
						emit(ci, c, now, rep)
						break
					}
				}
				emit(ci, c, now, rep)
				if rep.K == "panic" {
					panics++
					break // the keyspace may hold a lock / be inconsistent: end this programme
				}
			}
			continue
		}
		// wire modes: the programme is sent as pipelined batches of random size; replies are decoded independently
		var wc *wire.Conn
		if *mode == "pipe" {
			wc = wire.NewPipe(1)
		} else if *mode == "clusterpipe" {
			wc = wire.NewClusterPipe()
		} else {
			var err error
			wc, err = wire.DialTCP(*addr)
			if err != nil {
				fmt.Fprintln(os.Stderr, "dial:", err)
				os.Exit(2)
			}
			// clean keyspace: delete every key left by the previous programme
			res := wc.Batch([][][]byte{impl.S("KEYS", "*")}, 3*time.Second)
			if res.Problem == "" && len(res.Replies) == 1 {
				for _, k := range res.Replies[0].A {
					wc.Batch([][][]byte{{[]byte("DEL"), impl.I2B(k.V)}}, 3*time.Second)
				}
			}
		}
		wc.R = rand.New(rand.NewSource(g.R.Int63()))
		for i := 0; i < len(cmds); {
			n := 1 + g.R.Intn(16)
			if i+n > len(cmds) {
				n = len(cmds) - i
			}
			// every command is followed by PING <nonce>: the echo pins reply count and order independently of content
			var batch [][][]byte
			var nonces []string
			for _, c := range cmds[i : i+n] {
				nonce := fmt.Sprintf("n%d-%d", pn, g.R.Int63())
				nonces = append(nonces, nonce)
				if *noNonce {
					batch = append(batch, impl.S(c...))
				} else {
					batch = append(batch, impl.S(c...), impl.S("PING", nonce))
				}
			}
			now := time.Now().Unix()
			res := wc.Batch(batch, 5*time.Second)
			bad := res.Problem
			detail := res.Detail
			nOK := 0
			if *noNonce {
				for j := range res.Replies {
					emit(i+j, cmds[i+j], now, res.Replies[j])
					nOK++
				}
			}
			for j := 0; !*noNonce && j+1 < len(res.Replies); j += 2 {
				echo := res.Replies[j+1]
				if echo.K != "str" || string(impl.I2B(echo.V)) != nonces[j/2] {
					if bad == "" {
						bad, detail = "misaligned", fmt.Sprintf("reply %d should echo %s, got %s %q", j+2, nonces[j/2], echo.K, impl.I2B(echo.V))
					}
					break
				}
				emit(i+j/2, cmds[i+j/2], now, res.Replies[j])
				nOK++
			}
			if bad != "" {
				wireProblems++
				if nOK < n {
					emit(i+nOK, cmds[i+nOK], now, impl.Reply{K: "wire-" + bad, V: []int{}, A: []impl.Reply{}, E: detail})
				}
				break
			}
			i += n
		}
		// replica agreement: read every key of the family back through the other nodes
		if *replicas != "" {
			var rb [][]string
			full := map[string][]string{"string": {"GET"}, "keys": {"GET"}, "list": {"LRANGE", "0", "-1"}, "hash": {"HGETALL"}, "set": {"SMEMBERS"},
				"zset": {"ZRANGE", "0", "-1", "WITHSCORES"}, "stream": {"XRANGE", "-", "+"}}[*family]
			for _, k := range keysets[*family] {
				rb = append(rb, []string{"TYPE", k}, append([]string{full[0], k}, full[1:]...))
			}
			for _, k := range g.Other {
				rb = append(rb, []string{"TYPE", k})
			}
			for _, ra := range strings.Split(*replicas, ",") {
				rc, err := wire.DialTCP(ra)
				if err != nil {
					fmt.Fprintln(os.Stderr, "dial replica:", err)
					os.Exit(2)
				}
				for _, c := range rb {
					now := time.Now().Unix()
					res := rc.Batch([][][]byte{impl.S(c...)}, 5*time.Second)
					if res.Problem != "" || len(res.Replies) != 1 {
						emit(len(cmds), c, now, impl.Reply{K: "wire-" + res.Problem, V: []int{}, A: []impl.Reply{}, E: res.Detail})
						wireProblems++
						break
					}
					emit(len(cmds), c, now, res.Replies[0])
				}
				rc.Close()
			}
		}
		wc.Close()
	}
	w.Flush()
	f.Close()
	fmt.Printf("programmes=%d panics=%d wire_problems=%d structural=%d\n", *progs, panics, wireProblems, structural)
}
