// recoversim: B1 walker for spec/Recover.tla (C16, restart half of C08). Every behaviour TLC printed ("RSCEN") - a
// sequence of durable steps of one node (wal.Save, snapshot file, WAL snapshot record), process crashes between any
// two of them, and a recovery after each crash - is realised on real directories with the real wal and snap packages,
// one child PROCESS per epoch (a crash is os.Exit without Close: what the page writer still holds is lost), and every
// recovery is the node's own loadSnapshot + replayWAL (hook raftexample.VerifRecover). The recovered snapshot, hard
// state and entries are compared with the model's, and handed to raft.NewRawNode as a restarting node would do.
//
//	recoversim run -scen scen.ndjson -work dir -lo i -hi j      (one JSON scenario per line: {"id":n,"steps":[...]})
//	recoversim child -wal d -snap d -steps '[...]'               (internal)
package main

import (
	"bufio"
	"encoding/json"
	"flag"
	"fmt"
	"log"
	"os"
	"os/exec"
	"path/filepath"
	"strings"

	"github.com/innovationb1ue/RedisGO/raftexample"
	"go.etcd.io/etcd/raft/v3"
	"go.etcd.io/etcd/raft/v3/raftpb"
	"go.etcd.io/etcd/server/v3/etcdserver/api/snap"
	"go.etcd.io/etcd/server/v3/storage/wal"
	"go.etcd.io/etcd/server/v3/storage/wal/walpb"
	"go.uber.org/zap"
)

type IT struct {
	I uint64 `json:"i"`
	T uint64 `json:"t"`
}
type HS struct {
	T uint64 `json:"t"`
	C uint64 `json:"c"`
}
type Expect struct {
	Snap IT     `json:"snap"`
	Hs   HS     `json:"hs"`
	Ents []IT   `json:"ents"`
	Err  string `json:"err"` // "none" or the error the model expects wal.Open / ReadAll to end with (the node cannot start)
}
type Step struct {
	Op     string  `json:"op"`
	I      uint64  `json:"i"`
	T      uint64  `json:"t"`
	C      uint64  `json:"c"`
	Ents   []IT    `json:"ents"`
	Sync   bool    `json:"sync"`
	Cut    bool    `json:"cut"` // this Save finds the segment full: it ends with a segment cut
	Kept   int     `json:"kept"`
	Expect *Expect `json:"expect"`
}
type Scenario struct {
	ID    int    `json:"id"`
	Steps []Step `json:"steps"`
}
type Recovered struct {
	Snap    IT     `json:"snap"`
	Hs      HS     `json:"hs"`
	Ents    []IT   `json:"ents"`
	Restart string `json:"restart"` // "" or the panic of raft.NewRawNode on the recovered storage
}

// zeroPayloads: entries carry a long run of zero bytes (more than two 512-byte sectors) between two text markers - what a
// binary-safe value full of NUL bytes looks like in the log; every other scenario runs this way
var zeroPayloads bool

func payload(i, t uint64) []byte {
	txt := []byte(fmt.Sprintf("entry %d of term %d", i, t))
	if !zeroPayloads {
		return txt
	}
	b := append([]byte{}, txt...)
	b = append(b, make([]byte, 1100+int(i%3)*300)...)
	return append(b, txt...)
}

func child(waldir, snapdir, stepsJSON string, segsize int64) {
	var steps []Step
	if err := json.Unmarshal([]byte(stepsJSON), &steps); err != nil {
		fmt.Println("CHILDERR bad steps: " + err.Error())
		os.Exit(3)
	}
	wal.SegmentSizeBytes = segsize // 1: every Save that writes anything ends with a segment cut
	log.SetOutput(os.Stderr)
	res := raftexample.VerifRecover(1, waldir, snapdir)
	out := Recovered{Snap: IT{res.SnapIndex, res.SnapTerm}, Hs: HS{res.HardState.Term, res.HardState.Commit}, Ents: []IT{}}
	if res.LastIndex >= res.FirstIndex {
		ents, err := res.Storage.Entries(res.FirstIndex, res.LastIndex+1, 1<<30)
		if err != nil {
			out.Restart = "storage.Entries: " + err.Error()
		}
		for _, e := range ents {
			if string(e.Data) != string(payload(e.Index, e.Term)) {
				out.Restart = fmt.Sprintf("entry %d of term %d came back with other data %q", e.Index, e.Term, e.Data)
			}
			out.Ents = append(out.Ents, IT{e.Index, e.Term})
		}
	}
	// what startRaft does next with the storage
	func() {
		defer func() {
			if r := recover(); r != nil {
				out.Restart = fmt.Sprint(r)
			}
		}()
		cfg := &raft.Config{ID: 1, ElectionTick: 10, HeartbeatTick: 1, Storage: res.Storage, MaxSizePerMsg: 1 << 20, MaxInflightMsgs: 256,
			Logger: &raft.DefaultLogger{Logger: log.New(os.Stderr, "", 0)}}
		if _, err := raft.NewRawNode(cfg); err != nil {
			out.Restart = err.Error()
		}
	}()
	b, _ := json.Marshal(out)
	fmt.Println("RECOVERED " + string(b))
	os.Stdout.Sync()
	w := res.W
	ss := snap.New(zap.NewNop(), snapdir)
	for _, s := range steps {
		var err error
		switch s.Op {
		case "save":
			ents := make([]raftpb.Entry, 0, len(s.Ents))
			for _, e := range s.Ents {
				ents = append(ents, raftpb.Entry{Index: e.I, Term: e.T, Data: payload(e.I, e.T)})
			}
			if s.Cut {
				wal.SegmentSizeBytes = 1
			}
			err = w.Save(raftpb.HardState{Term: s.T, Vote: 1, Commit: s.C}, ents)
			wal.SegmentSizeBytes = segsize
		case "snapfile":
			err = ss.SaveSnap(raftpb.Snapshot{Data: []byte(fmt.Sprintf("state at %d", s.I)),
				Metadata: raftpb.SnapshotMetadata{Index: s.I, Term: s.T, ConfState: raftpb.ConfState{Voters: []uint64{1, 2, 3}}}})
		case "walsnap":
			cs := raftpb.ConfState{Voters: []uint64{1, 2, 3}}
			err = w.SaveSnapshot(walpb.Snapshot{Index: s.I, Term: s.T, ConfState: &cs})
			if err == nil {
				err = w.ReleaseLockTo(s.I) // saveSnap does
			}
		}
		if err != nil {
			fmt.Printf("STEPERR %s: %v\n", s.Op, err)
			os.Exit(4)
		}
	}
	fmt.Println("EPOCHDONE")
	os.Stdout.Sync()
	os.Exit(0) // a crash: no Close, no flush
}

type finding struct {
	Seg      string     `json:"segment_size"`
	Kind     string     `json:"kind"` // mismatch | restart-refused | recovery-died | step-failed
	ID       int        `json:"id"`
	Epoch    int        `json:"epoch"`
	Steps    []Step     `json:"steps"`
	Expected *Expect    `json:"expected,omitempty"`
	Got      *Recovered `json:"got,omitempty"`
	Detail   string     `json:"detail"`
}

func sameIT(a, b []IT) bool {
	if len(a) != len(b) {
		return false
	}
	for i := range a {
		if a[i] != b[i] {
			return false
		}
	}
	return true
}

func main() {
	if len(os.Args) < 2 {
		os.Exit(2)
	}
	mode := os.Args[1]
	fs := flag.NewFlagSet(mode, flag.ExitOnError)
	scen := fs.String("scen", "", "scenarios (ndjson)")
	work := fs.String("work", "", "scratch directory")
	lo := fs.Int("lo", 0, "first line")
	hi := fs.Int("hi", 1<<30, "end line")
	waldir := fs.String("wal", "", "")
	snapdir := fs.String("snap", "", "")
	steps := fs.String("steps", "[]", "")
	segsize := fs.Int64("segsize", 256*1024, "child: wal.SegmentSizeBytes")
	zeros := fs.Bool("zeros", false, "child: entry payloads with long runs of zero bytes")
	segsizes := fs.String("segsizes", "262144", "run: every scenario once per segment size (comma separated)")
	minsnaps := fs.Int("minsnaps", 0, "run: only scenarios with at least this many WAL snapshot records")
	mincuts := fs.Int("mincuts", 0, "run: only scenarios with at least this many Saves that end with a segment cut")
	maxcuts := fs.Int("maxcuts", 1<<30, "run: only scenarios with at most this many cutting Saves")
	maxdamage := fs.Int("maxdamage", 1<<30, "run: only scenarios with at most this many damaged snapshot files")
	pick := fs.Int("pick", 1, "run: only one scenario in this many (chosen by id and -seed)")
	seed := fs.Int("seed", 1, "")
	fs.Parse(os.Args[2:])
	if mode == "child" {
		zeroPayloads = *zeros
		child(*waldir, *snapdir, *steps, *segsize)
		return
	}
	var sizes []string
	for _, x := range strings.Split(*segsizes, ",") {
		if x != "" {
			sizes = append(sizes, x)
		}
	}
	self, _ := os.Executable()
	f, err := os.Open(*scen)
	if err != nil {
		panic(err)
	}
	sc := bufio.NewScanner(f)
	sc.Buffer(make([]byte, 1<<20), 1<<26)
	enc := json.NewEncoder(os.Stdout)
	n, ran, recoveries, ambiguous, skippedKept := 0, 0, 0, 0, 0
	for sc.Scan() {
		n++
		if n-1 < *lo || n-1 >= *hi {
			continue
		}
		var s Scenario
		if err := json.Unmarshal(sc.Bytes(), &s); err != nil {
			panic(err)
		}
		// a process kill keeps nothing of what the page writer holds: behaviours in which part of it survived cannot be
		// produced by killing a process (they are what a power failure after a partial flush looks like; Wal.tla / walsim cover
		// that level). They stay in the model and are counted here.
		realisable := true
		for _, st := range s.Steps {
			if st.Op == "crash" && st.Kept != 0 {
				realisable = false
			}
		}
		if !realisable {
			skippedKept++
			continue
		}
		nsnap := 0
		for _, st := range s.Steps {
			if st.Op == "walsnap" {
				nsnap++
			}
		}
		ncut := 0
		for _, st := range s.Steps {
			if st.Op == "save" && st.Cut {
				ncut++
			}
		}
		ndmg := 0
		for _, st := range s.Steps {
			if st.Op == "damage" {
				ndmg++
			}
		}
		if nsnap < *minsnaps || ncut < *mincuts || ncut > *maxcuts || ndmg > *maxdamage {
			continue
		}
		if *pick > 1 && (uint64(s.ID)*2654435761+uint64(*seed)*40503)%uint64(*pick) != 0 {
			continue
		}
		ran++
		for _, size := range sizes {
			runScenario(self, *work, s, size, enc, &recoveries)
		}
	}
	fmt.Printf("SUMMARY {\"scenarios\":%d,\"replayed\":%d,\"recoveries_compared\":%d,\"ambiguous\":%d,\"not_realisable_by_process_kill\":%d}\n", n, ran, recoveries, ambiguous, skippedKept)
}

func runScenario(self, work string, s Scenario, size string, enc *json.Encoder, recoveries *int) {
	dir := filepath.Join(work, fmt.Sprintf("s%d-%s", s.ID, size))
	wd, sd := filepath.Join(dir, "wal"), filepath.Join(dir, "snap")
	os.MkdirAll(sd, 0750)
	epoch := 0
	var cur []Step
	runEpoch := func(expect *Expect, final bool) bool {
		b, _ := json.Marshal(cur)
		cmd := exec.Command(self, "child", "-wal", wd, "-snap", sd, "-steps", string(b), "-segsize", size, fmt.Sprintf("-zeros=%v", s.ID%2 == 1))
		out, err := cmd.Output()
		txt := string(out)
		var got *Recovered
		for _, l := range strings.Split(txt, "\n") {
			if strings.HasPrefix(l, "RECOVERED ") {
				got = &Recovered{}
				json.Unmarshal([]byte(l[10:]), got)
			}
		}
		if got == nil {
			stderr := ""
			if ee, ok := err.(*exec.ExitError); ok {
				stderr = string(ee.Stderr)
			}
			if len(stderr) > 600 {
				stderr = stderr[len(stderr)-600:]
			}
			kind := "recovery-died"
			if expect != nil && expect.Err != "" && expect.Err != "none" {
				kind = "recovery-died-as-modelled" // the model (an as-built instance run without Acceptable) predicts that the node cannot start
			}
			enc.Encode(finding{size, kind, s.ID, epoch, s.Steps, expect, nil, "the node's recovery path did not return (process exit): " + stderr})
			return false
		}
		if expect != nil {
			*recoveries++
			if got.Snap != expect.Snap || got.Hs != expect.Hs || !sameIT(got.Ents, expect.Ents) {
				enc.Encode(finding{size, "mismatch", s.ID, epoch, s.Steps, expect, got, "recovered state differs from the model's"})
				return false
			}
		}
		if got.Restart != "" {
			enc.Encode(finding{size, "restart-refused", s.ID, epoch, s.Steps, expect, got, "raft refuses the recovered storage: " + got.Restart})
			return false
		}
		if !strings.Contains(txt, "EPOCHDONE") {
			enc.Encode(finding{size, "step-failed", s.ID, epoch, s.Steps, expect, got, "a durable step failed: " + txt})
			return false
		}
		return true
	}
	ok := true
	var pendingExpect *Expect // expectation for the recovery that starts the NEXT epoch
	first := true
	for _, st := range s.Steps {
		switch st.Op {
		case "crash":
			// run the epoch that ends with this crash; its recovery expectation was set by the previous "recover" step
			if !runEpoch(pendingExpect, false) {
				ok = false
			}
			pendingExpect = nil
			cur = nil
			epoch++
			first = false
		case "recover":
			pendingExpect = st.Expect
		case "damage":
			// the process is down: one byte of the snapshot file changes (the snapshotter's CRC check sets the file aside)
			fn := filepath.Join(sd, fmt.Sprintf("%016x-%016x.snap", st.T, st.I))
			if b, err := os.ReadFile(fn); err == nil && len(b) > 0 {
				b[len(b)/2] ^= 0x5a
				os.WriteFile(fn, b, 0600)
			} else {
				enc.Encode(finding{size, "step-failed", s.ID, epoch, s.Steps, nil, nil, "damage: snapshot file " + fn + " is not there"})
				ok = false
			}
		default:
			cur = append(cur, st)
		}
		if !ok {
			break
		}
	}
	_ = first
	if ok && pendingExpect != nil {
		// the scenario ends with a recovery: one more epoch that only recovers (and runs whatever steps followed)
		runEpoch(pendingExpect, true)
	}
	os.RemoveAll(dir)
}
