// ttltour: C06 driver on the REAL clock.
//
//	(1) -edges: reads the transition table of spec/MC_Expire.tla (commands and Tick steps), picks edges per
//	    (branch label, model second, deadline class), and for each builds the programme  path + command + probes,
//	    where a model Tick is "sleep to the next wall-clock second boundary + 30 ms";
//	(2) -random N: seeded random ttl programmes with sleeps of 0..1.3 s.
//
// All programmes run concurrently, each on its own in-process server, so a tier costs max(ticks) seconds.
// Every command is logged with the unix second before (now) and after (now2) the call; TraceKs.tla validates.
package main

import (
	"bufio"
	"encoding/json"
	"flag"
	"fmt"
	"math/rand"
	"os"
	"sort"
	"strconv"
	"strings"
	"sync"
	"time"

	"verif/harness/impl"
)

type line struct {
	Ev    string      `json:"ev"`
	P     int         `json:"p"`
	Now   int64       `json:"now"`
	Now2  int64       `json:"now2"`
	Argv  [][]int     `json:"argv"`
	Reply *impl.Reply `json:"reply,omitempty"`
}

type rawEdge struct {
	S struct {
		St  json.RawMessage `json:"st"`
		Now int             `json:"now"`
	} `json:"s"`
	C [][]int `json:"c"`
	B string  `json:"b"`
	T struct {
		St  json.RawMessage `json:"st"`
		Now int             `json:"now"`
	} `json:"t"`
}

type step struct {
	tick  bool
	sleep time.Duration // random programmes: plain sleep
	argv  []string
}

func toStep(c [][]int) step {
	if len(c) == 1 && string(impl.I2B(c[0])) == "tick" {
		return step{tick: true}
	}
	a := make([]string, len(c))
	for i, x := range c {
		a[i] = string(impl.I2B(x))
	}
	return step{argv: a}
}

func sleepToBoundary() {
	now := time.Now()
	next := now.Truncate(time.Second).Add(time.Second + 30*time.Millisecond)
	time.Sleep(next.Sub(now))
}

func runProg(p int, steps []step) []line {
	srv := impl.NewSrv(1)
	out := []line{{Ev: "reset", P: p, Argv: [][]int{}}}
	for _, st := range steps {
		if st.tick {
			sleepToBoundary()
			continue
		}
		if st.sleep > 0 {
			time.Sleep(st.sleep)
			continue
		}
		args := append([]string{}, st.argv...)
		low := strings.ToLower(args[0])
		settingTTL := low == "expire" || low == "setex" || (low == "set" && len(args) > 3)
		if settingTTL {
			// never attach a deadline in the last 200 ms of a second: keeps the attribution of the command to one
			// second unambiguous and leaves the active-expiry timer a margin before the next probe
			if time.Now().Nanosecond() > 800_000_000 {
				sleepToBoundary()
			}
		}
		for i := 3; i+1 < len(args); i++ {
			if strings.ToLower(args[i]) == "exat" && low == "set" {
				if n, err := strconv.Atoi(args[i+1]); err == nil && n < 1000 {
					args[i+1] = strconv.FormatInt(time.Now().Unix()+int64(n), 10)
				}
			}
		}
		argv := impl.S(args...)
		n1 := time.Now().Unix()
		rep := srv.Exec(argv)
		n2 := time.Now().Unix()
		av := make([][]int, len(argv))
		for i, a := range argv {
			av[i] = impl.B2I(a)
		}
		out = append(out, line{Ev: "cmd", P: p, Now: n1, Now2: n2, Argv: av, Reply: &rep})
		if rep.K == "panic" {
			break
		}
	}
	return out
}

var probes = [][]string{{"get", "k"}, {"exists", "k"}, {"ttl", "k"}, {"llen", "l"}, {"exists", "l", "h", "s", "z"}, {"keys", "*"}}
var probesDeep = [][]string{{"hlen", "h"}, {"scard", "s"}, {"zrange", "z", "0", "-1"}, {"get", "j"}}

func main() {
	edgesIn := flag.Bool("edges", false, "read an MC_Expire transition table from stdin")
	perClass := flag.Int("perclass", 3, "edges per (label, model second, deadline class)")
	nRandom := flag.Int("random", 0, "number of random ttl programmes")
	seed := flag.Int64("seed", 1, "seed")
	out := flag.String("out", "ttl.ndjson", "output trace")
	flag.Parse()
	rnd := rand.New(rand.NewSource(*seed))
	var progs [][]step

	if *edgesIn {
		in := bufio.NewReaderSize(os.Stdin, 1<<24)
		type edge struct {
			s, t  int
			c     [][]int
			b     string
			class string
		}
		ids := map[string]int{}
		var edges []edge
		intern := func(st json.RawMessage, now int) int {
			k := string(st) + "@" + strconv.Itoa(now)
			if id, ok := ids[k]; ok {
				return id
			}
			ids[k] = len(ids)
			return ids[k]
		}
		initID := -1
		for {
			l, err := in.ReadString('\n')
			if len(l) > 0 && l[0] == '"' {
				var s string
				if json.Unmarshal([]byte(strings.TrimRight(l, "\r\n")), &s) == nil {
					if strings.HasPrefix(s, "EDGE ") {
						var e rawEdge
						if json.Unmarshal([]byte(s[5:]), &e) != nil {
							os.Exit(2)
						}
						cls := fmt.Sprintf("%s|%d|%v", e.B, e.S.Now, strings.Contains(string(e.S.St), "\"hi\":-1") && !strings.Contains(string(e.S.St), "\"hi\":0") && !strings.Contains(string(e.S.St), "\"hi\":1") && !strings.Contains(string(e.S.St), "\"hi\":2") && !strings.Contains(string(e.S.St), "\"hi\":3"))
						edges = append(edges, edge{intern(e.S.St, e.S.Now), intern(e.T.St, e.T.Now), e.C, e.B, cls})
					} else if strings.HasPrefix(s, "INIT ") {
						var i struct {
							St  json.RawMessage `json:"st"`
							Now int             `json:"now"`
						}
						json.Unmarshal([]byte(s[5:]), &i)
						initID = intern(i.St, i.Now)
					}
				}
			}
			if err != nil {
				break
			}
		}
		if initID < 0 {
			fmt.Fprintln(os.Stderr, "no INIT")
			os.Exit(2)
		}
		// BFS shortest paths (edge indexes)
		adj := map[int][]int{}
		for i, e := range edges {
			adj[e.s] = append(adj[e.s], i)
		}
		prev := map[int]int{initID: -1}
		queue := []int{initID}
		for len(queue) > 0 {
			s := queue[0]
			queue = queue[1:]
			for _, ei := range adj[s] {
				if _, ok := prev[edges[ei].t]; !ok {
					prev[edges[ei].t] = ei
					queue = append(queue, edges[ei].t)
				}
			}
		}
		pathTo := func(s int) []step {
			var rev []step
			for s != initID {
				ei := prev[s]
				rev = append(rev, toStep(edges[ei].c))
				s = edges[ei].s
			}
			for i, j := 0, len(rev)-1; i < j; i, j = i+1, j-1 {
				rev[i], rev[j] = rev[j], rev[i]
			}
			return rev
		}
		order := rnd.Perm(len(edges))
		count := map[string]int{}
		for _, ei := range order {
			e := edges[ei]
			if _, ok := prev[e.s]; !ok && e.s != initID {
				continue
			}
			if count[e.class] >= *perClass {
				continue
			}
			count[e.class]++
			p := append(pathTo(e.s), toStep(e.c))
			for _, pr := range probes {
				p = append(p, step{argv: pr})
			}
			// two more seconds, probing after each: a key must be unobservable once its deadline second has passed
			for i := 0; i < 2; i++ {
				p = append(p, step{tick: true})
				for _, pr := range probes {
					p = append(p, step{argv: pr})
				}
				for _, pr := range probesDeep {
					p = append(p, step{argv: pr})
				}
			}
			progs = append(progs, p)
		}
	}
	// random programmes
	keys := []string{"k", "j", "l"}
	for i := 0; i < *nRandom; i++ {
		r := rand.New(rand.NewSource(rnd.Int63()))
		var p []step
		n := 10 + r.Intn(14)
		for j := 0; j < n; j++ {
			k := keys[r.Intn(2)]
			var a []string
			switch r.Intn(24) {
			case 0, 1:
				a = []string{"set", k, "v", "ex", strconv.Itoa(1 + r.Intn(3))}
			case 2:
				a = []string{"set", k, "v", "px", strconv.Itoa(500 + 500*r.Intn(5))}
			case 3:
				a = []string{"set", k, "v", "exat", strconv.Itoa(1 + r.Intn(3))}
			case 4:
				a = []string{"setex", k, strconv.Itoa(1 + r.Intn(2)), "w"}
			case 5, 6:
				a = []string{"expire", k, strconv.Itoa(1 + r.Intn(3))}
				if r.Intn(2) == 0 {
					a = append(a, []string{"nx", "xx", "gt", "lt"}[r.Intn(4)])
				}
			case 7:
				a = []string{"persist", k}
			case 8:
				a = []string{"set", k, "u"}
			case 9:
				a = []string{"set", k, "u", "keepttl"}
			case 10, 11:
				a = []string{"ttl", k}
			case 12, 13:
				a = []string{"get", k}
			case 14:
				a = []string{"exists", k, "l"}
			case 15:
				a = []string{"append", k, "x"}
			case 16, 22, 23:
				// a deadline moves with its key (and must still fire under the new name; the old name's must not)
				a = []string{"rename", k, keys[r.Intn(2)]}
			case 17:
				a = [][]string{{"rpush", "l", "a"}, {"expire", "l", "1"}, {"llen", "l"}, {"lpop", "l"}, {"lrange", "l", "0", "-1"}}[r.Intn(5)]
			case 18:
				a = []string{"keys", "*"}
			case 19:
				a = []string{"del", k}
			default:
				p = append(p, step{sleep: time.Duration(1+r.Intn(1300)) * time.Millisecond})
				continue
			}
			p = append(p, step{argv: a})
		}
		// let every deadline set above (<= 3 s) pass, then look first with commands that rely on the expiry having happened
		// by itself (no lazy check of their own), then with the others
		p = append(p, step{tick: true}, step{tick: true}, step{tick: true}, step{tick: true},
			step{argv: []string{"get", "k"}}, step{argv: []string{"strlen", "j"}}, step{argv: []string{"mget", "k", "j"}}, step{argv: []string{"llen", "l"}},
			step{argv: []string{"exists", "k", "j", "l"}}, step{argv: []string{"keys", "*"}})
		progs = append(progs, p)
	}

	// replaced deadlines: a deadline that is REPLACED - by an earlier one or by a later one - is the one that counts; whatever
	// was armed for the old one must neither keep the key alive past the new deadline nor remove it before. Every pair of a
	// command that sets a far deadline and one that sets a near one (and the converse), on a string and on a list, probed
	// with commands that have no lazy expiry check of their own.
	if *nRandom > 0 {
		far := [][]string{{"set", "k", "v", "ex", "100"}, {"setex", "k", "100", "v"}, {"set", "k", "v", "px", "100000"}}
		near := [][]string{{"expire", "k", "1"}, {"expire", "k", "1", "lt"}, {"expire", "k", "1", "xx"}, {"setex", "k", "1", "w"}, {"set", "k", "w", "ex", "1"}, {"set", "k", "w", "px", "1000"}}
		probes := []step{{tick: true}, {tick: true}, {argv: []string{"get", "k"}}, {argv: []string{"strlen", "k"}}, {argv: []string{"ttl", "k"}}, {argv: []string{"exists", "k"}}}
		for _, f := range far {
			for _, n := range near {
				progs = append(progs, append([]step{{argv: f}, {argv: n}}, probes...))                                    // shortened: gone after the near deadline
				progs = append(progs, append([]step{{argv: []string{"set", "k", "v", "ex", "1"}}, {argv: f}}, probes...)) // extended: still there
			}
			progs = append(progs, append([]step{{argv: f}, {argv: []string{"expire", "k", "1", "gt"}}}, probes...)) // vetoed: still there
		}
		for _, n := range [][]string{{"expire", "l", "1"}, {"expire", "l", "1", "lt"}} {
			progs = append(progs, []step{{argv: []string{"rpush", "l", "a", "b"}}, {argv: []string{"expire", "l", "100"}}, {argv: n}, {tick: true}, {tick: true},
				{argv: []string{"llen", "l"}}, {argv: []string{"lrange", "l", "0", "-1"}}, {argv: []string{"exists", "l"}}})
			progs = append(progs, []step{{argv: []string{"rpush", "l", "a", "b"}}, {argv: []string{"expire", "l", "1"}}, {argv: []string{"expire", "l", "100"}}, {tick: true}, {tick: true},
				{argv: []string{"llen", "l"}}, {argv: []string{"exists", "l"}}})
		}
	}

	// run everything concurrently, starting just after a second boundary
	results := make([][]line, len(progs))
	var wg sync.WaitGroup
	sleepToBoundary()
	maxTicks := 0
	for i := range progs {
		t := 0
		for _, s := range progs[i] {
			if s.tick {
				t++
			}
		}
		if t > maxTicks {
			maxTicks = t
		}
		wg.Add(1)
		go func(i int) {
			defer wg.Done()
			results[i] = runProg(i, progs[i])
		}(i)
	}
	wg.Wait()
	f, _ := os.Create(*out)
	w := bufio.NewWriterSize(f, 1<<20)
	enc := json.NewEncoder(w)
	events, straddles := 0, 0
	labels := map[string]bool{}
	for _, r := range results {
		for _, l := range r {
			enc.Encode(l)
			events++
			if l.Now != l.Now2 {
				straddles++
			}
		}
	}
	w.Flush()
	f.Close()
	_ = labels
	_ = sort.Strings
	fmt.Printf("SUMMARY {\"programmes\":%d,\"events\":%d,\"max_ticks\":%d,\"straddling_commands\":%d}\n", len(progs), events, maxTicks, straddles)
}
