// blockpop: C09 blocking pops on the real clock. Scenarios run concurrently, each on its own in-process server
// through Manager.ExecCommand with real goroutines as clients:
//
//	present      element available               -> [key, element] within 0.5 s
//	timeout      empty, timeout 1                -> nil after >= 1 s and <= 2.2 s
//	push-later   blocked popper, push at +200 ms -> [key, pushed] within 1 s of the push
//	two-poppers  two poppers, ONE push           -> exactly one gets it, the other times out with nil; nothing left
//	multi-key    several keys                    -> first non-empty key in argument order
//	many         N poppers, M pushes (random)    -> every element to exactly one popper, M - popped left in the list
//
// Promptness bounds are checked here; every scenario's invocation/response history is written for TraceLin.tla
// (sequential meaning of BLPOP/BRPOP = spec/KsList.tla CmdBPop), which decides exactly-once / no duplication / order.
package main

import (
	"bufio"
	"encoding/json"
	"flag"
	"fmt"
	"math/rand"
	"os"
	"sort"
	"strings"
	"sync"
	"sync/atomic"
	"time"

	"verif/harness/impl"
)

type op struct {
	ID       int
	Argv     []string
	Inv, Res int64
	Reply    impl.Reply
	Answered bool
	Now      int64
	Start    time.Time
	Dur      time.Duration
}
type line struct {
	Ev       string      `json:"ev"`
	H        int         `json:"h"`
	ID       int         `json:"id"`
	Now      int64       `json:"now"`
	Argv     [][]int     `json:"argv"`
	Reply    *impl.Reply `json:"reply,omitempty"`
	Answered bool        `json:"answered"`
}
type anomaly struct {
	Kind     string `json:"kind"`
	Scenario string `json:"scenario"`
	H        int    `json:"h"`
	Detail   string `json:"detail"`
}

type hist struct {
	h      int
	name   string
	srv    *impl.Srv
	mu     sync.Mutex
	ops    []*op
	ticket int64
	anoms  []anomaly
}

func (x *hist) do(argv ...string) *op {
	x.mu.Lock()
	o := &op{ID: len(x.ops) + 1, Argv: argv}
	x.ops = append(x.ops, o)
	x.mu.Unlock()
	o.Now = time.Now().Unix()
	o.Start = time.Now()
	o.Inv = atomic.AddInt64(&x.ticket, 1)
	o.Reply = x.srv.Exec(impl.S(argv...))
	o.Res = atomic.AddInt64(&x.ticket, 1)
	o.Dur = time.Since(o.Start)
	o.Answered = true
	return o
}
func (x *hist) bad(kind, detail string) {
	x.mu.Lock()
	x.anoms = append(x.anoms, anomaly{kind, x.name, x.h, detail})
	x.mu.Unlock()
}

// Scheduling-delay monitor: promptness bounds are statements about the server, not about a starved test process. A
// goroutine sleeps 2 ms at a time and records by how much each sleep overshot; a timing anomaly is a verdict only when
// no overshoot above 50 ms was seen in the second around it (otherwise it is counted as inconclusive).
var jitMu sync.Mutex
var jit []struct {
	at   time.Time
	over time.Duration
}
var timingInconclusive int32

func jitterMonitor() {
	for {
		t := time.Now()
		time.Sleep(2 * time.Millisecond)
		if over := time.Since(t) - 2*time.Millisecond; over > 20*time.Millisecond {
			jitMu.Lock()
			jit = append(jit, struct {
				at   time.Time
				over time.Duration
			}{t, over})
			jitMu.Unlock()
		}
	}
}
func starved(from time.Time, to time.Time) bool {
	jitMu.Lock()
	defer jitMu.Unlock()
	for _, j := range jit {
		if j.over > 50*time.Millisecond && j.at.After(from.Add(-time.Second)) && j.at.Before(to.Add(time.Second)) {
			return true
		}
	}
	return false
}

// timing reports a promptness anomaly unless the process itself was being starved around that time
func (x *hist) timing(kind, detail string, from time.Time) {
	if starved(from, time.Now()) {
		atomic.AddInt32(&timingInconclusive, 1)
		return
	}
	x.bad(kind, detail)
}

func isNil(r impl.Reply) bool { return r.K == "nil" }
func pair(r impl.Reply) (string, string, bool) {
	if r.K == "arr" && len(r.A) == 2 {
		return string(impl.I2B(r.A[0].V)), string(impl.I2B(r.A[1].V)), true
	}
	return "", "", false
}

func main() {
	seed := flag.Int64("seed", 1, "seed")
	rounds := flag.Int("rounds", 1, "how many times each scenario is instantiated")
	out := flag.String("out", "blockpop.ndjson", "history file")
	flag.Parse()
	rnd := rand.New(rand.NewSource(*seed))
	go jitterMonitor()
	var hs []*hist
	var wg sync.WaitGroup
	n := 0
	start := func(name string, f func(x *hist, r *rand.Rand)) {
		n++
		x := &hist{h: n, name: name, srv: impl.NewSrv(1)}
		hs = append(hs, x)
		r := rand.New(rand.NewSource(rnd.Int63()))
		wg.Add(1)
		go func() { defer wg.Done(); f(x, r) }()
	}
	for i := 0; i < *rounds; i++ {
		for _, cmd := range []string{"BLPOP", "BRPOP"} {
			cmd := cmd
			start("present", func(x *hist, r *rand.Rand) {
				x.do("RPUSH", "l", "a", "b")
				o := x.do(cmd, "l", "1")
				want := map[string]string{"BLPOP": "a", "BRPOP": "b"}[cmd]
				if k, e, ok := pair(o.Reply); !ok || k != "l" || e != want {
					x.bad("wrong-reply", fmt.Sprintf("%s l 1 with elements present replied %s %v", cmd, o.Reply.K, o.Reply.A))
				}
				if o.Dur > 500*time.Millisecond {
					x.timing("not-prompt", fmt.Sprintf("%s with an element available took %v", cmd, o.Dur), o.Start)
				}
				x.do("LRANGE", "l", "0", "-1")
			})
			start("timeout", func(x *hist, r *rand.Rand) {
				o := x.do(cmd, "l", "1")
				if !isNil(o.Reply) {
					x.bad("wrong-reply", fmt.Sprintf("%s on an empty key with timeout 1 replied %s", cmd, o.Reply.K))
				}
				if o.Dur < 950*time.Millisecond || o.Dur > 2200*time.Millisecond {
					if o.Dur < 950*time.Millisecond {
						x.bad("timeout-bound", fmt.Sprintf("%s l 1 on an empty key returned after %v (before its timeout)", cmd, o.Dur))
					} else {
						x.timing("timeout-bound", fmt.Sprintf("%s l 1 on an empty key returned after %v (want 1 s .. 2.2 s)", cmd, o.Dur), o.Start)
					}
				}
				x.do("EXISTS", "l")
			})
			start("push-later", func(x *hist, r *rand.Rand) {
				var pushAt time.Time
				done := make(chan *op, 1)
				go func() { done <- x.do(cmd, "l", "3") }()
				time.Sleep(200 * time.Millisecond)
				pushAt = time.Now()
				x.do("RPUSH", "l", "x\r\ny")
				select {
				case o := <-done:
					if k, e, ok := pair(o.Reply); !ok || k != "l" || e != "x\r\ny" {
						x.bad("wrong-reply", fmt.Sprintf("blocked %s did not receive the pushed element: %s %v", cmd, o.Reply.K, o.Reply.A))
					}
					if d := time.Since(pushAt); d > time.Second {
						x.timing("not-prompt", fmt.Sprintf("blocked %s answered %v after the push", cmd, d), pushAt)
					}
				case <-time.After(30 * time.Second):
					x.bad("hang", cmd+" l 3 did not return within 30 s although an element was pushed")
				}
				x.do("LLEN", "l")
				x.do("EXISTS", "l")
			})
			start("two-poppers", func(x *hist, r *rand.Rand) {
				res := make(chan *op, 2)
				go func() { res <- x.do(cmd, "l", "1") }()
				go func() { res <- x.do(cmd, "l", "1") }()
				time.Sleep(200 * time.Millisecond)
				x.do("LPUSH", "l", "only")
				got := 0
				for i := 0; i < 2; i++ {
					select {
					case o := <-res:
						if _, e, ok := pair(o.Reply); ok && e == "only" {
							got++
						} else if !isNil(o.Reply) {
							x.bad("wrong-reply", fmt.Sprintf("popper got %s %v", o.Reply.K, o.Reply.A))
						}
					case <-time.After(30 * time.Second):
						x.bad("hang", "a popper with timeout 1 did not return within 30 s")
					}
				}
				if got != 1 {
					x.bad("exactly-one", fmt.Sprintf("one pushed element was received by %d poppers", got))
				}
				x.do("LLEN", "l")
			})
		}
		start("multi-key", func(x *hist, r *rand.Rand) {
			x.do("RPUSH", "l2", "y")
			o := x.do("BLPOP", "l1", "l2", "1")
			if k, e, ok := pair(o.Reply); !ok || k != "l2" || e != "y" {
				x.bad("wrong-reply", fmt.Sprintf("BLPOP l1 l2 1 with only l2 non-empty replied %s %v", o.Reply.K, o.Reply.A))
			}
			x.do("RPUSH", "l1", "x")
			x.do("RPUSH", "l2", "y2")
			o = x.do("BRPOP", "l1", "l2", "1")
			if k, e, ok := pair(o.Reply); !ok || k != "l1" || e != "x" {
				x.bad("wrong-reply", fmt.Sprintf("BRPOP l1 l2 1 with both non-empty replied %s %v", o.Reply.K, o.Reply.A))
			}
			x.do("SET", "s", "v")
			x.do("BLPOP", "nokey", "0.05x")
			x.do("LRANGE", "l2", "0", "-1")
			// argument order, many times over three non-empty keys: an order that is only USUALLY the argument order (a map walk)
			// shows within a few dozen pops
			for i := 0; i < 60; i++ {
				x.do("RPUSH", "m1", fmt.Sprintf("a%d", i))
				x.do("RPUSH", "m2", fmt.Sprintf("b%d", i))
				x.do("RPUSH", "m3", fmt.Sprintf("c%d", i))
				keys := [][]string{{"m1", "m2", "m3"}, {"m3", "m2", "m1"}, {"m2", "m3", "m1"}}[i%3]
				cmd := []string{"BLPOP", "BRPOP"}[i%2]
				o = x.do(cmd, keys[0], keys[1], keys[2], "1")
				if k, _, ok := pair(o.Reply); !ok || k != keys[0] {
					x.bad("wrong-reply", fmt.Sprintf("%s %s %s %s 1 with all three non-empty replied %s %v: not from the first key named", cmd, keys[0], keys[1], keys[2], o.Reply.K, o.Reply.A))
					break
				}
				x.do("DEL", "m1", "m2", "m3")
			}
		})
		start("many", func(x *hist, r *rand.Rand) {
			np, nm := 2+r.Intn(3), 1+r.Intn(4)
			res := make(chan *op, np)
			for i := 0; i < np; i++ {
				c := []string{"BLPOP", "BRPOP"}[r.Intn(2)]
				go func() { res <- x.do(c, "l", "1") }()
			}
			time.Sleep(150 * time.Millisecond)
			for j := 0; j < nm; j++ {
				x.do("RPUSH", "l", fmt.Sprintf("e%d", j))
				time.Sleep(time.Duration(r.Intn(120)) * time.Millisecond)
			}
			seen := map[string]int{}
			for i := 0; i < np; i++ {
				select {
				case o := <-res:
					if _, e, ok := pair(o.Reply); ok {
						seen[e]++
					}
				case <-time.After(30 * time.Second):
					x.bad("hang", "a popper with timeout 1 did not return within 30 s")
				}
			}
			for e, c := range seen {
				if c > 1 {
					x.bad("duplicate", fmt.Sprintf("element %s was delivered to %d poppers", e, c))
				}
			}
			x.do("LRANGE", "l", "0", "-1")
		})
	}
	wg.Wait()
	f, _ := os.Create(*out)
	w := bufio.NewWriterSize(f, 1<<20)
	enc := json.NewEncoder(w)
	aenc := json.NewEncoder(os.Stdout)
	nops, nanom := 0, 0
	av := func(a []string) [][]int {
		o := make([][]int, len(a))
		for i, s := range a {
			o[i] = impl.B2I([]byte(s))
		}
		return o
	}
	for _, x := range hs {
		for _, a := range x.anoms {
			aenc.Encode(a)
			nanom++
		}
		type ev struct {
			t   int64
			inv bool
			o   *op
		}
		var evs []ev
		for _, o := range x.ops {
			evs = append(evs, ev{o.Inv, true, o})
			if o.Answered {
				evs = append(evs, ev{o.Res, false, o})
			}
			nops++
		}
		sort.Slice(evs, func(i, j int) bool { return evs[i].t < evs[j].t })
		enc.Encode(line{Ev: "reset", H: x.h, Argv: [][]int{}})
		for _, e := range evs {
			rep := e.o.Reply
			if e.inv {
				enc.Encode(line{Ev: "inv", H: x.h, ID: e.o.ID, Now: e.o.Now, Argv: av(e.o.Argv), Reply: &rep, Answered: e.o.Answered})
			} else {
				enc.Encode(line{Ev: "res", H: x.h, ID: e.o.ID, Now: e.o.Now, Argv: [][]int{}, Reply: &rep, Answered: true})
			}
		}
	}
	w.Flush()
	f.Close()
	names := map[string]int{}
	for _, x := range hs {
		names[x.name]++
	}
	var parts []string
	for k, v := range names {
		parts = append(parts, fmt.Sprintf("%q:%d", k, v))
	}
	sort.Strings(parts)
	fmt.Printf("SUMMARY {\"scenarios\":%d,\"operations\":%d,\"anomalies\":%d,\"timing_inconclusive_process_starved\":%d,\"by_scenario\":{%s}}\n", len(hs), nops, nanom, atomic.LoadInt32(&timingInconclusive), strings.Join(parts, ","))
}
