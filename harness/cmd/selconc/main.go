// selconc: C20 under concurrency. Several connections (the real Manager.Handle over net.Pipe, one goroutine each) of ONE
// server with N databases issue SELECT and single-key commands at the same time; in particular the first-ever SELECT of
// an index by several connections at once. Every connection tracks the database its own last successful SELECT chose -
// selection is per connection - and every keyspace command is recorded for TraceLin.tla as a command on the key
// "d<i>:<key>": the databases being isolated, the whole server must be linearizable as ONE keyspace over those names.
// A sequential read-back through a fresh connection (SELECT i; GET ...) closes each history. SELECT itself is judged
// here: a valid index answers +OK, an invalid one an error and leaves the selection unchanged.
package main

import (
	"bufio"
	"encoding/json"
	"flag"
	"fmt"
	"math/rand"
	"os"
	"sort"
	"strconv"
	"sync"
	"sync/atomic"
	"time"

	"verif/harness/impl"
	"verif/harness/wire"
)

type op struct {
	ID       int
	Argv     []string // as recorded for the model (key renamed)
	Inv, Res int64
	Reply    impl.Reply
	Answered bool
	Now      int64
}
type line struct {
	Ev       string      `json:"ev"`
	H        int         `json:"h"`
	ID       int         `json:"id"`
	Now      int64       `json:"now"`
	Argv     [][]int     `json:"argv"`
	Reply    *impl.Reply `json:"reply,omitempty"`
	Answered bool        `json:"answered"`
}
type anomaly struct {
	Kind   string `json:"kind"`
	H      int    `json:"h"`
	Detail string `json:"detail"`
}

func av(a []string) [][]int {
	o := make([][]int, len(a))
	for i, s := range a {
		o[i] = impl.B2I([]byte(s))
	}
	return o
}

type planned struct {
	sel  int      // >= -1: a SELECT of that index (-1 / ndb: invalid); -2: a keyspace command
	argv []string // keyspace command on the plain key name (argv[1])
}

func main() {
	seed := flag.Int64("seed", 1, "seed")
	nh := flag.Int("hist", 100, "histories")
	outPath := flag.String("out", "selconc.ndjson", "history file")
	flag.Parse()
	rnd := rand.New(rand.NewSource(*seed))
	f, _ := os.Create(*outPath)
	w := bufio.NewWriterSize(f, 1<<20)
	enc := json.NewEncoder(w)
	aenc := json.NewEncoder(os.Stdout)
	totalOps, anomalies, selects, firstRaces := 0, 0, 0, 0
	for h := 0; h < *nh; h++ {
		r := rand.New(rand.NewSource(rnd.Int63()))
		ndb := []int{2, 4, 16}[r.Intn(3)]
		first := wire.NewPipe(ndb)
		mgr := first.Mgr
		nc := 2 + r.Intn(4)
		conns := []*wire.Conn{first}
		for i := 1; i < nc; i++ {
			conns = append(conns, wire.AttachPipe(mgr))
		}
		var mu sync.Mutex
		var ops []*op
		var ticket int64
		report := func(kind, detail string) {
			mu.Lock()
			anomalies++
			aenc.Encode(anomaly{kind, h, detail})
			mu.Unlock()
		}
		// plans: every connection starts with a SELECT; in half of the histories all of them select the SAME fresh index
		race := r.Intn(2) == 0
		raceIdx := 1 + r.Intn(ndb-1)
		if race {
			firstRaces++
		}
		keys := []string{"a", "b"}
		plans := make([][]planned, nc)
		for c := 0; c < nc; c++ {
			if race {
				plans[c] = append(plans[c], planned{sel: raceIdx})
			}
			n := 3 + r.Intn(5)
			for j := 0; j < n; j++ {
				u := fmt.Sprintf("c%dv%d", c, j)
				k := keys[r.Intn(2)]
				switch r.Intn(12) {
				case 0, 1:
					plans[c] = append(plans[c], planned{sel: r.Intn(ndb)})
				case 2:
					plans[c] = append(plans[c], planned{sel: []int{-1, ndb, ndb + 1 + r.Intn(5)}[r.Intn(3)]})
				case 3, 4, 5:
					plans[c] = append(plans[c], planned{sel: -2, argv: []string{"SET", k, u}})
				case 6, 7:
					plans[c] = append(plans[c], planned{sel: -2, argv: []string{"GET", k}})
				case 8:
					plans[c] = append(plans[c], planned{sel: -2, argv: []string{"APPEND", k, u}})
				case 9:
					plans[c] = append(plans[c], planned{sel: -2, argv: []string{"DEL", k}})
				case 10:
					plans[c] = append(plans[c], planned{sel: -2, argv: []string{"EXISTS", k}})
				default:
					plans[c] = append(plans[c], planned{sel: -2, argv: []string{"SETNX", k, u}})
				}
			}
		}
		exec := func(wc *wire.Conn, argv []string) (impl.Reply, bool) {
			res := wc.Batch([][][]byte{impl.S(argv...)}, 5*time.Second)
			if res.Problem != "" || len(res.Replies) != 1 {
				return impl.Reply{}, false
			}
			return res.Replies[0], true
		}
		record := func(cur int, argv []string, wc *wire.Conn) *op {
			m := append([]string{}, argv...)
			m[1] = "d" + strconv.Itoa(cur) + ":" + m[1]
			mu.Lock()
			o := &op{ID: len(ops) + 1, Argv: m}
			ops = append(ops, o)
			mu.Unlock()
			o.Now = time.Now().Unix()
			o.Inv = atomic.AddInt64(&ticket, 1)
			rep, ok := exec(wc, argv)
			o.Res = atomic.AddInt64(&ticket, 1)
			o.Reply, o.Answered = rep, ok
			if !ok {
				report("unanswered", fmt.Sprintf("%v on a connection in database %d got no (single, well-formed) reply", argv, cur))
			}
			return o
		}
		start := make(chan struct{})
		var wg sync.WaitGroup
		for c := 0; c < nc; c++ {
			wg.Add(1)
			go func(c int) {
				defer wg.Done()
				cur := 0
				<-start
				for _, p := range plans[c] {
					if p.sel == -2 {
						if o := record(cur, p.argv, conns[c]); !o.Answered {
							return
						}
						continue
					}
					atomic.AddInt64(&ticket, 1)
					rep, ok := exec(conns[c], []string{"SELECT", strconv.Itoa(p.sel)})
					mu.Lock()
					selects++
					mu.Unlock()
					valid := p.sel >= 0 && p.sel < ndb
					switch {
					case !ok:
						report("unanswered", fmt.Sprintf("SELECT %d got no reply", p.sel))
						return
					case valid && !(rep.K == "str" && string(impl.I2B(rep.V)) == "OK"):
						report("select-reply", fmt.Sprintf("SELECT %d with %d databases replied %s %q", p.sel, ndb, rep.K, impl.I2B(rep.V)))
						return
					case !valid && rep.K != "err":
						report("select-reply", fmt.Sprintf("SELECT %d with %d databases was not refused: %s %q", p.sel, ndb, rep.K, impl.I2B(rep.V)))
						return
					}
					if valid {
						cur = p.sel
					}
				}
			}(c)
		}
		close(start)
		wg.Wait()
		// sequential read-back through a fresh connection
		rb := wire.AttachPipe(mgr)
		okRB := true
		for d := 0; d < ndb && okRB; d++ {
			if rep, ok := exec(rb, []string{"SELECT", strconv.Itoa(d)}); !ok || rep.K != "str" {
				report("select-reply", fmt.Sprintf("read-back SELECT %d failed", d))
				okRB = false
				break
			}
			for _, k := range keys {
				record(d, []string{"GET", k}, rb)
				record(d, []string{"EXISTS", k}, rb)
			}
		}
		rb.Close()
		for _, c := range conns {
			c.Close()
		}
		totalOps += len(ops)
		type ev struct {
			t   int64
			inv bool
			o   *op
		}
		var evs []ev
		for _, o := range ops {
			evs = append(evs, ev{o.Inv, true, o})
			if o.Answered {
				evs = append(evs, ev{o.Res, false, o})
			}
		}
		sort.Slice(evs, func(i, j int) bool { return evs[i].t < evs[j].t })
		enc.Encode(line{Ev: "reset", H: h, Argv: [][]int{}})
		for _, e := range evs {
			rep := e.o.Reply
			if e.inv {
				enc.Encode(line{Ev: "inv", H: h, ID: e.o.ID, Now: e.o.Now, Argv: av(e.o.Argv), Reply: &rep, Answered: e.o.Answered})
			} else {
				enc.Encode(line{Ev: "res", H: h, ID: e.o.ID, Now: e.o.Now, Argv: [][]int{}, Reply: &rep, Answered: true})
			}
		}
	}
	w.Flush()
	f.Close()
	fmt.Printf("SUMMARY {\"histories\":%d,\"operations\":%d,\"selects\":%d,\"histories_with_concurrent_first_select\":%d,\"anomalies\":%d}\n", *nh, totalOps, selects, firstRaces, anomalies)
}
