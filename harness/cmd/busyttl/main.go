// busyttl: C06 under load. Keys of several types get a one-second deadline while goroutines hammer exactly those keys
// (and other keys on their lock stripes) across the deadline through Manager.ExecCommand. One full second after the
// deadline second has ended every key must be invisible to every command, however busy its stripe was at the instant
// its purge timer fired. Prints one JSON line per surviving key and a SUMMARY line.
package main

import (
	"encoding/json"
	"flag"
	"fmt"
	"math/rand"
	"os"
	"strconv"
	"sync"
	"sync/atomic"
	"time"

	"verif/harness/impl"
)

type problem struct {
	Kind   string `json:"kind"`
	Key    string `json:"key"`
	Type   string `json:"type"`
	Detail string `json:"detail"`
}

func main() {
	seed := flag.Int64("seed", 1, "")
	nkeys := flag.Int("keys", 12, "few keys: every reader is on one of them almost all the time")
	readers := flag.Int("readers", 8, "")
	rounds := flag.Int("rounds", 2, "")
	flag.Parse()
	impl.Init(0)
	enc := json.NewEncoder(os.Stdout)
	var reads int64
	nprob, inconclusive := 0, 0
	for round := 0; round < *rounds; round++ {
		srv := impl.NewSrv(1)
		r := rand.New(rand.NewSource(*seed*100 + int64(round)))
		type kt struct{ k, t string }
		var keys []kt
		for i := 0; i < *nkeys; i++ {
			k := "busy" + strconv.Itoa(i)
			t := []string{"string", "zset", "string", "zset", "list", "hash", "set", "zset"}[i%8] // strings and sorted sets have no lazy expiry check: only the timer purges them
			switch t {
			case "string":
				srv.Exec(impl.S("SET", k, "v"))
			case "zset":
				a := []string{"ZADD", k}
				for j := 0; j < 1500; j++ {
					a = append(a, strconv.Itoa(j), "m"+strconv.Itoa(j))
				}
				srv.Exec(impl.S(a...))
			case "list":
				a := []string{"RPUSH", k}
				for j := 0; j < 300; j++ {
					a = append(a, "e"+strconv.Itoa(j))
				}
				srv.Exec(impl.S(a...))
			case "hash":
				a := []string{"HSET", k}
				for j := 0; j < 150; j++ {
					a = append(a, "f"+strconv.Itoa(j), "v")
				}
				srv.Exec(impl.S(a...))
			case "set":
				a := []string{"SADD", k}
				for j := 0; j < 300; j++ {
					a = append(a, "m"+strconv.Itoa(j))
				}
				srv.Exec(impl.S(a...))
			}
			keys = append(keys, kt{k, t})
		}
		// deadlines set at S+0.40..0.50: deadline second S+1, timers fire at S+1.40..1.50
		now := time.Now()
		S := now.Unix() + 1
		time.Sleep(time.Until(time.Unix(S, 400_000_000)))
		t0 := time.Now()
		for _, x := range keys {
			srv.Exec(impl.S("EXPIRE", x.k, "1"))
		}
		if time.Now().Unix() != t0.Unix() {
			inconclusive++
			continue
		}
		S = t0.Unix()
		var stop int32
		var wg sync.WaitGroup
		for g := 0; g < *readers; g++ {
			wg.Add(1)
			go func(g int) {
				defer wg.Done()
				rr := rand.New(rand.NewSource(r.Int63() + int64(g)))
				n := int64(0)
				for atomic.LoadInt32(&stop) == 0 {
					x := keys[rr.Intn(len(keys))]
					switch x.t {
					case "string":
						srv.Exec(impl.S("GET", x.k))
					case "zset":
						srv.Exec(impl.S("ZRANGE", x.k, "0", "-1"))
					case "list":
						srv.Exec(impl.S("LRANGE", x.k, "0", "-1"))
					case "hash":
						srv.Exec(impl.S("HGETALL", x.k))
					case "set":
						srv.Exec(impl.S("SMEMBERS", x.k))
					}
					n++
				}
				atomic.AddInt64(&reads, n)
			}(g)
		}
		time.Sleep(time.Until(time.Unix(S+2, 350_000_000))) // the deadline second S+1 has ended at S+2: certainly gone from then on
		atomic.StoreInt32(&stop, 1)
		wg.Wait()
		for _, x := range keys {
			// the type's own reader first: EXISTS checks the deadline lazily and would purge a survivor before we look
			var rd impl.Reply
			switch x.t {
			case "string":
				rd = srv.Exec(impl.S("GET", x.k))
			case "zset":
				rd = srv.Exec(impl.S("ZRANGE", x.k, "0", "-1"))
			case "list":
				rd = srv.Exec(impl.S("LLEN", x.k))
			case "hash":
				rd = srv.Exec(impl.S("HLEN", x.k))
			case "set":
				rd = srv.Exec(impl.S("SCARD", x.k))
			}
			ex := srv.Exec(impl.S("EXISTS", x.k))
			gone := rd.K == "nil" || (rd.K == "arr" && len(rd.A) == 0) || (rd.K == "int" && string(impl.I2B(rd.V)) == "0")
			if string(impl.I2B(ex.V)) != "0" || !gone {
				nprob++
				if nprob <= 6 {
					enc.Encode(problem{"visible-after-deadline", x.k, x.t, fmt.Sprintf("deadline second %d, probed %.2f s after it began: EXISTS -> %s, read -> kind %s", S+1, time.Since(time.Unix(S+1, 0)).Seconds(), impl.I2B(ex.V), rd.K)})
				}
			}
		}
	}
	fmt.Printf("SUMMARY {\"rounds\":%d,\"keys\":%d,\"readers\":%d,\"reads\":%d,\"surviving_keys\":%d,\"inconclusive_rounds\":%d}\n", *rounds, *nkeys, *readers, reads, nprob, inconclusive)
}
