// sched: deterministic scheduler for the schedule-quantified properties (C05, C13, C18) - the B1 walker for
// interleavings. The "edges" are scheduling decisions enumerated by TLC from spec/Sched.tla; this tool realises them
// on the real code by holding every command goroutine at the hooks H1 (stripe lock request, phase "want") and H2
// (keyspace map access) and opening one gate at a time.
//
//	sched observe -in cases.json -out progs.json
//	    runs every command of every case ALONE (after the case's setup, on a fresh server) and records its programme:
//	    start, lock requests / releases (kind, stripe) and map accesses, in order - the input of MC_Sched.tla.
//	sched replay -in cases.json -sched scheds.json -out hist.ndjson -map map.json
//	    for every case and every schedule TLC printed for the case's programme tuple: fresh server, setup, one goroutine
//	    per thread, exactly one goroutine running at any time, preempted at the schedule's preemption points. The
//	    history (invocation = the moment the command's start gate is opened, response = its return, then a sequential
//	    read-back of every key) is written for TraceLin.tla, which decides whether some sequential order explains the
//	    replies. Identical histories of one case are written once. Deadlock (nobody can be granted), panic, a command
//	    that neither returns nor reaches a gate, structure / key counter / lock hygiene violations at quiescence are
//	    reported as anomaly lines on stdout.
package main

import (
	"bufio"
	"encoding/json"
	"flag"
	"fmt"
	"os"
	"runtime"
	"sort"
	"strconv"
	"strings"
	"sync"
	"time"

	"github.com/innovationb1ue/RedisGO/memdb"
	"verif/harness/impl"
)

type Case struct {
	ID       int          `json:"id"`
	Family   string       `json:"family"`
	Setup    [][]string   `json:"setup"`
	Threads  [][][]string `json:"threads"`
	Keys     []string     `json:"keys"`
	Readback [][]string   `json:"readback"` // sequential read-back commands (default: every reader of every family on Keys)
	Tuple    int          `json:"tuple"`    // index into the schedule table (filled by lib/sched.py)
	NoLin    bool         `json:"nolin"`    // holds commands that need not be atomic: completion, structure and lock hygiene only
}

type Step struct {
	Op   string `json:"op"`
	Kind string `json:"kind"`
	Pos  int    `json:"pos"`
}

func goid() int64 {
	var buf [40]byte
	n := runtime.Stack(buf[:], false)
	s := buf[10:n]
	var id int64
	for _, c := range s {
		if c < '0' || c > '9' {
			break
		}
		id = id*10 + int64(c-'0')
	}
	return id
}

// ---------------------------------------------------------------- controller

type arrival struct {
	t        int
	finished bool
	gate     Step
}

type thread struct {
	grant    chan struct{}
	atGate   bool
	gate     Step
	finished bool
	gates    int // gates opened so far
}

type ctl struct {
	mu      sync.Mutex
	byGoid  map[int64]int
	th      []*thread
	arrived chan arrival
	wm      map[int]int         // stripe -> writer thread (1-based), 0 none
	rd      map[int]map[int]int // stripe -> thread -> read locks
	prog    [][]Step            // recorded programme per thread (observe mode and diagnostics)
	active  bool
}

var C *ctl

func (c *ctl) me() int {
	g := goid()
	c.mu.Lock()
	t, ok := c.byGoid[g]
	c.mu.Unlock()
	if !ok {
		return 0
	}
	return t
}

func (c *ctl) park(t int, g Step) {
	c.mu.Lock()
	c.prog[t-1] = append(c.prog[t-1], g)
	c.mu.Unlock()
	c.arrived <- arrival{t: t, gate: g}
	<-c.th[t-1].grant
}

func lockHook(kind string, pos int, phase string) {
	c := C
	if c == nil || !c.active {
		return
	}
	t := c.me()
	if t == 0 {
		return // a goroutine that is not part of the case (expiry timer): not scheduled
	}
	switch phase {
	case "want":
		c.park(t, Step{"acq", kind, pos + 1})
	case "got":
		c.mu.Lock()
		if kind == "W" {
			c.wm[pos+1] = t
		} else {
			if c.rd[pos+1] == nil {
				c.rd[pos+1] = map[int]int{}
			}
			c.rd[pos+1][t]++
		}
		c.mu.Unlock()
	case "rel":
		c.mu.Lock()
		c.prog[t-1] = append(c.prog[t-1], Step{"rel", kind, pos + 1})
		if kind == "W" {
			if c.wm[pos+1] == t {
				c.wm[pos+1] = 0
			}
		} else if c.rd[pos+1] != nil && c.rd[pos+1][t] > 0 {
			c.rd[pos+1][t]--
		}
		c.mu.Unlock()
	}
}

func mapHook(op string, key string) {
	c := C
	if c == nil || !c.active {
		return
	}
	t := c.me()
	if t == 0 {
		return
	}
	c.park(t, Step{"map", "-", 0})
}

// enabled: the thread stands at a gate that can be opened without the goroutine parking inside a mutex
func (c *ctl) enabled(t int) bool {
	th := c.th[t-1]
	if th.finished || !th.atGate {
		return false
	}
	g := th.gate
	if g.Op != "acq" {
		return true
	}
	c.mu.Lock()
	defer c.mu.Unlock()
	if c.wm[g.Pos] != 0 {
		return false
	}
	if g.Kind == "W" {
		for _, n := range c.rd[g.Pos] {
			if n > 0 {
				return false
			}
		}
	}
	return true
}

type opRec struct {
	ID       int
	Thread   int
	Argv     []string
	Inv, Res int64
	Reply    impl.Reply
	Answered bool
	Now      int64
}

type line struct {
	Ev       string      `json:"ev"`
	H        int         `json:"h"`
	ID       int         `json:"id"`
	Now      int64       `json:"now"`
	Argv     [][]int     `json:"argv"`
	Reply    *impl.Reply `json:"reply,omitempty"`
	Answered bool        `json:"answered"`
}

type anomaly struct {
	Kind   string   `json:"kind"` // deadlock | panic | hang | structure | keycount | keys-exists | lock-leak
	Case   int      `json:"case"`
	Family string   `json:"family"`
	Sched  []int    `json:"sched"`
	Detail string   `json:"detail"`
	Cmds   []string `json:"cmds"`
}

func av(a []string) [][]int {
	o := make([][]int, len(a))
	for i, s := range a {
		o[i] = impl.B2I([]byte(s))
	}
	return o
}

type segment struct{ t, n int } // run thread t for n gates (n < 0: to completion)

// segments of a TLC schedule (thread chosen at every step): the last segment of every thread runs to completion
func segmentsOf(s []int) []segment {
	var segs []segment
	for _, t := range s {
		if len(segs) > 0 && segs[len(segs)-1].t == t {
			segs[len(segs)-1].n++
		} else {
			segs = append(segs, segment{t, 1})
		}
	}
	seen := map[int]bool{}
	for i := len(segs) - 1; i >= 0; i-- {
		if !seen[segs[i].t] {
			seen[segs[i].t] = true
			segs[i].n = -1
		}
	}
	return segs
}

type result struct {
	ops      []*opRec
	setupOps []*opRec
	progs    [][]Step
	outcome  string // ok | deadlock | hang | panic
	detail   string
	followed bool // every segment ran for exactly the number of gates TLC predicted
	srv      *impl.Srv
}

// runCase executes one case under one schedule. solo > 0: only that thread runs (observation).
func runCase(cs *Case, sched []int, solo int) *result {
	srv := impl.NewSrv(1)
	res := &result{srv: srv, outcome: "ok", followed: true}
	var ticket int64
	nextID := 0
	newOp := func(t int, argv []string) *opRec {
		nextID++
		o := &opRec{ID: nextID, Thread: t, Argv: argv}
		res.ops = append(res.ops, o)
		return o
	}
	for _, a := range cs.Setup {
		o := newOp(0, a)
		o.Now = time.Now().Unix()
		ticket++
		o.Inv = ticket
		o.Reply = srv.Exec(impl.S(a...))
		ticket++
		o.Res = ticket
		o.Answered = true
		res.setupOps = append(res.setupOps, o)
	}
	nt := len(cs.Threads)
	c := &ctl{byGoid: map[int64]int{}, arrived: make(chan arrival, nt+1), wm: map[int]int{}, rd: map[int]map[int]int{}, prog: make([][]Step, nt)}
	per := make([][]*opRec, nt)
	for t := 1; t <= nt; t++ {
		c.th = append(c.th, &thread{grant: make(chan struct{})})
		if solo > 0 && t != solo {
			c.th[t-1].finished = true
			continue
		}
		for _, a := range cs.Threads[t-1] {
			per[t-1] = append(per[t-1], newOp(t, a))
		}
	}
	C = c
	c.active = true
	var tmu sync.Mutex // ticket: only the running goroutine and the controller touch it, never at the same time; cheap anyway
	live := 0
	for t := 1; t <= nt; t++ {
		if c.th[t-1].finished {
			continue
		}
		live++
		go func(t int) {
			c.mu.Lock()
			c.byGoid[goid()] = t
			c.mu.Unlock()
			for _, o := range per[t-1] {
				c.park(t, Step{"start", "-", 0})
				tmu.Lock()
				ticket++
				o.Inv = ticket
				tmu.Unlock()
				o.Now = time.Now().Unix()
				ser := srv.ExecDeferred(impl.S(o.Argv...))
				// the executor has returned; the reply is serialised afterwards, as the connection handler does: one more gate
				c.park(t, Step{"reply", "-", 0})
				o.Reply = ser()
				tmu.Lock()
				ticket++
				o.Res = ticket
				tmu.Unlock()
				o.Answered = true
				if o.Reply.K == "panic" {
					break
				}
			}
			c.arrived <- arrival{t: t, finished: true}
		}(t)
	}
	// wait until every live thread stands at its first gate
	waitOne := func(d time.Duration) bool {
		select {
		case a := <-c.arrived:
			th := c.th[a.t-1]
			if a.finished {
				th.finished, th.atGate = true, false
			} else {
				th.atGate, th.gate = true, a.gate
			}
			return true
		case <-time.After(d):
			return false
		}
	}
	for i := 0; i < live; i++ {
		if !waitOne(10 * time.Second) {
			res.outcome, res.detail = "hang", "a command goroutine did not reach its start gate"
			c.active = false
			return res
		}
	}
	grant := func(t int) bool { // open t's gate and wait until t parks again or returns
		th := c.th[t-1]
		th.atGate = false
		th.gates++
		th.grant <- struct{}{}
		if !waitOne(5 * time.Second) {
			// neither a gate nor a return: wait long before calling it a hang (a starved process is not a hang)
			if !waitOne(60 * time.Second) {
				return false
			}
		}
		return true
	}
	hang := func(t int) {
		res.outcome = "hang"
		cur := ""
		for _, o := range per[t-1] {
			if !o.Answered {
				cur = strings.Join(o.Argv, " ")
				break
			}
		}
		res.detail = fmt.Sprintf("thread %d (%s) neither returned nor reached a synchronisation point within 65 s after its gate was opened", t, cur)
	}
	segs := segmentsOf(sched)
	if solo > 0 {
		segs = []segment{{solo, -1}}
	}
	for _, sg := range segs {
		if sg.t < 1 || sg.t > nt {
			continue
		}
		n := 0
		for (sg.n < 0 || n < sg.n) && c.enabled(sg.t) {
			if !grant(sg.t) {
				hang(sg.t)
				c.active = false
				res.progs = c.prog
				return res
			}
			n++
		}
		if sg.n >= 0 && n != sg.n || sg.n < 0 && !c.th[sg.t-1].finished {
			res.followed = false
		}
	}
	// whatever is left: run to completion, lowest enabled thread first
	for {
		unfinished, moved := 0, false
		for t := 1; t <= nt; t++ {
			if c.th[t-1].finished {
				continue
			}
			unfinished++
			for c.enabled(t) {
				moved = true
				if !grant(t) {
					hang(t)
					c.active = false
					res.progs = c.prog
					return res
				}
			}
		}
		if unfinished == 0 {
			break
		}
		if !moved {
			var st []string
			for t := 1; t <= nt; t++ {
				if !c.th[t-1].finished {
					g := c.th[t-1].gate
					st = append(st, fmt.Sprintf("thread %d waits for %s-lock of stripe %d", t, g.Kind, g.Pos-1))
				}
			}
			res.outcome, res.detail = "deadlock", strings.Join(st, "; ")
			break
		}
	}
	c.active = false
	res.progs = c.prog
	for _, o := range res.ops {
		if o.Answered && o.Reply.K == "panic" {
			res.outcome = "panic"
			res.detail = o.Reply.E + ": " + o.Reply.Msg + " in " + strings.Join(o.Argv, " ")
		}
	}
	return res
}

// Key placeholders: $A, $B (a stripe different from $A's), $S (another key on $A's stripe), resolved against the real
// stripe function so that "two stripes" and "one stripe" mean what they say whatever the hash is.
var keyA, keyB, keyS string

func resolveKeys() {
	srv := impl.NewSrv(1)
	db := srv.Mgr.DBs[0]
	keyA = "ka"
	for i := 0; i < 100000 && (keyB == "" || keyS == ""); i++ {
		c := "k" + strconv.Itoa(i)
		if memdb.VerifLockPos(db, c) == memdb.VerifLockPos(db, keyA) {
			if keyS == "" {
				keyS = c
			}
		} else if keyB == "" {
			keyB = c
		}
	}
}

func subst(a []string) []string {
	o := make([]string, len(a))
	for i, x := range a {
		switch x {
		case "$A":
			x = keyA
		case "$B":
			x = keyB
		case "$S":
			x = keyS
		}
		o[i] = x
	}
	return o
}

func substCase(cs *Case) {
	for i := range cs.Setup {
		cs.Setup[i] = subst(cs.Setup[i])
	}
	for t := range cs.Threads {
		for i := range cs.Threads[t] {
			cs.Threads[t][i] = subst(cs.Threads[t][i])
		}
	}
	for i := range cs.Readback {
		cs.Readback[i] = subst(cs.Readback[i])
	}
	cs.Keys = subst(cs.Keys)
}

func cmdsOf(cs *Case) []string {
	var out []string
	for _, a := range cs.Setup {
		out = append(out, "setup: "+strings.Join(a, " "))
	}
	for t, th := range cs.Threads {
		for _, a := range th {
			out = append(out, fmt.Sprintf("t%d: %s", t+1, strings.Join(a, " ")))
		}
	}
	return out
}

func main() {
	if len(os.Args) < 2 {
		fmt.Fprintln(os.Stderr, "usage: sched observe|replay ...")
		os.Exit(2)
	}
	mode := os.Args[1]
	fs := flag.NewFlagSet(mode, flag.ExitOnError)
	in := fs.String("in", "cases.json", "cases")
	out := fs.String("out", "out.json", "output (observe: programmes; replay: history ndjson)")
	schedPath := fs.String("sched", "", "replay: schedules per tuple index {\"<tuple>\": [[t,t,...], ...]}")
	mapPath := fs.String("map", "", "replay: history number -> case / schedule")
	hbase := fs.Int("hbase", 0, "first history number")
	lo := fs.Int("lo", 0, "first case (index) to run")
	hi := fs.Int("hi", 1<<30, "end of the case range")
	fs.Parse(os.Args[2:])

	impl.Init(0)
	memdb.VerifLockHook = lockHook
	memdb.VerifMapHook = mapHook
	var cases []Case
	b, err := os.ReadFile(*in)
	if err != nil {
		panic(err)
	}
	if err := json.Unmarshal(b, &cases); err != nil {
		panic(err)
	}
	if *hi > len(cases) {
		*hi = len(cases)
	}
	resolveKeys()
	for i := range cases {
		substCase(&cases[i])
	}
	switch mode {
	case "observe":
		type obs struct {
			Case  int      `json:"case"`
			Progs [][]Step `json:"progs"`
			Notes []string `json:"notes"`
		}
		var all []obs
		soloHangs := 0
		for i := *lo; i < *hi; i++ {
			cs := &cases[i]
			o := obs{Case: cs.ID}
			for t := 1; t <= len(cs.Threads); t++ {
				if soloHangs >= 2 { // commands that hang by themselves are C04's business; do not wait 65 s for each of them
					o.Notes = append(o.Notes, "not observed (two commands already hung alone)")
					o.Progs = append(o.Progs, []Step{})
					continue
				}
				r := runCase(cs, nil, t)
				if r.outcome != "ok" {
					o.Notes = append(o.Notes, fmt.Sprintf("thread %d alone: %s %s", t, r.outcome, r.detail))
					if r.outcome == "hang" {
						soloHangs++
					}
				}
				p := r.progs[t-1]
				if p == nil {
					p = []Step{}
				}
				o.Progs = append(o.Progs, p)
			}
			all = append(all, o)
		}
		f, _ := os.Create(*out)
		json.NewEncoder(f).Encode(all)
		f.Close()
	case "replay":
		var scheds map[string][][]int
		b, err := os.ReadFile(*schedPath)
		if err != nil {
			panic(err)
		}
		if err := json.Unmarshal(b, &scheds); err != nil {
			panic(err)
		}
		f, _ := os.Create(*out)
		w := bufio.NewWriterSize(f, 1<<20)
		enc := json.NewEncoder(w)
		aenc := json.NewEncoder(os.Stdout)
		type hmap struct {
			H     int   `json:"h"`
			Case  int   `json:"case"`
			Sched []int `json:"sched"`
		}
		var hm []hmap
		h := *hbase
		replays, distinct, exact, anomalies, totalOps, hangs := 0, 0, 0, 0, 0, 0
		for i := *lo; i < *hi && hangs < 2; i++ { // a hang costs 65 s of waiting: two witnesses per process are enough
			cs := &cases[i]
			seen := map[string]bool{}
			for _, sc := range scheds[strconv.Itoa(cs.Tuple)] {
				r := runCase(cs, sc, 0)
				replays++
				if r.followed {
					exact++
				}
				report := func(kind, detail string) {
					anomalies++
					aenc.Encode(anomaly{kind, cs.ID, cs.Family, sc, detail, cmdsOf(cs)})
				}
				if r.outcome != "ok" {
					report(r.outcome, r.detail)
					if r.outcome == "hang" {
						hangs++
						if hangs >= 2 {
							break
						}
					}
					continue
				}
				db := r.srv.Mgr.DBs[0]
				for p := 0; p < memdb.VerifStripes(db); p++ {
					free := memdb.VerifStripeFree(db, p)
					for k := 0; !free && k < 50; k++ {
						time.Sleep(2 * time.Millisecond)
						free = memdb.VerifStripeFree(db, p)
					}
					if !free {
						report("lock-leak", fmt.Sprintf("stripe %d still held at quiescence", p))
					}
				}
				dump := memdb.VerifDump(db)
				if int64(len(dump)) != memdb.VerifKeyCount(db) {
					report("keycount", fmt.Sprintf("key counter %d but %d keys stored", memdb.VerifKeyCount(db), len(dump)))
				}
				objOwner := map[uintptr]string{}
				for _, v := range dump {
					if v.Obj != 0 {
						if other, dup := objOwner[v.Obj]; dup {
							report("structure", fmt.Sprintf("keys %q and %q share one %s object", other, v.Key, v.Type))
						}
						objOwner[v.Obj] = v.Key
					}
					if v.Type == "list" && (!v.ListFwdOK || !v.ListBckOK || len(v.ListFwd) != v.ListLen || len(v.ListBack) != v.ListLen) {
						report("structure", fmt.Sprintf("list %q: Len=%d forward=%d backward=%d", v.Key, v.ListLen, len(v.ListFwd), len(v.ListBack)))
					}
				}
				if cs.NoLin {
					continue
				}
				// sequential read-back
				var tk int64
				for _, o := range r.ops {
					if o.Res > tk {
						tk = o.Res
					}
				}
				nid := len(r.ops)
				rb := cs.Readback
				if len(rb) == 0 {
					for _, k := range cs.Keys {
						rb = append(rb, [][]string{{"TYPE", k}, {"GET", k}, {"LRANGE", k, "0", "-1"}, {"SMEMBERS", k}, {"HGETALL", k}, {"ZRANGE", k, "0", "-1", "WITHSCORES"}, {"XRANGE", k, "-", "+"}, {"EXISTS", k}, {"TTL", k}}...)
					}
				}
				for _, cmd := range rb {
					nid++
					o := &opRec{ID: nid, Argv: cmd, Now: time.Now().Unix(), Answered: true}
					tk++
					o.Inv = tk
					o.Reply = r.srv.Exec(impl.S(cmd...))
					tk++
					o.Res = tk
					r.ops = append(r.ops, o)
				}
				type ev struct {
					t   int64
					inv bool
					o   *opRec
				}
				var evs []ev
				isSetup := map[*opRec]bool{}
				for _, o := range r.setupOps {
					isSetup[o] = true
				}
				for _, o := range r.ops {
					if !isSetup[o] {
						evs = append(evs, ev{o.Inv, true, o}, ev{o.Res, false, o})
					}
				}
				sort.Slice(evs, func(a, b int) bool { return evs[a].t < evs[b].t })
				// signature of the history: identical ones are validated once
				var sb strings.Builder
				for _, e := range evs {
					rb, _ := json.Marshal(e.o.Reply)
					fmt.Fprintf(&sb, "%v%d%s;", e.inv, e.o.ID, rb)
				}
				if seen[sb.String()] {
					continue
				}
				seen[sb.String()] = true
				distinct++
				h++
				hm = append(hm, hmap{h, cs.ID, sc})
				totalOps += len(r.ops)
				enc.Encode(line{Ev: "reset", H: h, Argv: [][]int{}})
				for _, o := range r.setupOps {
					rep := o.Reply
					enc.Encode(line{Ev: "setup", H: h, ID: o.ID, Now: o.Now, Argv: av(o.Argv), Reply: &rep, Answered: true})
				}
				for _, e := range evs {
					rep := e.o.Reply
					if e.inv {
						enc.Encode(line{Ev: "inv", H: h, ID: e.o.ID, Now: e.o.Now, Argv: av(e.o.Argv), Reply: &rep, Answered: e.o.Answered})
					} else {
						enc.Encode(line{Ev: "res", H: h, ID: e.o.ID, Now: e.o.Now, Argv: [][]int{}, Reply: &rep, Answered: true})
					}
				}
			}
		}
		w.Flush()
		f.Close()
		if *mapPath != "" {
			mf, _ := os.Create(*mapPath)
			json.NewEncoder(mf).Encode(hm)
			mf.Close()
		}
		fmt.Printf("SUMMARY {\"cases\":%d,\"replays\":%d,\"distinct_histories\":%d,\"followed_exactly\":%d,\"anomalies\":%d,\"operations\":%d}\n",
			*hi-*lo, replays, distinct, exact, anomalies, totalOps)
	}
}
