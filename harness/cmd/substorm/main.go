// substorm: C19, "subscribing, publishing and disconnecting concurrently never ... block publishers indefinitely".
// Rounds of two to four connections that SUBSCRIBE to the same 2-8 channels in different orders at the same moment (one
// multi-channel SUBSCRIBE each), while a publisher publishes to those channels; afterwards every subscriber must have
// all its confirmations, one PUBLISH per channel must return with the number of subscribers, and each subscriber must
// receive it. A round that does not complete within 20 s is reported (lock-order deadlock between channel locks).
package main

import (
	"context"
	"encoding/json"
	"flag"
	"fmt"
	"math/rand"
	"net"
	"os"
	"sync"
	"time"

	"github.com/innovationb1ue/RedisGO/config"
	"github.com/innovationb1ue/RedisGO/server"
	"verif/harness/impl"
	"verif/harness/respcodec"
)

// readReply reads the next value that is not a push of the early publisher (payload "early")
func readReply(c *cl, d time.Duration) (respcodec.Value, error) {
	for {
		v, err := readValue(c, d)
		if err != nil {
			return v, err
		}
		if v.Kind == '*' && len(v.Elems) == 3 && string(v.Elems[0].Str) == "message" && string(v.Elems[2].Str) == "early" {
			continue
		}
		return v, nil
	}
}

type anomaly struct {
	Kind   string `json:"kind"`
	Round  int    `json:"round"`
	Detail string `json:"detail"`
}

type cl struct {
	c   net.Conn
	buf []byte
}

func wire(args ...string) []byte {
	argv := make([][]byte, len(args))
	for i, a := range args {
		argv[i] = []byte(a)
	}
	return respcodec.EncodeCommand(argv)
}

func readValue(c *cl, d time.Duration) (respcodec.Value, error) {
	deadline := time.Now().Add(d)
	tmp := make([]byte, 4096)
	for {
		if len(c.buf) > 0 {
			v, n, err := respcodec.Decode(c.buf, 0)
			if err == nil {
				c.buf = c.buf[n:]
				return v, nil
			}
			if err != respcodec.ErrIncomplete {
				return v, err
			}
		}
		c.c.SetReadDeadline(deadline)
		n, err := c.c.Read(tmp)
		if n > 0 {
			c.buf = append(c.buf, tmp[:n]...)
			continue
		}
		if err != nil {
			return respcodec.Value{}, err
		}
	}
}

func main() {
	seed := flag.Int64("seed", 1, "")
	rounds := flag.Int("rounds", 300, "")
	flag.Parse()
	impl.Init(0)
	r := rand.New(rand.NewSource(*seed))
	enc := json.NewEncoder(os.Stdout)
	done, anomalies := 0, 0
	// duel: ONE connection subscribed to two channels, one publisher per channel publishing at the same time. Every push must
	// arrive as one intact frame (the channel locks are per channel: nothing but the connection itself orders two pushes to it),
	// and the messages of each channel in the order they were published.
	for duel := 0; duel < 3 && anomalies == 0; duel++ {
		ctx, cancel := context.WithCancel(context.Background())
		mgr := server.NewManager(&config.Config{Databases: 1})
		dial := func() *cl {
			a, b := net.Pipe()
			go mgr.Handle(ctx, b)
			return &cl{c: a}
		}
		sub := dial()
		sub.c.Write(wire("SUBSCRIBE", "duel-a", "duel-b"))
		if v, err := readValue(sub, 5*time.Second); err != nil || v.Kind != '*' {
			anomalies++
			enc.Encode(anomaly{"malformed-reply", -1 - duel, fmt.Sprintf("duel: confirmation of SUBSCRIBE duel-a duel-b missing or malformed (%v)", err)})
			cancel()
			break
		}
		const nmsg = 1500
		var wg sync.WaitGroup
		for pi, ch := range []string{"duel-a", "duel-b"} {
			wg.Add(1)
			go func(pi int, ch string) {
				defer wg.Done()
				p := dial()
				for i := 0; i < nmsg; i++ {
					p.c.Write(wire("PUBLISH", ch, fmt.Sprintf("%s-%d-%s", ch, i, string(make([]byte, 40+pi*300)))))
					if _, err := readValue(p, 20*time.Second); err != nil {
						return
					}
				}
			}(pi, ch)
		}
		next := map[string]int{"duel-a": 0, "duel-b": 0}
		for got := 0; got < 2*nmsg; got++ {
			v, err := readValue(sub, 20*time.Second)
			if err != nil {
				anomalies++
				enc.Encode(anomaly{"malformed-push", -1 - duel, fmt.Sprintf("duel: after %d pushes the subscriber of two channels (one publisher each, publishing at the same time) reads %v", got, err)})
				break
			}
			if v.Kind != '*' || len(v.Elems) != 3 || string(v.Elems[0].Str) != "message" {
				anomalies++
				enc.Encode(anomaly{"malformed-push", -1 - duel, fmt.Sprintf("duel: push %d is not a message frame: kind %c with %d elements", got, v.Kind, len(v.Elems))})
				break
			}
			ch := string(v.Elems[1].Str)
			want := fmt.Sprintf("%s-%d-", ch, next[ch])
			if _, ok := next[ch]; !ok || len(v.Elems[2].Str) < len(want) || string(v.Elems[2].Str[:len(want)]) != want {
				anomalies++
				enc.Encode(anomaly{"wrong-push", -1 - duel, fmt.Sprintf("duel: push %d on channel %q carries %.30q, expected message %d of that channel", got, ch, v.Elems[2].Str, next[ch])})
				break
			}
			next[ch]++
		}
		cancel()
		sub.c.Close()
		wg.Wait()
	}
	for round := 0; round < *rounds && anomalies == 0; round++ {
		ctx, cancel := context.WithCancel(context.Background())
		mgr := server.NewManager(&config.Config{Databases: 1})
		dial := func() *cl {
			a, b := net.Pipe()
			go mgr.Handle(ctx, b)
			return &cl{c: a}
		}
		nch := 2 + r.Intn(7)
		nsub := 2 + r.Intn(3)
		chs := make([]string, nch)
		for i := range chs {
			chs[i] = fmt.Sprintf("st-%d-%d", round, i)
		}
		subs := make([]*cl, nsub)
		orders := make([][]string, nsub)
		for i := range subs {
			subs[i] = dial()
			o := append([]string{}, chs...)
			if i%2 == 1 { // opposite order
				for a, b := 0, len(o)-1; a < b; a, b = a+1, b-1 {
					o[a], o[b] = o[b], o[a]
				}
			} else if i > 0 {
				r.Shuffle(len(o), func(a, b int) { o[a], o[b] = o[b], o[a] })
			}
			orders[i] = o
		}
		pub := dial()
		// in every other round the channels already have ONE subscriber, which hangs up at the very moment the others
		// subscribe: whatever is torn down for the connection that leaves must not take the new subscriptions with it
		var leaver *cl
		if round%2 == 1 {
			leaver = dial()
			argv := [][]byte{[]byte("SUBSCRIBE")}
			for _, c := range chs {
				argv = append(argv, []byte(c))
			}
			leaver.c.SetWriteDeadline(time.Now().Add(40 * time.Second))
			leaver.c.Write(respcodec.EncodeCommand(argv))
			readValue(leaver, 40*time.Second)
		}
		finished := make(chan string, 1)
		go func() {
			var wg sync.WaitGroup
			start := make(chan struct{})
			earlyDone := make(chan struct{})
			if leaver == nil {
				close(earlyDone)
			}
			errs := make(chan string, nsub+1)
			for i := range subs {
				wg.Add(1)
				go func(i int) {
					defer wg.Done()
					argv := [][]byte{[]byte("SUBSCRIBE")}
					for _, c := range orders[i] {
						argv = append(argv, []byte(c))
					}
					<-start
					subs[i].c.SetWriteDeadline(time.Now().Add(15 * time.Second))
					if _, err := subs[i].c.Write(respcodec.EncodeCommand(argv)); err != nil {
						errs <- fmt.Sprintf("subscriber %d: SUBSCRIBE not accepted: %v", i, err)
						return
					}
					// this server answers a multi-channel SUBSCRIBE with ONE array of (subscribe, channel, 1) triples
					v, err := readReply(subs[i], 40*time.Second)
					if err != nil || v.Kind != '*' || len(v.Elems) != 3*nch || string(v.Elems[0].Str) != "subscribe" {
						errs <- fmt.Sprintf("subscriber %d: confirmation of SUBSCRIBE %v missing or malformed (%v, %d elements)", i, orders[i], err, len(v.Elems))
						return
					}
					// keep reading while the early publisher is at work (the pipe is synchronous: a push nobody reads blocks PUBLISH)
					for {
						select {
						case <-earlyDone:
							return
						default:
						}
						if m, err := readValue(subs[i], 2*time.Millisecond); err == nil {
							if !(m.Kind == '*' && len(m.Elems) == 3 && string(m.Elems[2].Str) == "early") {
								errs <- fmt.Sprintf("subscriber %d received an unexpected value while waiting: %q", i, m.Str)
								return
							}
						}
					}
				}(i)
			}
			if leaver != nil {
				wg.Add(2)
				go func() {
					defer wg.Done()
					<-start
					leaver.c.Close()
				}()
				// ... and a publisher is publishing to those channels at that very moment (it meets the dead subscriber and the
				// arriving ones); what it reports is not judged, what it leaves behind is
				early := dial()
				go func() {
					defer wg.Done()
					defer early.c.Close()
					defer close(earlyDone)
					<-start
					for rep := 0; rep < 2; rep++ {
						for _, c := range chs {
							early.c.SetWriteDeadline(time.Now().Add(40 * time.Second))
							early.c.Write(respcodec.EncodeCommand([][]byte{[]byte("PUBLISH"), []byte(c), []byte("early")}))
							if _, err := readValue(early, 40*time.Second); err != nil {
								return
							}
						}
					}
				}()
			}
			close(start)
			wg.Wait()
			if leaver != nil {
				time.Sleep(2 * time.Millisecond) // let the server notice the closed connection (its count is then exact again)
			}
			select {
			case e := <-errs:
				finished <- e
				return
			default:
			}
			// one PUBLISH per channel: must return nsub and reach every subscriber
			for _, c := range chs {
				// net.Pipe is synchronous: the subscribers must be reading while the publisher's Send writes to them
				type got struct {
					i   int
					m   respcodec.Value
					err error
				}
				res := make(chan got, nsub)
				for i := range subs {
					go func(i int) {
						m, err := readReply(subs[i], 40*time.Second)
						res <- got{i, m, err}
					}(i)
				}
				pub.c.SetWriteDeadline(time.Now().Add(15 * time.Second))
				pub.c.Write(respcodec.EncodeCommand([][]byte{[]byte("PUBLISH"), []byte(c), []byte("hello")}))
				v, err := readValue(pub, 40*time.Second)
				if err != nil {
					finished <- fmt.Sprintf("PUBLISH %s did not return (%v)", c, err)
					return
				}
				// (a subscriber whose disconnect the server has not processed yet may still be counted: DESIGN 2.4)
				if v.Kind != ':' || (int(v.Int) != nsub && !(leaver != nil && int(v.Int) == nsub+1)) {
					finished <- fmt.Sprintf("PUBLISH %s reported %d receivers, %d connections are subscribed", c, v.Int, nsub)
					return
				}
				for range subs {
					g := <-res
					if g.err != nil || g.m.Kind != '*' || len(g.m.Elems) != 3 || string(g.m.Elems[1].Str) != c || string(g.m.Elems[2].Str) != "hello" {
						finished <- fmt.Sprintf("subscriber %d did not receive the message published to %s (%v)", g.i, c, g.err)
						return
					}
				}
			}
			finished <- ""
		}()
		select {
		case e := <-finished:
			if e != "" {
				anomalies++
				enc.Encode(anomaly{"subscribe-storm", round, e})
			}
		case <-time.After(50 * time.Second):
			// wait long before calling it a deadlock (a starved process is not one)
			select {
			case e := <-finished:
				if e != "" {
					anomalies++
					enc.Encode(anomaly{"subscribe-storm", round, e})
				}
			case <-time.After(60 * time.Second):
				anomalies++
				enc.Encode(anomaly{"blocked", round, fmt.Sprintf("%d connections subscribing to %d channels in different orders at the same moment, then publishing: not finished after 110 s", nsub, nch)})
			}
		}
		done++
		cancel()
		for _, s := range subs {
			s.c.Close()
		}
		pub.c.Close()
	}
	fmt.Printf("SUMMARY {\"rounds\":%d,\"anomalies\":%d}\n", done, anomalies)
}
