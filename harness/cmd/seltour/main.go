// seltour: C20 edge walker. Replays every transition of spec/Select.tla (MC_Select*.cfg) on a real
// server.Manager shared by several connections, each served by Manager.Handle over a net.Pipe, sending one
// command at a time on the connection the model names and comparing the reply and the contents of EVERY database.
package main

import (
	"bufio"
	"context"
	"encoding/json"
	"flag"
	"fmt"
	"net"
	"os"
	"strconv"
	"strings"
	"time"

	"github.com/innovationb1ue/RedisGO/config"
	"github.com/innovationb1ue/RedisGO/memdb"
	"github.com/innovationb1ue/RedisGO/server"
	"verif/harness/canon"
	"verif/harness/impl"
	"verif/harness/respcodec"
)

type kv struct {
	K []int `json:"k"`
	V []int `json:"v"`
}
type mstate struct {
	Dbs [][]kv `json:"dbs"`
	Sel []int  `json:"sel"`
}
type rawEdge struct {
	S    json.RawMessage `json:"s"`
	Conn int             `json:"conn"`
	C    [][]int         `json:"c"`
	R    canon.Pat       `json:"r"`
	B    string          `json:"b"`
	T    json.RawMessage `json:"t"`
}
type outcome struct {
	r canon.Pat
	b string
	t int
}
type step struct {
	conn int
	argv [][]byte
}
type cmdEdges struct {
	st   step
	outs []outcome
}
type failure struct {
	Kind   string     `json:"kind"`
	Branch string     `json:"branch"`
	Detail string     `json:"detail"`
	Path   []string   `json:"path"`
	Cmd    string     `json:"cmd"`
	Got    impl.Reply `json:"got"`
	Labels []string   `json:"labels"`
}

func show(s step) string {
	parts := []string{"c" + strconv.Itoa(s.conn) + ":"}
	for _, a := range s.argv {
		parts = append(parts, strconv.Quote(string(a)))
	}
	return strings.Join(parts, " ")
}

type sys struct {
	mgr    *server.Manager
	conns  []net.Conn
	cancel context.CancelFunc
}

func newSys(ndb, nconn int) *sys {
	ctx, cancel := context.WithCancel(context.Background())
	s := &sys{mgr: server.NewManager(&config.Config{Databases: ndb}), cancel: cancel}
	for i := 0; i < nconn; i++ {
		a, b := net.Pipe()
		go s.mgr.Handle(ctx, b)
		s.conns = append(s.conns, a)
	}
	return s
}

func (s *sys) close() {
	s.cancel()
	for _, c := range s.conns {
		c.Close()
	}
}

// send one command on connection i (1-based) and read exactly one reply
func (s *sys) do(st step) impl.Reply {
	c := s.conns[st.conn-1]
	c.SetDeadline(time.Now().Add(30 * time.Second))
	if _, err := c.Write(respcodec.EncodeCommand(st.argv)); err != nil {
		return impl.Reply{K: "noreply", E: err.Error()}
	}
	var buf []byte
	tmp := make([]byte, 4096)
	for {
		n, err := c.Read(tmp)
		buf = append(buf, tmp[:n]...)
		if v, _, derr := respcodec.Decode(buf, 0); derr == nil {
			return impl.FromValue(v)
		} else if derr != respcodec.ErrIncomplete {
			return impl.Reply{K: "malformed", Msg: derr.Error()}
		}
		if err != nil {
			return impl.Reply{K: "noreply", E: err.Error()}
		}
	}
}

func diff(ms mstate, s *sys) string {
	for i, db := range ms.Dbs {
		var dump []memdb.VerifValue
		if s.mgr.DBs[i] != nil { // a database object that does not exist (yet) is an empty database
			dump = memdb.VerifDump(s.mgr.DBs[i])
		}
		if len(dump) != len(db) {
			return fmt.Sprintf("database %d has %d keys, model %d", i, len(dump), len(db))
		}
		for _, e := range db {
			found := false
			for _, v := range dump {
				if v.Key == string(impl.I2B(e.K)) {
					found = true
					if string(v.Str) != string(impl.I2B(e.V)) {
						return fmt.Sprintf("database %d key %q = %q, model %q", i, v.Key, v.Str, impl.I2B(e.V))
					}
				}
			}
			if !found {
				return fmt.Sprintf("database %d lacks key %q", i, impl.I2B(e.K))
			}
		}
	}
	return ""
}

func main() {
	ndb := flag.Int("ndb", 2, "configured databases")
	nconn := flag.Int("conns", 2, "connections")
	sample := flag.Int("sample", 0, "if > 0 test an edge only while one of its labels was covered fewer than N times (or it discovers a state)")
	flag.Parse()
	impl.Init(0)
	in := bufio.NewReaderSize(os.Stdin, 1<<24)
	stateID := map[string]int{}
	var states []string
	var edges []map[string]*cmdEdges
	var order [][]string
	intern := func(raw json.RawMessage) int {
		k := string(raw)
		if id, ok := stateID[k]; ok {
			return id
		}
		stateID[k] = len(states)
		states = append(states, k)
		edges = append(edges, map[string]*cmdEdges{})
		order = append(order, nil)
		return len(states) - 1
	}
	initID, nEdges := -1, 0
	for {
		line, err := in.ReadString('\n')
		if len(line) > 0 && line[0] == '"' {
			var s string
			if json.Unmarshal([]byte(strings.TrimRight(line, "\r\n")), &s) == nil {
				if strings.HasPrefix(s, "EDGE ") {
					var e rawEdge
					if json.Unmarshal([]byte(s[5:]), &e) != nil {
						os.Exit(2)
					}
					sid, tid := intern(e.S), intern(e.T)
					argv := make([][]byte, len(e.C))
					for i, a := range e.C {
						argv[i] = impl.I2B(a)
					}
					st := step{e.Conn, argv}
					ck := show(st)
					ce := edges[sid][ck]
					if ce == nil {
						ce = &cmdEdges{st: st}
						edges[sid][ck] = ce
						order[sid] = append(order[sid], ck)
					}
					ce.outs = append(ce.outs, outcome{e.R, e.B, tid})
					nEdges++
				} else if strings.HasPrefix(s, "INIT ") {
					initID = intern(json.RawMessage(s[5:]))
				}
			}
		}
		if err != nil {
			break
		}
	}
	if initID < 0 {
		fmt.Fprintln(os.Stderr, "no INIT")
		os.Exit(2)
	}
	parse := func(id int) mstate {
		var m mstate
		json.Unmarshal([]byte(states[id]), &m)
		return m
	}
	paths := make([][]step, len(states))
	reached := make([]bool, len(states))
	reached[initID] = true
	queue := []int{initID}
	enc := json.NewEncoder(os.Stdout)
	labelCount := map[string]int{}
	allLabels := map[string]bool{}
	tested, failed, skipped := 0, 0, 0
	replay := func(p []step) *sys {
		s := newSys(*ndb, *nconn)
		for _, st := range p {
			s.do(st)
		}
		return s
	}
	for len(queue) > 0 {
		sid := queue[0]
		queue = queue[1:]
		for _, ck := range order[sid] {
			ce := edges[sid][ck]
			need := *sample == 0
			for _, o := range ce.outs {
				allLabels[o.b] = true
				if labelCount[o.b] < *sample || !reached[o.t] {
					need = true
				}
			}
			if !need {
				skipped++
				continue
			}
			s := replay(paths[sid])
			got := s.do(ce.st)
			tested++
			var labels []string
			for _, o := range ce.outs {
				labels = append(labels, o.b)
			}
			rep := func(kind, detail string) {
				failed++
				var p []string
				for _, st := range paths[sid] {
					p = append(p, show(st))
				}
				if failed <= 60 {
					enc.Encode(failure{kind, ce.outs[0].b, detail, p, ck, got, labels})
				}
			}
			okT := -1
			matched := false
			d := ""
			for _, o := range ce.outs {
				if canon.Match(o.r, got) {
					matched = true
					if d = diff(parse(o.t), s); d == "" {
						okT = o.t
						labelCount[o.b]++
						break
					}
				}
			}
			s.close()
			if !matched {
				rep("reply", canon.KindDetail([]canon.Pat{ce.outs[0].r}, got))
				continue
			}
			if okT < 0 {
				rep("state", d)
				continue
			}
			if !reached[okT] {
				reached[okT] = true
				paths[okT] = append(append([]step{}, paths[sid]...), ce.st)
				queue = append(queue, okT)
			}
		}
	}
	n := 0
	for _, r := range reached {
		if r {
			n++
		}
	}
	fmt.Printf("SUMMARY {\"states\":%d,\"states_reached\":%d,\"edges\":%d,\"edges_tested\":%d,\"edges_failed\":%d,\"skipped_by_sampling\":%d,\"labels_total\":%d,\"labels_passed\":%d}\n",
		len(states), n, nEdges, tested, failed, skipped, len(allLabels), len(labelCount))
}
