// globcheck: C17 binding. Reads the Match table printed by TLC for MC_Glob (SUBJECTS + ROW lines as quoted
// TLA+ strings) and compares, for every (pattern, subject) pair, util.PattenMatch with the table, then the
// KEYS command on a keyspace holding every subject (plus keys that have already expired) with the row.
// "U" entries (constructs the grammar leaves open) only require termination without panic.
package main

import (
	"bufio"
	"encoding/json"
	"fmt"
	"os"
	"sort"
	"strings"
	"time"

	"github.com/innovationb1ue/RedisGO/util"
	"verif/harness/impl"
)

type row struct {
	P  []int    `json:"p"`
	St string   `json:"st"`
	R  []string `json:"r"`
}

type fail struct {
	Kind    string `json:"kind"` // match | panic | hang | keys
	Pattern string `json:"pattern"`
	Subject string `json:"subject"`
	Want    string `json:"want"`
	Got     string `json:"got"`
	Status  string `json:"status"`
}

func callMatch(p, s string) (res bool, panicked string, hung bool) {
	type out struct {
		r bool
		p string
	}
	ch := make(chan out, 1)
	go func() {
		defer func() {
			if r := recover(); r != nil {
				ch <- out{false, fmt.Sprint(r)}
			}
		}()
		ch <- out{util.PattenMatch(p, s), ""}
	}()
	select {
	case o := <-ch:
		return o.r, o.p, false
	case <-time.After(2 * time.Second):
	}
	// Patterns and subjects are a few bytes long: a call that has not returned after 2 s is either looping for ever or
	// this process is not being scheduled (loaded machine). Only the former is a verdict: keep waiting for the same call.
	select {
	case o := <-ch:
		return o.r, o.p, false
	case <-time.After(60 * time.Second):
		return false, "", true
	}
}

func main() {
	in := bufio.NewReaderSize(os.Stdin, 1<<24)
	var subjects []string
	enc := json.NewEncoder(os.Stdout)
	pairs, rows, fails, unspec, keysChecked := 0, 0, 0, 0, 0
	distinct := map[string]bool{}
	var srv *impl.Srv
	setup := func() {
		srv = impl.NewSrv(1)
		for _, s := range subjects {
			srv.Exec(impl.S("SET", s, "v"))
		}
		// keys that must not be returned: deleted, and expired (deadline in the past)
		srv.Exec(impl.S("SET", "aaaa", "v"))
		srv.Exec(impl.S("DEL", "aaaa"))
		srv.Exec(impl.S("SET", "abab", "v", "EXAT", "1"))
	}
	for {
		line, err := in.ReadString('\n')
		if len(line) > 0 && line[0] == '"' {
			var s string
			if json.Unmarshal([]byte(strings.TrimRight(line, "\r\n")), &s) == nil {
				if strings.HasPrefix(s, "SUBJECTS ") && subjects == nil {
					var sj struct {
						S [][]int `json:"s"`
					}
					json.Unmarshal([]byte(s[9:]), &sj)
					for _, x := range sj.S {
						subjects = append(subjects, string(impl.I2B(x)))
					}
					setup()
				} else if strings.HasPrefix(s, "ROW ") {
					var r row
					if json.Unmarshal([]byte(s[4:]), &r) != nil || len(r.R) != len(subjects) {
						fmt.Fprintln(os.Stderr, "bad row")
						os.Exit(2)
					}
					rows++
					pat := string(impl.I2B(r.P))
					rowBad := false
					var want []string
					for i, w := range r.R {
						pairs++
						got, pan, hung := callMatch(pat, subjects[i])
						switch {
						case hung:
							enc.Encode(fail{"hang", pat, subjects[i], w, "no return within 62s", r.St})
							fails++
							rowBad = true
						case pan != "":
							enc.Encode(fail{"panic", pat, subjects[i], w, pan, r.St})
							fails++
							rowBad = true
						case w == "U":
							unspec++
						case (w == "T") != got:
							if fails < 200 {
								enc.Encode(fail{"match", pat, subjects[i], w, fmt.Sprint(got), r.St})
							}
							fails++
							rowBad = true
							distinct[r.St+"|"+w] = true
						}
						if w == "T" {
							want = append(want, subjects[i])
						}
					}
					// KEYS on the populated keyspace (only for patterns the grammar settles and util agrees on)
					if r.St != "unspec" && !rowBad {
						rep := srv.Exec(impl.S("KEYS", pat))
						keysChecked++
						var got []string
						ok := rep.K == "arr"
						for _, e := range rep.A {
							got = append(got, string(impl.I2B(e.V)))
						}
						sort.Strings(got)
						sort.Strings(want)
						if !ok || strings.Join(got, "\x00") != strings.Join(want, "\x00") {
							enc.Encode(fail{"keys", pat, "", fmt.Sprintf("%q", want), fmt.Sprintf("%s %q %s", rep.K, got, rep.Msg), r.St})
							fails++
							if rep.K == "panic" {
								setup()
							}
						}
					}
				}
			}
		}
		if err != nil {
			break
		}
	}
	fmt.Printf("SUMMARY {\"rows\":%d,\"pairs\":%d,\"fails\":%d,\"unspecified_pairs\":%d,\"keys_checked\":%d,\"subjects\":%d}\n", rows, pairs, fails, unspec, keysChecked, len(subjects))
}
