// lockobs: the B3 "lock-order witness" tool of property C13 (multi-key commands are deadlock-free).
//
//	lockobs observe -tier quick|thorough -seed N -out obs.json
//	    runs every multi-key command form (and representative single-key commands) ALONE on a prepared keyspace, for
//	    every key-role x stripe configuration (distinct stripes ascending / descending / mixed, two keys on one stripe,
//	    the same key twice, destination = source, missing keys, keys that have JUST EXPIRED and are not yet purged so
//	    that CheckTTL takes its own lock), each on its own fresh in-process server, and records through
//	    memdb.VerifLockHook the command's LOCK PROGRAMME: the steps (acq|rel, R|W, stripe) of the goroutine that
//	    executes the command. Hazards visible in one programme (a stripe requested while held, a non-ascending
//	    request while something is held, a stripe still held at the end, a command that hangs by itself) are listed.
//	lockobs replay -spec spec.json
//	    starts the two or three real commands of a counterexample found by TLC (spec/MC_Locks.tla) as goroutines on
//	    ONE fresh server, with the same key-role x stripe configuration (each command on its own key names, on the
//	    same stripes), holds every lock request at the "want" hook until the controller grants it in TLC's order,
//	    then opens all gates and lets a 20 s watchdog decide: commands that do not return are a real deadlock of the
//	    real code; the stripe ownership (hook accounting + TryLock probe) is compared with TLC's prediction.
package main

import (
	"encoding/json"
	"flag"
	"fmt"
	"math/rand"
	"os"
	"runtime"
	"sort"
	"strconv"
	"strings"
	"sync"
	"sync/atomic"
	"time"

	"github.com/innovationb1ue/RedisGO/memdb"
	"verif/harness/impl"
)

// ---------------------------------------------------------------- catalogue

type Step struct {
	Op   string `json:"op"`   // acq | rel
	Kind string `json:"kind"` // R | W
	Pos  int    `json:"pos"`  // stripe
}

type form struct {
	Name     string // unique name, e.g. "MSET/3"
	Cmd      string
	N        int    // key roles
	Typ      string // str | list | set : what a "present" key holds
	Argv     func(k []string) []string
	Blocking bool
}

func cat(head []string, k []string, tail ...string) []string {
	out := append([]string{}, head...)
	out = append(out, k...)
	return append(out, tail...)
}

func forms() []form {
	var fs []form
	add := func(cmd string, n int, typ string, blocking bool, argv func(k []string) []string) {
		fs = append(fs, form{Name: cmd + "/" + strconv.Itoa(n), Cmd: cmd, N: n, Typ: typ, Argv: argv, Blocking: blocking})
	}
	for _, n := range []int{2, 3} {
		add("MSET", n, "str", false, func(k []string) []string {
			a := []string{"MSET"}
			for _, x := range k {
				a = append(a, x, "7")
			}
			return a
		})
	}
	add("RENAME", 2, "str", false, func(k []string) []string { return cat([]string{"RENAME"}, k) })
	add("LMOVE", 2, "list", false, func(k []string) []string { return cat([]string{"LMOVE"}, k, "LEFT", "RIGHT") })
	add("SMOVE", 2, "set", false, func(k []string) []string { return cat([]string{"SMOVE"}, k, "m1") })
	for _, c := range []string{"SUNION", "SINTER", "SDIFF"} {
		c := c
		for _, n := range []int{2, 3} {
			add(c, n, "set", false, func(k []string) []string { return cat([]string{c}, k) })
		}
	}
	for _, c := range []string{"SUNIONSTORE", "SINTERSTORE", "SDIFFSTORE"} {
		c := c
		for _, n := range []int{2, 3} {
			add(c, n, "set", false, func(k []string) []string { return cat([]string{c}, k) }) // role 0 = destination
		}
	}
	for _, c := range []string{"DEL", "EXISTS", "MGET"} {
		c := c
		for _, n := range []int{2, 3} {
			add(c, n, "str", false, func(k []string) []string { return cat([]string{c}, k) })
		}
	}
	for _, c := range []string{"BLPOP", "BRPOP"} {
		c := c
		add(c, 2, "list", true, func(k []string) []string { return cat([]string{c}, k, "1") })
	}
	// representative single-key commands
	add("SET", 1, "str", false, func(k []string) []string { return []string{"SET", k[0], "5"} })
	add("GET", 1, "str", false, func(k []string) []string { return []string{"GET", k[0]} })
	add("INCR", 1, "str", false, func(k []string) []string { return []string{"INCR", k[0]} })
	add("LPUSH", 1, "list", false, func(k []string) []string { return []string{"LPUSH", k[0], "x"} })
	add("SADD", 1, "set", false, func(k []string) []string { return []string{"SADD", k[0], "x"} })
	add("EXPIRE", 1, "str", false, func(k []string) []string { return []string{"EXPIRE", k[0], "100"} })
	add("TTL", 1, "str", false, func(k []string) []string { return []string{"TTL", k[0]} })
	add("KEYS", 1, "str", false, func(k []string) []string { return []string{"KEYS", "*"} })
	return fs
}

func formByName(n string) *form {
	for _, f := range forms() {
		if f.Name == n {
			f := f
			return &f
		}
	}
	return nil
}

// A key id ("kid") is 2*rank+tag: rank 0..2 selects one of the three stripes of the group (ascending), tag 0/1
// distinguishes two different keys on the same stripe. A pattern assigns a kid to every key role.
func canonPattern(p []int) string {
	// rename tags by first appearance within each rank, so that (1,1) == (0,0) and (1,0) == (0,1)
	seen := map[int]map[int]int{}
	out := make([]string, len(p))
	for i, k := range p {
		r, t := k/2, k%2
		if seen[r] == nil {
			seen[r] = map[int]int{}
		}
		if _, ok := seen[r][t]; !ok {
			seen[r][t] = len(seen[r])
		}
		out[i] = strconv.Itoa(r*2 + seen[r][t])
	}
	return strings.Join(out, ",")
}

func allTuples(n int, pool []int) [][]int {
	if n == 0 {
		return [][]int{{}}
	}
	var out [][]int
	for _, t := range allTuples(n-1, pool) {
		for _, k := range pool {
			out = append(out, append(append([]int{}, t...), k))
		}
	}
	return out
}

// patterns returns (base patterns, extra patterns): base patterns get the full state product in the thorough tier
func patterns(n int, thorough bool) (base [][]int, extra [][]int) {
	var b, e [][]int
	switch n {
	case 1:
		b = [][]int{{0}}
		if thorough {
			e = [][]int{{2}, {4}}
		}
	case 2:
		b = allTuples(2, []int{0, 1, 2, 4})
		if thorough {
			e = allTuples(2, []int{0, 1, 2, 3, 4, 5})
		}
	default:
		b = allTuples(n, []int{0, 2, 4})
		b = append(b, []int{0, 1, 2}, []int{2, 1, 0}, []int{1, 2, 0}, []int{0, 2, 1}, []int{2, 0, 1}, []int{4, 0, 1}, []int{0, 4, 1})
		if thorough {
			e = allTuples(n, []int{0, 1, 2, 3, 4, 5})
		}
	}
	seen := map[string]bool{}
	for _, p := range b {
		c := canonPattern(p)
		if !seen[c] {
			seen[c] = true
			base = append(base, canonInts(c))
		}
	}
	for _, p := range e {
		c := canonPattern(p)
		if !seen[c] {
			seen[c] = true
			extra = append(extra, canonInts(c))
		}
	}
	return
}

func canonInts(c string) []int {
	var out []int
	for _, s := range strings.Split(c, ",") {
		v, _ := strconv.Atoi(s)
		out = append(out, v)
	}
	return out
}

func distinctKids(p []int) []int {
	var out []int
	seen := map[int]bool{}
	for _, k := range p {
		if !seen[k] {
			seen[k] = true
			out = append(out, k)
		}
	}
	return out
}

// stateSets: assignments kid -> 'P' present, 'M' missing, 'X' just expired and not yet purged
func stateSets(kids []int, full bool) []map[int]byte {
	var out []map[int]byte
	if full {
		n := 1
		for range kids {
			n *= 3
		}
		for c := 0; c < n; c++ {
			m := map[int]byte{}
			x := c
			for _, k := range kids {
				m[k] = "PMX"[x%3]
				x /= 3
			}
			out = append(out, m)
		}
		return out
	}
	all := func(b byte) map[int]byte {
		m := map[int]byte{}
		for _, k := range kids {
			m[k] = b
		}
		return m
	}
	out = append(out, all('P'), all('M'))
	if len(kids) > 1 {
		out = append(out, all('X'))
	}
	for _, b := range []byte{'M', 'X'} {
		for _, k := range kids {
			m := all('P')
			m[k] = b
			if len(kids) > 1 || b == 'X' {
				out = append(out, m)
			}
		}
	}
	return out
}

type config struct {
	Kids   []int  // per role
	States string // per role: P | M | X
}

func (c config) label() string {
	parts := make([]string, len(c.Kids))
	for i, k := range c.Kids {
		parts[i] = fmt.Sprintf("%d%c.%c", k/2, 'a'+byte(k%2), c.States[i])
	}
	return strings.Join(parts, ",")
}

func (c config) hasX() bool { return strings.Contains(c.States, "X") }

func mkConfig(p []int, st map[int]byte) config {
	b := make([]byte, len(p))
	for i, k := range p {
		b[i] = st[k]
	}
	return config{Kids: append([]int{}, p...), States: string(b)}
}

// ---------------------------------------------------------------- key names and keyspace preparation

var keyCache sync.Map

// keyName: a deterministic key name for process q, key id kid, that lives on the given stripe
func keyName(db *memdb.MemDb, q, kid, stripe int) string {
	ck := [3]int{q, kid, stripe}
	if v, ok := keyCache.Load(ck); ok {
		return v.(string)
	}
	for i := 0; ; i++ {
		name := fmt.Sprintf("q%dk%d_%d", q, kid, i)
		if memdb.VerifLockPos(db, name) == stripe {
			keyCache.Store(ck, name)
			return name
		}
	}
}

type instance struct {
	f      *form
	cfg    config
	q      int
	stripe [3]int
	srv    *impl.Srv
	keys   []string // per role
	argv   []string
	xkeys  []string // keys prepared as "expires at the next second"
	sec    int64    // unix second in which the keyspace was prepared
}

func (in *instance) db() *memdb.MemDb { return in.srv.Mgr.DBs[0] }

// prepare creates the keys of the configuration on in.srv
func (in *instance) prepare() error {
	db := in.db()
	in.keys = make([]string, len(in.cfg.Kids))
	done := map[int]bool{}
	in.xkeys = nil
	for i, kid := range in.cfg.Kids {
		name := keyName(db, in.q, kid, in.stripe[kid/2])
		in.keys[i] = name
		if done[kid] {
			continue
		}
		done[kid] = true
		st := in.cfg.States[i]
		if st == 'M' {
			continue
		}
		var r impl.Reply
		switch in.f.Typ {
		case "str":
			r = in.srv.Exec(impl.S("SET", name, "1"))
		case "list":
			r = in.srv.Exec(impl.S("RPUSH", name, "a", "b"))
		case "set":
			r = in.srv.Exec(impl.S("SADD", name, "m1", "m2"))
		}
		if r.K == "err" || r.K == "panic" {
			return fmt.Errorf("setup of %s failed: %s %s", name, r.K, r.Msg)
		}
		if st == 'X' {
			r = in.srv.Exec(impl.S("EXPIRE", name, "1"))
			if r.K != "int" || string(impl.I2B(r.V)) != "1" {
				return fmt.Errorf("EXPIRE %s 1 failed: %s %s", name, r.K, r.Msg)
			}
			in.xkeys = append(in.xkeys, name)
		}
	}
	in.sec = time.Now().Unix()
	in.argv = in.f.Argv(in.keys)
	return nil
}

// expiredNow: every X key is still stored with a deadline that has passed (CheckTTL will purge it under its own lock)
func (in *instance) expiredNow() bool {
	if len(in.xkeys) == 0 {
		return true
	}
	now := time.Now().Unix()
	ttl := memdb.VerifTTLKeys(in.db())
	for _, k := range in.xkeys {
		d, ok := ttl[k]
		if !ok || d > now {
			return false
		}
	}
	return true
}

// ---------------------------------------------------------------- goroutine identity and the hook

func goid() int64 {
	var buf [40]byte
	n := runtime.Stack(buf[:], false)
	// "goroutine 123 ["
	s := buf[10:n]
	var id int64
	for _, c := range s {
		if c < '0' || c > '9' {
			break
		}
		id = id*10 + int64(c-'0')
	}
	return id
}

type rec struct {
	mu      sync.Mutex
	prog    []Step
	held    map[int][2]int // stripe -> [read, write] held by this goroutine
	stuck   bool
	stuckCh chan struct{}
}

var (
	recMu sync.RWMutex
	recs  = map[int64]*rec{}
)

func kindIdx(kind string) int {
	if kind == "W" {
		return 1
	}
	return 0
}

func obsHook(kind string, pos int, phase string) {
	g := goid()
	recMu.RLock()
	r := recs[g]
	recMu.RUnlock()
	if r == nil {
		return // setup commands, ttl timer goroutines: not part of the observed programme
	}
	r.mu.Lock()
	defer r.mu.Unlock()
	switch phase {
	case "want":
		r.prog = append(r.prog, Step{"acq", kind, pos})
		h := r.held[pos]
		// sync.RWMutex is not reentrant: Lock of a stripe held in any mode and RLock of a stripe held for writing never return
		if !r.stuck && ((kind == "W" && h[0]+h[1] > 0) || (kind == "R" && h[1] > 0)) {
			r.stuck = true
			close(r.stuckCh)
		}
	case "got":
		h := r.held[pos]
		h[kindIdx(kind)]++
		r.held[pos] = h
	case "rel":
		r.prog = append(r.prog, Step{"rel", kind, pos})
		h := r.held[pos]
		if h[kindIdx(kind)] > 0 {
			h[kindIdx(kind)]--
		}
		r.held[pos] = h
	}
}

// hazards of one programme (not yet violations): reacquire, non-ascending, leak
func hazards(prog []Step, stuck bool) []string {
	var out []string
	held := map[int][2]int{}
	add := func(s string) {
		for _, x := range out {
			if x == s {
				return
			}
		}
		out = append(out, s)
	}
	for i, st := range prog {
		h := held[st.Pos]
		if st.Op == "acq" {
			if h[0]+h[1] > 0 {
				add(fmt.Sprintf("reacquire:%s%d-while-holding-it", st.Kind, st.Pos))
			} else {
				mx := -1
				for p, c := range held {
					if c[0]+c[1] > 0 && p > mx {
						mx = p
					}
				}
				if mx > st.Pos {
					add(fmt.Sprintf("non-ascending:%s%d-while-holding-%d", st.Kind, st.Pos, mx))
				}
			}
			if stuck && i == len(prog)-1 {
				break
			}
			h[kindIdx(st.Kind)]++
		} else if h[kindIdx(st.Kind)] > 0 {
			h[kindIdx(st.Kind)]--
		}
		held[st.Pos] = h
	}
	if stuck {
		add("hangs-alone")
	} else {
		var ps []int
		for p, c := range held {
			if c[0]+c[1] > 0 {
				ps = append(ps, p)
			}
		}
		sort.Ints(ps)
		for _, p := range ps {
			add(fmt.Sprintf("leak:%d-held-at-return", p))
		}
	}
	return out
}

// collapse a programme that is an exact repetition of a block (BLPOP poll rounds) to one block
func collapse(p []Step) ([]Step, int) {
	n := len(p)
	for per := 1; per <= n/2; per++ {
		if n%per != 0 {
			continue
		}
		ok := true
		for i := per; i < n && ok; i++ {
			ok = p[i] == p[i-per]
		}
		if ok {
			return p[:per], n / per
		}
	}
	return p, 1
}

// ---------------------------------------------------------------- observe

type obsOut struct {
	Cmd      string   `json:"cmd"`
	Form     string   `json:"form"`
	Config   string   `json:"config"`
	Kids     []int    `json:"kids"`
	States   string   `json:"states"`
	Group    int      `json:"group"`
	Stripes  [3]int   `json:"stripes"`
	Argv     []string `json:"argv"`
	Prog     []Step   `json:"prog"`
	Rounds   int      `json:"rounds,omitempty"` // blocking commands: identical poll rounds collapsed
	N        int      `json:"n"`                // times this exact programme was observed for this configuration
	Stuck    bool     `json:"stuck"`
	Blocking bool     `json:"blocking"`
	Reply    string   `json:"reply"`
	Hazards  []string `json:"hazards"`
}

type running struct {
	in    *instance
	r     *rec
	done  chan struct{}
	reply impl.Reply
}

func launch(in *instance) *running {
	ru := &running{in: in, r: &rec{held: map[int][2]int{}, stuckCh: make(chan struct{})}, done: make(chan struct{})}
	go func() {
		g := goid()
		recMu.Lock()
		recs[g] = ru.r
		recMu.Unlock()
		ru.reply = in.srv.Exec(impl.S(in.argv...))
		recMu.Lock()
		delete(recs, g)
		recMu.Unlock()
		close(ru.done)
	}()
	return ru
}

// wait returns (programme, stuck)
func (ru *running) wait(d time.Duration) ([]Step, bool) {
	stuck := false
	select {
	case <-ru.done:
	case <-ru.r.stuckCh:
		stuck = true
		// give the goroutine the chance to prove the prediction wrong
		select {
		case <-ru.done:
			stuck = false
		case <-time.After(20 * time.Millisecond):
		}
	case <-time.After(d):
		stuck = true
	}
	ru.r.mu.Lock()
	p := append([]Step{}, ru.r.prog...)
	ru.r.mu.Unlock()
	return p, stuck
}

type item struct {
	f     *form
	cfg   config
	group int
	rep   int
	tries int
}

func observe(tier string, seed int64, outPath string, reps int, workers int) {
	thorough := tier == "thorough"
	impl.Init(0)
	memdb.VerifLockHook = obsHook
	probe := impl.NewSrv(1)
	nStripes := memdb.VerifStripes(probe.Mgr.DBs[0])
	rnd := rand.New(rand.NewSource(seed))
	pick3 := func() [3]int {
		p := rnd.Perm(nStripes)[:3]
		sort.Ints(p)
		return [3]int{p[0], p[1], p[2]}
	}
	groups := [][3]int{pick3()}
	if thorough {
		groups = append(groups, [3]int{0, 1, nStripes - 1}, pick3())
	}
	fs := forms()
	var plain, expiring []*item
	nConfigs := 0
	for gi := range groups {
		for fi := range fs {
			f := &fs[fi]
			base, extra := patterns(f.N, thorough)
			for pi, p := range append(append([][]int{}, base...), extra...) {
				full := thorough && pi < len(base) && gi == 0
				for _, st := range stateSets(distinctKids(p), full) {
					cfg := mkConfig(p, st)
					nConfigs++
					r := reps
					if f.Blocking || cfg.hasX() {
						r = 1 // repetitions only matter for map iteration order, which the expiry state does not touch
					}
					for rep := 0; rep < r; rep++ {
						it := &item{f: f, cfg: cfg, group: gi, rep: rep}
						if cfg.hasX() {
							expiring = append(expiring, it)
						} else {
							plain = append(plain, it)
						}
					}
				}
			}
		}
	}

	type key struct {
		form, cfg string
		group     int
		prog      string
	}
	var resMu sync.Mutex
	results := map[key]*obsOut{}
	var order []key
	total, inconclusive := 0, 0
	record := func(in *instance, it *item, prog []Step, stuck bool, reply impl.Reply) {
		rounds := 1
		if it.f.Blocking && !stuck {
			prog, rounds = collapse(prog)
		}
		b, _ := json.Marshal(prog)
		k := key{it.f.Name, it.cfg.label(), it.group, string(b) + fmt.Sprint(stuck)}
		resMu.Lock()
		defer resMu.Unlock()
		total++
		if o, ok := results[k]; ok {
			o.N++
			return
		}
		if prog == nil {
			prog = []Step{}
		}
		hz := hazards(prog, stuck)
		if hz == nil {
			hz = []string{}
		}
		results[k] = &obsOut{Cmd: it.f.Cmd, Form: it.f.Name, Config: it.cfg.label(), Kids: it.cfg.Kids, States: it.cfg.States, Group: it.group,
			Stripes: groups[it.group], Argv: in.argv, Prog: prog, Rounds: rounds, N: 1, Stuck: stuck, Blocking: it.f.Blocking, Reply: reply.K, Hazards: hz}
		order = append(order, k)
	}
	mkInstance := func(it *item) *instance {
		return &instance{f: it.f, cfg: it.cfg, q: 0, stripe: groups[it.group], srv: impl.NewSrv(1)}
	}
	var bg []struct {
		ru *running
		it *item
	}
	var bgMu sync.Mutex
	runItem := func(in *instance, it *item) {
		ru := launch(in)
		if it.f.Blocking {
			bgMu.Lock()
			bg = append(bg, struct {
				ru *running
				it *item
			}{ru, it})
			bgMu.Unlock()
			return
		}
		prog, stuck := ru.wait(1500 * time.Millisecond)
		record(in, it, prog, stuck, ru.reply)
	}

	// ---- configurations without expiring keys: at once
	for _, it := range plain {
		in := mkInstance(it)
		if err := in.prepare(); err != nil {
			fmt.Fprintln(os.Stderr, "lockobs:", err)
			os.Exit(3)
		}
		runItem(in, it)
	}

	// ---- configurations with keys that have just expired: prepare in the second half of a second, run 25..430 ms
	// after the next second boundary (the ttl timer of a key prepared at x.5+ fires at (x+1).5+)
	rounds := 0
	for len(expiring) > 0 && rounds < 400 {
		rounds++
		now := time.Now()
		ms := now.Nanosecond() / 1e6
		if ms < 500 {
			time.Sleep(time.Duration(500-ms) * time.Millisecond)
		} else if ms > 560 {
			time.Sleep(time.Duration(1500-ms) * time.Millisecond)
		}
		sec := time.Now().Unix()
		boundary := time.Unix(sec+1, 0)
		var next int64 = -1
		batch := make([]*instance, len(expiring))
		var wg sync.WaitGroup
		for w := 0; w < workers; w++ {
			wg.Add(1)
			go func() {
				defer wg.Done()
				for {
					if time.Until(boundary) < 70*time.Millisecond {
						return
					}
					i := int(atomic.AddInt64(&next, 1))
					if i >= len(expiring) {
						return
					}
					in := mkInstance(expiring[i])
					if err := in.prepare(); err != nil {
						fmt.Fprintln(os.Stderr, "lockobs:", err)
						os.Exit(3)
					}
					if in.sec == sec && time.Until(boundary) > 40*time.Millisecond {
						batch[i] = in
					}
				}
			}()
		}
		wg.Wait()
		time.Sleep(time.Until(boundary.Add(25 * time.Millisecond)))
		limit := boundary.Add(430 * time.Millisecond)
		var requeue []*item
		var rqMu sync.Mutex
		next = -1
		for w := 0; w < workers; w++ {
			wg.Add(1)
			go func() {
				defer wg.Done()
				for {
					i := int(atomic.AddInt64(&next, 1))
					if i >= len(expiring) {
						return
					}
					it, in := expiring[i], batch[i]
					ok := in != nil && time.Now().Before(limit) && in.expiredNow()
					if ok {
						if it.f.Blocking {
							runItem(in, it)
						} else {
							ru := launch(in)
							prog, stuck := ru.wait(1500 * time.Millisecond)
							if time.Now().Before(limit.Add(40*time.Millisecond)) || stuck {
								record(in, it, prog, stuck, ru.reply)
							} else {
								ok = false
							}
						}
					}
					if !ok {
						if in != nil {
							it.tries++
						}
						rqMu.Lock()
						if it.tries < 6 {
							requeue = append(requeue, it)
						} else {
							inconclusive++
						}
						rqMu.Unlock()
					}
				}
			}()
		}
		wg.Wait()
		expiring = requeue
	}
	inconclusive += len(expiring)

	// ---- blocking commands started above: one second of poll rounds each
	for _, b := range bg {
		prog, stuck := b.ru.wait(2500 * time.Millisecond)
		record(b.ru.in, b.it, prog, stuck, b.ru.reply)
	}

	out := struct {
		Tier         string    `json:"tier"`
		Seed         int64     `json:"seed"`
		NStripes     int       `json:"nstripes"`
		Groups       [][3]int  `json:"groups"`
		Forms        int       `json:"forms"`
		Configs      int       `json:"configs"`
		Observations int       `json:"observations"`
		Inconclusive int       `json:"inconclusive_expiry_configs"`
		ClockRounds  int       `json:"clock_rounds"`
		Programmes   []*obsOut `json:"programmes"`
	}{tier, seed, nStripes, groups, len(fs), nConfigs, total, inconclusive, rounds, nil}
	for _, k := range order {
		out.Programmes = append(out.Programmes, results[k])
	}
	f, err := os.Create(outPath)
	if err != nil {
		fmt.Fprintln(os.Stderr, "lockobs:", err)
		os.Exit(3)
	}
	enc := json.NewEncoder(f)
	if err := enc.Encode(out); err != nil {
		fmt.Fprintln(os.Stderr, "lockobs:", err)
		os.Exit(3)
	}
	f.Close()
	fmt.Printf("SUMMARY {\"forms\":%d,\"configs\":%d,\"observations\":%d,\"distinct\":%d,\"inconclusive\":%d,\"clock_rounds\":%d}\n",
		len(fs), nConfigs, total, len(order), inconclusive, rounds)
}

// ---------------------------------------------------------------- replay

type rprocSpec struct {
	Form   string `json:"form"`
	Kids   []int  `json:"kids"`
	States string `json:"states"`
	Prog   []Step `json:"prog"` // expected programme (absolute stripes)
	Skip   int    `json:"skip"` // steps of the programme before the segment TLC composed: run without gating
	PC     int    `json:"pc"`   // predicted index (0-based) of the step the process is blocked at; len(prog) = finished
}

type schedStep struct {
	P int    `json:"p"` // 0-based process
	I int    `json:"i"` // 0-based step of the whole programme
	A string `json:"a"` // acq (read) | ann | get | rel
}

type replaySpec struct {
	Stripes [3]int      `json:"stripes"`
	Procs   []rprocSpec `json:"procs"`
	Sched   []schedStep `json:"sched"`
}

type rproc struct {
	spec    rprocSpec
	in      *instance
	acqs    []Step // expected acquisition requests in order
	wants   []Step
	nGot    int
	nRel    int
	allowed int
	done    bool
	reply   impl.Reply
	held    map[int][2]int
}

var (
	cmu      sync.Mutex
	rprocs   = map[int64]*rproc{}
	allowAll bool
	evlog    []string
	t0       time.Time
)

func logEv(format string, a ...interface{}) {
	evlog = append(evlog, fmt.Sprintf("%7.1fms ", float64(time.Since(t0).Microseconds())/1000)+fmt.Sprintf(format, a...))
}

func replayHook(kind string, pos int, phase string) {
	g := goid()
	cmu.Lock()
	p := rprocs[g]
	if p == nil {
		cmu.Unlock()
		return
	}
	switch phase {
	case "want":
		idx := len(p.wants)
		p.wants = append(p.wants, Step{"acq", kind, pos})
		logEv("p%d want %s%d", p.in.q, kind, pos)
		for !(allowAll || idx < p.allowed || idx >= len(p.acqs)) {
			cmu.Unlock()
			time.Sleep(50 * time.Microsecond)
			cmu.Lock()
		}
		logEv("p%d pass %s%d", p.in.q, kind, pos)
	case "got":
		p.nGot++
		h := p.held[pos]
		h[kindIdx(kind)]++
		p.held[pos] = h
		logEv("p%d got  %s%d", p.in.q, kind, pos)
	case "rel":
		p.nRel++
		h := p.held[pos]
		if h[kindIdx(kind)] > 0 {
			h[kindIdx(kind)]--
		}
		p.held[pos] = h
		logEv("p%d rel  %s%d", p.in.q, kind, pos)
	}
	cmu.Unlock()
}

// waitUntil polls cond (evaluated under cmu)
func waitUntil(cond func() bool, d time.Duration) bool {
	deadline := time.Now().Add(d)
	for {
		cmu.Lock()
		ok := cond()
		cmu.Unlock()
		if ok {
			return true
		}
		if time.Now().After(deadline) {
			return false
		}
		time.Sleep(100 * time.Microsecond)
	}
}

type stuckInfo struct {
	P       int      `json:"p"`
	Argv    []string `json:"argv"`
	Waiting string   `json:"waiting_for"`
	Holds   []string `json:"holds"`
}

type replayOut struct {
	Result      string      `json:"result"` // deadlock | completed | mismatch | inconclusive
	Mismatch    string      `json:"mismatch,omitempty"`
	AsPredicted bool        `json:"as_predicted"`
	Commands    []string    `json:"commands"`
	Stuck       []stuckInfo `json:"stuck"`
	Predicted   []stuckInfo `json:"predicted"`
	NotFree     []int       `json:"stripes_not_free"`
	Replies     []string    `json:"replies"`
	Events      []string    `json:"events"`
}

func holdsOf(h map[int][2]int) []string {
	var ps []int
	for p, c := range h {
		if c[0]+c[1] > 0 {
			ps = append(ps, p)
		}
	}
	sort.Ints(ps)
	out := []string{}
	for _, p := range ps {
		c := h[p]
		for i := 0; i < c[1]; i++ {
			out = append(out, fmt.Sprintf("W%d", p))
		}
		for i := 0; i < c[0]; i++ {
			out = append(out, fmt.Sprintf("R%d", p))
		}
	}
	return out
}

func replay(specPath string) {
	raw, err := os.ReadFile(specPath)
	if err != nil {
		fmt.Fprintln(os.Stderr, "lockobs:", err)
		os.Exit(3)
	}
	var spec replaySpec
	if err := json.Unmarshal(raw, &spec); err != nil {
		fmt.Fprintln(os.Stderr, "lockobs:", err)
		os.Exit(3)
	}
	impl.Init(0)
	memdb.VerifLockHook = replayHook
	out := replayOut{Stuck: []stuckInfo{}, Predicted: []stuckInfo{}, NotFree: []int{}}
	finish := func() {
		b, _ := json.Marshal(out)
		fmt.Println("REPLAY " + string(b))
		os.Exit(0)
	}

	var procs []*rproc
	var srv *impl.Srv
	needX := false
	for _, ps := range spec.Procs {
		if strings.Contains(ps.States, "X") {
			needX = true
		}
	}
	for attempt := 0; ; attempt++ {
		if attempt == 8 {
			out.Result = "inconclusive"
			out.Mismatch = "could not prepare just-expired keys within the clock window"
			finish()
		}
		if needX {
			ms := time.Now().Nanosecond() / 1e6
			if ms < 550 {
				time.Sleep(time.Duration(550-ms) * time.Millisecond)
			} else if ms > 800 {
				time.Sleep(time.Duration(1550-ms) * time.Millisecond)
			}
		}
		sec := time.Now().Unix()
		srv = impl.NewSrv(1)
		procs = nil
		ok := true
		for q, ps := range spec.Procs {
			f := formByName(ps.Form)
			if f == nil {
				fmt.Fprintln(os.Stderr, "lockobs: unknown form", ps.Form)
				os.Exit(3)
			}
			in := &instance{f: f, cfg: config{Kids: ps.Kids, States: ps.States}, q: q, stripe: spec.Stripes, srv: srv}
			if err := in.prepare(); err != nil {
				fmt.Fprintln(os.Stderr, "lockobs:", err)
				os.Exit(3)
			}
			p := &rproc{spec: ps, in: in, held: map[int][2]int{}}
			for _, st := range ps.Prog {
				if st.Op == "acq" {
					p.acqs = append(p.acqs, st)
				}
			}
			procs = append(procs, p)
			if in.sec != sec {
				ok = false
			}
		}
		if !needX {
			break
		}
		if !ok || time.Now().Unix() != sec {
			continue
		}
		boundary := time.Unix(sec+1, 0)
		time.Sleep(time.Until(boundary.Add(25 * time.Millisecond)))
		for _, p := range procs {
			if !p.in.expiredNow() {
				ok = false
			}
		}
		if ok && time.Since(boundary) < 200*time.Millisecond {
			break
		}
	}
	for _, p := range procs {
		out.Commands = append(out.Commands, fmt.Sprintf("p%d: %s   [%s %s]", p.in.q, strings.Join(p.in.argv, " "), p.spec.Form, p.in.cfg.label()))
	}
	t0 = time.Now()
	mismatch := ""
	fail := func(format string, a ...interface{}) {
		if mismatch == "" {
			mismatch = fmt.Sprintf(format, a...)
		}
	}
	acqOrd := func(p *rproc, i int) int { // ordinal of acquisition step i among the acquisitions
		n := -1
		for k := 0; k <= i && k < len(p.spec.Prog); k++ {
			if p.spec.Prog[k].Op == "acq" {
				n++
			}
		}
		return n
	}
	relOrd := func(p *rproc, i int) int {
		n := -1
		for k := 0; k <= i && k < len(p.spec.Prog); k++ {
			if p.spec.Prog[k].Op == "rel" {
				n++
			}
		}
		return n
	}
	checkWants := func() bool { // under cmu: every request made so far is the one the observed programme predicts
		for _, p := range procs {
			for j, w := range p.wants {
				if j < len(p.acqs) && w != p.acqs[j] {
					fail("p%d requested %s%d as lock request #%d, the observed programme has %s%d", p.in.q, w.Kind, w.Pos, j, p.acqs[j].Kind, p.acqs[j].Pos)
					return false
				}
			}
		}
		return true
	}
	start := func(p *rproc) {
		go func() {
			g := goid()
			cmu.Lock()
			rprocs[g] = p
			cmu.Unlock()
			rep := p.in.srv.Exec(impl.S(p.in.argv...))
			cmu.Lock()
			p.reply = rep
			p.done = true
			delete(rprocs, g)
			logEv("p%d returned %s", p.in.q, rep.K)
			cmu.Unlock()
		}()
	}

	// 1. prefixes, one process after the other: everything before the composed segment runs ungated
	for _, p := range procs {
		cmu.Lock()
		p.allowed = 0
		if p.spec.Skip > 0 {
			p.allowed = acqOrd(p, p.spec.Skip-1) + 1
		}
		want := p.allowed + 1
		cmu.Unlock()
		start(p)
		if !waitUntil(func() bool { return len(p.wants) >= want || p.done }, 2500*time.Millisecond) {
			fail("p%d did not reach lock request #%d of its observed programme", p.in.q, want-1)
		}
		cmu.Lock()
		checkWants()
		if p.done && want <= len(p.acqs) {
			fail("p%d returned before lock request #%d of its observed programme", p.in.q, want-1)
		}
		cmu.Unlock()
		if mismatch != "" {
			break
		}
	}
	// 2. TLC's schedule
	if mismatch == "" {
		for _, s := range spec.Sched {
			p := procs[s.P]
			switch s.A {
			case "acq", "ann":
				j := acqOrd(p, s.I)
				if !waitUntil(func() bool { return len(p.wants) > j || p.done }, 2*time.Second) || p.done {
					fail("p%d never made lock request #%d", p.in.q, j)
					break
				}
				cmu.Lock()
				okw := checkWants()
				if okw && p.allowed < j+1 {
					p.allowed = j + 1
				}
				cmu.Unlock()
				if !okw {
					break
				}
				if s.A == "acq" {
					if !waitUntil(func() bool { return p.nGot > j }, 2*time.Second) {
						fail("p%d was not granted %s%d although the model grants it", p.in.q, p.acqs[j].Kind, p.acqs[j].Pos)
					}
				} else {
					// announced: the goroutine is inside Lock(); give it time to reach the announcement if it has to wait
					waitUntil(func() bool { return p.nGot > j }, 60*time.Millisecond)
				}
			case "get":
				j := acqOrd(p, s.I)
				if !waitUntil(func() bool { return p.nGot > j }, 2*time.Second) {
					fail("p%d did not get %s%d although the model grants it", p.in.q, p.acqs[j].Kind, p.acqs[j].Pos)
				}
			case "rel":
				j := relOrd(p, s.I)
				if !waitUntil(func() bool { return p.nRel > j }, 2*time.Second) {
					fail("p%d did not perform release #%d", p.in.q, j)
				}
			}
			if mismatch != "" {
				break
			}
		}
	}
	// 3. predicted final state: every unfinished process stands at a lock request; let them all try
	if mismatch == "" {
		for _, p := range procs {
			if p.spec.PC >= len(p.spec.Prog) {
				continue
			}
			j := acqOrd(p, p.spec.PC)
			if !waitUntil(func() bool { return len(p.wants) > j || p.done }, 2*time.Second) || p.done {
				fail("p%d did not arrive at the lock request it is predicted to block on", p.in.q)
			}
		}
		cmu.Lock()
		checkWants()
		cmu.Unlock()
		time.Sleep(60 * time.Millisecond)
	}
	cmu.Lock()
	allowAll = true
	logEv("all gates open")
	cmu.Unlock()
	// 4. watchdog
	allDone := waitUntil(func() bool {
		for _, p := range procs {
			if !p.done {
				return false
			}
		}
		return true
	}, 20*time.Second)
	cmu.Lock()
	if !allDone {
		logEv("watchdog: not all commands returned within 20 s")
	}
	// predicted ownership from the observed programmes
	predStuck := map[int]stuckInfo{}
	for _, p := range procs {
		if p.spec.PC >= len(p.spec.Prog) {
			continue
		}
		h := map[int][2]int{}
		for _, st := range p.spec.Prog[:p.spec.PC] {
			c := h[st.Pos]
			if st.Op == "acq" {
				c[kindIdx(st.Kind)]++
			} else if c[kindIdx(st.Kind)] > 0 {
				c[kindIdx(st.Kind)]--
			}
			h[st.Pos] = c
		}
		st := p.spec.Prog[p.spec.PC]
		predStuck[p.in.q] = stuckInfo{P: p.in.q, Argv: p.in.argv, Waiting: fmt.Sprintf("%s%d", st.Kind, st.Pos), Holds: holdsOf(h)}
		out.Predicted = append(out.Predicted, predStuck[p.in.q])
	}
	same := true
	for _, p := range procs {
		out.Replies = append(out.Replies, fmt.Sprintf("p%d: %s", p.in.q, map[bool]string{true: p.reply.K, false: "(no reply)"}[p.done]))
		if p.done {
			if _, ok := predStuck[p.in.q]; ok {
				same = false
			}
			continue
		}
		w := ""
		if len(p.wants) > p.nGot {
			x := p.wants[len(p.wants)-1]
			w = fmt.Sprintf("%s%d", x.Kind, x.Pos)
		}
		si := stuckInfo{P: p.in.q, Argv: p.in.argv, Waiting: w, Holds: holdsOf(p.held)}
		out.Stuck = append(out.Stuck, si)
		pr, ok := predStuck[p.in.q]
		if !ok || pr.Waiting != si.Waiting || strings.Join(pr.Holds, ",") != strings.Join(si.Holds, ",") {
			same = false
		}
	}
	out.Events = evlog
	cmu.Unlock()
	db := srv.Mgr.DBs[0]
	if len(out.Stuck) > 0 {
		for s := 0; s < memdb.VerifStripes(db); s++ {
			if !memdb.VerifStripeFree(db, s) {
				out.NotFree = append(out.NotFree, s)
			}
		}
		out.Result = "deadlock"
		out.AsPredicted = same && mismatch == ""
		out.Mismatch = mismatch
	} else if mismatch != "" {
		out.Result = "mismatch"
		out.Mismatch = mismatch
	} else {
		out.Result = "completed"
	}
	finish()
}

func main() {
	if len(os.Args) < 2 {
		fmt.Fprintln(os.Stderr, "usage: lockobs observe|replay ...")
		os.Exit(3)
	}
	switch os.Args[1] {
	case "observe":
		fl := flag.NewFlagSet("observe", flag.ExitOnError)
		tier := fl.String("tier", "quick", "quick | thorough")
		seed := fl.Int64("seed", 1, "seed (choice of stripes)")
		out := fl.String("out", "lockobs.json", "output file")
		reps := fl.Int("reps", 3, "observations per configuration (Go randomises map iteration order)")
		workers := fl.Int("workers", 4, "parallel workers for the expiring-key rounds")
		fl.Parse(os.Args[2:])
		observe(*tier, *seed, *out, *reps, *workers)
	case "replay":
		fl := flag.NewFlagSet("replay", flag.ExitOnError)
		spec := fl.String("spec", "", "replay specification (JSON)")
		fl.Parse(os.Args[2:])
		replay(*spec)
	default:
		fmt.Fprintln(os.Stderr, "usage: lockobs observe|replay ...")
		os.Exit(3)
	}
}
