// conc: concurrent-client driver for C05 / C13. Many short histories: C client goroutines issue K commands each
// against ONE shared in-process server (Manager.ExecCommand, the code path of every connection goroutine), on keys
// chosen to collide (or not) on lock stripes and map shards; lock-request hooks (build tag verif) yield at seeded
// points to widen the interleavings. Every operation is recorded with a global ticket taken before the call and
// after the return; the history, followed by a sequential read-back of every key, is written for TraceLin.tla.
// At quiescence the structural invariants, the key counter, KEYS/EXISTS agreement and lock hygiene are checked here.
package main

import (
	"bufio"
	"encoding/binary"
	"encoding/json"
	"flag"
	"fmt"
	"math/rand"
	"os"
	"runtime"
	"sort"
	"strconv"
	"strings"
	"sync"
	"sync/atomic"
	"time"

	"github.com/innovationb1ue/RedisGO/memdb"
	"verif/harness/impl"
)

type op struct {
	ID       int
	Client   int
	Argv     []string
	Inv, Res int64
	Reply    impl.Reply
	Answered bool
	Now      int64
}

type line struct {
	Ev       string      `json:"ev"`
	H        int         `json:"h"`
	ID       int         `json:"id"`
	Now      int64       `json:"now"`
	Argv     [][]int     `json:"argv"`
	Reply    *impl.Reply `json:"reply,omitempty"`
	Answered bool        `json:"answered"`
}

type anomaly struct {
	Kind    string   `json:"kind"` // deadlock | panic | structure | keycount | keys-exists | lock-leak | conservation
	H       int      `json:"h"`
	Profile string   `json:"profile"`
	Detail  string   `json:"detail"`
	Stuck   []string `json:"stuck,omitempty"`
}

var yieldSeed uint64
var yieldOn int32

func hook(kind string, pos int, phase string) {
	if phase != "want" || atomic.LoadInt32(&yieldOn) == 0 {
		return
	}
	x := atomic.AddUint64(&yieldSeed, 0x9E3779B97F4A7C15)
	x ^= x >> 31
	switch x % 7 {
	case 0, 1:
		runtime.Gosched()
	case 2:
		time.Sleep(time.Duration(x%50) * time.Microsecond)
	}
}

// mapHook yields at keyspace map accesses: this opens the window between the read and the write of a
// read-modify-write executor, so a critical section that is not really exclusive shows up as a lost update
func mapHook(op string, key string) {
	if atomic.LoadInt32(&yieldOn) == 0 {
		return
	}
	x := atomic.AddUint64(&yieldSeed, 0x9E3779B97F4A7C15)
	x ^= x >> 29
	switch x % 5 {
	case 0:
		runtime.Gosched()
	case 1:
		time.Sleep(time.Duration(x%30) * time.Microsecond)
	}
}

func av(a []string) [][]int {
	o := make([][]int, len(a))
	for i, s := range a {
		o[i] = impl.B2I([]byte(s))
	}
	return o
}

// pickKeys returns names: two that collide on a lock stripe (different shard if possible), one elsewhere.
func pickKeys(db *memdb.MemDb, r *rand.Rand, prefix string) []string {
	base := prefix + strconv.Itoa(r.Intn(1000))
	a := base + "a"
	var same, other string
	for i := 0; i < 5000 && (same == "" || other == ""); i++ {
		c := base + "x" + strconv.Itoa(i)
		if memdb.VerifLockPos(db, c) == memdb.VerifLockPos(db, a) {
			if same == "" {
				same = c
			}
		} else if other == "" {
			other = c
		}
	}
	if same == "" {
		same = base + "b"
	}
	if other == "" {
		other = base + "c"
	}
	return []string{a, same, other}
}

type profile struct {
	name  string
	setup func(k []string) [][]string
	next  func(r *rand.Rand, k []string, uniq string) []string
}

func pick(r *rand.Rand, xs ...string) string { return xs[r.Intn(len(xs))] }

var profiles = []profile{
	{"counter", func(k []string) [][]string { return [][]string{{"SET", k[0], "0"}} },
		func(r *rand.Rand, k []string, u string) []string {
			key := k[r.Intn(3)]
			if r.Intn(5) == 0 { // the family's other single-key commands
				switch r.Intn(6) {
				case 0:
					return []string{"INCRBYFLOAT", key, "0.5"}
				case 1:
					return []string{"DECRBY", key, "2"}
				case 2:
					return []string{"GETRANGE", key, "0", "-1"}
				case 3:
					return []string{"TYPE", key}
				case 4:
					return []string{"TTL", key}
				default:
					return []string{"MGET", key}
				}
			}
			switch r.Intn(10) {
			case 0, 1, 2, 3:
				return []string{"INCR", key}
			case 4:
				return []string{"INCRBY", key, strconv.Itoa(r.Intn(5) + 1)}
			case 5:
				return []string{"DECR", key}
			case 6:
				return []string{"GET", key}
			case 7:
				return []string{"SETNX", key, "100"}
			case 8:
				return []string{"DEL", key}
			default:
				return []string{"STRLEN", key}
			}
		}},
	{"string", func(k []string) [][]string { return nil },
		func(r *rand.Rand, k []string, u string) []string {
			key := k[r.Intn(3)]
			if r.Intn(5) == 0 {
				switch r.Intn(6) {
				case 0:
					return []string{"SETRANGE", key, "1", u}
				case 1:
					return []string{"GETRANGE", key, "1", "2"}
				case 2:
					return []string{"STRLEN", key}
				case 3:
					return []string{"PERSIST", key}
				case 4:
					return []string{"SET", key, u, "XX"}
				default:
					return []string{"MGET", key}
				}
			}
			switch r.Intn(10) {
			case 0, 1:
				return []string{"APPEND", key, u}
			case 2:
				return []string{"SET", key, u}
			case 3:
				return []string{"SETNX", key, u}
			case 4:
				return []string{"GET", key}
			case 5:
				return []string{"SET", key, u, "GET"}
			case 6:
				return []string{"MSET", k[0], u, k[2], u}
			case 7:
				return []string{"RENAME", key, k[r.Intn(3)]}
			case 8:
				return []string{"DEL", key}
			default:
				return []string{"EXISTS", key}
			}
		}},
	{"list", func(k []string) [][]string { return [][]string{{"RPUSH", k[0], "s1", "s2"}} },
		func(r *rand.Rand, k []string, u string) []string {
			key := k[r.Intn(3)]
			if r.Intn(4) == 0 {
				switch r.Intn(9) {
				case 0:
					return []string{"LINDEX", key, pick(r, "0", "-1", "1")}
				case 1:
					return []string{"LPOS", key, "s1"}
				case 2:
					return []string{"LSET", key, "0", u}
				case 3:
					return []string{"LTRIM", key, "0", "2"}
				case 4:
					return []string{"LPUSHX", key, u}
				case 5:
					return []string{"RPUSHX", key, u}
				case 6:
					return []string{"LRANGE", key, "1", "1"}
				case 7:
					return []string{"LPOP", key, "2"}
				default:
					return []string{"RPOP", key, "2"}
				}
			}
			switch r.Intn(12) {
			case 0, 1:
				return []string{"LPUSH", key, u}
			case 2, 3:
				return []string{"RPUSH", key, u}
			case 4, 5:
				return []string{"LPOP", key}
			case 6:
				return []string{"RPOP", key}
			case 7:
				return []string{"LLEN", key}
			case 8:
				return []string{"LRANGE", key, "0", "-1"}
			case 9, 10:
				return []string{"LMOVE", key, k[r.Intn(3)], pick(r, "LEFT", "RIGHT"), pick(r, "LEFT", "RIGHT")}
			default:
				return []string{"LREM", key, "0", "s1"}
			}
		}},
	{"set", func(k []string) [][]string { return [][]string{{"SADD", k[0], "m1", "m2"}} },
		func(r *rand.Rand, k []string, u string) []string {
			key := k[r.Intn(3)]
			if r.Intn(5) == 0 {
				switch r.Intn(5) {
				case 0:
					return []string{"SRANDMEMBER", key}
				case 1:
					return []string{"SUNION", key}
				case 2:
					return []string{"SINTER", key}
				case 3:
					return []string{"SDIFF", key}
				default:
					return []string{"SREM", key, "m1", "m2"}
				}
			}
			switch r.Intn(11) {
			case 0, 1, 2:
				return []string{"SADD", key, pick(r, "m1", "m2", "m3", u)}
			case 3:
				return []string{"SREM", key, pick(r, "m1", "m2", "m3")}
			case 4:
				return []string{"SCARD", key}
			case 5:
				return []string{"SPOP", key}
			case 6:
				return []string{"SISMEMBER", key, pick(r, "m1", "m2")}
			case 7, 8:
				return []string{"SMOVE", key, k[r.Intn(3)], pick(r, "m1", "m2", "m3")}
			default:
				return []string{"SMEMBERS", key}
			}
		}},
	{"hash", func(k []string) [][]string { return [][]string{{"HSET", k[0], "n", "0"}} },
		func(r *rand.Rand, k []string, u string) []string {
			key := k[r.Intn(2)]
			if r.Intn(3) == 0 {
				switch r.Intn(9) {
				case 0, 1:
					return []string{"HKEYS", key}
				case 2:
					return []string{"HVALS", key}
				case 3:
					return []string{"HEXISTS", key, pick(r, "n", "f")}
				case 4:
					return []string{"HMGET", key, "n", "f", "g"}
				case 5:
					return []string{"HSTRLEN", key, pick(r, "n", "f")}
				case 6:
					return []string{"HSETNX", key, pick(r, "f", "g"), u}
				case 7:
					return []string{"HINCRBYFLOAT", key, "n", "0.5"}
				default:
					return []string{"HRANDFIELD", key}
				}
			}
			switch r.Intn(8) {
			case 0, 1, 2:
				return []string{"HINCRBY", key, "n", "1"}
			case 3:
				return []string{"HSET", key, pick(r, "f", "g"), u}
			case 4:
				return []string{"HGET", key, pick(r, "n", "f")}
			case 5:
				return []string{"HDEL", key, pick(r, "f", "g", "n")}
			case 6:
				return []string{"HLEN", key}
			default:
				return []string{"HGETALL", key}
			}
		}},
	{"zset", func(k []string) [][]string { return [][]string{{"ZADD", k[0], "1", "a", "2", "b"}} },
		func(r *rand.Rand, k []string, u string) []string {
			key := k[r.Intn(2)]
			if r.Intn(5) == 0 {
				switch r.Intn(5) {
				case 0:
					return []string{"ZADD", key, pick(r, "NX", "XX", "GT", "LT"), strconv.Itoa(r.Intn(4)), pick(r, "a", "b", "c")}
				case 1:
					return []string{"ZADD", key, "CH", strconv.Itoa(r.Intn(4)), pick(r, "a", "b"), "3", "c"}
				case 2:
					return []string{"ZRANGE", key, "0", "0"}
				case 3:
					return []string{"ZREM", key, "a", "b"}
				default:
					return []string{"ZRANK", key, "c"}
				}
			}
			switch r.Intn(8) {
			case 0, 1, 2:
				return []string{"ZADD", key, strconv.Itoa(r.Intn(4)), pick(r, "a", "b", "c", "d")}
			case 3:
				return []string{"ZADD", key, "INCR", "1", pick(r, "a", "b")}
			case 4:
				return []string{"ZREM", key, pick(r, "a", "b", "c")}
			case 5:
				return []string{"ZRANK", key, pick(r, "a", "b")}
			default:
				return []string{"ZRANGE", key, "0", "-1", "WITHSCORES"}
			}
		}},
	// a work queue on ONE key that keeps running empty: the key is deleted and re-created all the time, so a command
	// that acts on a value it looked up before it held the key's lock meets a stale object
	{"queue", func(k []string) [][]string { return [][]string{{"RPUSH", k[0], "s1"}} },
		func(r *rand.Rand, k []string, u string) []string {
			switch r.Intn(20) {
			case 0, 1, 2, 3, 4, 5, 6:
				return []string{"RPOP", k[0]}
			case 7, 8, 9:
				return []string{"LPOP", k[0]}
			case 10, 11, 12, 13, 14, 15:
				return []string{"LPUSH", k[0], u}
			case 16:
				return []string{"RPUSH", k[0], u}
			case 17:
				return []string{"LMOVE", k[0], k[0], pick(r, "LEFT", "RIGHT"), pick(r, "LEFT", "RIGHT")}
			case 18:
				return []string{"LLEN", k[0]}
			default:
				return []string{"LRANGE", k[0], "0", "-1"}
			}
		}},
	{"xstream", func(k []string) [][]string { return nil },
		func(r *rand.Rand, k []string, u string) []string {
			key := k[r.Intn(2)]
			// explicit ids in a small range, distinct per value: concurrent XADDs collide on "not greater than the top"
			id := strconv.Itoa(1+r.Intn(6)) + "-" + strconv.Itoa(1+r.Intn(9))
			switch r.Intn(10) {
			case 0, 1, 2, 3:
				return []string{"XADD", key, id, "f", u}
			case 4, 5:
				return []string{"XADD", key, "MAXLEN", strconv.Itoa(1 + r.Intn(3)), id, "f", u}
			case 6:
				return []string{"XADD", key, "NOMKSTREAM", id, "f", u}
			case 7:
				return []string{"DEL", key}
			default:
				return []string{"XRANGE", key, "-", "+"}
			}
		}},
}

// multi-key commands that are NOT required to be atomic: deadlock mode only
func nonAtomic(r *rand.Rand, k []string, u string) []string {
	switch r.Intn(10) {
	case 0:
		return []string{"SUNIONSTORE", k[r.Intn(3)], k[0], k[1]}
	case 1:
		return []string{"SINTERSTORE", k[r.Intn(3)], k[1], k[2]}
	case 2:
		return []string{"SDIFFSTORE", k[r.Intn(3)], k[2], k[0]}
	case 3:
		return []string{"SUNION", k[0], k[1], k[2]}
	case 4:
		return []string{"DEL", k[2], k[1], k[0]}
	case 5:
		return []string{"EXISTS", k[0], k[1], k[2], k[0]}
	case 6:
		return []string{"MGET", k[2], k[0], k[1]}
	case 7:
		return []string{"SMOVE", k[r.Intn(3)], k[r.Intn(3)], "m1"}
	case 8:
		return []string{"KEYS", "*"}
	default:
		return []string{"RENAME", k[r.Intn(3)], k[r.Intn(3)]}
	}
}

func main() {
	seed := flag.Int64("seed", 1, "seed")
	nh := flag.Int("hist", 100, "histories")
	clients := flag.Int("clients", 4, "client goroutines per history (max)")
	nops := flag.Int("ops", 4, "commands per client (max)")
	mode := flag.String("mode", "lin", "lin (checked histories) | deadlock (adds non-atomic multi-key commands; completion and invariants only)")
	outPath := flag.String("out", "hist.ndjson", "history file")
	progress := flag.String("progress", "", "file receiving the number of the history in progress")
	hbase := flag.Int("hbase", 0, "first history number")
	only := flag.String("profile", "", "use only this profile (lin mode)")
	pshard := flag.Int("pshard", 0, "pairs mode: this process takes the pairs with index = pshard mod pn")
	pn := flag.Int("pn", 1, "pairs mode: number of processes")
	flag.Parse()

	impl.Init(0)
	memdb.VerifLockHook = hook
	memdb.VerifMapHook = mapHook
	rnd := rand.New(rand.NewSource(*seed))
	f, _ := os.Create(*outPath)
	w := bufio.NewWriterSize(f, 1<<20)
	enc := json.NewEncoder(w)
	aenc := json.NewEncoder(os.Stdout)
	var prog *os.File
	if *progress != "" {
		prog, _ = os.OpenFile(*progress, os.O_CREATE|os.O_WRONLY, 0644)
	}
	totalOps, anomalies, slowHistories, deadlocks := 0, 0, 0, 0

	// pairs mode: per family, every unordered pair (a, b) - a = b included - of the distinct single-key commands its generator
	// produces, all on ONE key: one history each, client 1 runs a while client 2 runs b on a freshly set up value. Meant for
	// the race-detector build: two commands that touch the same memory without a lock ordering them are reported whether
	// or not they collide in time.
	type pairJob struct {
		pf   profile
		a, b []string
	}
	var pairJobs []pairJob
	if *mode == "pairs" {
		pr := rand.New(rand.NewSource(12345))
		for _, pf := range profiles {
			if *only != "" && !strings.Contains(","+*only+",", ","+pf.name+",") {
				continue
			}
			seen := map[string]bool{}
			var pool [][]string
			for d := 0; d < 600; d++ {
				c := pf.next(pr, []string{"PK", "PK", "PK"}, "u1")
				k := strings.Join(c, " ")
				if !seen[k] && len(pool) < 48 {
					seen[k] = true
					pool = append(pool, c)
				}
			}
			for i := range pool {
				for j := i; j < len(pool); j++ {
					pairJobs = append(pairJobs, pairJob{pf, pool[i], pool[j]})
				}
			}
		}
		var mine []pairJob
		for i, j := range pairJobs {
			if i%*pn == *pshard {
				mine = append(mine, j)
			}
		}
		pairJobs = mine
		*nh = len(pairJobs)
	}

	for hi := 0; hi < *nh; hi++ {
		if deadlocks >= 2 {
			// every deadlocked history costs 65 s of waiting and leaves wedged goroutines behind: two witnesses per process are enough
			*nh = hi
			break
		}
		h := *hbase + hi
		if prog != nil {
			var b [8]byte
			binary.LittleEndian.PutUint64(b[:], uint64(h+1))
			prog.WriteAt(b[:], 0)
		}
		r := rand.New(rand.NewSource(rnd.Int63()))
		srv := impl.NewSrv(1)
		db := srv.Mgr.DBs[0]
		pf := profiles[r.Intn(len(profiles))]
		if *only != "" {
			for _, q := range profiles {
				if q.name == *only {
					pf = q
				}
			}
		}
		if *mode == "pairs" {
			pf = pairJobs[hi].pf
		}
		churn := false
		if *mode == "deadlock" {
			pf = profiles[[]int{1, 2, 3}[r.Intn(3)]] // string, list, set: the families with multi-key commands
			churn = r.Intn(3) == 0                   // keyspace churn: many clients creating / deleting distinct keys + KEYS *
		}
		keys := pickKeys(db, r, pf.name[:1])
		if *mode == "pairs" {
			keys = []string{"PK", "PK", "PK"}
		}
		var ops []*op
		var ticket int64
		newOp := func(client int, argv []string) *op {
			o := &op{ID: len(ops) + 1, Client: client, Argv: argv}
			ops = append(ops, o)
			return o
		}
		run := func(o *op) {
			o.Now = time.Now().Unix()
			o.Inv = atomic.AddInt64(&ticket, 1)
			o.Reply = srv.Exec(impl.S(o.Argv...))
			o.Res = atomic.AddInt64(&ticket, 1)
			o.Answered = true
		}
		var setupOps []*op
		for _, c := range pf.setup(keys) {
			o := newOp(0, c)
			run(o)
			setupOps = append(setupOps, o)
		}
		nc := 2 + r.Intn(*clients-1)
		if churn {
			nc = 8 + r.Intn(9)
		}
		if *mode == "pairs" {
			nc = 2
		}
		per := make([][]*op, nc)
		if *mode == "pairs" {
			per[0] = append(per[0], newOp(1, pairJobs[hi].a))
			per[1] = append(per[1], newOp(2, pairJobs[hi].b))
		}
		for c := 0; c < nc && *mode != "pairs"; c++ {
			k := 1 + r.Intn(*nops)
			if churn {
				k = 40
			}
			for j := 0; j < k; j++ {
				u := fmt.Sprintf("c%dv%d", c, j)
				var a []string
				if churn {
					switch r.Intn(8) {
					case 0, 1, 2, 3:
						a = []string{"SET", fmt.Sprintf("churn-%d-%d", c, r.Intn(12)), u}
					case 4, 5:
						a = []string{"DEL", fmt.Sprintf("churn-%d-%d", c, r.Intn(12))}
					case 6:
						a = []string{"LPUSH", fmt.Sprintf("churnl-%d-%d", c, r.Intn(4)), u}
					default:
						a = []string{"KEYS", "*"}
					}
				} else if *mode == "deadlock" && r.Intn(3) == 0 {
					a = nonAtomic(r, keys, u)
				} else {
					a = pf.next(r, keys, u)
				}
				per[c] = append(per[c], newOp(c+1, a))
			}
		}
		atomic.StoreInt32(&yieldOn, int32(r.Intn(4))) // 0 = no perturbation in a quarter of the histories
		var wg sync.WaitGroup
		start := make(chan struct{})
		var current [64]atomic.Value
		for c := 0; c < nc; c++ {
			wg.Add(1)
			go func(c int) {
				defer wg.Done()
				<-start
				for _, o := range per[c] {
					current[c].Store(strings.Join(o.Argv, " "))
					run(o)
					if o.Reply.K == "panic" {
						return
					}
				}
				current[c].Store("")
			}(c)
		}
		close(start)
		done := make(chan struct{})
		go func() { wg.Wait(); close(done) }()
		stuck := false
		select {
		case <-done:
		case <-time.After(5 * time.Second):
			// a deadlock never resolves; a starved process does. Only the former is a verdict: keep waiting.
			select {
			case <-done:
				slowHistories++
			case <-time.After(60 * time.Second):
				stuck = true
			}
		}
		atomic.StoreInt32(&yieldOn, 0)
		report := func(kind, detail string, st []string) {
			anomalies++
			aenc.Encode(anomaly{kind, h, pf.name, detail, st})
		}
		if stuck {
			for _, o := range ops {
				if o.Answered && o.Reply.K == "panic" {
					report("panic", o.Reply.E+": "+o.Reply.Msg+" in "+strings.Join(o.Argv, " ")+" (other clients then wedged)", nil)
				}
			}
			var st []string
			for c := 0; c < nc; c++ {
				if s, _ := current[c].Load().(string); s != "" {
					st = append(st, fmt.Sprintf("client %d stuck in: %s", c+1, s))
				}
			}
			var held []string
			for p := 0; p < memdb.VerifStripes(db); p++ {
				if !memdb.VerifStripeFree(db, p) {
					held = append(held, strconv.Itoa(p))
				}
			}
			all := make([]string, 0)
			for c := 0; c < nc; c++ {
				for _, o := range per[c] {
					all = append(all, fmt.Sprintf("c%d: %s", c+1, strings.Join(o.Argv, " ")))
				}
			}
			deadlocks++
			report("deadlock", "clients did not finish within 65 s; stripes held: "+strings.Join(held, ",")+"; keys "+strings.Join(keys, ",")+"; programme: "+strings.Join(all, " | "), st)
			continue // goroutines are wedged; abandon this server
		}
		// KEYS under churn: whatever it lists is the name of a key some command of this history wrote (never an invented or
		// empty name), and no name twice
		universe := map[string]bool{}
		for _, o := range ops {
			for _, a := range o.Argv[1:] {
				universe[a] = true
			}
		}
		for _, o := range ops {
			if o.Answered && strings.EqualFold(o.Argv[0], "KEYS") && o.Reply.K == "arr" {
				seenName := map[string]bool{}
				for _, e := range o.Reply.A {
					name := string(impl.I2B(e.V))
					if !universe[name] || seenName[name] {
						report("keys-invented", fmt.Sprintf("KEYS * under concurrent writes listed %q (%s)", name, map[bool]string{true: "twice", false: "a name no command ever wrote"}[seenName[name]]), nil)
						break
					}
					seenName[name] = true
				}
			}
		}
		panicked := false
		for _, o := range ops {
			if o.Reply.K == "panic" {
				report("panic", o.Reply.E+": "+o.Reply.Msg+" in "+strings.Join(o.Argv, " "), nil)
				panicked = true
			}
		}
		if panicked {
			continue
		}
		// ---- quiescence ----
		for p := 0; p < memdb.VerifStripes(db); p++ {
			free := memdb.VerifStripeFree(db, p)
			for t := 0; !free && t < 20; t++ {
				time.Sleep(2 * time.Millisecond)
				free = memdb.VerifStripeFree(db, p)
			}
			if !free {
				report("lock-leak", fmt.Sprintf("stripe %d still held at quiescence", p), nil)
			}
		}
		dump := memdb.VerifDump(db)
		if int64(len(dump)) != memdb.VerifKeyCount(db) {
			report("keycount", fmt.Sprintf("key counter %d but %d keys stored", memdb.VerifKeyCount(db), len(dump)), nil)
		}
		keysRep := srv.Exec(impl.S("KEYS", "*"))
		if keysRep.K == "panic" {
			report("panic", "KEYS * at quiescence: "+keysRep.Msg, nil)
		} else {
			got := map[string]bool{}
			for _, e := range keysRep.A {
				got[string(impl.I2B(e.V))] = true
			}
			for _, v := range dump {
				ex := srv.Exec(impl.S("EXISTS", v.Key))
				if !got[v.Key] || string(impl.I2B(ex.V)) != "1" {
					report("keys-exists", fmt.Sprintf("key %q stored but KEYS lists it: %v, EXISTS: %s", v.Key, got[v.Key], impl.I2B(ex.V)), nil)
				}
			}
			if len(keysRep.A) != len(dump) {
				report("keys-exists", fmt.Sprintf("KEYS * returned %d names for %d stored keys", len(keysRep.A), len(dump)), nil)
			}
		}
		objOwner := map[uintptr]string{}
		for _, v := range dump {
			if v.Obj != 0 {
				if other, dup := objOwner[v.Obj]; dup {
					report("structure", fmt.Sprintf("keys %q and %q share one %s object", other, v.Key, v.Type), nil)
				}
				objOwner[v.Obj] = v.Key
			}
			switch v.Type {
			case "list":
				if !v.ListFwdOK || !v.ListBckOK || len(v.ListFwd) != v.ListLen || len(v.ListBack) != v.ListLen {
					report("structure", fmt.Sprintf("list %q: Len=%d forward=%d backward=%d", v.Key, v.ListLen, len(v.ListFwd), len(v.ListBack)), nil)
				}
			}
		}
		if *mode == "deadlock" {
			totalOps += len(ops)
			continue
		}
		// sequential read-back of every key, as further operations of the history
		for _, k := range keys {
			for _, c := range [][]string{{"TYPE", k}, {"GET", k}, {"LRANGE", k, "0", "-1"}, {"SMEMBERS", k}, {"HGETALL", k}, {"ZRANGE", k, "0", "-1", "WITHSCORES"}, {"XRANGE", k, "-", "+"}, {"EXISTS", k}} {
				o := newOp(0, c)
				run(o)
			}
		}
		totalOps += len(ops)
		// write the history in ticket order
		type ev struct {
			t   int64
			inv bool
			o   *op
		}
		var evs []ev
		setupSet := map[*op]bool{}
		for _, o := range setupOps {
			setupSet[o] = true
		}
		for _, o := range ops {
			if setupSet[o] {
				continue
			}
			evs = append(evs, ev{o.Inv, true, o}, ev{o.Res, false, o})
		}
		sort.Slice(evs, func(i, j int) bool { return evs[i].t < evs[j].t })
		enc.Encode(line{Ev: "reset", H: h, Argv: [][]int{}})
		for _, o := range setupOps {
			rep := o.Reply
			enc.Encode(line{Ev: "setup", H: h, ID: o.ID, Now: o.Now, Argv: av(o.Argv), Reply: &rep, Answered: true})
		}
		for _, e := range evs {
			rep := e.o.Reply
			if e.inv {
				enc.Encode(line{Ev: "inv", H: h, ID: e.o.ID, Now: e.o.Now, Argv: av(e.o.Argv), Reply: &rep, Answered: e.o.Answered})
			} else {
				enc.Encode(line{Ev: "res", H: h, ID: e.o.ID, Now: e.o.Now, Argv: [][]int{}, Reply: &rep, Answered: true})
			}
		}
	}
	w.Flush()
	f.Close()
	fmt.Printf("SUMMARY {\"histories\":%d,\"operations\":%d,\"anomalies\":%d,\"slow_histories_not_deadlocked\":%d}\n", *nh, totalOps, anomalies, slowHistories)
}
