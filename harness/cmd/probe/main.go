// probe: run commands given on stdin (one per line, space separated) against an in-process server.
package main

import (
	"bufio"
	"encoding/json"
	"fmt"
	"os"
	"strings"

	"verif/harness/impl"
)

func main() {
	s := impl.NewSrv(16)
	sc := bufio.NewScanner(os.Stdin)
	for sc.Scan() {
		line := strings.TrimSpace(sc.Text())
		if line == "" {
			continue
		}
		r := s.Exec(impl.S(strings.Split(line, " ")...))
		j, _ := json.Marshal(r)
		fmt.Printf("%-40s -> %s %q\n", line, j, r.Raw)
	}
}
