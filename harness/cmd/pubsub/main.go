// pubsub: C19 driver. Real connections to Manager.Handle (net.Pipe) or to a real server (TCP): subscribers join and
// leave while publishers send numbered messages with CR LF inside; every SUBSCRIBE / PUBLISH / close is recorded with
// a global ticket before the call and after the return, every push read by a subscriber's reader goroutine is recorded
// when it is read; the history is written for TracePubSub.tla. A publisher that does not return within 30 s and a dead
// process are reported here.
package main

import (
	"bufio"
	"context"
	"encoding/binary"
	"encoding/json"
	"flag"
	"fmt"
	"math/rand"
	"net"
	"os"
	"sort"
	"sync"
	"sync/atomic"
	"time"

	"github.com/innovationb1ue/RedisGO/config"
	"github.com/innovationb1ue/RedisGO/server"
	"verif/harness/impl"
	"verif/harness/respcodec"
)

type event struct {
	T        int64  `json:"-"`
	Ev       string `json:"ev"`
	H        int    `json:"h"`
	ID       int    `json:"id"`
	Kind     string `json:"kind"`
	C        int    `json:"c"`
	Chs      []int  `json:"chs"`
	Ch       int    `json:"ch"`
	Msg      int    `json:"msg"`
	N        int    `json:"n"`
	Answered bool   `json:"answered"`
	// Closing: connections whose close overlapped this PUBLISH in real time: each may or may not be counted in its reply
	// (a half-closed connection is not observable synchronously; DESIGN.md 2.4)
	Closing []int `json:"closing"`
}

type anomaly struct {
	Kind   string `json:"kind"`
	H      int    `json:"h"`
	Detail string `json:"detail"`
}

type client struct {
	id     int
	conn   net.Conn
	buf    []byte
	subAck chan int // SUBSCRIBE confirmations seen by the reader
	intAck chan int64
	closed int32
	readerDone chan struct{}
}

var ticket int64

func tick() int64 { return atomic.AddInt64(&ticket, 1) }

func chName(i int) string { return fmt.Sprintf("chan-%d", i) }
func msgBody(i int) string {
	return fmt.Sprintf("m%d\r\nline2-%d", i, i) // payload with CR LF
}

func main() {
	seed := flag.Int64("seed", 1, "seed")
	nh := flag.Int("hist", 50, "histories")
	sequential := flag.Bool("sequential", false, "one operation at a time (deterministic schedules)")
	addr := flag.String("addr", "", "host:port of a real server (default: in-process Manager.Handle over net.Pipe)")
	outPath := flag.String("out", "pubsub.ndjson", "history file")
	progress := flag.String("progress", "", "progress file")
	hbase := flag.Int("hbase", 0, "first history number")
	flag.Parse()
	impl.Init(0)
	rnd := rand.New(rand.NewSource(*seed))
	f, _ := os.Create(*outPath)
	w := bufio.NewWriterSize(f, 1<<20)
	enc := json.NewEncoder(w)
	aenc := json.NewEncoder(os.Stdout)
	var prog *os.File
	if *progress != "" {
		prog, _ = os.OpenFile(*progress, os.O_CREATE|os.O_WRONLY, 0644)
	}
	totalOps, totalRecv, anomalies := 0, 0, 0

	for hi := 0; hi < *nh; hi++ {
		h := *hbase + hi
		if prog != nil {
			var b [8]byte
			binary.LittleEndian.PutUint64(b[:], uint64(h+1))
			prog.WriteAt(b[:], 0)
		}
		r := rand.New(rand.NewSource(rnd.Int63()))
		ctx, cancel := context.WithCancel(context.Background())
		mgr := server.NewManager(&config.Config{Databases: 1})
		chBase := r.Intn(1000000) * 10 // distinct channel names per history (a TCP server is shared by all histories)
		var mu sync.Mutex
		var events []event
		log := func(e event) {
			e.H = h
			mu.Lock()
			events = append(events, e)
			mu.Unlock()
		}
		dial := func(id int) *client {
			var c net.Conn
			if *addr != "" {
				var err error
				c, err = net.DialTimeout("tcp", *addr, 30*time.Second)
				if err != nil {
					fmt.Fprintln(os.Stderr, "dial:", err)
					os.Exit(2)
				}
			} else {
				a, b := net.Pipe()
				go mgr.Handle(ctx, b)
				c = a
			}
			return &client{id: id, conn: c, subAck: make(chan int, 64), intAck: make(chan int64, 64), readerDone: make(chan struct{})}
		}
		nSub := 2 + r.Intn(3)
		nPub := 1 + r.Intn(3)
		subs := make([]*client, nSub)
		pubs := make([]*client, nPub)
		var readers sync.WaitGroup
		reader := func(cl *client) {
			defer readers.Done()
			defer close(cl.readerDone)
			tmp := make([]byte, 65536)
			for {
				for {
					v, np, err := respcodec.Decode(cl.buf, 0)
					if err == respcodec.ErrIncomplete {
						break
					}
					if err != nil {
						anomalies++
						aenc.Encode(anomaly{"malformed-push", h, fmt.Sprintf("connection %d: %v in %q", cl.id, err, cl.buf)})
						return
					}
					cl.buf = cl.buf[np:]
					switch {
					case v.Kind == ':':
						cl.intAck <- v.Int
					case v.Kind == '*' && len(v.Elems) >= 3 && string(v.Elems[0].Str) == "subscribe":
						cl.subAck <- len(v.Elems) / 3
					case v.Kind == '*' && len(v.Elems) == 3 && string(v.Elems[0].Str) == "message":
						var ch, m int
						fmt.Sscanf(string(v.Elems[1].Str), "chan-%d", &ch)
						var m2 int
						n, _ := fmt.Sscanf(string(v.Elems[2].Str), "m%d\r\nline2-%d", &m, &m2)
						if n != 2 || m != m2 {
							m = -1 // corrupted payload
						}
						log(event{T: tick(), Ev: "recv", C: cl.id, Ch: ch - chBase, Msg: m, Chs: []int{}})
						totalRecv++
					default:
						anomalies++
						aenc.Encode(anomaly{"stray-bytes", h, fmt.Sprintf("connection %d got an unexpected value %c %q", cl.id, v.Kind, v.Str)})
					}
				}
				n, err := cl.conn.Read(tmp)
				cl.buf = append(cl.buf, tmp[:n]...)
				if err != nil {
					return
				}
			}
		}
		for i := range subs {
			subs[i] = dial(i + 1)
			readers.Add(1)
			go reader(subs[i])
		}
		for i := range pubs {
			pubs[i] = dial(100 + i + 1)
			readers.Add(1)
			go reader(pubs[i])
		}
		var opID int32
	var lastActivity int64
		// SUBSCRIBE a b subscribes channel by channel (one confirmation each), so it is recorded as one operation per
		// channel, all spanning the same interval
		doSub := func(cl *client, chs []int) {
			argv := [][]byte{[]byte("SUBSCRIBE")}
			var es []event
			for _, c := range chs {
				argv = append(argv, []byte(chName(chBase+c)))
				es = append(es, event{Ev: "inv", ID: int(atomic.AddInt32(&opID, 1)), Kind: "sub", C: cl.id, Chs: []int{c}})
			}
			t0 := tick()
			cl.conn.SetWriteDeadline(time.Now().Add(30 * time.Second))
			_, err := cl.conn.Write(respcodec.EncodeCommand(argv))
			ok := false
			if err == nil {
				select {
				case <-cl.subAck:
					ok = true
				case <-time.After(30 * time.Second):
				}
			}
			for i := range es {
				es[i].T = t0
				es[i].Answered = ok
				log(es[i])
			}
			if ok {
				t1 := tick()
				for _, e := range es {
					log(event{T: t1, Ev: "res", ID: e.ID, Chs: []int{}})
				}
			} else if atomic.LoadInt32(&cl.closed) == 0 {
				anomalies++
				aenc.Encode(anomaly{"subscribe-unanswered", h, fmt.Sprintf("connection %d SUBSCRIBE %v got no confirmation", cl.id, chs)})
			}
		}
		doPub := func(cl *client, ch, msg int) {
			id := int(atomic.AddInt32(&opID, 1))
			e := event{Ev: "inv", ID: id, Kind: "pub", C: cl.id, Ch: ch, Msg: msg, Chs: []int{}}
			e.T = tick()
			cl.conn.SetWriteDeadline(time.Now().Add(30 * time.Second))
			_, err := cl.conn.Write(respcodec.EncodeCommand([][]byte{[]byte("PUBLISH"), []byte(chName(chBase + ch)), []byte(msgBody(msg))}))
			ok := false
			if err == nil {
				select {
				case n := <-cl.intAck:
					e.N = int(n)
					ok = true
				case <-time.After(30 * time.Second):
				}
			}
			e.Answered = ok
			log(e)
			if ok {
				log(event{T: tick(), Ev: "res", ID: id, Chs: []int{}})
			} else {
				anomalies++
				aenc.Encode(anomaly{"publisher-blocked", h, fmt.Sprintf("PUBLISH chan-%d m%d did not return within 30 s", ch, msg)})
			}
		}
		doClose := func(cl *client) {
			id := int(atomic.AddInt32(&opID, 1))
			e := event{Ev: "inv", ID: id, Kind: "close", C: cl.id, Chs: []int{}, Answered: true}
			e.T = tick()
			atomic.StoreInt32(&cl.closed, 1)
			cl.conn.Close()
			// pushes the reader had already taken off the wire are logged before the close completes
			<-cl.readerDone
			log(e)
			log(event{T: tick(), Ev: "res", ID: id, Chs: []int{}})
		}
		// programme
		type act func()
		var msgNo int32
		var plans [][]act
		for _, s := range subs {
			s := s
			var p []act
			chs := [][]int{{1}, {2}, {1, 2}, {1}}[r.Intn(4)]
			p = append(p, func() { doSub(s, chs) })
			if r.Intn(3) == 0 {
				extra := 1 + r.Intn(2)
				p = append(p, func() { doSub(s, []int{extra}) })
			}
			if r.Intn(3) == 0 {
				p = append(p, func() { doClose(s) })
			}
			plans = append(plans, p)
		}
		for _, pb := range pubs {
			pb := pb
			var p []act
			k := 2 + r.Intn(5)
			for j := 0; j < k; j++ {
				ch := 1 + r.Intn(2)
				p = append(p, func() { doPub(pb, ch, int(atomic.AddInt32(&msgNo, 1))) })
			}
			plans = append(plans, p)
		}
		if *sequential {
			// random interleaving, one operation at a time, with a short drain after each
			idx := make([]int, len(plans))
			for {
				var live []int
				for i := range plans {
					if idx[i] < len(plans[i]) {
						live = append(live, i)
					}
				}
				if len(live) == 0 {
					break
				}
				i := live[r.Intn(len(live))]
				plans[i][idx[i]]()
				idx[i]++
				time.Sleep(2 * time.Millisecond)
			}
		} else {
			var wg sync.WaitGroup
			for _, p := range plans {
				wg.Add(1)
				go func(p []act) {
					defer wg.Done()
					for _, a := range p {
						if r2 := time.Duration(rand.Intn(300)) * time.Microsecond; r2 > 0 {
							time.Sleep(r2)
						}
						a()
					}
				}(p)
			}
			wg.Wait()
		}
		// drain: every PUBLISH has returned; wait until the readers have been idle for a while. The idle time demanded grows
	// with the scheduling delay observed here (a loaded machine must not turn a late log entry into a lost message).
	{
		t0 := time.Now()
		need := 60 * time.Millisecond
		for {
			s0 := time.Now()
			time.Sleep(10 * time.Millisecond)
			if over := time.Since(s0) - 10*time.Millisecond; 10*over > need {
				need = 10 * over
			}
			idle := time.Since(time.Unix(0, atomic.LoadInt64(&lastActivity)))
			if (time.Since(t0) >= need && idle >= need) || time.Since(t0) > 5*time.Second {
				break
			}
		}
	}
		log(event{T: tick(), Ev: "quiet", Chs: []int{}})
		for _, c := range append(subs, pubs...) {
			c.conn.Close()
		}
		cancel()
		readers.Wait()
		sort.Slice(events, func(i, j int) bool { return events[i].T < events[j].T })
		resAt := map[int]int64{}
		for _, e := range events {
			if e.Ev == "res" {
				resAt[e.ID] = e.T
			}
		}
		for i := range events {
			events[i].Closing = []int{}
			if events[i].Ev == "inv" && events[i].Kind == "pub" {
				t0, t1 := events[i].T, resAt[events[i].ID]
				if t1 == 0 {
					t1 = 1 << 62
				}
				for _, c := range events {
					if c.Ev == "inv" && c.Kind == "close" && c.T < t1 && resAt[c.ID] > t0 {
						events[i].Closing = append(events[i].Closing, c.C)
					}
				}
			}
		}
		tcpFlag := 0
		if *addr != "" {
			tcpFlag = 1 // over TCP the server notices a client's close only when a later write fails
		}
		enc.Encode(event{Ev: "reset", H: h, Chs: []int{}, Closing: []int{}, N: tcpFlag})
		for _, e := range events {
			if e.Ev == "quiet" || e.T <= events[len(events)-1].T {
				enc.Encode(e)
			}
			if e.Ev == "inv" {
				totalOps++
			}
		}
	}
	w.Flush()
	f.Close()
	fmt.Printf("SUMMARY {\"histories\":%d,\"operations\":%d,\"pushes\":%d,\"anomalies\":%d}\n", *nh, totalOps, totalRecv, anomalies)
}
