// codeccheck: C14 binding for spec/Codec.tla. Every argument vector enumerated by TLC is pushed through the REAL
// cluster path (HandleCluster -> RaftProposal.ToBytes -> json.Unmarshal -> handleClusterCommits -> executor; only the
// Raft transport is replaced in process, or a real cluster node when -addr is given) as
//     RPUSH <key> a1 .. an ; LRANGE <key> 0 -1 ; SET a1 marker ; GET a1 ; DEL ...
// and must come back byte for byte.
package main

import (
	"bufio"
	"encoding/json"
	"flag"
	"fmt"
	"os"
	"strings"
	"time"

	"verif/harness/impl"
	"verif/harness/wire"
)

type vec struct {
	A  [][]int `json:"a"`
	OK bool    `json:"asbuilt_ok"`
}
type fail struct {
	Kind   string   `json:"kind"`
	Argv   []string `json:"argv"`
	Got    []string `json:"got"`
	Detail string   `json:"detail"`
	Class  string   `json:"class"`
}

func class(a [][]byte) string {
	var c []string
	seen := map[string]bool{}
	add := func(s string) {
		if !seen[s] {
			seen[s] = true
			c = append(c, s)
		}
	}
	for _, x := range a {
		if len(x) == 0 {
			add("empty")
		}
		for _, b := range x {
			switch {
			case b == ' ':
				add("space")
			case b == '\r' || b == '\n':
				add("crlf")
			case b >= 128:
				add("nonutf8")
			}
		}
	}
	if len(c) == 0 {
		return "plain"
	}
	return strings.Join(c, "+")
}

func main() {
	addr := flag.String("addr", "", "host:port of a real cluster node (default: in-process cluster path)")
	every := flag.Int("every", 1, "use every n-th vector only")
	flag.Parse()
	var wc *wire.Conn
	if *addr != "" {
		var err error
		if wc, err = wire.DialTCP(*addr); err != nil {
			fmt.Fprintln(os.Stderr, err)
			os.Exit(2)
		}
	} else {
		wc = wire.NewClusterPipe()
	}
	wc.SkipExtra = true
	in := bufio.NewReaderSize(os.Stdin, 1<<24)
	enc := json.NewEncoder(os.Stdout)
	n, fails, used := 0, 0, 0
	classes := map[string]int{}
	for {
		line, err := in.ReadString('\n')
		if len(line) > 0 && line[0] == '"' {
			var s string
			if json.Unmarshal([]byte(strings.TrimRight(line, "\r\n")), &s) == nil && strings.HasPrefix(s, "VEC ") {
				var v vec
				json.Unmarshal([]byte(s[4:]), &v)
				n++
				if n%*every == 0 {
					used++
					args := make([][]byte, len(v.A))
					strs := make([]string, len(v.A))
					for i, x := range v.A {
						args[i] = impl.I2B(x)
						strs[i] = string(args[i])
					}
					classes[class(args)]++
					key := []byte("codec-key")
					batch := [][][]byte{append([][]byte{[]byte("RPUSH"), key}, args...), {[]byte("LRANGE"), key, []byte("0"), []byte("-1")}, {[]byte("DEL"), key},
						{[]byte("SET"), args[0], []byte("marker")}, {[]byte("GET"), args[0]}, {[]byte("DEL"), args[0]}}
					res := wc.Batch(batch, 10*time.Second)
					if res.Problem != "" {
						fails++
						enc.Encode(fail{"wire-" + res.Problem, strs, nil, res.Detail, class(args)})
						wc.Close()
						if *addr != "" {
							wc, _ = wire.DialTCP(*addr)
						} else {
							wc = wire.NewClusterPipe()
						}
					} else {
						lr := res.Replies[1]
						var got []string
						for _, e := range lr.A {
							got = append(got, string(impl.I2B(e.V)))
						}
						ok := lr.K == "arr" && len(got) == len(strs)
						for i := range strs {
							if ok && got[i] != strs[i] {
								ok = false
							}
						}
						if !ok {
							fails++
							if fails < 40 {
								enc.Encode(fail{"arguments-altered", strs, got, "RPUSH then LRANGE returned different elements", class(args)})
							}
						}
						g := res.Replies[4]
						if !(g.K == "str" && string(impl.I2B(g.V)) == "marker") {
							fails++
							if fails < 40 {
								enc.Encode(fail{"key-altered", strs, []string{g.K, string(impl.I2B(g.V))}, "SET a1 marker then GET a1 did not return the marker", class(args)})
							}
						}
					}
				}
			}
		}
		if err != nil {
			break
		}
	}
	b, _ := json.Marshal(map[string]interface{}{"vectors": n, "executed": used, "fails": fails, "classes": classes})
	fmt.Println("SUMMARY " + string(b))
}
