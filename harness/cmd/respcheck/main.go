// respcheck: C02 binding B1. Reads the test vectors printed by TLC for spec/MC_Resp.tla (lines
// "VEC {k,s,c,t,w}" as quoted TLA+ strings: class, stream, DecodeAll(stream).cmds / .term / .why) and feeds every
// stream to the REAL resp.ParseStream through an io.Reader that hands out the bytes under many read schedules:
// all at once, one byte per Read, EVERY split for streams of at most -allsplits bytes, otherwise cuts inside /
// after every CRLF plus seeded random splits. What arrives on the channel up to the first error is what the
// connection loop (server.Manager.Handle) would execute: every non-empty *resp.ArrayData, via ToCommand().
//
// Oracle per vector (term = how the reference decoder stopped):
//
//	eof, incomplete   delivered commands == vec.c
//	malformed         delivered commands == vec.c and the parser signals a (non-EOF) error
//	unspec            vec.c is a prefix of the delivered commands (behaviour after the item is not specified)
//	always            the channel is closed within the watchdog once the reader is drained (no hang), and the
//	                  deliveries are identical under every read schedule of the same stream.
//
// A panic in the parser goroutine kills the process (no recover is possible from here): the parent runs this tool
// as a child, reads -progress (index, byte offset and length of the vector in progress, runs so far) to attribute
// the death to one vector and restarts behind it with -offset/-index.
package main

import (
	"bufio"
	"bytes"
	"context"
	"encoding/binary"
	"encoding/json"
	"flag"
	"fmt"
	"io"
	"os"
	"runtime/pprof"
	"strings"
	"time"

	"github.com/innovationb1ue/RedisGO/resp"
	"verif/harness/impl"
)

type vec struct {
	K string    `json:"k"`
	S []int     `json:"s"`
	C [][][]int `json:"c"`
	T string    `json:"t"`
	W string    `json:"w"`
}

type fail struct {
	Kind     string    `json:"kind"` // wrong-delivery | no-error | chunking-dependent | hang
	Detail   string    `json:"detail"`
	Class    string    `json:"class"`
	Term     string    `json:"term"`
	Why      string    `json:"why"`
	Stream   []int     `json:"stream"`
	Text     string    `json:"text"`
	Want     [][][]int `json:"want"`
	Got      [][][]int `json:"got"`
	End      string    `json:"end"`
	Schedule []int     `json:"schedule"` // chunk sizes of the failing read schedule
	Other    []int     `json:"other_schedule,omitempty"`
	OtherGot [][][]int `json:"other_got,omitempty"`
	Index    int64     `json:"index"`
}

// chunkReader returns data in the chunks given by cuts (sorted offsets at which a Read ends), then io.EOF.
type chunkReader struct {
	data []byte
	cuts []int
	ci   int
	pos  int
}

func (r *chunkReader) Read(p []byte) (int, error) {
	if r.pos >= len(r.data) {
		return 0, io.EOF
	}
	for r.ci < len(r.cuts) && r.cuts[r.ci] <= r.pos {
		r.ci++
	}
	end := len(r.data)
	if r.ci < len(r.cuts) {
		end = r.cuts[r.ci]
	}
	n := copy(p, r.data[r.pos:end])
	r.pos += n
	return n, nil
}

type obs struct {
	cmds [][][]byte
	sig  []byte // everything delivered before the first error, rendered (commands and other values)
	end  string // "eof" | "err" | "closed" | "hang"
}

var watchdog = 2 * time.Second
var timer = time.NewTimer(time.Hour)

// run executes one read schedule. A watchdog expiry is believed only when it repeats with a doubled bound twice
// (a stalled machine must not look like a parser that never closes its channel).
func run(data []byte, cuts []int) obs {
	o := runOnce(data, cuts, watchdog)
	if o.end != "hang" {
		return o
	}
	for k := 1; k <= 2; k++ {
		o = runOnce(data, cuts, watchdog<<uint(k))
		if o.end != "hang" {
			falseHangs++
			return o
		}
	}
	return o
}

var falseHangs int64

func runOnce(data []byte, cuts []int, bound time.Duration) obs {
	var o obs
	ctx, cancel := context.WithCancel(context.Background())
	rd := &chunkReader{data: data, cuts: cuts}
	ch := resp.ParseStream(ctx, rd)
	if !timer.Stop() {
		select {
		case <-timer.C:
		default:
		}
	}
	timer.Reset(bound)
	ended := false
	o.end = "closed"
loop:
	for {
		select {
		case r, ok := <-ch:
			if !ok {
				break loop
			}
			if ended || r == nil {
				continue // keep draining so that the parser goroutine can finish (the connection loop is gone by now)
			}
			if r.Err != nil {
				ended = true
				if r.Err == io.EOF {
					o.end = "eof"
				} else {
					o.end = "err"
				}
				continue
			}
			if r.Data == nil {
				continue
			}
			if a, isArr := r.Data.(*resp.ArrayData); isArr {
				if len(a.Data()) == 0 {
					o.sig = append(o.sig, "A0;"...)
					continue
				}
				c := a.ToCommand()
				o.cmds = append(o.cmds, c)
				o.sig = append(o.sig, 'C')
				for _, x := range c {
					o.sig = append(o.sig, fmt.Sprintf("%d:", len(x))...)
					o.sig = append(o.sig, x...)
				}
				o.sig = append(o.sig, ';')
			} else {
				o.sig = append(o.sig, 'D')
				o.sig = append(o.sig, r.Data.ToBytes()...)
				o.sig = append(o.sig, ';')
			}
		case <-timer.C:
			o.end = "hang"
			go func() { // let the parser goroutine finish if it ever wakes up
				for range ch {
				}
			}()
			break loop
		}
	}
	cancel()
	o.sig = append(o.sig, o.end...)
	return o
}

func i2b(a []int) []byte {
	b := make([]byte, len(a))
	for i, x := range a {
		b[i] = byte(x)
	}
	return b
}

func b2i(b []byte) []int {
	a := make([]int, len(b))
	for i, x := range b {
		a[i] = int(x)
	}
	return a
}

func cmdsToInts(c [][][]byte) [][][]int {
	out := make([][][]int, len(c))
	for i, cmd := range c {
		out[i] = make([][]int, len(cmd))
		for j, a := range cmd {
			out[i][j] = b2i(a)
		}
	}
	return out
}

func sameCmd(got [][]byte, want [][]int) bool {
	if len(got) != len(want) {
		return false
	}
	for i := range got {
		if len(got[i]) != len(want[i]) {
			return false
		}
		for j := range got[i] {
			if int(got[i][j]) != want[i][j] {
				return false
			}
		}
	}
	return true
}

// judge compares one observation with the vector; returns "" or (kind, detail).
func judge(v *vec, o *obs) (string, string) {
	if o.end == "hang" {
		return "hang", "channel not closed " + watchdog.String() + " after the reader was drained"
	}
	n := len(v.C)
	if len(o.cmds) < n {
		return "wrong-delivery", "missing-command"
	}
	for i := 0; i < n; i++ {
		if !sameCmd(o.cmds[i], v.C[i]) {
			return "wrong-delivery", "altered-command"
		}
	}
	if v.T == "unspec" {
		return "", ""
	}
	if len(o.cmds) > n {
		if v.T == "malformed" {
			return "wrong-delivery", "command-delivered-from-malformed-part"
		}
		return "wrong-delivery", "extra-command"
	}
	if v.T == "malformed" && o.end != "err" {
		return "no-error", "malformed item ended with " + o.end
	}
	return "", ""
}

func sizes(cuts []int, n int) []int {
	out := []int{}
	prev := 0
	for _, c := range cuts {
		if c > prev && c < n {
			out = append(out, c-prev)
			prev = c
		}
	}
	if n > prev {
		out = append(out, n-prev)
	}
	return out
}

func main() {
	in := flag.String("in", "", "file with TLC output (VEC lines)")
	offset := flag.Int64("offset", 0, "byte offset to start reading at")
	index := flag.Int64("index", 0, "index of the first vector at -offset")
	progress := flag.String("progress", "", "progress file (4 x uint64 little endian: index, offset, line length, runs)")
	seed := flag.Int64("seed", 1, "seed of the random read schedules")
	allSplits := flag.Int("allsplits", 10, "streams up to this length are run under every split")
	randSplits := flag.Int("randsplits", 4, "random read schedules for longer streams")
	maxReport := flag.Int("maxreport", 3, "failures printed per (class label, kind)")
	maxHangs := flag.Int("maxhangs", 3, "give up (exit 3) after this many hangs")
	wd := flag.Duration("watchdog", 2*time.Second, "hang watchdog")
	cpuprof := flag.String("cpuprofile", "", "write a CPU profile (tuning only)")
	flag.Parse()
	if *cpuprof != "" {
		pf, _ := os.Create(*cpuprof)
		pprof.StartCPUProfile(pf)
		defer pprof.StopCPUProfile()
	}
	watchdog = *wd

	impl.Init(0) // config + logger as main.go sets them up (the parser logs protocol errors)

	f, err := os.Open(*in)
	if err != nil {
		fmt.Fprintln(os.Stderr, "respcheck:", err)
		os.Exit(4)
	}
	if _, err := f.Seek(*offset, io.SeekStart); err != nil {
		fmt.Fprintln(os.Stderr, "respcheck:", err)
		os.Exit(4)
	}
	rd := bufio.NewReaderSize(f, 1<<20)
	var prog *os.File
	if *progress != "" {
		prog, _ = os.OpenFile(*progress, os.O_CREATE|os.O_WRONLY, 0644)
	}
	out := bufio.NewWriter(os.Stdout)
	defer out.Flush()
	enc := json.NewEncoder(out)

	var vectors, runs, exhaustive, hangs int64
	byTerm := map[string]int64{}
	byWhy := map[string]int64{}
	failCount := map[string]int64{}
	reported := map[string]int{}
	idx := *index
	off := *offset

	report := func(v *vec, kind, detail string, o *obs, cuts []int, other *obs, otherCuts []int) {
		key := v.T + "." + v.W + "|" + kind + "|" + detail
		failCount[key]++
		if reported[key] >= *maxReport {
			return
		}
		reported[key]++
		fl := fail{Kind: kind, Detail: detail, Class: v.K, Term: v.T, Why: v.W, Stream: v.S, Text: fmt.Sprintf("%q", i2b(v.S)),
			Want: v.C, Got: cmdsToInts(o.cmds), End: o.end, Schedule: sizes(cuts, len(v.S)), Index: idx}
		if other != nil {
			fl.Other = sizes(otherCuts, len(v.S))
			fl.OtherGot = cmdsToInts(other.cmds)
		}
		out.WriteString("FAIL ")
		enc.Encode(fl)
		out.Flush()
	}

	var pbuf [32]byte
	for {
		line, rerr := rd.ReadBytes('\n')
		lineLen := int64(len(line))
		if len(line) > 0 && line[0] == '"' {
			var s string
			if json.Unmarshal(bytes.TrimRight(line, "\r\n"), &s) == nil && strings.HasPrefix(s, "VEC ") {
				var v vec
				if err := json.Unmarshal([]byte(s[4:]), &v); err != nil {
					fmt.Fprintln(os.Stderr, "respcheck: bad vector:", err, s)
					os.Exit(4)
				}
				idx++
				if prog != nil {
					binary.LittleEndian.PutUint64(pbuf[0:], uint64(idx))
					binary.LittleEndian.PutUint64(pbuf[8:], uint64(off))
					binary.LittleEndian.PutUint64(pbuf[16:], uint64(lineLen))
					binary.LittleEndian.PutUint64(pbuf[24:], uint64(runs))
					prog.WriteAt(pbuf[:], 0)
				}
				data := i2b(v.S)
				n := len(data)
				vectors++
				byTerm[v.T]++
				byWhy[v.T+"."+v.W]++

				// ---- the read schedules ----
				var schedules [][]int
				if n <= 1 {
					schedules = [][]int{nil}
				} else if n <= *allSplits {
					exhaustive++
					for mask := 0; mask < 1<<(n-1); mask++ {
						var cuts []int
						for i := 0; i < n-1; i++ {
							if mask&(1<<i) != 0 {
								cuts = append(cuts, i+1)
							}
						}
						schedules = append(schedules, cuts)
					}
				} else {
					schedules = append(schedules, nil) // one read
					one := make([]int, 0, n)
					var insideCRLF, afterLF, two []int
					for i := 1; i < n; i++ {
						one = append(one, i)
						if data[i] == '\n' {
							insideCRLF = append(insideCRLF, i) // the read ends just before every LF
						}
						if data[i-1] == '\n' {
							afterLF = append(afterLF, i) // the read ends just after every LF
						}
						if i%2 == 0 {
							two = append(two, i)
						}
					}
					schedules = append(schedules, one, insideCRLF, afterLF, two)
					h := uint64(1469598103934665603)
					for _, b := range data {
						h = (h ^ uint64(b)) * 1099511628211
					}
					x := h ^ uint64(*seed)*0x9E3779B97F4A7C15
					next := func() uint64 { // splitmix64
						x += 0x9E3779B97F4A7C15
						z := x
						z = (z ^ (z >> 30)) * 0xBF58476D1CE4E5B9
						z = (z ^ (z >> 27)) * 0x94D049BB133111EB
						return z ^ (z >> 31)
					}
					for k := 0; k < *randSplits; k++ {
						var cuts []int
						p := 6 + next()%32 // cut probability p/64
						for i := 1; i < n; i++ {
							if next()%64 < p {
								cuts = append(cuts, i)
							}
						}
						schedules = append(schedules, cuts)
					}
				}

				var first obs
				var firstCuts []int
				failed := map[string]bool{}
				for si, cuts := range schedules {
					o := run(data, cuts)
					runs++
					if o.end == "hang" {
						hangs++
					}
					if kind, detail := judge(&v, &o); kind != "" {
						if !failed[kind+detail] {
							failed[kind+detail] = true
							report(&v, kind, detail, &o, cuts, nil, nil)
						}
					}
					if si == 0 {
						first, firstCuts = o, cuts
					} else if !bytes.Equal(first.sig, o.sig) && !failed["chunking-dependent"] {
						failed["chunking-dependent"] = true
						report(&v, "chunking-dependent", "deliveries differ between two read schedules of the same stream", &o, cuts, &first, firstCuts)
					}
					if hangs >= int64(*maxHangs) {
						out.Flush()
						fmt.Fprintln(os.Stderr, "respcheck: too many hangs")
						os.Exit(3)
					}
				}
			}
		}
		off += lineLen
		if rerr != nil {
			break
		}
	}
	sum := map[string]interface{}{"vectors": vectors, "runs": runs, "exhaustive_split_vectors": exhaustive, "hangs": hangs, "watchdog_expiries_not_repeated": falseHangs,
		"by_term": byTerm, "by_why": byWhy, "fail_counts": failCount, "last_index": idx}
	b, _ := json.Marshal(sum)
	out.WriteString("SUMMARY " + string(b) + "\n")
}
