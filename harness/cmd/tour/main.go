// tour: B1 edge walker. Reads the transition table printed by TLC for an MC_* instance (lines
// "EDGE {s,c,r,b,t}" as quoted TLA+ strings) from stdin and replays EVERY transition on the real
// in-process server: shortest verified path from the initial state, then the edge's command; the
// reply must match one of the model's outcomes for (state, command) and the implementation state
// (structural dump, build tag verif) must equal that outcome's target state.
// Output: one JSON line per failing edge on stdout, then a SUMMARY line.
package main

import (
	"bufio"
	"encoding/json"
	"flag"
	"fmt"
	"os"
	"sort"
	"strconv"
	"strings"
	"time"

	"verif/harness/canon"
	"verif/harness/impl"
	"verif/harness/wire"
)

type rawEdge struct {
	S json.RawMessage `json:"s"`
	C [][]int         `json:"c"`
	R canon.Pat       `json:"r"`
	B string          `json:"b"`
	T json.RawMessage `json:"t"`
}

type outcome struct {
	r canon.Pat
	b string
	t int
}

type cmdEdges struct {
	argv [][]byte
	outs []outcome
}

type failure struct {
	Kind     string      `json:"kind"` // reply | state | panic | structure
	Branch   string      `json:"branch"`
	Detail   string      `json:"detail"`
	Path     []string    `json:"path"`
	Cmd      string      `json:"cmd"`
	Got      impl.Reply  `json:"got"`
	Expected []canon.Pat `json:"expected"`
	Labels   []string    `json:"labels"`
	State    string      `json:"state_diff,omitempty"`
}

func show(argv [][]byte) string {
	parts := make([]string, len(argv))
	for i, a := range argv {
		parts[i] = strconv.Quote(string(a))
	}
	return strings.Join(parts, " ")
}

var t0 = flag.Int64("t0", 1000, "model time origin (T0 of the MC instance)")
var wireMode = flag.Bool("wire", false, "C03: send setup+path+command as ONE pipelined batch through Manager.Handle (net.Pipe) and decode the reply stream independently")
var clusterPath = flag.Bool("cluster", false, "wire mode: serve through the real cluster connection handler and apply loop (C14)")
var subst = flag.Bool("subst", false, "wire mode: every argument equal to \"b\" is sent as \"b\\r\\n\" (payloads with CR LF); replies are mapped back before matching")

func substArgs(argv [][]byte) [][]byte {
	if !*subst {
		return argv
	}
	out := make([][]byte, len(argv))
	for i, a := range argv {
		if i > 0 && string(a) == "b" {
			out[i] = []byte("b\r\n")
		} else {
			out[i] = a
		}
	}
	return out
}

func unsubst(r impl.Reply) impl.Reply {
	if !*subst {
		return r
	}
	if r.K == "str" && string(impl.I2B(r.V)) == "b\r\n" {
		r.V = impl.B2I([]byte("b"))
	}
	for i := range r.A {
		r.A[i] = unsubst(r.A[i])
	}
	return r
}

// shiftAbs rewrites absolute-time arguments (SET ... EXAT t) from model time to real time.
func shiftAbs(argv [][]byte, shift int64) [][]byte {
	if len(argv) < 1 || strings.ToLower(string(argv[0])) != "set" {
		return argv
	}
	out := make([][]byte, len(argv))
	copy(out, argv)
	for i := 3; i+1 < len(out); i++ {
		if strings.ToLower(string(out[i])) == "exat" {
			if n, err := strconv.ParseInt(string(out[i+1]), 10, 64); err == nil {
				out[i+1] = []byte(strconv.FormatInt(n+shift, 10))
			}
		}
	}
	return out
}

func main() {
	maxEdges := flag.Int("max", 0, "stop after this many edges (0 = all)")
	sample := flag.Int("sample", 0, "if > 0: per (state) test only commands whose label was covered fewer than N times")
	flag.Parse()
	canon.ModelT0 = *t0

	in := bufio.NewReaderSize(os.Stdin, 1<<24)
	stateID := map[string]int{}
	var stateJSON []string
	var edges []map[string]*cmdEdges // per state: cmd key -> edges
	var order [][]string             // per state: cmd keys in arrival order
	intern := func(raw json.RawMessage) int {
		k := string(raw)
		if id, ok := stateID[k]; ok {
			return id
		}
		id := len(stateJSON)
		stateID[k] = id
		stateJSON = append(stateJSON, k)
		edges = append(edges, map[string]*cmdEdges{})
		order = append(order, nil)
		return id
	}
	nEdges := 0
	var setup [][][]byte
	initID := -1
	for {
		line, err := in.ReadString('\n')
		if len(line) > 0 && line[0] == '"' {
			var s string
			if json.Unmarshal([]byte(strings.TrimRight(line, "\r\n")), &s) == nil {
				if strings.HasPrefix(s, "EDGE ") {
					var e rawEdge
					if err := json.Unmarshal([]byte(s[5:]), &e); err != nil {
						fmt.Fprintln(os.Stderr, "bad edge:", err)
						os.Exit(2)
					}
					sid := intern(e.S)
					tid := intern(e.T)
					argv := make([][]byte, len(e.C))
					for i, a := range e.C {
						argv[i] = impl.I2B(a)
					}
					ck := show(argv)
					ce := edges[sid][ck]
					if ce == nil {
						ce = &cmdEdges{argv: argv}
						edges[sid][ck] = ce
						order[sid] = append(order[sid], ck)
					}
					ce.outs = append(ce.outs, outcome{e.R, e.B, tid})
					nEdges++
				} else if strings.HasPrefix(s, "SETUP ") {
					var su struct {
						C [][][]int `json:"c"`
					}
					json.Unmarshal([]byte(s[6:]), &su)
					for _, c := range su.C {
						argv := make([][]byte, len(c))
						for i, a := range c {
							argv[i] = impl.I2B(a)
						}
						setup = append(setup, argv)
					}
				} else if strings.HasPrefix(s, "INIT ") {
					initID = intern(json.RawMessage(s[5:]))
				}
			}
		}
		if err != nil {
			break
		}
	}
	if initID < 0 {
		fmt.Fprintln(os.Stderr, "no INIT line")
		os.Exit(2)
	}

	// BFS over verified edges
	type pathStep struct {
		argv [][]byte
	}
	paths := make([][]pathStep, len(stateJSON))
	reached := make([]bool, len(stateJSON))
	reached[initID] = true
	queue := []int{initID}
	models := make([]canon.ModelState, len(stateJSON))
	haveModel := make([]bool, len(stateJSON))
	model := func(id int) canon.ModelState {
		if !haveModel[id] {
			ms, err := canon.ParseModelState([]byte(stateJSON[id]))
			if err != nil {
				fmt.Fprintln(os.Stderr, "bad model state:", err, stateJSON[id])
				os.Exit(2)
			}
			models[id] = ms
			haveModel[id] = true
		}
		return models[id]
	}

	out := bufio.NewWriter(os.Stdout)
	enc := json.NewEncoder(out)
	labelCount := map[string]int{}
	tested, failed, execs, skippedSample := 0, 0, 0, 0
	wireBatches, wireCmds := 0, 0
	failSigs := map[string]bool{}
	start := time.Now()

	replay := func(p []pathStep) (*impl.Srv, int64) {
		srv := impl.NewSrv(1)
		now := time.Now().Unix()
		shift := now - *t0
		for _, c := range setup {
			srv.Exec(c)
		}
		for _, st := range p {
			srv.Exec(shiftAbs(st.argv, shift))
			execs++
		}
		return srv, shift
	}

	for len(queue) > 0 {
		sid := queue[0]
		queue = queue[1:]
		// check that the path really leads to the source state (once per state)
		if !*wireMode && (len(paths[sid]) > 0 || sid == initID) {
			srv, shift := replay(paths[sid])
			if d := canon.DiffState(model(sid), srv, shift); d != "" {
				// should not happen: the edge into sid was verified; report and do not explore from here
				enc.Encode(failure{Kind: "state", Branch: "path-replay", Detail: "state after verified path differs", State: d})
				failed++
				continue
			}
		}
		for _, ck := range order[sid] {
			ce := edges[sid][ck]
			if *maxEdges > 0 && tested >= *maxEdges {
				break
			}
			if *sample > 0 {
				need := false
				for _, o := range ce.outs {
					if labelCount[o.b] < *sample {
						need = true
					}
				}
				// always follow edges into unreached states so that coverage of states is complete
				for _, o := range ce.outs {
					if !reached[o.t] {
						need = true
					}
				}
				if !need {
					skippedSample++
					continue
				}
			}
			var srv *impl.Srv
			var shift int64
			var got impl.Reply
			wireProblem := ""
			if *wireMode {
				shift = time.Now().Unix() - *t0
				var batch [][][]byte
				for _, c := range setup {
					batch = append(batch, substArgs(c))
				}
				for _, st := range paths[sid] {
					batch = append(batch, substArgs(shiftAbs(st.argv, shift)))
				}
				batch = append(batch, substArgs(shiftAbs(ce.argv, shift)))
				var wc *wire.Conn
				if *clusterPath {
					wc = wire.NewClusterPipe()
				} else {
					wc = wire.NewPipe(1)
				}
				res := wc.Batch(batch, 3*time.Second)
				wc.Close()
				execs += len(batch)
				wireBatches++
				wireCmds += len(batch)
				if res.Problem != "" {
					wireProblem = res.Problem + ": " + res.Detail
				} else {
					got = unsubst(res.Replies[len(res.Replies)-1])
				}
			} else {
				srv, shift = replay(paths[sid])
				got = srv.Exec(shiftAbs(ce.argv, shift))
				execs++
			}
			tested++
			var labels []string
			var pats []canon.Pat
			for _, o := range ce.outs {
				labels = append(labels, o.b)
				pats = append(pats, o.r)
			}
			mk := func(kind, detail, diff string) failure {
				var p []string
				for _, st := range paths[sid] {
					p = append(p, show(st.argv))
				}
				return failure{Kind: kind, Branch: ce.outs[0].b, Detail: detail, Path: p, Cmd: ck, Got: got, Expected: pats, Labels: labels, State: diff}
			}
			report := func(f failure) {
				failed++
				sig := f.Branch + "|" + f.Kind + "|" + f.Detail
				if !failSigs[sig] || failed < 50 {
					enc.Encode(f)
				}
				failSigs[sig] = true
			}
			if wireProblem != "" {
				report(mk("wire", strings.SplitN(wireProblem, ":", 2)[0], wireProblem))
				continue
			}
			if got.K == "panic" {
				report(mk("panic", got.E, got.Msg))
				continue
			}
			var matched []outcome
			for _, o := range ce.outs {
				if canon.Match(o.r, got) {
					matched = append(matched, o)
				}
			}
			if len(matched) == 0 {
				report(mk("reply", canon.KindDetail(pats, got), ""))
				continue
			}
			// state must equal the target of one matched outcome
			okT := -1
			diff := ""
			for _, o := range matched {
				if *wireMode { // the in-process tour compares states; the wire tour checks framing, count, order and content of replies
					okT = o.t
					labelCount[o.b]++
					break
				}
				d := canon.DiffState(model(o.t), srv, shift)
				if d == "" {
					okT = o.t
					labelCount[o.b]++
					break
				}
				diff = d
			}
			if okT < 0 {
				f := mk("state", "", diff)
				f.Branch = matched[0].b
				if strings.HasPrefix(diff, "structure:") {
					f.Kind = "structure"
				}
				report(f)
				continue
			}
			// random commands (SPOP) are tested but never used as path steps: a replay would pop something else
			if !reached[okT] && strings.ToLower(string(ce.argv[0])) != "spop" {
				reached[okT] = true
				np := make([]pathStep, len(paths[sid])+1)
				copy(np, paths[sid])
				np[len(paths[sid])] = pathStep{ce.argv}
				paths[okT] = np
				queue = append(queue, okT)
			}
		}
	}
	nReached := 0
	for _, r := range reached {
		if r {
			nReached++
		}
	}
	var labs []string
	for l := range labelCount {
		labs = append(labs, l)
	}
	sort.Strings(labs)
	allLabels := map[string]bool{}
	for sid := range edges {
		for _, ce := range edges[sid] {
			for _, o := range ce.outs {
				allLabels[o.b] = true
			}
		}
	}
	out.Flush()
	sum := map[string]interface{}{
		"states": len(stateJSON), "states_reached": nReached, "edges": nEdges, "edges_tested": tested,
		"edges_failed": failed, "execs": execs, "labels_total": len(allLabels), "labels_passed": len(labs),
		"skipped_by_sampling": skippedSample, "wall_s": time.Since(start).Seconds(),
		"wire_batches": wireBatches, "wire_commands": wireCmds,
	}
	b, _ := json.Marshal(sum)
	fmt.Println("SUMMARY " + string(b))
}
