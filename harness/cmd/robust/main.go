// robust: C04 driver. Executes the input space defined by spec/Robust.tla on the real in-process server and
// evaluates the server-life monitor after every input (no panic, answered in time, no lock stripe left held,
// probes on the same key / other keys / a fresh PING answer).
//
// stdin: lines printed by TLC: TOKENS, MUTSAMPLE (Robust.tla) and CMDS (valid commands of every MC_* instance).
// The enumeration is resumable (-from) and writes the index of the input being executed into -progress, so the
// parent can attribute a process death (fatal error, out of memory) to one input and restart behind it.
package main

import (
	"bufio"
	"encoding/binary"
	"encoding/json"
	"flag"
	"fmt"
	"net"
	"os"
	"sort"
	"strconv"
	"strings"
	"time"

	"github.com/innovationb1ue/RedisGO/memdb"
	"verif/harness/impl"
)

type anomaly struct {
	Kind   string   `json:"kind"` // panic | timeout | lock-leak | probe-stuck | died
	Site   string   `json:"site"`
	Argv   []string `json:"argv"`
	Detail string   `json:"detail"`
	Source string   `json:"source"` // enum | mut
	Index  int64    `json:"index"`
}

var tokens [][]byte

func decode(b [][]int) [][]byte {
	out := make([][]byte, len(b))
	for i, a := range b {
		out[i] = impl.I2B(a)
	}
	return out
}

func key(c [][]byte) string {
	parts := make([]string, len(c))
	for i, a := range c {
		parts[i] = strconv.Quote(string(a))
	}
	return strings.Join(parts, " ")
}

// mutations mirrors Mutations(c) of spec/Robust.tla.
func mutations(c [][]byte) [][][]byte {
	seen := map[string]bool{}
	var out [][][]byte
	add := func(m [][]byte) {
		k := key(m)
		if !seen[k] {
			seen[k] = true
			out = append(out, m)
		}
	}
	cp := func(x [][]byte) [][]byte { return append([][]byte{}, x...) }
	for n := 1; n <= len(c)-1; n++ {
		add(cp(c[:n]))
	}
	for i := 1; i < len(c); i++ {
		add(append(cp(c[:i]), c[i+1:]...))
	}
	for i := 1; i < len(c); i++ {
		add(append(cp(c[:i+1]), c[i:]...))
	}
	for i := 1; i+1 < len(c); i++ {
		m := cp(c)
		m[i], m[i+1] = m[i+1], m[i]
		add(m)
	}
	for i := 1; i < len(c); i++ {
		for _, t := range tokens {
			m := cp(c)
			m[i] = t
			add(m)
		}
	}
	for _, t := range tokens {
		m := cp(c)
		for i := 1; i < len(c); i++ {
			if isIntArg(c[i]) {
				m[i] = t
			}
		}
		add(m)
	}
	return out
}

func isIntArg(a []byte) bool {
	d := a
	if len(d) >= 1 && d[0] == '-' {
		d = d[1:]
	}
	if len(d) == 0 {
		return false
	}
	for _, b := range d {
		if b < '0' || b > '9' {
			return false
		}
	}
	return true
}

// rekey: Robust.tla Rekey - the first key replaced by the key of the same family in the driver's initial state
func rekey(c [][]byte) [][]byte {
	if len(c) < 2 {
		return c
	}
	fam := "str"
	if len(c[1]) > 0 {
		switch c[1][0] {
		case 'l':
			fam = "lst"
		case 'h':
			fam = "hsh"
		case 's':
			fam = "st"
		case 'z':
			fam = "zs"
		case 'x':
			fam = "xs"
		}
	}
	m := append([][]byte{}, c...)
	m[1] = []byte(fam)
	return m
}

type drain struct{ c net.Conn }

func newConn() net.Conn {
	a, b := net.Pipe()
	go func() {
		buf := make([]byte, 4096)
		for {
			if _, err := b.Read(buf); err != nil {
				return
			}
		}
	}()
	return a
}

var setupCmds = [][]string{
	{"SET", "str", "sv"}, {"RPUSH", "lst", "a", "b", "a"}, {"HSET", "hsh", "f", "v", "n", "1"}, {"SADD", "st", "a", "b"},
	{"ZADD", "zs", "1", "a", "2", "b", "2", "c"}, {"XADD", "xs", "1-1", "f", "v"}, {"XADD", "xs", "2-0", "f", "v"},
}

func fresh() *impl.Srv {
	s := impl.NewSrv(2)
	for _, c := range setupCmds {
		s.Exec(impl.S(c...))
	}
	return s
}

func main() {
	maxArgs := flag.Int("maxargs", 2, "enumerate argument vectors up to this length")
	allCases := flag.Int("casesupto", 1, "use UPPER and MiXed command-name case for vectors up to this length")
	from := flag.Int64("from", 0, "resume at this input index")
	progress := flag.String("progress", "", "file receiving the index of the input being executed (8 bytes, little endian)")
	blockBudget := flag.Int("blocking", 12, "how many timed (1 s) blocking-pop inputs to run")
	noMut := flag.Bool("nomut", false, "skip mutation inputs")
	flag.Parse()

	in := bufio.NewReaderSize(os.Stdin, 1<<24)
	var valid [][][]byte
	validSeen := map[string]bool{}
	type sample struct {
		C [][]int   `json:"c"`
		M [][][]int `json:"m"`
	}
	var samples []sample
	for {
		line, err := in.ReadString('\n')
		if len(line) > 0 && line[0] == '"' {
			var s string
			if json.Unmarshal([]byte(strings.TrimRight(line, "\r\n")), &s) == nil {
				switch {
				case strings.HasPrefix(s, "TOKENS "):
					var t struct {
						T [][]int `json:"t"`
					}
					json.Unmarshal([]byte(s[7:]), &t)
					tokens = decode(t.T)
				case strings.HasPrefix(s, "MUTSAMPLE "):
					var sm sample
					json.Unmarshal([]byte(s[10:]), &sm)
					samples = append(samples, sm)
				case strings.HasPrefix(s, "CMDS "):
					var c struct {
						C [][][]int `json:"c"`
					}
					json.Unmarshal([]byte(s[5:]), &c)
					for _, x := range c.C {
						d := decode(x)
						if len(d) > 0 && !validSeen[key(d)] {
							validSeen[key(d)] = true
							valid = append(valid, d)
						}
					}
				}
			}
		}
		if err != nil {
			break
		}
	}
	if len(tokens) == 0 {
		fmt.Fprintln(os.Stderr, "no TOKENS line")
		os.Exit(2)
	}
	// cross-check the Go mutation operator against TLC's evaluation of Mutations(c)
	for _, sm := range samples {
		want := map[string]bool{}
		for _, m := range sm.M {
			want[key(decode(m))] = true
		}
		got := map[string]bool{}
		for _, m := range mutations(decode(sm.C)) {
			got[key(m)] = true
		}
		if len(got) != len(want) {
			fmt.Fprintf(os.Stderr, "mutation operator disagrees with Robust.tla on %s: %d vs %d\n", key(decode(sm.C)), len(got), len(want))
			os.Exit(2)
		}
		for k := range want {
			if !got[k] {
				fmt.Fprintf(os.Stderr, "mutation operator disagrees with Robust.tla: missing %s\n", k)
				os.Exit(2)
			}
		}
	}

	impl.Init(0)
	var names []string
	for n := range memdb.CmdTable {
		names = append(names, n)
	}
	names = append(names, "select", "nosuchcommand")
	sort.Strings(names)

	var prog *os.File
	if *progress != "" {
		prog, _ = os.OpenFile(*progress, os.O_CREATE|os.O_WRONLY, 0644)
	}
	out := bufio.NewWriter(os.Stdout)
	enc := json.NewEncoder(out)

	srv := fresh()
	conn := newConn()
	sinceFresh := 0
	var idx, executed, skippedBlocking, anomalies int64
	sites := map[string]int{}
	stripes := memdb.VerifStripes(srv.Mgr.DBs[0])
	distinctOutcome := map[string]bool{}

	slowReplies := 0
	// a tree on which many inputs wedge would cost 32 s per input: after six confirmed wedges the confirmation wait shrinks
	// (verdicts are taken over TCP later anyway), and after forty the enumeration stops early
	hangsSeen := 0
	confirmWait := func() time.Duration {
		if hangsSeen >= 6 {
			return 4 * time.Second
		}
		return 30 * time.Second
	}
	run := func(argv [][]byte, bound time.Duration) (impl.Reply, bool) {
		ch := make(chan impl.Reply, 1)
		go func() { ch <- srv.ExecConn(argv, conn) }()
		select {
		case r := <-ch:
			return r, true
		case <-time.After(bound):
		}
		// a wedged command never answers; a starved process eventually does. Only the former is a verdict.
		select {
		case r := <-ch:
			slowReplies++
			return r, true
		case <-time.After(confirmWait()):
			hangsSeen++
			return impl.Reply{}, false
		}
	}
	strs := func(argv [][]byte) []string {
		o := make([]string, len(argv))
		for i, a := range argv {
			o[i] = string(a)
		}
		return o
	}
	report := func(kind, site string, argv [][]byte, detail, source string) {
		anomalies++
		sites[kind+"|"+site]++
		if sites[kind+"|"+site] <= 3 {
			enc.Encode(anomaly{kind, site, strs(argv), detail, source, idx})
			out.Flush()
		}
		srv = fresh()
		conn = newConn()
		sinceFresh = 0
	}
	probeKeys := []string{"str", "lst", "hsh", "st", "zs", "xs", "nokey"}

	one := func(argv [][]byte, source string) {
		idx++
		if idx <= *from || hangsSeen >= 40 {
			return
		}
		if prog != nil {
			var b [8]byte
			binary.LittleEndian.PutUint64(b[:], uint64(idx))
			prog.WriteAt(b[:], 0)
		}
		bound := 2 * time.Second
		name := strings.ToLower(string(argv[0]))
		if name == "blpop" || name == "brpop" {
			if len(argv) >= 3 {
				if n, err := strconv.ParseInt(string(argv[len(argv)-1]), 10, 64); err == nil && n >= 0 {
					// a legal timeout: may legitimately block (0 = forever). Run only a budget of 1-second ones.
					if n != 1 || *blockBudget <= 0 {
						skippedBlocking++
						return
					}
					*blockBudget--
					bound = 3 * time.Second
				}
			}
		}
		executed++
		rep, ok := run(argv, bound)
		if !ok {
			report("timeout", name, argv, fmt.Sprintf("no reply within %v", bound+30*time.Second), source)
			return
		}
		if rep.K == "panic" {
			report("panic", rep.E, argv, rep.Msg, source)
			return
		}
		if rep.K == "malformed" {
			report("malformed-reply", name, argv, rep.Msg, source)
			return
		}
		distinctOutcome[name+"/"+strconv.Itoa(len(argv))+"/"+rep.K] = true
		db := srv.Mgr.DBs[0]
		if srv.Mgr.CurrentDB != db {
			srv.Mgr.CurrentDB = db // SELECT 1 was an input; go back
		}
		for p := 0; p < stripes; p++ {
			free := memdb.VerifStripeFree(db, p)
			for try := 0; !free && try < 20; try++ { // a ttl timer goroutine may hold the stripe for an instant
				time.Sleep(5 * time.Millisecond)
				free = memdb.VerifStripeFree(db, p)
			}
			if !free {
				report("lock-leak", name, argv, fmt.Sprintf("stripe %d still held after the command returned", p), source)
				return
			}
		}
		// two keys holding ONE mutable object: harmless for this connection, but commands on the two keys take different
		// lock stripes over the same Go map - the lead for a crash under two connections (confirmed over TCP by the check)
		objOwner := map[uintptr]string{}
		for _, v := range memdb.VerifDump(db) {
			if v.Obj == 0 {
				continue
			}
			if other, dup := objOwner[v.Obj]; dup {
				report("shared-object", name, argv, fmt.Sprintf("%s|%s|%s", v.Type, other, v.Key), source)
				srv = fresh()
				sinceFresh = 0
				return
			}
			objOwner[v.Obj] = v.Key
		}
		sinceFresh++
		if sinceFresh%16 == 0 {
			for _, k := range probeKeys {
				if _, ok := run(impl.S("EXISTS", k), time.Second); !ok {
					report("probe-stuck", name, argv, "EXISTS "+k+" did not answer", source)
					return
				}
				if _, ok := run(impl.S("TYPE", k), time.Second); !ok {
					report("probe-stuck", name, argv, "TYPE "+k+" did not answer", source)
					return
				}
			}
			if r, ok := run(impl.S("PING"), time.Second); !ok || r.K != "str" {
				report("probe-stuck", name, argv, "PING did not answer", source)
				return
			}
		}
		if sinceFresh >= 256 {
			srv = fresh()
			sinceFresh = 0
		}
	}

	cases := func(n string, argc int) []string {
		if argc > *allCases {
			return []string{n}
		}
		b := []byte(n)
		for i := range b {
			if i%2 == 0 {
				b[i] = byte(strings.ToUpper(string(b[i]))[0])
			}
		}
		return []string{n, strings.ToUpper(n), string(b)}
	}
	// Enum
	var rec func(prefix [][]byte, depth, max int)
	rec = func(prefix [][]byte, depth, max int) {
		if depth == max {
			one(prefix, "enum")
			return
		}
		for _, t := range tokens {
			rec(append(prefix[:len(prefix):len(prefix)], t), depth+1, max)
		}
	}
	for _, n := range names {
		for argc := 0; argc <= *maxArgs; argc++ {
			for _, cn := range cases(n, argc) {
				rec([][]byte{[]byte(cn)}, 0, argc)
			}
		}
	}
	// command NAMES drawn from the token alphabet (unknown commands echo their name in the error reply)
	for _, t := range tokens {
		one([][]byte{t}, "enum")
		for _, u := range tokens {
			one([][]byte{t, u}, "enum")
		}
	}
	nEnum := idx
	// Mut
	if !*noMut {
		for _, c := range valid {
			for _, m := range mutations(c) {
				one(m, "mut")
			}
			if rk := rekey(c); key(rk) != key(c) {
				one(rk, "mut")
				for _, m := range mutations(rk) {
					one(m, "mut")
				}
			}
		}
	}
	out.Flush()
	sum := map[string]interface{}{"inputs": idx, "enum_inputs": nEnum, "mutation_inputs": idx - nEnum, "executed": executed,
		"skipped_blocking": skippedBlocking, "anomalies": anomalies, "names": len(names), "tokens": len(tokens),
		"valid_commands": len(valid), "distinct_outcome_classes": len(distinctOutcome), "anomaly_sites": sites, "slow_replies_not_wedged": slowReplies, "wedged_inputs": hangsSeen, "stopped_early_after_40_wedges": hangsSeen >= 40}
	b, _ := json.Marshal(sum)
	fmt.Println("SUMMARY " + string(b))
}
