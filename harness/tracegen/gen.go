// Package tracegen generates seeded random command programmes per command family (B2 drivers).
package tracegen

import (
	"fmt"
	"math/rand"
	"strconv"
	"strings"
)

// Gen produces argv's for one programme.
type Gen struct {
	R      *rand.Rand
	Family string
	Keys   []string // plain keys of the family under test
	Other  []string // keys of other types (created by the prelude)
	n      int      // commands generated so far in this programme (deep families: fresh element names / growing ids)
}

var nastyVals = []string{"", "a", "b", "ab", "abc", "A", "hello world", " ", "a b", "\r\n", "x\r\ny", "\x00", "\xff\xfe", "\n",
	"10", "-1", "0", "1", "2", "9223372036854775807", "-9223372036854775808", "9223372036854775806", "1.5", "0.25", "-0.5", "2.75",
	"*", "?", "[a]", "nx", "ex", "withscores"}

var intArgs = []string{"0", "1", "-1", "2", "-2", "3", "-3", "4", "-4", "5", "-5", "7", "100", "-100", "9223372036854775807", "-9223372036854775808"}

func (g *Gen) pick(xs []string) string { return xs[g.R.Intn(len(xs))] }

func (g *Gen) Val() string {
	switch g.R.Intn(20) {
	case 0:
		n := 50 + g.R.Intn(400)
		b := make([]byte, n)
		for i := range b {
			b[i] = byte(g.R.Intn(256))
		}
		return string(b)
	case 1, 2:
		n := g.R.Intn(6)
		b := make([]byte, n)
		for i := range b {
			b[i] = byte(g.R.Intn(256))
		}
		return string(b)
	}
	return g.pick(nastyVals)
}

// small element pool (duplicates matter for lists / sets)
func (g *Gen) Elem() string {
	if g.R.Intn(6) == 0 {
		return g.Val()
	}
	return g.pick([]string{"a", "b", "c", "", "a", "b", "A", "x y", "\r\n"})
}

func (g *Gen) Key() string {
	if len(g.Other) > 0 && g.R.Intn(12) == 0 {
		return g.pick(g.Other)
	}
	if g.R.Intn(25) == 0 {
		return g.pick([]string{"nokey", "", "k 1", "K\r\n"})
	}
	return g.pick(g.Keys)
}

func (g *Gen) Int() string { return g.pick(intArgs) }
func (g *Gen) SmallInt() string {
	return strconv.Itoa(g.R.Intn(9) - 4)
}
func (g *Gen) NumVal() string {
	return g.pick([]string{"0", "1", "-1", "5", "10", "-7", "9223372036854775807", "-9223372036854775808", "9223372036854775800", "100", "a", "", "1.5", " 1", "007", "+5"})
}
func (g *Gen) FloatArg() string {
	return g.pick([]string{"0", "1", "-1", "1.5", "0.25", "-0.5", "2.75", "10", "100.125", "-3", "abc", "", "3.0", "inf", "-inf", "nan"})
}
func (g *Gen) caseMix(s string) string {
	switch g.R.Intn(6) {
	case 0:
		return strings.ToUpper(s)
	case 1:
		b := []byte(s)
		for i := range b {
			if g.R.Intn(2) == 0 {
				b[i] = byte(strings.ToUpper(string(b[i]))[0])
			}
		}
		return string(b)
	}
	return s
}

func (g *Gen) opt(p int, words ...string) []string {
	if g.R.Intn(100) < p {
		out := make([]string, len(words))
		for i, w := range words {
			out[i] = w
		}
		out[0] = g.caseMix(out[0])
		return out
	}
	return nil
}

func cat(parts ...[]string) []string {
	var out []string
	for _, p := range parts {
		out = append(out, p...)
	}
	return out
}

// Prelude creates one key of every other type so WRONGTYPE branches are reachable.
func (g *Gen) Prelude() [][]string {
	all := map[string][]string{
		"string": {"SET", "str", "sv"},
		"list":   {"RPUSH", "lst", "a", "b"},
		"hash":   {"HSET", "hsh", "f", "v"},
		"set":    {"SADD", "st", "a", "b"},
		"zset":   {"ZADD", "zs", "1", "a"},
		"stream": {"XADD", "xs", "1-1", "f", "v"},
	}
	var out [][]string
	g.Other = nil
	for _, t := range []string{"string", "list", "hash", "set", "zset", "stream"} {
		if t == g.Family || (g.Family == "keys" && t == "string") || g.Family == "zsetdeep" || g.Family == "lifecycle" || g.Family == "listdeep" || g.Family == "streamdeep" {
			continue
		}
		out = append(out, all[t])
		g.Other = append(g.Other, all[t][1])
	}
	return out
}

// Staleness returns a scripted opening for programme number pn (every third programme): an aggregate is built, EVERY reading
// command of its family is issued (whatever an implementation caches next to the data - a member list, a rank index, a
// cursor - is now filled), one element is replaced by another WITHOUT a change of size or through an in-place rewrite, and
// every reader is issued again. A cache that is refreshed by a size test, a version that an in-place path forgets to bump,
// or a remembered position shows as a reply the data no longer supports.
func (g *Gen) Staleness(pn int) [][]string {
	if pn%3 != 0 {
		return nil
	}
	k := "stale1"
	v := pn / 3
	var build, readers, replace [][]string
	switch g.Family {
	case "hash":
		build = [][]string{{"hset", k, "a", "1", "b", "2", "c", "3"}}
		readers = [][]string{{"hrandfield", k, "10"}, {"hrandfield", k, "-3", "withvalues"}, {"hkeys", k}, {"hvals", k}, {"hgetall", k}, {"hlen", k}, {"hmget", k, "a", "d"}, {"hexists", k, "a"}, {"hstrlen", k, "a"}}
		replace = [][][]string{{{"hdel", k, "a"}, {"hset", k, "d", "4"}}, {{"hset", k, "a", "9"}}, {{"hdel", k, "a", "b"}, {"hset", k, "d", "4", "e", "5"}}, {{"hincrby", k, "a", "5"}}}[v%4]
	case "set":
		build = [][]string{{"sadd", k, "a", "b", "c"}}
		readers = [][]string{{"smembers", k}, {"scard", k}, {"sismember", k, "a"}, {"sismember", k, "d"}, {"sunion", k}, {"sinter", k}, {"sdiff", k}}
		replace = [][][]string{{{"srem", k, "a"}, {"sadd", k, "d"}}, {{"smove", k, "stale2", "a"}, {"sadd", k, "d"}}, {{"srem", k, "a", "b"}, {"sadd", k, "d", "e"}}}[v%3]
	case "zset":
		build = [][]string{{"zadd", k, "1", "a", "1", "b", "2", "c", "3", "d"}}
		readers = [][]string{{"zrange", k, "0", "-1", "withscores"}, {"zrank", k, "a"}, {"zrank", k, "c"}, {"zrank", k, "d"}, {"zrank", k, "e"}}
		replace = [][][]string{{{"zrem", k, "a"}}, {{"zrem", k, "a"}, {"zadd", k, "1", "e"}}, {{"zadd", k, "5", "a"}}, {{"zadd", k, "incr", "2", "b"}}, {{"zrem", k, "c"}, {"zadd", k, "2", "e"}}}[v%5]
	case "list", "listdeep":
		build = [][]string{{"rpush", k, "a", "b", "c", "d"}}
		readers = [][]string{{"lrange", k, "0", "-1"}, {"lindex", k, "2"}, {"lindex", k, "-1"}, {"llen", k}, {"lpos", k, "c"}, {"lrange", k, "1", "2"}}
		replace = [][][]string{{{"lpop", k}, {"rpush", k, "e"}}, {{"lset", k, "2", "x"}}, {{"rpop", k}, {"lpush", k, "e"}}, {{"lrem", k, "1", "b"}, {"rpush", k, "b"}}, {{"lmove", k, k, "left", "right"}}, {{"ltrim", k, "1", "-1"}, {"lpush", k, "z"}}}[v%6]
	case "string":
		build = [][]string{{"set", k, "abcd"}}
		readers = [][]string{{"get", k}, {"strlen", k}, {"getrange", k, "1", "2"}, {"mget", k}}
		replace = [][][]string{{{"setrange", k, "1", "X"}}, {{"set", k, "wxyz"}}, {{"append", k, ""}}, {{"set", k, "1234"}, {"incr", k}}}[v%4]
	case "stream", "streamdeep":
		build = [][]string{{"xadd", k, "1-1", "f", "a"}, {"xadd", k, "2-1", "f", "b"}, {"xadd", k, "3-1", "f", "c"}}
		readers = [][]string{{"xrange", k, "-", "+"}, {"xrange", k, "2", "3"}, {"xrange", k, "-", "+", "count", "1"}}
		replace = [][][]string{{{"xadd", k, "maxlen", "3", "4-1", "f", "d"}}, {{"xadd", k, "minid", "2", "4-1", "f", "d"}}}[v%2]
	default:
		return nil
	}
	out := append([][]string{}, build...)
	out = append(out, readers...)
	out = append(out, replace...)
	return append(out, readers...)
}

// Aliasing returns a short scripted opening for programme number pn: a value is created by one command, changed through
// a second key-local command that an implementation may perform in place, then a value is created the same way under
// ANOTHER key, and both are read. What one key's command does to memory must never show through another key (shared
// default objects, recycled buffers). Every (creator, mutator) pair comes up once every len(pairs) programmes.
func (g *Gen) Aliasing(pn int) [][]string {
	a, b := "al1", "al2"
	type pair struct{ create, mutate func(k string) []string }
	var creators, mutators []func(k string) []string
	var readers func(k string) []string
	switch g.Family {
	case "string":
		for _, c := range [][]string{{"incr"}, {"decr"}, {"incrby", "5"}, {"decrby", "5"}, {"append", "ab"}, {"set", "ab"}, {"setnx", "ab"}, {"mset", "ab"},
			{"setex", "100", "ab"}, {"incrbyfloat", "1.5"}, {"setrange", "0", "ab"}, {"set", "10"}} {
			c := c
			creators = append(creators, func(k string) []string {
				if c[0] == "setex" {
					return []string{"setex", k, c[1], c[2]}
				}
				return append([]string{c[0], k}, c[1:]...)
			})
		}
		for _, m := range [][]string{{"setrange", "0", "9"}, {"append", "z"}, {"setrange", "1", "q"}, {"incr"}, {"incrbyfloat", "0.5"}} {
			m := m
			mutators = append(mutators, func(k string) []string { return append([]string{m[0], k}, m[1:]...) })
		}
		readers = func(k string) []string { return []string{"get", k} }
	case "hash":
		for _, c := range [][]string{{"hset", "f", "1"}, {"hincrby", "f", "1"}, {"hincrbyfloat", "f", "1.5"}, {"hsetnx", "f", "10"}, {"hset", "f", "ab"}} {
			c := c
			creators = append(creators, func(k string) []string { return append([]string{c[0], k}, c[1:]...) })
		}
		for _, m := range [][]string{{"hincrby", "f", "1"}, {"hincrbyfloat", "f", "0.5"}, {"hset", "f", "zz"}, {"hset", "g", "1"}, {"hdel", "f"}} {
			m := m
			mutators = append(mutators, func(k string) []string { return append([]string{m[0], k}, m[1:]...) })
		}
		readers = func(k string) []string { return []string{"hgetall", k} }
	case "list":
		for _, c := range [][]string{{"rpush", "a"}, {"lpush", "a", "b"}, {"rpush", "a", "b", "c"}} {
			c := c
			creators = append(creators, func(k string) []string { return append([]string{c[0], k}, c[1:]...) })
		}
		for _, m := range [][]string{{"lset", "0", "z"}, {"lpush", "q"}, {"lpop"}, {"lrem", "0", "a"}, {"ltrim", "0", "0"}} {
			m := m
			mutators = append(mutators, func(k string) []string { return append([]string{m[0], k}, m[1:]...) })
		}
		readers = func(k string) []string { return []string{"lrange", k, "0", "-1"} }
	case "set":
		for _, c := range [][]string{{"sadd", "a"}, {"sadd", "a", "b"}} {
			c := c
			creators = append(creators, func(k string) []string { return append([]string{c[0], k}, c[1:]...) })
		}
		for _, m := range [][]string{{"sadd", "z"}, {"srem", "a"}, {"spop"}} {
			m := m
			mutators = append(mutators, func(k string) []string { return append([]string{m[0], k}, m[1:]...) })
		}
		readers = func(k string) []string { return []string{"smembers", k} }
	default:
		return nil
	}
	// one command that stores SEVERAL of its arguments, then a command that grows or patches the first of them: however the
	// arguments of a command are laid out in memory (one buffer, a decoded log entry), the values are independent
	var extras [][][]string
	switch g.Family {
	case "string":
		extras = [][][]string{
			{{"mset", a, "ab", b, "cd"}, {"append", a, "xyz01"}, {"get", a}, {"get", b}, {"append", b, "q"}, {"get", a}, {"get", b}, {"del", a, b}}, // fits the room behind "ab" exactly
			{{"mset", a, "ab", b, "cdefgh"}, {"append", a, "xyz0"}, {"get", a}, {"get", b}, {"del", a, b}},
			{{"mset", a, "ab", b, "cd"}, {"append", a, "x"}, {"append", a, "y"}, {"append", a, "z0123"}, {"get", a}, {"get", b}, {"del", a, b}},
			{{"mset", a, "ab", b, "cd"}, {"setrange", a, "1", "wxyz0"}, {"get", a}, {"get", b}, {"del", a, b}},
			{{"set", a, "ab", "ex", "100"}, {"append", a, "xyz"}, {"get", a}, {"ttl", a}, {"del", a}},
			{{"setex", a, "100", "ab"}, {"append", a, "xyz0123456789"}, {"get", a}, {"ttl", a}, {"del", a}},
			{{"mset", a, "", b, "cd"}, {"append", a, "xyz01"}, {"get", a}, {"get", b}, {"del", a, b}},
		}
	case "hash":
		extras = [][][]string{
			{{"hset", a, "f", "ab", "g", "cd"}, {"hincrbyfloat", a, "n", "1.5"}, {"hset", a, "f", "abxyz"}, {"hgetall", a}, {"del", a}},
		}
	case "list":
		extras = [][][]string{
			{{"rpush", a, "ab", "cd", "ef"}, {"lset", a, "0", "abxyz"}, {"lrange", a, "0", "-1"}, {"del", a}},
		}
	}
	n := len(creators) * len(mutators)
	// (the extras come first: drivers that run only a handful of programmes - real clusters - still get them)
	j := pn % (n + len(extras))
	if j < len(extras) {
		return extras[j]
	}
	i := j - len(extras)
	c, m := creators[i/len(mutators)], mutators[i%len(mutators)]
	fix := func(x []string) []string { // mset key value: the generic builder put the key first already
		return x
	}
	return [][]string{fix(c(a)), readers(a), m(a), readers(a), fix(c(b)), readers(b), readers(a), {"del", a, b}}
}

// Next returns the next command of the programme.
func (g *Gen) Next() []string {
	var a []string
	switch g.Family {
	case "string":
		a = g.nextString()
	case "keys":
		a = g.nextKeys()
	case "list":
		a = g.nextList()
	case "hash":
		a = g.nextHash()
	case "set":
		a = g.nextSet()
	case "zset":
		a = g.nextZset()
	case "stream":
		a = g.nextStream()
	case "zsetdeep":
		a = g.nextZsetDeep()
	case "lifecycle":
		a = g.nextLifecycle()
	case "listdeep":
		a = g.nextListDeep()
	case "streamdeep":
		a = g.nextStreamDeep()
	default:
		panic("family " + g.Family)
	}
	a[0] = g.caseMix(a[0])
	return a
}

func (g *Gen) nextString() []string {
	k := g.Key()
	switch g.R.Intn(30) {
	case 0, 1, 2, 3:
		return cat([]string{"set", k, g.Val()}, g.opt(25, "nx"), g.opt(15, "xx"), g.opt(20, "get"),
			g.opt(12, "ex", g.pick([]string{"100", "1000", "0", "-1", "abc", "50"})),
			g.opt(6, "px", g.pick([]string{"100000", "5000000", "0", "x"})),
			g.opt(4, "exat", g.pick([]string{"1999999999", "1", "abc"})),
			g.opt(8, "keepttl"))
	case 4, 5, 6:
		return []string{"get", k}
	case 7:
		return cat([]string{"mset", k, g.Val()}, g.opt(60, g.Key(), g.Val()), g.opt(20, g.Key()))
	case 8:
		return cat([]string{"mget", k}, g.opt(60, g.Key()), g.opt(30, g.Key()))
	case 9:
		return []string{"setnx", k, g.Val()}
	case 10:
		return []string{"setex", k, g.pick([]string{"100", "1000", "0", "-5", "abc"}), g.Val()}
	case 11, 12:
		return []string{"append", k, g.Val()}
	case 13:
		return []string{"strlen", k}
	case 14, 15:
		return []string{"getrange", k, g.Int(), g.Int()}
	case 16, 17:
		return []string{"setrange", k, g.pick([]string{"0", "1", "2", "3", "5", "10", "-1", "abc"}), g.Val()}
	case 18:
		return []string{"incr", k}
	case 19:
		return []string{"decr", k}
	case 20:
		return []string{"incrby", k, g.NumVal()}
	case 21:
		return []string{"decrby", k, g.NumVal()}
	case 22:
		// float arithmetic only on dedicated keys whose values stay in the exactly-representable pool
		fk := g.pick([]string{"fk1", "fk2"})
		switch g.R.Intn(5) {
		case 0:
			return []string{"set", fk, g.FloatArg()}
		case 1:
			return []string{"get", fk}
		}
		return []string{"incrbyfloat", fk, g.FloatArg()}
	case 23:
		return []string{"set", k, g.NumVal()}
	case 24:
		return cat([]string{"del", k}, g.opt(40, g.Key()), g.opt(20, g.Key()))
	case 25:
		return cat([]string{"exists", k}, g.opt(40, g.Key()), g.opt(20, k))
	case 26:
		return []string{"type", k}
	case 27:
		return []string{"rename", k, g.Key()}
	case 28:
		return []string{"keys", g.pick([]string{"*", "k*", "?1", "[kK]1", "k[0-9]", "*1", "K*", "nomatch", "k\\1"})}
	default:
		return g.pick2([][]string{{"ping"}, {"ping", g.Val()}, {"ttl", k}, {"persist", k}, {"expire", k, "100"}})
	}
}

func (g *Gen) pick2(xs [][]string) []string { return xs[g.R.Intn(len(xs))] }

func (g *Gen) nextKeys() []string {
	k := g.Key()
	switch g.R.Intn(16) {
	case 0, 1:
		return []string{"set", k, g.Val()}
	case 2:
		return cat([]string{"expire", k, g.pick([]string{"100", "200", "50", "0", "-1", "abc", "1000"})},
			g.opt(50, g.pick([]string{"nx", "xx", "gt", "lt", "zz"})))
	case 3:
		return []string{"persist", k}
	case 4, 5:
		return []string{"ttl", k}
	case 6:
		return cat([]string{"del", k}, g.opt(40, g.Key()))
	case 7:
		return cat([]string{"exists", k}, g.opt(40, g.Key()))
	case 8:
		return []string{"type", k}
	case 9, 10:
		return []string{"rename", k, g.Key()}
	case 11, 12:
		return []string{"keys", g.pick([]string{"*", "k*", "?1", "[kK]1", "k[0-9]", "*1", "K*", "nomatch", "k\\1", "[^k]*", "*[12]", "k?", "??", "*s*"})}
	case 13:
		return []string{"setex", k, "100", g.Val()}
	case 14:
		return cat([]string{"set", k, g.Val()}, g.opt(50, "keepttl"), g.opt(30, "ex", "300"))
	default:
		return g.pick2([][]string{{"ping"}, {"get", k}, {"lpush", k, "a"}, {"sadd", k, "a"}})
	}
}

func (g *Gen) nextList() []string {
	k := g.Key()
	switch g.R.Intn(30) {
	case 0, 1, 2:
		return cat([]string{"rpush", k, g.Elem()}, g.opt(50, g.Elem()), g.opt(30, g.Elem()))
	case 3, 4, 5:
		return cat([]string{"lpush", k, g.Elem()}, g.opt(50, g.Elem()), g.opt(30, g.Elem()))
	case 6:
		return []string{"lpushx", k, g.Elem()}
	case 7:
		return []string{"rpushx", k, g.Elem()}
	case 8, 9:
		return cat([]string{"lpop", k}, g.opt(40, g.pick([]string{"0", "1", "2", "3", "10", "-1", "a"})))
	case 10, 11:
		return cat([]string{"rpop", k}, g.opt(40, g.pick([]string{"0", "1", "2", "3", "10", "-1", "a"})))
	case 12, 13:
		return []string{"llen", k}
	case 14:
		return []string{"lindex", k, g.Int()}
	case 15, 16, 17:
		return []string{"lrange", k, g.Int(), g.Int()}
	case 18:
		return []string{"lset", k, g.Int(), g.Elem()}
	case 19, 20:
		return []string{"lrem", k, g.pick([]string{"0", "1", "-1", "2", "-2", "5", "a"}), g.Elem()}
	case 21, 22:
		return []string{"ltrim", k, g.Int(), g.Int()}
	case 23, 24:
		return cat([]string{"lpos", k, g.Elem()}, g.opt(40, "rank", g.pick([]string{"1", "2", "-1", "-2", "0", "3"})),
			g.opt(40, "count", g.pick([]string{"0", "1", "2", "5", "-1"})), g.opt(30, "maxlen", g.pick([]string{"0", "1", "2", "3", "-1"})))
	case 25, 26:
		return []string{"lmove", k, g.Key(), g.caseMix(g.pick([]string{"left", "right"})), g.caseMix(g.pick([]string{"left", "right", "up"}))}
	case 27:
		return g.pick2([][]string{{"exists", k}, {"type", k}, {"del", k}})
	default:
		return []string{"lrange", k, "0", "-1"}
	}
}

func (g *Gen) Field() string {
	if g.R.Intn(8) == 0 {
		return g.Val()
	}
	return g.pick([]string{"f", "g", "h", "", "F", "f g"})
}

func (g *Gen) nextHash() []string {
	k := g.Key()
	hv := func() string {
		if g.R.Intn(3) == 0 {
			return g.NumVal()
		}
		if g.R.Intn(6) == 0 {
			return g.FloatArg()
		}
		return g.Val()
	}
	switch g.R.Intn(28) {
	case 0, 1, 2, 3:
		return cat([]string{"hset", k, g.Field(), hv()}, g.opt(40, g.Field(), hv()), g.opt(10, g.Field()))
	case 4:
		return []string{"hsetnx", k, g.Field(), hv()}
	case 5, 6, 7:
		return []string{"hget", k, g.Field()}
	case 8, 9:
		return cat([]string{"hmget", k, g.Field()}, g.opt(60, g.Field()), g.opt(30, g.Field()))
	case 10, 11, 12:
		return []string{"hgetall", k}
	case 13:
		return []string{"hkeys", k}
	case 14:
		return []string{"hvals", k}
	case 15, 16:
		return []string{"hlen", k}
	case 17:
		return []string{"hexists", k, g.Field()}
	case 18:
		return []string{"hstrlen", k, g.Field()}
	case 19, 20:
		return cat([]string{"hdel", k, g.Field()}, g.opt(40, g.Field()), g.opt(20, g.Field()))
	case 21, 22:
		return []string{"hincrby", k, g.Field(), g.NumVal()}
	case 23:
		// float arithmetic only on a dedicated field whose value stays in the exactly-representable pool
		switch g.R.Intn(4) {
		case 0:
			return []string{"hset", k, "ff", g.FloatArg()}
		case 1:
			return []string{"hget", k, "ff"}
		}
		return []string{"hincrbyfloat", k, "ff", g.FloatArg()}
	case 24, 25:
		return cat([]string{"hrandfield", k}, g.opt(70, g.SmallInt()), nil)
	case 26:
		return []string{"hrandfield", k, g.SmallInt(), g.caseMix("withvalues")}
	default:
		return g.pick2([][]string{{"exists", k}, {"type", k}, {"del", k}})
	}
}

func (g *Gen) nextSet() []string {
	k := g.Key()
	switch g.R.Intn(30) {
	case 0, 1, 2, 3:
		return cat([]string{"sadd", k, g.Elem()}, g.opt(50, g.Elem()), g.opt(30, g.Elem()))
	case 4, 5:
		return cat([]string{"srem", k, g.Elem()}, g.opt(40, g.Elem()))
	case 6:
		return []string{"sismember", k, g.Elem()}
	case 7, 8:
		return []string{"scard", k}
	case 9, 10, 11:
		return []string{"smembers", k}
	case 12, 13:
		return []string{"smove", k, g.Key(), g.Elem()}
	case 14, 15:
		return cat([]string{"spop", k}, g.opt(50, g.pick([]string{"0", "1", "2", "3", "10", "-1", "a"})))
	case 16, 17:
		return cat([]string{"srandmember", k}, g.opt(60, g.SmallInt()))
	case 18, 19:
		return cat([]string{g.pick([]string{"sunion", "sinter", "sdiff"}), k}, g.opt(70, g.Key()), g.opt(30, g.Key()))
	case 20, 21, 22, 23:
		return cat([]string{g.pick([]string{"sunionstore", "sinterstore", "sdiffstore"}), g.Key(), k}, g.opt(70, g.Key()), g.opt(30, g.Key()))
	case 24:
		return g.pick2([][]string{{"exists", k}, {"type", k}, {"del", k}})
	default:
		return []string{"smembers", k}
	}
}

func (g *Gen) Score() string {
	return g.pick([]string{"0", "1", "1", "2", "2", "3", "-1", "1.5", "2.5", "-0.5", "inf", "-inf", "+inf", "10", "abc", "", "4", "5"})
}
func (g *Gen) Member() string {
	if g.R.Intn(10) == 0 {
		return g.Val()
	}
	return g.pick([]string{"a", "b", "c", "d", "e", "f", "g", "h", "A", ""})
}

func (g *Gen) nextZset() []string {
	k := g.Key()
	switch g.R.Intn(20) {
	case 0, 1, 2, 3, 4, 5:
		opts := cat(g.opt(15, "nx"), g.opt(15, "xx"), g.opt(12, "gt"), g.opt(12, "lt"), g.opt(25, "ch"))
		if g.R.Intn(6) == 0 {
			return cat([]string{"zadd", k}, opts, []string{g.caseMix("incr"), g.Score(), g.Member()})
		}
		return cat([]string{"zadd", k}, opts, []string{g.Score(), g.Member()}, g.opt(40, g.Score(), g.Member()), g.opt(20, g.Score(), g.Member()), g.opt(4, g.Score()))
	case 6, 7, 8:
		return cat([]string{"zrem", k, g.Member()}, g.opt(40, g.Member()))
	case 9, 10, 11, 12, 13:
		return cat([]string{"zrange", k, g.Int(), g.Int()}, g.opt(30, "rev"), g.opt(50, "withscores"))
	case 14:
		return []string{"zrange", k, "0", "-1", "withscores"}
	case 15, 16, 17:
		return []string{"zrank", k, g.Member()}
	default:
		return g.pick2([][]string{{"exists", k}, {"type", k}, {"del", k}})
	}
}

func (g *Gen) StreamID() string {
	ms := g.R.Intn(4)
	seq := g.R.Intn(4)
	switch g.R.Intn(12) {
	case 0:
		return fmt.Sprintf("%d-*", ms)
	case 1:
		return "*"
	case 2:
		return g.pick([]string{"abc", "1-2-3", "-1-1", "", "5"})
	}
	return fmt.Sprintf("%d-%d", ms, seq)
}

func (g *Gen) nextStream() []string {
	k := g.Key()
	switch g.R.Intn(12) {
	case 0, 1, 2, 3, 4, 5:
		trim := cat(g.opt(25, "maxlen", g.pick([]string{"0", "1", "2", "3", "-1", "x"})))
		if len(trim) == 0 {
			trim = g.opt(15, "minid", g.pick([]string{"0-0", "1-1", "2-0", "2", "3-3", "zz"}))
		}
		if len(trim) > 0 && g.R.Intn(4) == 0 {
			trim = []string{trim[0], g.pick([]string{"=", "~"}), trim[1]}
		}
		return cat([]string{"xadd", k}, g.opt(10, "nomkstream"), trim, []string{g.StreamID(), g.Field(), g.Val()}, g.opt(30, g.Field(), g.Val()), g.opt(5, g.Field()))
	case 6, 7, 8, 9:
		b := func() string {
			return g.pick([]string{"-", "+", "0", "1", "2", "3", "0-0", "1-1", "1-2", "2-0", "2-3", "3-3", "x"})
		}
		return cat([]string{"xrange", k, b(), b()}, g.opt(15, "count", g.pick([]string{"0", "1", "2", "-1"})))
	case 10:
		return []string{"xrange", k, "-", "+"}
	default:
		return g.pick2([][]string{{"exists", k}, {"type", k}, {"del", k}})
	}
}

// zsetdeep: one sorted set with up to 24 members of mostly distinct scores: deep AVL trees, rotations after
// deletions, score moves (delete + insert); the structural invariants are evaluated after every command.
func (g *Gen) nextZsetDeep() []string {
	m := "m" + strconv.Itoa(g.R.Intn(24))
	switch g.R.Intn(12) {
	case 0, 1, 2, 3, 4:
		return []string{"zadd", "zd", strconv.Itoa(g.R.Intn(60)), m}
	case 5:
		return []string{"zadd", "zd", strconv.Itoa(g.R.Intn(60)) + ".5", m, strconv.Itoa(g.R.Intn(60)), "m" + strconv.Itoa(g.R.Intn(24))}
	case 6, 7, 8:
		return []string{"zrem", "zd", m}
	case 9:
		return []string{"zrank", "zd", m}
	case 10:
		return []string{"zrange", "zd", g.pick([]string{"0", "1", "5", "-3"}), g.pick([]string{"-1", "3", "10", "-2"}), g.pick([]string{"withscores", "rev"})}
	default:
		return []string{"zrange", "zd", "0", "-1", "withscores"}
	}
}

// listdeep: ONE list that grows to 10-25 elements and is read and patched at every position between pushes and pops at
// both ends: whatever the implementation remembers between commands (cached positions, cursors, lengths) must keep
// agreeing with the list. Positional reads dominate.
func (g *Gen) nextListDeep() []string {
	g.n++
	e := "e" + strconv.Itoa(g.n)
	idx := strconv.Itoa(g.R.Intn(31) - 15)
	switch g.R.Intn(24) {
	case 0, 1, 2:
		return []string{"rpush", "ld", e}
	case 3, 4, 5:
		return []string{"lpush", "ld", e}
	case 6:
		return []string{"lpush", "ld", e, e + "b"}
	case 7:
		return []string{"lpop", "ld"}
	case 8:
		return []string{"rpop", "ld"}
	case 9, 10, 11, 12, 13, 14:
		return []string{"lindex", "ld", idx}
	case 15:
		return []string{"lset", "ld", idx, e}
	case 16:
		return []string{"lrange", "ld", idx, strconv.Itoa(g.R.Intn(31) - 15)}
	case 17:
		return []string{"lmove", "ld", "ld", g.pick([]string{"left", "right"}), g.pick([]string{"left", "right"})}
	case 18:
		return []string{"lpos", "ld", "e" + strconv.Itoa(1+g.R.Intn(g.n)), "rank", g.pick([]string{"1", "-1", "2"})}
	case 19:
		return []string{"lrem", "ld", g.pick([]string{"0", "1", "-1"}), "e" + strconv.Itoa(1+g.R.Intn(g.n))}
	case 20:
		return []string{"llen", "ld"}
	case 21:
		if g.R.Intn(3) == 0 {
			return []string{"ltrim", "ld", g.pick([]string{"0", "1", "2"}), g.pick([]string{"-1", "-2", "-3"})}
		}
		return []string{"lpushx", "ld", e}
	case 22:
		return []string{"lpop", "ld", g.pick([]string{"0", "1", "2"})}
	default:
		return []string{"lrange", "ld", "0", "-1"}
	}
}

// streamdeep: ONE stream with many entries, trimmed from time to time (also down to nothing), appended with explicit,
// partial and stale IDs, and read through windows: the ID bookkeeping must survive trims and emptiness.
func (g *Gen) nextStreamDeep() []string {
	g.n++
	ms := strconv.Itoa(1 + g.n/3 + g.R.Intn(3))
	id := ms + "-" + strconv.Itoa(g.R.Intn(4))
	if g.R.Intn(12) == 0 { // the end of the id space, on a key of its own: ids near the last one, then automatic and partial ids
		const mx = "9223372036854775807"
		switch g.R.Intn(7) {
		case 0:
			return []string{"xadd", "xend", mx + "-" + g.pick([]string{mx, "9223372036854775806", "5"}), "f", "v"}
		case 1, 2:
			return []string{"xadd", "xend", "*", "f", "v"}
		case 3:
			return []string{"xadd", "xend", mx + "-*", "f", "v"}
		case 4:
			return []string{"xadd", "xend", g.pick([]string{"5-5", "9223372036854775806-" + mx, mx + "-0"}), "f", "v"}
		case 5:
			return []string{"del", "xend"}
		default:
			return []string{"xrange", "xend", "-", "+"}
		}
	}
	switch g.R.Intn(16) {
	case 0, 1, 2, 3, 4:
		return []string{"xadd", "xd", id, "f", "v" + strconv.Itoa(g.n)}
	case 5:
		return []string{"xadd", "xd", ms + "-*", "f", "v" + strconv.Itoa(g.n)}
	case 6:
		return []string{"xadd", "xd", "maxlen", g.pick([]string{"0", "1", "2", "5"}), id, "f", "v"}
	case 7:
		return []string{"xadd", "xd", "minid", strconv.Itoa(g.R.Intn(3+g.n/3)) + g.pick([]string{"", "-1", "-3"}), id, "f", "v"}
	case 8:
		return []string{"xadd", "xd", "minid", "1000000", "2000000-" + strconv.Itoa(g.n), "f", "v"}
	case 9:
		return []string{"xadd", "xd", "nomkstream", id, "f", "v"}
	case 10, 11, 12:
		return []string{"xrange", "xd", g.pick([]string{"-", ms, ms + "-1", ms + "-2", "1"}), g.pick([]string{"+", ms, ms + "-2", strconv.Itoa(2 + g.n/3)})}
	case 13:
		return []string{"xadd", "xd", strconv.Itoa(g.R.Intn(2+g.n/3)) + "-" + strconv.Itoa(g.R.Intn(3)), "f", "stale"}
	default:
		return []string{"xrange", "xd", "-", "+"}
	}
}

// lifecycle: aggregates that are created, given a long deadline, drained by every emptying command, re-created and
// inspected: an emptied key ceases to exist together with its deadline (C06/C09-C12).
func (g *Gen) nextLifecycle() []string {
	k := g.pick([]string{"q1", "q2"})
	switch g.R.Intn(26) {
	case 0, 1:
		return []string{"rpush", k, g.pick([]string{"a", "b"})}
	case 2:
		return []string{"sadd", k, g.pick([]string{"a", "b"})}
	case 3:
		return []string{"hset", k, g.pick([]string{"a", "b"}), "v"}
	case 4:
		return []string{"zadd", k, "1", g.pick([]string{"a", "b"})}
	case 5, 6, 7:
		if g.R.Intn(4) == 0 { // options, also with a non-positive time: a vetoed EXPIRE changes nothing
			return []string{"expire", k, g.pick([]string{"1000", "2000", "0", "-1"}), g.pick([]string{"nx", "xx", "gt", "lt"})}
		}
		return []string{"expire", k, g.pick([]string{"1000", "2000"})}
	case 8:
		return []string{"lpop", k}
	case 9:
		return []string{"rpop", k}
	case 10:
		return []string{"lrem", k, "0", g.pick([]string{"a", "b"})}
	case 11:
		return []string{"ltrim", k, "1", "0"}
	case 12:
		return []string{"lmove", k, g.pick([]string{"q1", "q2"}), "left", "right"}
	case 13:
		return []string{"srem", k, g.pick([]string{"a", "b"})}
	case 14:
		return []string{"spop", k}
	case 15:
		return []string{"smove", k, g.pick([]string{"q1", "q2"}), g.pick([]string{"a", "b"})}
	case 16:
		return []string{"hdel", k, g.pick([]string{"a", "b"})}
	case 17:
		return []string{"zrem", k, g.pick([]string{"a", "b"})}
	case 18:
		return []string{"sdiffstore", k, k, k}
	case 19, 20, 21:
		return []string{"ttl", k}
	case 22:
		return []string{"persist", k}
	case 23:
		return []string{"set", k, "v"}
	case 24:
		return []string{"del", k}
	default:
		return []string{"exists", k}
	}
}
