package main

// Independent reader of the WAL / snapshot on-disk formats: no code from the wal, walpb, raftpb or
// snappb packages is used here, so that what the harness believes is on disk does not depend on
// the code under test.

import (
	"encoding/binary"
	"errors"
	"hash/crc32"
)

var castagnoli = crc32.MakeTable(crc32.Castagnoli)

const (
	tMeta  = 1
	tEntry = 2
	tState = 3
	tCrc   = 4
	tSnap  = 5
)

var errPB = errors.New("pb: malformed")

func uvarint(b []byte) (uint64, int) {
	var x uint64
	var s uint
	for i := 0; i < len(b) && i < 10; i++ {
		c := b[i]
		if c < 0x80 {
			return x | uint64(c)<<s, i + 1
		}
		x |= uint64(c&0x7f) << s
		s += 7
	}
	return 0, 0
}

func varintLen(x uint64) int {
	n := 1
	for x >= 0x80 {
		x >>= 7
		n++
	}
	return n
}

// pbField is one decoded protobuf field (varint or length-delimited only - all we need).
type pbField struct {
	num  int
	wt   int
	v    uint64
	b    []byte
	off  int // offset of the tag
	voff int // offset of the value (varint) or of the length varint (bytes)
	boff int // offset of the first body byte (bytes)
}

func pbParse(b []byte) ([]pbField, error) {
	var out []pbField
	i := 0
	for i < len(b) {
		tag, n := uvarint(b[i:])
		if n == 0 {
			return nil, errPB
		}
		f := pbField{num: int(tag >> 3), wt: int(tag & 7), off: i, voff: i + n}
		i += n
		switch f.wt {
		case 0:
			v, m := uvarint(b[i:])
			if m == 0 {
				return nil, errPB
			}
			f.v = v
			i += m
		case 2:
			l, m := uvarint(b[i:])
			if m == 0 || uint64(len(b)-i-m) < l {
				return nil, errPB
			}
			f.boff = i + m
			f.b = b[i+m : i+m+int(l)]
			i += m + int(l)
		default:
			return nil, errPB
		}
		out = append(out, f)
	}
	return out, nil
}

// Frame is one record as found in a file.
type Frame struct {
	Off     int64 // offset of the length word
	Words   int   // 1 + padded data words
	RecLen  int   // unpadded record bytes
	Pad     int
	Typ     int64
	Crc     uint32
	Data    []byte
	HasData bool
	fields  []pbField
}

// parseFile walks the frames of one segment from offset 0. prev is the chain value at the start
// (0 for a fresh decoder; the crc record then sets it). It stops at the first zero length word, at
// EOF, or at the first frame that does not parse / does not validate. ok tells whether it stopped
// cleanly (zero word or EOF).
func parseFile(b []byte, prev uint32) (frames []Frame, end int64, chain uint32, ok bool) {
	off := int64(0)
	chain = prev
	for {
		if off+8 > int64(len(b)) {
			return frames, off, chain, off == int64(len(b))
		}
		l := binary.LittleEndian.Uint64(b[off:])
		if l == 0 {
			return frames, off, chain, true
		}
		recLen := int64(l & 0x00ffffffffffffff)
		pad := int64(0)
		if l&(1<<63) != 0 {
			pad = int64((l >> 56) & 7)
		}
		if off+8+recLen+pad > int64(len(b)) || (recLen+pad)%8 != 0 {
			return frames, off, chain, false
		}
		rec := b[off+8 : off+8+recLen]
		fs, err := pbParse(rec)
		if err != nil {
			return frames, off, chain, false
		}
		fr := Frame{Off: off, Words: int(1 + (recLen+pad)/8), RecLen: int(recLen), Pad: int(pad), fields: fs}
		for _, f := range fs {
			switch {
			case f.num == 1 && f.wt == 0:
				fr.Typ = int64(f.v)
			case f.num == 2 && f.wt == 0:
				fr.Crc = uint32(f.v)
			case f.num == 3 && f.wt == 2:
				fr.Data = f.b
				fr.HasData = true
			}
		}
		if fr.Typ == tCrc {
			if chain != 0 && fr.Crc != chain {
				return frames, off, chain, false
			}
			chain = fr.Crc
		} else {
			c := crc32.Update(chain, castagnoli, fr.Data)
			if c != fr.Crc {
				return frames, off, chain, false
			}
			chain = c
		}
		frames = append(frames, fr)
		off += 8 + recLen + pad
	}
}

// Logical is one record as the contract sees it.
type Logical struct {
	Kind  string `json:"k"` // entry | state | snap
	Index uint64 `json:"i,omitempty"`
	Term  uint64 `json:"t,omitempty"`
	Vote  uint64 `json:"v,omitempty"`
	Cmt   uint64 `json:"c,omitempty"`
	Etype uint64 `json:"et,omitempty"`
	Sum   uint32 `json:"sum,omitempty"` // crc32 (IEEE) of the entry payload
	Dlen  int    `json:"dl,omitempty"`
	Op    int    `json:"op"`
	Head  bool   `json:"head,omitempty"` // state record written by cut() into a new segment head
}

func logicalOf(fr Frame) (Logical, bool) {
	fs, err := pbParse(fr.Data)
	if err != nil {
		return Logical{}, false
	}
	get := func(n int) uint64 {
		for _, f := range fs {
			if f.num == n && f.wt == 0 {
				return f.v
			}
		}
		return 0
	}
	switch fr.Typ {
	case tEntry:
		var d []byte
		for _, f := range fs {
			if f.num == 4 && f.wt == 2 {
				d = f.b
			}
		}
		return Logical{Kind: "entry", Etype: get(1), Term: get(2), Index: get(3), Sum: crc32.ChecksumIEEE(d), Dlen: len(d)}, true
	case tState:
		return Logical{Kind: "state", Term: get(1), Vote: get(2), Cmt: get(3)}, true
	case tSnap:
		return Logical{Kind: "snap", Index: get(1), Term: get(2)}, true
	}
	return Logical{}, false
}

func sameLogical(a, b Logical) bool {
	return a.Kind == b.Kind && a.Index == b.Index && a.Term == b.Term && a.Vote == b.Vote && a.Cmt == b.Cmt &&
		a.Etype == b.Etype && a.Sum == b.Sum && a.Dlen == b.Dlen
}

// classify tells which field of which frame byte offset x of a clean file belongs to.
func classify(frames []Frame, end int64, x int64) (recType string, field string) {
	tn := map[int64]string{tMeta: "metadata", tEntry: "entry", tState: "state", tCrc: "crc", tSnap: "snapshot"}
	for _, fr := range frames {
		lo := fr.Off
		hi := fr.Off + int64(fr.Words)*8
		if x < lo || x >= hi {
			continue
		}
		recType = tn[fr.Typ]
		r := x - lo
		if r < 7 {
			return recType, "len.low"
		}
		if r == 7 {
			return recType, "len.top"
		}
		r -= 8
		if r >= int64(fr.RecLen) {
			return recType, "pad"
		}
		for _, f := range fr.fields {
			name := map[int]string{1: "type", 2: "crc", 3: "data"}[f.num]
			if r >= int64(f.off) && r < int64(f.voff) {
				return recType, name + ".tag"
			}
			if f.wt == 0 {
				if r >= int64(f.voff) && r < int64(f.voff+varintLen(f.v)) {
					return recType, name + ".val"
				}
			} else {
				if r >= int64(f.voff) && r < int64(f.boff) {
					return recType, name + ".len"
				}
				if r >= int64(f.boff) && r < int64(f.boff+len(f.b)) {
					return recType, name + ".body"
				}
			}
		}
		return recType, "?"
	}
	if x >= end && x < end+8 {
		return "tail", "zero.first"
	}
	return "tail", "zero"
}
