// walsim - C16 conformance driver: performs REAL wal.Create/Save/SaveSnapshot sequences, mutilates
// copies of the directory (lost sectors, flipped bytes), runs the REAL readers (wal.Open+ReadAll,
// wal.Verify, wal.Repair, reopen+append; snap.Snapshotter) and decides by the contract computed
// from what was actually handed to the writer. Scenarios come from TLC (spec/Wal.tla, binding B1,
// with the model's prediction) or from a seeded generator.
package main

import (
	"bufio"
	"encoding/json"
	"errors"
	"flag"
	"fmt"
	"hash/crc32"
	"io"
	"os"
	"path/filepath"
	"runtime/debug"
	"sort"
	"strings"

	"go.etcd.io/etcd/raft/v3/raftpb"
	"go.etcd.io/etcd/server/v3/storage/wal"
	"go.etcd.io/etcd/server/v3/storage/wal/walpb"
	"go.uber.org/zap"
)

var lg = zap.NewNop()

// ndjson trace for TraceWal.tla (binding B2); nil when not requested
var traceW *bufio.Writer

type traceEnt struct {
	I uint64 `json:"i"`
	T uint64 `json:"t"`
	S uint32 `json:"s"`
	N int    `json:"n"`
}
type traceRec struct {
	K string `json:"k"`
	I uint64 `json:"i"`
	T uint64 `json:"t"`
	V uint64 `json:"v"`
	C uint64 `json:"c"`
	S uint32 `json:"s"`
	N int    `json:"n"`
}

func emitTrace(id, kind string, hist []Logical, durable int, from uint64, ok bool, hs [3]uint64, ents []Logical) {
	if traceW == nil {
		return
	}
	h := make([]traceRec, 0, len(hist))
	for _, l := range hist {
		h = append(h, traceRec{K: l.Kind, I: l.Index, T: l.Term, V: l.Vote, C: l.Cmt, S: l.Sum & 0x3fffffff, N: l.Dlen})
	}
	e := make([]traceEnt, 0, len(ents))
	for _, l := range ents {
		e = append(e, traceEnt{I: l.Index, T: l.Term, S: l.Sum & 0x3fffffff, N: l.Dlen})
	}
	b, _ := json.Marshal(map[string]interface{}{"id": id, "kind": kind, "hist": h, "durable": durable, "from": from, "ok": ok, "hs": hs, "ents": e})
	traceW.Write(b)
	traceW.WriteByte('\n')
}

// ---------------------------------------------------------------- scenario format

type Op struct {
	K     string    `json:"k"` // save | snap
	Hs    [3]uint64 `json:"hs"`
	First uint64    `json:"first"`
	Term  uint64    `json:"term"`
	Ws    []int     `json:"ws,omitempty"` // entry record sizes in words (TLC scenarios)
	Bs    []int     `json:"bs,omitempty"` // entry payload sizes in bytes (random scenarios)
	Sync  bool      `json:"sync"`
	Cut   bool      `json:"cut"`
}

type Pred struct {
	Ok      bool      `json:"ok"`
	First   string    `json:"first"`
	Rep     bool      `json:"rep"`
	Nacc    int       `json:"nacc"`
	Nents   int       `json:"nents"`
	Lastidx uint64    `json:"lastidx"`
	Hs      [3]uint64 `json:"hs"`
	Off     int       `json:"off"`
	Err     string    `json:"err"`
}

type Scenario struct {
	ID     string `json:"id"`
	Seg    int    `json:"seg"`  // segment size in words
	Meta   int    `json:"meta"` // metadata record words (2 = nil metadata)
	Ops    []Op   `json:"ops"`
	Lost   []int  `json:"lost"`
	Soff   int    `json:"soff"`
	Tail   int    `json:"tail"` // number of segment files visible at the crash
	App    []Op   `json:"app"`
	Lost2  []int  `json:"lost2"`
	P1     *Pred  `json:"p1,omitempty"`
	P2     *Pred  `json:"p2,omitempty"`
	Two    bool   `json:"two"`
	NoPred bool   `json:"nopred,omitempty"`
	AsIs   bool   `json:"asis,omitempty"` // random scenarios: image = directory as it is after the last op
	// random scenarios: the lost sets are drawn from these seeds once the touched sectors are known
	// (resolved into Lost / Lost2 before anything is reported, so a reported scenario replays as is)
	LostSeed   uint64 `json:"lostseed,omitempty"`
	Lost2Seed  uint64 `json:"lost2seed,omitempty"`
	AppNewTerm bool   `json:"appnewterm,omitempty"`
	// CutCrash: the crash falls inside cut() between the sync of the new segment's head and its rename: the
	// image is the directory after the last op with the newest segment still under its .tmp name
	CutCrash bool `json:"cutcrash,omitempty"`
	// CloseBeforeCrash2: the appended save returned (and the WAL was closed) before the second image is taken
	CloseBeforeCrash2 bool `json:"close2,omitempty"`
	// Corrupt scenarios of the model: word X of file Seg damaged in the way Kind says; NonPrefix = the model's
	// as-built prediction that the damage is accepted and yields a non-prefix result
	Cor struct {
		Seg  int    `json:"seg"`
		X    int    `json:"x"`
		Kind string `json:"kind"`
	} `json:"cor"`
	NonPrefix bool `json:"nonprefix,omitempty"`
}

// ---------------------------------------------------------------- deterministic payloads

type rng struct{ s uint64 }

func (r *rng) next() uint64 {
	r.s += 0x9e3779b97f4a7c15
	z := r.s
	z = (z ^ (z >> 30)) * 0xbf58476d1ce4e5b9
	z = (z ^ (z >> 27)) * 0x94d049bb133111eb
	return z ^ (z >> 31)
}
func (r *rng) intn(n int) int { return int(r.next() % uint64(n)) }

// nonZero returns n pseudo-random bytes, none of them zero (so that only lost sectors read as zero).
func (r *rng) nonZero(n int) []byte {
	b := make([]byte, n)
	for i := range b {
		b[i] = byte(1 + r.next()%255)
	}
	return b
}

func hashStr(s string) uint64 {
	h := uint64(1469598103934665603)
	for i := 0; i < len(s); i++ {
		h ^= uint64(s[i])
		h *= 1099511628211
	}
	return h
}

// payloadLenFor returns the entry payload length that makes the entry's record occupy exactly
// `words` words (length word included) with `pad` padding bytes when the CRC varint takes 5 bytes.
func payloadLenFor(words int, index, term uint64, pad int) (int, bool) {
	target := 8*(words-1) - pad
	for d := 0; d < 8*words; d++ {
		e := 2 + 1 + varintLen(term) + 1 + varintLen(index)
		if d > 0 {
			e += 1 + varintLen(uint64(d)) + d
		}
		r := 2 + 1 + 5 + 1 + varintLen(uint64(e)) + e
		if r == target {
			return d, true
		}
		if r > target {
			return 0, false
		}
	}
	return 0, false
}

// ---------------------------------------------------------------- files

type FileSet struct {
	Names []string          // sorted *.wal names
	Data  map[string][]byte // content by name (wal and other files)
	Other []string          // non-wal names (tmp, broken)
}

func readDir(dir string) (*FileSet, error) {
	des, err := os.ReadDir(dir)
	if err != nil {
		return nil, err
	}
	fs := &FileSet{Data: map[string][]byte{}}
	for _, de := range des {
		if de.IsDir() {
			continue
		}
		b, err := os.ReadFile(filepath.Join(dir, de.Name()))
		if err != nil {
			return nil, err
		}
		fs.Data[de.Name()] = b
		if strings.HasSuffix(de.Name(), ".wal") {
			fs.Names = append(fs.Names, de.Name())
		} else {
			fs.Other = append(fs.Other, de.Name())
		}
	}
	sort.Strings(fs.Names)
	sort.Strings(fs.Other)
	return fs, nil
}

var imageExtra map[string][]byte // additional (non-wal) files of the next image, e.g. a left-over .tmp

func writeImage(dir string, names []string, data map[string][]byte) error {
	os.RemoveAll(dir)
	if err := os.MkdirAll(dir, 0700); err != nil {
		return err
	}
	for n, b := range imageExtra {
		if err := os.WriteFile(filepath.Join(dir, n), b, 0600); err != nil {
			return err
		}
	}
	imageExtra = nil
	for _, n := range names {
		if err := os.WriteFile(filepath.Join(dir, n), data[n], 0600); err != nil {
			return err
		}
	}
	return nil
}

// parseSet parses all wal files of a set in order, chaining the CRC like the real decoder, and returns the
// logical records found before the first stop, the frames per file and whether every file ended cleanly.
func parseSet(names []string, data map[string][]byte) (logical []Logical, frames map[string][]Frame, ends map[string]int64, clean bool) {
	frames = map[string][]Frame{}
	ends = map[string]int64{}
	chain := uint32(0)
	clean = true
	for _, n := range names {
		fr, end, c, ok := parseFile(data[n], chain)
		frames[n] = fr
		ends[n] = end
		chain = c
		for _, f := range fr {
			if l, isL := logicalOf(f); isL {
				logical = append(logical, l)
			}
		}
		if !ok {
			clean = false
			break
		}
	}
	return
}

// ---------------------------------------------------------------- writer

type WriteResult struct {
	W        *wal.WAL
	Hist     []Logical // what was handed to Save/SaveSnapshot, in order
	OpEnd    []int     // len(Hist) after op i (1-based op index; OpEnd[0] = 0)
	SpecSync []bool    // op i must be durable when it returns (MustSync / snapshot / cut), by the spec
	Before   *FileSet  // directory after the last-but-one op (nil if one op)
	After    *FileSet  // directory after the last op (before Close)
	Meta     []byte
	Err      string
}

func metaFor(words int) []byte {
	if words <= 2 {
		return nil
	}
	n := 8*(words-1) - 10 - 2
	if n < 1 {
		n = 1
	}
	return []byte(strings.Repeat("m", n))
}

func buildEntries(op Op, r *rng, padmode int) ([]raftpb.Entry, bool) {
	var ents []raftpb.Entry
	n := len(op.Ws)
	if op.Bs != nil {
		n = len(op.Bs)
	}
	for i := 0; i < n; i++ {
		idx := op.First + uint64(i)
		var d int
		if op.Bs != nil {
			d = op.Bs[i]
		} else {
			pad := 0
			switch padmode {
			case 0:
				pad = r.intn(4)
			default:
				pad = r.intn(8)
			}
			var ok bool
			d, ok = payloadLenFor(op.Ws[i], idx, op.Term, pad)
			if !ok {
				d, ok = payloadLenFor(op.Ws[i], idx, op.Term, 0)
				if !ok {
					return nil, false
				}
			}
		}
		e := raftpb.Entry{Index: idx, Term: op.Term}
		if d > 0 {
			e.Data = r.nonZero(d)
		}
		ents = append(ents, e)
	}
	return ents, true
}

func logicalEntries(ents []raftpb.Entry, op int) []Logical {
	var out []Logical
	for _, e := range ents {
		out = append(out, Logical{Kind: "entry", Index: e.Index, Term: e.Term, Etype: uint64(e.Type),
			Sum: crc32.ChecksumIEEE(e.Data), Dlen: len(e.Data), Op: op})
	}
	return out
}

func applyOp(w *wal.WAL, op Op, opn int, r *rng, padmode int, prevHs *[3]uint64) (hist []Logical, specSync bool, err error) {
	switch op.K {
	case "save":
		ents, ok := buildEntries(op, r, padmode)
		if !ok {
			return nil, false, errors.New("layout: no payload length gives the prescribed record size")
		}
		st := raftpb.HardState{Term: op.Hs[0], Vote: op.Hs[1], Commit: op.Hs[2]}
		hist = logicalEntries(ents, opn)
		empty := op.Hs == [3]uint64{}
		if !empty {
			hist = append(hist, Logical{Kind: "state", Term: st.Term, Vote: st.Vote, Cmt: st.Commit, Op: opn})
		}
		// Raft's rule (raft/node.go MustSync), evaluated by the harness on the inputs
		specSync = len(ents) != 0 || (!empty && (st.Term != prevHs[0] || st.Vote != prevHs[1]))
		if !empty {
			*prevHs = op.Hs
		}
		err = w.Save(st, ents)
	case "snap":
		s := walpb.Snapshot{Index: op.First, Term: op.Term, ConfState: &raftpb.ConfState{Voters: []uint64{1}}}
		hist = []Logical{{Kind: "snap", Index: s.Index, Term: s.Term, Op: opn}}
		specSync = true
		err = w.SaveSnapshot(s)
	default:
		err = fmt.Errorf("unknown op %q", op.K)
	}
	return
}

func runOps(dir string, sc *Scenario, seed uint64, padmode int) *WriteResult {
	res := &WriteResult{OpEnd: []int{0}, SpecSync: []bool{true}}
	wal.SegmentSizeBytes = int64(sc.Seg) * 8
	os.RemoveAll(dir)
	os.RemoveAll(dir + ".tmp")
	res.Meta = metaFor(sc.Meta)
	w, err := wal.Create(lg, dir, res.Meta)
	if err != nil {
		res.Err = "create: " + err.Error()
		return res
	}
	res.W = w
	r := &rng{s: seed ^ hashStr(sc.ID)}
	var prevHs [3]uint64 // the writer-side w.state as the spec sees it
	for i, op := range sc.Ops {
		if i == len(sc.Ops)-1 && len(sc.Ops) > 1 {
			if res.Before, err = readDir(dir); err != nil {
				res.Err = "readdir: " + err.Error()
				return res
			}
		}
		h, ss, err := applyOp(w, op, i+1, r, padmode, &prevHs)
		if err != nil {
			res.Err = fmt.Sprintf("op %d: %v", i+1, err)
			return res
		}
		res.Hist = append(res.Hist, h...)
		res.OpEnd = append(res.OpEnd, len(res.Hist))
		res.SpecSync = append(res.SpecSync, ss)
	}
	if res.After, err = readDir(dir); err != nil {
		res.Err = "readdir: " + err.Error()
	}
	return res
}

// ---------------------------------------------------------------- readers (real code, under recover)

type ReadOut struct {
	Err   string    `json:"err"`   // "" | ueof | crc | big | other:<text>
	Panic string    `json:"panic"` // non-empty when the reader panicked
	Hs    [3]uint64 `json:"hs"`
	Ents  []Logical `json:"-"`
	Nents int       `json:"nents"`
	Last  uint64    `json:"last"`
	Meta  []byte    `json:"-"`
}

func errClass(err error) string {
	if err == nil {
		return ""
	}
	if err == io.ErrUnexpectedEOF {
		return "ueof"
	}
	s := err.Error()
	switch {
	case strings.Contains(s, "crc mismatch"):
		return "crc"
	case strings.Contains(s, "max entry size"):
		return "big"
	}
	if len(s) > 80 {
		s = s[:80]
	}
	return "other:" + s
}

func fillOut(o *ReadOut, meta []byte, hs raftpb.HardState, ents []raftpb.Entry) {
	o.Meta = meta
	o.Hs = [3]uint64{hs.Term, hs.Vote, hs.Commit}
	o.Nents = len(ents)
	for _, e := range ents {
		o.Ents = append(o.Ents, Logical{Kind: "entry", Index: e.Index, Term: e.Term, Etype: uint64(e.Type),
			Sum: crc32.ChecksumIEEE(e.Data), Dlen: len(e.Data)})
		o.Last = e.Index
	}
}

func guard(o *ReadOut, f func()) {
	defer func() {
		if p := recover(); p != nil {
			o.Panic = fmt.Sprint(p)
			if len(o.Panic) > 200 {
				o.Panic = o.Panic[:200]
			}
		}
	}()
	f()
}

// readWrite: wal.Open + ReadAll (write mode). Returns the WAL left open for appending when it succeeded.
func readWrite(dir string, snap walpb.Snapshot) (o ReadOut, w *wal.WAL) {
	guard(&o, func() {
		var err error
		w, err = wal.Open(lg, dir, snap)
		if err != nil {
			o.Err = "open:" + errClass(err)
			w = nil
			return
		}
		meta, hs, ents, err := w.ReadAll()
		if err != nil {
			o.Err = errClass(err)
			w.Close()
			w = nil
			return
		}
		fillOut(&o, meta, hs, ents)
	})
	if o.Panic != "" && w != nil {
		func() { defer func() { recover() }(); w.Close() }()
		w = nil
	}
	return
}

func readRead(dir string, snap walpb.Snapshot) (o ReadOut) {
	guard(&o, func() {
		w, err := wal.OpenForRead(lg, dir, snap)
		if err != nil {
			o.Err = "open:" + errClass(err)
			return
		}
		defer w.Close()
		meta, hs, ents, err := w.ReadAll()
		if err != nil {
			o.Err = errClass(err)
			return
		}
		fillOut(&o, meta, hs, ents)
	})
	return
}

func readVerify(dir string, snap walpb.Snapshot) (o ReadOut) {
	guard(&o, func() {
		hs, err := wal.Verify(lg, dir, snap)
		if err != nil {
			o.Err = errClass(err)
			return
		}
		o.Hs = [3]uint64{hs.Term, hs.Vote, hs.Commit}
	})
	return
}

func doRepair(dir string) (ok bool, pan string) {
	defer func() {
		if p := recover(); p != nil {
			pan = fmt.Sprint(p)
		}
	}()
	ok = wal.Repair(lg, dir)
	return
}

// Recovery as a server does it: ReadAll in write mode; on ErrUnexpectedEOF Repair and read again.
type Recovery struct {
	First    string  `json:"first"` // ok | ueof | <other class>
	Rep      bool    `json:"rep"`
	RepOK    bool    `json:"rep_ok"`
	Ok       bool    `json:"ok"`
	Out      ReadOut `json:"out"`
	Panic    string  `json:"panic,omitempty"`
	FirstOut ReadOut `json:"-"`
}

func recoverDir(dir string) (rc Recovery, w *wal.WAL) {
	o, w := readWrite(dir, walpb.Snapshot{})
	rc.FirstOut = o
	if o.Panic != "" {
		rc.Panic = "ReadAll: " + o.Panic
		rc.First = "panic"
		return rc, nil
	}
	if o.Err == "" {
		rc.First, rc.Ok, rc.Out = "ok", true, o
		return rc, w
	}
	rc.First = o.Err
	rc.Out = o
	if o.Err != "ueof" {
		return rc, nil
	}
	rc.Rep = true
	ok, pan := doRepair(dir)
	if pan != "" {
		rc.Panic = "Repair: " + pan
		return rc, nil
	}
	rc.RepOK = ok
	if !ok {
		return rc, nil
	}
	o2, w2 := readWrite(dir, walpb.Snapshot{})
	rc.Out = o2
	if o2.Panic != "" {
		rc.Panic = "ReadAll after Repair: " + o2.Panic
		return rc, nil
	}
	rc.Ok = o2.Err == ""
	return rc, w2
}

// ---------------------------------------------------------------- contract

// matchPrefix returns the largest k such that reading back exactly the first k logical records gives
// (hs, ents); -1 if no prefix does. checkHs=false compares entries only; checkEnts=false hard state only.
func matchPrefix(hist []Logical, upto int, hs [3]uint64, ents []Logical, checkHs, checkEnts bool) int {
	return matchPrefixFrom(hist, upto, hs, ents, checkHs, checkEnts, 0)
}

// matchPrefixFrom: as matchPrefix for a log opened at a snapshot with index `from`: only entries above it
func matchPrefixFrom(hist []Logical, upto int, hs [3]uint64, ents []Logical, checkHs, checkEnts bool, from uint64) int {
	return matchPrefixMode(hist, upto, hs, ents, checkHs, checkEnts, from, false)
}

// asBuilt=true folds the records the way wal.ReadAll does when opened at a snapshot: entries at or below the
// snapshot index are ignored altogether, so an overwrite at such an index does not drop the entries above it.
func matchPrefixMode(hist []Logical, upto int, hs [3]uint64, ents []Logical, checkHs, checkEnts bool, from uint64, asBuilt bool) int {
	best := -1
	var cur []Logical
	var chs [3]uint64
	eq := func() bool {
		if checkHs && chs != hs {
			return false
		}
		if checkEnts {
			c := cur
			if from > 0 {
				if uint64(len(c)) > from {
					c = c[from:]
				} else {
					c = nil
				}
			}
			if len(c) != len(ents) {
				return false
			}
			for i := range c {
				if !sameLogical(c[i], ents[i]) {
					return false
				}
			}
		}
		return true
	}
	if eq() {
		best = 0
	}
	for k := 1; k <= upto && k <= len(hist); k++ {
		r := hist[k-1]
		switch r.Kind {
		case "entry":
			if asBuilt && r.Index <= from {
				break
			}
			up := int(r.Index) - 1
			if asBuilt {
				for uint64(len(cur)) < from { // placeholders for the entries below the snapshot
					cur = append(cur, Logical{})
				}
			}
			if up > len(cur) {
				up = len(cur) // cannot happen for writer-generated histories
			}
			if up < 0 {
				up = 0
			}
			cur = append(cur[:up:up], Logical{Kind: "entry", Index: r.Index, Term: r.Term, Etype: r.Etype, Sum: r.Sum, Dlen: r.Dlen})
		case "state":
			chs = [3]uint64{r.Term, r.Vote, r.Cmt}
		}
		if eq() {
			best = k
		}
	}
	return best
}

// ---------------------------------------------------------------- results

type Finding struct {
	ID       string      `json:"id"`
	Class    string      `json:"class"` // violation | divergence | skip
	Kind     string      `json:"kind"`
	Detail   string      `json:"detail"`
	Sig      string      `json:"sig,omitempty"`
	Scenario interface{} `json:"scenario,omitempty"`
	Real     interface{} `json:"real,omitempty"`
}

type Stats struct {
	Mode       string         `json:"mode"`
	Cases      int            `json:"cases"`
	Reads      int            `json:"reads"`
	Violations int            `json:"violations"`
	Divergence int            `json:"divergences"`
	Skips      int            `json:"skips"`
	Ambiguity  int            `json:"ambiguity"`
	Labels     map[string]int `json:"labels"`
	Samples    []interface{}  `json:"samples"`
}

type Sink struct {
	w     *bufio.Writer
	stats Stats
	seen  map[string]int
}

func newSink(path, mode string) *Sink {
	f, err := os.Create(path)
	if err != nil {
		fmt.Fprintln(os.Stderr, "cannot create output:", err)
		os.Exit(3)
	}
	return &Sink{w: bufio.NewWriter(f), stats: Stats{Mode: mode, Labels: map[string]int{}}, seen: map[string]int{}}
}

func (s *Sink) label(l string) { s.stats.Labels[l]++ }

func (s *Sink) finding(f Finding) {
	switch f.Class {
	case "violation":
		s.stats.Violations++
	case "divergence":
		s.stats.Divergence++
	case "skip":
		s.stats.Skips++
	case "ambiguity":
		s.stats.Ambiguity++
	}
	key := f.Class + "|" + f.Kind + "|" + f.Sig
	s.seen[key]++
	if s.seen[key] > 3 { // keep the file small: three witnesses per signature
		return
	}
	b, _ := json.Marshal(f)
	s.w.Write(b)
	s.w.WriteByte('\n')
	s.w.Flush()
}

func (s *Sink) sample(v interface{}) {
	if len(s.stats.Samples) < 4 {
		s.stats.Samples = append(s.stats.Samples, v)
	}
}

func (s *Sink) close() {
	b, _ := json.Marshal(map[string]interface{}{"done": true, "stats": s.stats, "sigcounts": s.seen})
	s.w.Write(b)
	s.w.WriteByte('\n')
	s.w.Flush()
}

// ---------------------------------------------------------------- replay of one crash scenario

func sectorZero(b []byte, sector int, from int64, old []byte) {
	lo := int64(sector) * 512
	hi := lo + 512
	if lo < from {
		lo = from
	}
	for x := lo; x < hi && x < int64(len(b)); x++ {
		if old != nil && x < int64(len(old)) {
			b[x] = old[x]
		} else {
			b[x] = 0
		}
	}
}

func cloneData(names []string, data map[string][]byte) map[string][]byte {
	out := map[string][]byte{}
	for _, n := range names {
		out[n] = append([]byte(nil), data[n]...)
	}
	return out
}

func specDurable(wr *WriteResult, uptoOp int) int {
	// number of logical records that must survive a crash happening after op `uptoOp` returned
	d := 0
	for i := 1; i <= uptoOp; i++ {
		if wr.SpecSync[i] {
			d = wr.OpEnd[i]
		}
	}
	return d
}

type realView struct {
	Rec1   *Recovery `json:"rec1,omitempty"`
	Rec2   *Recovery `json:"rec2,omitempty"`
	Verify *ReadOut  `json:"verify,omitempty"`
	Read   *ReadOut  `json:"read,omitempty"`
	K1     int       `json:"k1"`
	K2     int       `json:"k2"`
	Dur    int       `json:"durable"`
	Total  int       `json:"total"`
}

func checkRecovered(sink *Sink, sc *Scenario, rv *realView, what string, rc *Recovery, hist []Logical, durable int, meta []byte) (k int, bad bool) {
	rep := func(kind, detail string) {
		sig := what + "/" + kind
		if kind == "unrepairable" {
			sig += "/" + clip(rc.First)
		}
		sink.finding(Finding{ID: sc.ID, Class: "violation", Kind: kind, Detail: what + ": " + detail, Sig: sig, Scenario: sc, Real: rv})
	}
	if rc.Panic != "" {
		rep("panic", rc.Panic)
		return -1, true
	}
	if !rc.Ok {
		if rc.Rep && !rc.RepOK {
			rep("unrepairable", "ReadAll returned ErrUnexpectedEOF and Repair returned false")
		} else if rc.Rep {
			rep("unrepairable", "ReadAll after a successful Repair failed: "+rc.Out.Err)
		} else {
			rep("unrepairable", "ReadAll (write mode) failed with a non-repairable error on a crash image: "+rc.First)
		}
		return -1, true
	}
	k = matchPrefix(hist, len(hist), rc.Out.Hs, rc.Out.Ents, true, true)
	if k < 0 {
		rep("not-prefix", fmt.Sprintf("recovered hard state %v and %d entries (last %d) equal no prefix of what was written", rc.Out.Hs, rc.Out.Nents, rc.Out.Last))
		return k, true
	}
	if k < durable {
		rep("lost-synced", fmt.Sprintf("recovered prefix has %d records but %d were covered by a completed sync", k, durable))
		return k, true
	}
	if string(rc.Out.Meta) != string(meta) {
		rep("not-prefix", "metadata differs")
		return k, true
	}
	return k, false
}

func replayScenario(sink *Sink, sc *Scenario, work string, seed uint64) {
	sink.stats.Cases++
	base := filepath.Join(work, "w")
	img := filepath.Join(work, "img")
	var wr *WriteResult
	// perform the real writes; retry with other payloads when the CRC varint length changes a record size
	layoutOK := false
	for attempt := 0; attempt < 6 && !layoutOK; attempt++ {
		if wr != nil && wr.W != nil {
			wr.W.Close()
		}
		padmode := 1
		if attempt >= 3 {
			padmode = 0
		}
		wr = runOps(base, sc, seed+uint64(attempt)*7919, padmode)
		if wr.Err != "" {
			if strings.HasPrefix(wr.Err, "op") && strings.Contains(wr.Err, "layout") {
				continue
			}
			// the real writer failed on a legal operation sequence
			sink.finding(Finding{ID: sc.ID, Class: "violation", Kind: "writer-error", Detail: wr.Err, Sig: "writer-error", Scenario: sc})
			if wr.W != nil {
				wr.W.Close()
			}
			return
		}
		layoutOK = sc.NoPred || layoutMatches(sc, wr)
	}
	defer func() {
		if wr.W != nil {
			func() { defer func() { recover() }(); wr.W.Close() }()
		}
	}()
	if !layoutOK {
		sink.finding(Finding{ID: sc.ID, Class: "skip", Kind: "layout", Detail: "record sizes on disk differ from the prescribed ones", Sig: "layout"})
		return
	}
	nops := len(sc.Ops)
	after := wr.After
	// sanity of the clean write: what is on disk (independent parser) is what was handed to the writer
	cleanLog, _, _, clean := parseSet(after.Names, after.Data)
	if !clean || !prefixOfHist(cleanLog, wr.Hist) {
		sink.finding(Finding{ID: sc.ID, Class: "violation", Kind: "clean-write-mismatch",
			Detail: "the files written by an uninterrupted run do not parse to the records handed to Save", Sig: "clean-write-mismatch", Scenario: sc})
		return
	}

	// ---- image of the first crash
	tail := sc.Tail
	if sc.NoPred && !sc.AsIs && tail == 0 {
		// crash during the last call: a segment created by that call's cut is not visible yet
		tail = 1
		if wr.Before != nil {
			tail = len(wr.Before.Names)
		}
		sc.Tail = tail
	}
	if sc.AsIs || tail <= 0 || tail > len(after.Names) {
		tail = len(after.Names)
	}
	whatPfx := ""
	if sc.CutCrash {
		nb := 1
		if wr.Before != nil {
			nb = len(wr.Before.Names)
		}
		if len(after.Names) > nb {
			// the last op cut: undo the rename. The pipeline alternates 0.tmp / 1.tmp; the one that is
			// missing from the directory is the one that became the new segment.
			tmp := "0.tmp"
			if _, ok := after.Data["0.tmp"]; ok {
				tmp = "1.tmp"
			}
			imageExtra = map[string][]byte{tmp: after.Data[after.Names[len(after.Names)-1]]}
			for _, o := range after.Other {
				if strings.HasSuffix(o, ".tmp") {
					imageExtra[o] = after.Data[o]
				}
			}
			tail = len(after.Names) - 1
			sc.Lost, sc.LostSeed = nil, 0
			whatPfx = "cutcrash-"
			sink.label("cutcrash")
		} else {
			sc.CutCrash = false
		}
	}
	names := after.Names[:tail]
	data := cloneData(names, after.Data)
	tailName := names[tail-1]
	// real synced offset of the tail: where the file ended after the previous op
	soff := int64(0)
	if wr.Before != nil {
		if b, ok := wr.Before.Data[tailName]; ok {
			_, e, _, _ := parseFile(b, 0)
			soff = e
		}
	} else {
		soff = headEnd(after.Data[tailName])
	}
	if sc.LostSeed != 0 {
		_, e, _, _ := parseFile(data[tailName], 0)
		if e > soff {
			sc.Lost = pickLost(sc.LostSeed, int(soff/512), int((e-1)/512))
		}
		sc.LostSeed = 0
	}
	rv := &realView{Total: len(wr.Hist)}
	durableOps := nops - 1
	if len(sc.Lost) == 0 {
		// nothing lost: the image is exactly the directory as it was when the last call returned, and a
		// crash right after the return is a legal crash point - the call's durability obligation applies
		durableOps = nops
	}
	rv.Dur = specDurable(wr, durableOps)
	if !sc.NoPred && int64(sc.Soff)*8 != soff && len(sc.Lost) > 0 {
		sink.finding(Finding{ID: sc.ID, Class: "divergence", Kind: "synced-offset", Detail: fmt.Sprintf("model synced offset %d bytes, real %d", sc.Soff*8, soff), Sig: "synced-offset"})
	}
	for _, s := range sc.Lost {
		sectorZero(data[tailName], s, soff, nil)
	}
	if err := writeImage(img, names, data); err != nil {
		fmt.Fprintln(os.Stderr, "infra:", err)
		os.Exit(3)
	}

	// read-only readers first (they do not modify the image)
	vo := readVerify(img, walpb.Snapshot{})
	ro := readRead(img, walpb.Snapshot{})
	sink.stats.Reads += 2
	rv.Verify, rv.Read = &vo, &ro
	if vo.Panic != "" {
		sink.finding(Finding{ID: sc.ID, Class: "violation", Kind: "panic", Detail: "Verify: " + vo.Panic, Sig: "verify/panic", Scenario: sc, Real: rv})
	} else if vo.Err == "" {
		if k := matchPrefix(wr.Hist, len(wr.Hist), vo.Hs, nil, true, false); k < 0 {
			sink.finding(Finding{ID: sc.ID, Class: "violation", Kind: "not-prefix", Detail: fmt.Sprintf("Verify returned hard state %v which no prefix of the written records gives", vo.Hs), Sig: "verify/not-prefix", Scenario: sc, Real: rv})
		}
	} else {
		sink.finding(Finding{ID: sc.ID, Class: "divergence", Kind: "verify-error", Detail: "wal.Verify failed on a crash image: " + vo.Err, Sig: "verify-error/" + vo.Err, Scenario: sc})
	}
	if ro.Panic != "" {
		sink.finding(Finding{ID: sc.ID, Class: "violation", Kind: "panic", Detail: "ReadAll(read mode): " + ro.Panic, Sig: "read/panic", Scenario: sc, Real: rv})
	} else if ro.Err == "" {
		k := matchPrefix(wr.Hist, len(wr.Hist), ro.Hs, ro.Ents, true, true)
		if k < 0 {
			sink.finding(Finding{ID: sc.ID, Class: "violation", Kind: "not-prefix", Detail: "ReadAll(read mode) returned data that is no prefix of what was written", Sig: "read/not-prefix", Scenario: sc, Real: rv})
		} else if k < rv.Dur {
			sink.finding(Finding{ID: sc.ID, Class: "violation", Kind: "lost-synced", Detail: fmt.Sprintf("ReadAll(read mode) returned %d records, %d were synced", k, rv.Dur), Sig: "read/lost-synced", Scenario: sc, Real: rv})
		}
	} else {
		sink.finding(Finding{ID: sc.ID, Class: "divergence", Kind: "readmode-error", Detail: "ReadAll(read mode) failed on a crash image: " + ro.Err, Sig: "readmode-error/" + ro.Err, Scenario: sc})
	}

	// open at every snapshot the log itself advertises (raftexample: ValidSnapshotEntries -> newest -> Open)
	func() {
		var snaps []walpb.Snapshot
		pan := ""
		func() {
			defer func() {
				if p := recover(); p != nil {
					pan = fmt.Sprint(p)
				}
			}()
			snaps, _ = wal.ValidSnapshotEntries(lg, img)
		}()
		sink.stats.Reads++
		if pan != "" {
			sink.finding(Finding{ID: sc.ID, Class: "violation", Kind: "panic", Detail: "ValidSnapshotEntries: " + pan, Sig: "snapentries/panic", Scenario: sc, Real: rv})
			return
		}
		for _, s := range snaps {
			found := s.Index == 0 && s.Term == 0
			for _, l := range wr.Hist {
				if l.Kind == "snap" && l.Index == s.Index && l.Term == s.Term {
					found = true
				}
			}
			if !found {
				sink.finding(Finding{ID: sc.ID, Class: "violation", Kind: "not-prefix", Detail: fmt.Sprintf("ValidSnapshotEntries returned {index %d term %d} which was never saved", s.Index, s.Term), Sig: "snapentries/not-prefix", Scenario: sc, Real: rv})
				continue
			}
			if s.Index == 0 {
				continue
			}
			so := readRead(img, walpb.Snapshot{Index: s.Index, Term: s.Term})
			sink.stats.Reads++
			sink.label("open-at-snapshot")
			if so.Panic != "" {
				sink.finding(Finding{ID: sc.ID, Class: "violation", Kind: "panic", Detail: "ReadAll opened at a snapshot: " + so.Panic, Sig: "read-at-snap/panic", Scenario: sc, Real: rv})
			} else if so.Err == "" {
				k := matchPrefixFrom(wr.Hist, len(wr.Hist), so.Hs, so.Ents, true, true, s.Index)
				if k < 0 && matchPrefixMode(wr.Hist, len(wr.Hist), so.Hs, so.Ents, true, true, s.Index, true) >= 0 {
					// ambiguity set (DESIGN 2.4): the entry WAS written and raft overwrites it again; counted, not flagged
					sink.label("ambiguity.stale-superseded-entry")
					sink.finding(Finding{ID: sc.ID, Class: "ambiguity", Kind: "stale-superseded-entry", Detail: fmt.Sprintf("ReadAll opened at snapshot %d returned %d entries (last %d) including an entry that a later save had overwritten (the overwrite started at or below the snapshot index, which ReadAll skips)", s.Index, so.Nents, so.Last), Sig: "read-at-snap/stale-superseded-entry", Scenario: sc, Real: rv})
				} else if k < 0 {
					sink.finding(Finding{ID: sc.ID, Class: "violation", Kind: "not-prefix", Detail: fmt.Sprintf("ReadAll opened at snapshot %d returned hs %v and %d entries (last %d): no prefix of the written records gives that", s.Index, so.Hs, so.Nents, so.Last), Sig: "read-at-snap/not-prefix", Scenario: sc, Real: rv})
				} else if k < rv.Dur {
					sink.finding(Finding{ID: sc.ID, Class: "violation", Kind: "lost-synced", Detail: fmt.Sprintf("ReadAll opened at snapshot %d returned %d records, %d were synced", s.Index, k, rv.Dur), Sig: "read-at-snap/lost-synced", Scenario: sc, Real: rv})
				}
			} else {
				sink.finding(Finding{ID: sc.ID, Class: "divergence", Kind: "readmode-error", Detail: fmt.Sprintf("ReadAll opened at snapshot %d failed on a crash image: %s", s.Index, so.Err), Sig: "read-at-snap-error/" + so.Err, Scenario: sc})
			}
		}
	}()

	// recovery in write mode (+ Repair)
	rc, w2 := recoverDir(img)
	sink.stats.Reads++
	rv.Rec1 = &rc
	defer func() {
		if w2 != nil {
			func() { defer func() { recover() }(); w2.Close() }()
		}
	}()
	emitTrace(sc.ID+"/recovery", "crash", wr.Hist, rv.Dur, 0, rc.Ok, rc.Out.Hs, rc.Out.Ents)
	if ro.Panic == "" && ro.Err == "" {
		emitTrace(sc.ID+"/read", "crash", wr.Hist, rv.Dur, 0, true, ro.Hs, ro.Ents)
	}
	k1, bad := checkRecovered(sink, sc, rv, whatPfx+"recovery", &rc, wr.Hist, rv.Dur, wr.Meta)
	rv.K1 = k1
	sink.label("first=" + clip(rc.First))
	if rc.Rep {
		sink.label("repair")
	}
	if len(sc.Lost) > 0 {
		sink.label("lost>0")
	}
	if tail > 1 {
		sink.label("segments>1")
	}
	if !sc.NoPred && sc.P1 != nil && rc.Panic == "" {
		p := sc.P1
		var diffs []string
		pf := p.First
		if pf != "ok" && pf != "ueof" {
			pf = "other"
		}
		rf := rc.First
		if rf != "ok" && rf != "ueof" {
			rf = "other"
		}
		if pf != rf {
			diffs = append(diffs, fmt.Sprintf("first ReadAll: model %s real %s", p.First, rc.First))
		}
		if p.Rep != rc.Rep {
			diffs = append(diffs, fmt.Sprintf("repair: model %v real %v", p.Rep, rc.Rep))
		}
		if p.Ok != rc.Ok {
			diffs = append(diffs, fmt.Sprintf("recovered: model %v real %v", p.Ok, rc.Ok))
		}
		if p.Ok && rc.Ok {
			if p.Nents != rc.Out.Nents || p.Lastidx != rc.Out.Last || p.Hs != rc.Out.Hs {
				diffs = append(diffs, fmt.Sprintf("result: model nents=%d last=%d hs=%v real nents=%d last=%d hs=%v", p.Nents, p.Lastidx, p.Hs, rc.Out.Nents, rc.Out.Last, rc.Out.Hs))
			}
		}
		if len(diffs) > 0 {
			sink.finding(Finding{ID: sc.ID, Class: "divergence", Kind: "prediction", Detail: strings.Join(diffs, "; "), Sig: "prediction/epoch1", Scenario: sc, Real: rv})
		}
	}
	sink.sample(map[string]interface{}{"scenario": sc, "real_first": rc.First, "real_repair": rc.Rep, "real_nents": rc.Out.Nents, "real_hs": rc.Out.Hs, "matched_prefix": k1, "durable": rv.Dur, "written": len(wr.Hist)})
	if bad || !sc.Two || w2 == nil || len(sc.App) == 0 {
		return
	}

	// ---- epoch 2: append on the recovered WAL, second crash
	post, err := readDir(img)
	if err != nil {
		fmt.Fprintln(os.Stderr, "infra:", err)
		os.Exit(3)
	}
	postLog, _, ends, _ := parseSet(post.Names, post.Data)
	hist2 := append([]Logical(nil), postLog...)
	for i := range hist2 {
		hist2[i].Op = 0
	}
	durable2 := len(hist2)
	ptail := post.Names[len(post.Names)-1]
	soff2 := ends[ptail]
	old := post.Data[ptail]
	r2 := &rng{s: seed ^ hashStr(sc.ID) ^ 0xabcdef}
	var dummy [3]uint64
	if sc.NoPred && sc.App[0].First == 0 {
		// random scenario: continue the recovered log
		a := &sc.App[0]
		a.First = rc.Out.Last + 1
		a.Term = rc.Out.Hs[0]
		if rc.Out.Nents > 0 && rc.Out.Ents[rc.Out.Nents-1].Term > a.Term {
			a.Term = rc.Out.Ents[rc.Out.Nents-1].Term
		}
		if sc.AppNewTerm || a.Term == 0 {
			a.Term++
			a.Hs = [3]uint64{a.Term, 1, rc.Out.Hs[2]}
		}
	}
	// padding 0..3 only: the record size then does not depend on the length of the CRC varint
	h, _, err := applyOp(w2, sc.App[0], nops+1, r2, 0, &dummy)
	if err != nil {
		sink.finding(Finding{ID: sc.ID, Class: "violation", Kind: "writer-error", Detail: "append after recovery: " + err.Error(), Sig: "append/writer-error", Scenario: sc, Real: rv})
		return
	}
	hist2 = append(hist2, h...)
	after2, err := readDir(img)
	if err != nil {
		fmt.Fprintln(os.Stderr, "infra:", err)
		os.Exit(3)
	}
	func() { defer func() { recover() }(); w2.Close() }()
	w2 = nil
	names2 := after2.Names
	data2 := cloneData(names2, after2.Data)
	if !sc.NoPred && len(sc.App[0].Ws) > 0 {
		// the appended records must have the prescribed sizes
		_, fr2, _, _ := parseSet(names2, data2)
		var got []int
		for _, n := range names2 {
			for _, f := range fr2[n] {
				if f.Typ == tEntry {
					got = append(got, f.Words)
				}
			}
		}
		want := sc.App[0].Ws
		okl := len(got) >= len(want)
		if okl {
			// the appended entries are the last entry frames written
			for i := range want {
				if got[len(got)-len(want)+i] != want[i] {
					okl = false
				}
			}
		}
		if !okl {
			sink.finding(Finding{ID: sc.ID, Class: "skip", Kind: "layout", Detail: "appended record sizes differ from the prescribed ones", Sig: "layout2"})
			return
		}
	}
	t2 := names2[len(names2)-1]
	if t2 == ptail && sc.Lost2Seed != 0 {
		_, e, _, _ := parseFile(data2[t2], 0)
		if e > soff2 {
			sc.Lost2 = pickLost(sc.Lost2Seed, int(soff2/512), int((e-1)/512))
		}
		sc.Lost2Seed = 0
	}
	if t2 == ptail {
		for _, s := range sc.Lost2 {
			sectorZero(data2[t2], s, soff2, old) // a lost sector keeps its OLD content
		}
	}
	img2 := filepath.Join(work, "img2")
	if err := writeImage(img2, names2, data2); err != nil {
		fmt.Fprintln(os.Stderr, "infra:", err)
		os.Exit(3)
	}
	rcb, w3 := recoverDir(img2)
	sink.stats.Reads++
	if w3 != nil {
		func() { defer func() { recover() }(); w3.Close() }()
	}
	rv.Rec2 = &rcb
	if sc.CloseBeforeCrash2 {
		durable2 = len(hist2)
	}
	if !(sc.CutCrash && !rcb.Ok && rcb.First == "crc") { // the known finding C16-F02 is reported by the Go contract
		emitTrace(sc.ID+"/second-recovery", "crash", hist2, durable2, 0, rcb.Ok, rcb.Out.Hs, rcb.Out.Ents)
	}
	k2, _ := checkRecovered(sink, sc, rv, whatPfx+"second-recovery", &rcb, hist2, durable2, wr.Meta)
	rv.K2 = k2
	sink.label("epoch2")
	if rcb.Rep {
		sink.label("epoch2.repair")
	}
	if !sc.NoPred && sc.P2 != nil && rcb.Panic == "" {
		p := sc.P2
		var diffs []string
		if (p.First == "ok") != (rcb.First == "ok") || (p.First == "ueof") != (rcb.First == "ueof") {
			diffs = append(diffs, fmt.Sprintf("first ReadAll: model %s real %s", p.First, rcb.First))
		}
		if p.Ok != rcb.Ok {
			diffs = append(diffs, fmt.Sprintf("recovered: model %v real %v", p.Ok, rcb.Ok))
		}
		if p.Ok && rcb.Ok && (p.Nents != rcb.Out.Nents || p.Lastidx != rcb.Out.Last || p.Hs != rcb.Out.Hs) {
			diffs = append(diffs, fmt.Sprintf("result: model nents=%d last=%d hs=%v real nents=%d last=%d hs=%v", p.Nents, p.Lastidx, p.Hs, rcb.Out.Nents, rcb.Out.Last, rcb.Out.Hs))
		}
		if len(diffs) > 0 {
			sink.finding(Finding{ID: sc.ID, Class: "divergence", Kind: "prediction", Detail: strings.Join(diffs, "; "), Sig: "prediction/epoch2", Scenario: sc, Real: rv})
		}
	}
	if os.Getenv("WALSIM_KEEP") == "" {
		os.RemoveAll(img2)
	}
}

func clip(s string) string {
	if i := strings.Index(s, ":"); i > 0 {
		return s[:i]
	}
	return s
}

func headEnd(b []byte) int64 {
	// end of the records written by Create (crc, metadata, snapshot)
	fr, end, _, _ := parseFile(b, 0)
	if len(fr) >= 3 {
		return fr[2].Off + int64(fr[2].Words)*8
	}
	return end
}

func prefixOfHist(disk []Logical, hist []Logical) bool {
	ok, _ := matchHist(disk, hist)
	return ok
}

// matchHist: ok plus the number of history records found on disk
func matchHist(disk []Logical, hist []Logical) (bool, int) {
	// disk (without head copies of the state written by cut) must equal hist, or a prefix of it when the
	// last save is still buffered
	i := 0
	for _, d := range disk {
		if i < len(hist) && sameLogical(d, hist[i]) {
			i++
			continue
		}
		if d.Kind == "state" { // head copy of w.state
			continue
		}
		if d.Kind == "snap" && d.Index == 0 { // the snapshot{0,0} of Create
			continue
		}
		return false, i
	}
	return true, i
}

func layoutMatches(sc *Scenario, wr *WriteResult) bool {
	// every entry record must have the prescribed size in words; state records 3, snapshot 4
	_, frames, _, _ := parseSet(wr.After.Names, wr.After.Data)
	var got []int
	for _, n := range wr.After.Names {
		for _, f := range frames[n] {
			if f.Typ == tEntry {
				got = append(got, f.Words)
			}
			if f.Typ == tState && f.Words != 3 {
				return false
			}
			if f.Typ == tSnap && f.Words != 3 && f.Words != 4 {
				return false
			}
			if f.Typ == tSnap && f.Off > 64 && f.Words != 4 {
				return false
			}
			if f.Typ == tMeta && f.Words != sc.Meta {
				return false
			}
		}
	}
	var want []int
	for i, o := range sc.Ops {
		if i == len(sc.Ops)-1 && !o.Sync && !o.Cut {
			break // still buffered
		}
		want = append(want, o.Ws...)
	}
	if len(got) < len(want) {
		return false
	}
	for i := range want {
		if got[i] != want[i] {
			return false
		}
	}
	return true
}

// ---------------------------------------------------------------- main

func main() {
	debug.SetGCPercent(200)
	if len(os.Args) < 2 {
		fmt.Fprintln(os.Stderr, "usage: walsim replay|random|corrupt|snap|snapreplay|one -out F -work D [-in F] [-seed N] ...")
		os.Exit(3)
	}
	cmd := os.Args[1]
	if cmd == "syncprobe" && len(os.Args) >= 3 {
		syncProbe(os.Args[2])
		return
	}
	fs := flag.NewFlagSet(cmd, flag.ExitOnError)
	in := fs.String("in", "", "scenario file (ndjson)")
	out := fs.String("out", "", "result file (ndjson)")
	work := fs.String("work", "", "scratch directory (tmpfs recommended)")
	seed := fs.Uint64("seed", 1, "seed")
	shard := fs.Int("shard", 0, "this worker's index")
	nshard := fs.Int("nshard", 1, "number of workers")
	n := fs.Int("n", 100, "number of random cases / images")
	full := fs.Bool("full", false, "corrupt: every offset of the zero tail too")
	trace := fs.Bool("trace", false, "print BEGIN <id> before every case (to find a case that kills the process)")
	traceOut := fs.String("traceout", "", "write one ndjson line per reader call for TraceWal.tla")
	fs.Parse(os.Args[2:])
	if *work == "" || *out == "" {
		fmt.Fprintln(os.Stderr, "-work and -out are required")
		os.Exit(3)
	}
	os.MkdirAll(*work, 0700)
	sink := newSink(*out, cmd)
	if *traceOut != "" {
		tf, err := os.Create(*traceOut)
		if err != nil {
			fmt.Fprintln(os.Stderr, err)
			os.Exit(3)
		}
		traceW = bufio.NewWriter(tf)
		defer tf.Close()
	}
	switch cmd {
	case "replay":
		f, err := os.Open(*in)
		if err != nil {
			fmt.Fprintln(os.Stderr, err)
			os.Exit(3)
		}
		rd := bufio.NewReaderSize(f, 1<<20)
		i := 0
		for {
			line, err := rd.ReadBytes('\n')
			if len(line) > 1 {
				if i%*nshard == *shard {
					var sc Scenario
					if jerr := json.Unmarshal(line, &sc); jerr != nil {
						fmt.Fprintln(os.Stderr, "bad scenario line:", jerr)
						os.Exit(3)
					}
					if sc.ID == "" {
						sc.ID = fmt.Sprintf("s%d", i)
					}
					if *trace {
						fmt.Println("BEGIN", sc.ID)
					}
					if sc.Cor.Kind != "" && sc.Cor.Kind != "none" {
						replayCorruptScenario(sink, &sc, *work, *seed)
					} else {
						replayScenario(sink, &sc, *work, *seed)
					}
				}
				i++
			}
			if err != nil {
				break
			}
		}
	case "one":
		// re-run the case recorded in a replay artefact written by checks/C16.py (/verif/replay/C16/vNNN.json)
		runOne(sink, *work, *seed, *in)
	case "random":
		runRandom(sink, *work, *seed, *shard, *nshard, *n, *trace)
	case "corrupt":
		runCorrupt(sink, *work, *seed, *shard, *nshard, *n, *full, *trace, *in)
	case "snap":
		runSnap(sink, *work, *seed, *shard, *nshard, *n, *trace)
	case "snapreplay":
		runSnapReplay(sink, *work, *seed, *in)
	default:
		fmt.Fprintln(os.Stderr, "unknown command", cmd)
		os.Exit(3)
	}
	sink.close()
	if traceW != nil {
		traceW.Flush()
	}
	if os.Getenv("WALSIM_KEEP") == "" {
		os.RemoveAll(*work)
	}
}
