package main

import (
	"fmt"
	"os"

	"go.etcd.io/etcd/raft/v3/raftpb"
	"go.etcd.io/etcd/server/v3/etcdserver/api/snap"
	"go.etcd.io/etcd/server/v3/storage/wal"
	"go.etcd.io/etcd/server/v3/storage/wal/walpb"
	"go.uber.org/zap"
)

func main() {
	wal.SegmentSizeBytes = 2048
	d := os.Args[1]
	w, err := wal.Create(zap.NewNop(), d, []byte("m"))
	fmt.Println(err)
	err = w.Save(raftpb.HardState{Term: 1, Vote: 1, Commit: 0}, []raftpb.Entry{{Index: 1, Term: 1, Data: []byte("hello")}})
	fmt.Println(err)
	w.Close()
	_ = snap.New
	_ = walpb.Snapshot{}
}
