package main

// syncprobe: a short WAL workload whose system calls are recorded by strace (lib/walsync.py). After every call that must leave
// its data durable (a Save with entries or a term change, a Save that cuts the segment, SaveSnapshot) a MARK line is written to
// stderr; the checker replays the system-call trace and demands that, at each mark, no byte written to a WAL file is newer than
// that file's last fdatasync. The sector-level crash model of Wal.tla ASSUMES these syncs; this probe observes them.

import (
	"fmt"
	"os"
	"path/filepath"
	"syscall"

	"go.etcd.io/etcd/raft/v3/raftpb"
	"go.etcd.io/etcd/server/v3/storage/wal"
	"go.etcd.io/etcd/server/v3/storage/wal/walpb"
	"go.uber.org/zap"
)

func mark(n int, kind string, sync bool) {
	s := fmt.Sprintf("MARK %d %s sync=%v\n", n, kind, sync)
	syscall.Write(2, []byte(s))
}

func syncProbe(dir string) {
	waldir := filepath.Join(dir, "wal")
	wal.SegmentSizeBytes = 16 * 1024
	w, err := wal.Create(zap.NewNop(), waldir, []byte("meta"))
	if err != nil {
		fmt.Println("SYNCPROBE-ERROR create:", err)
		os.Exit(3)
	}
	n := 0
	idx := uint64(0)
	check := func(kind string, sync bool, err error) {
		if err != nil {
			fmt.Println("SYNCPROBE-ERROR", kind, err)
			os.Exit(3)
		}
		n++
		mark(n, kind, sync)
	}
	mark(0, "create", true)
	payload := make([]byte, 3000)
	for i := range payload {
		payload[i] = byte(1 + i%250)
	}
	term := uint64(1)
	for round := 0; round < 14; round++ {
		// entries: MustSync; six rounds of 3000-byte entries fill the 16 KiB segment, so some of these Saves end with a cut
		idx++
		check("save-entries", true, w.Save(raftpb.HardState{Term: term, Vote: 1, Commit: idx - 1}, []raftpb.Entry{{Index: idx, Term: term, Data: payload}}))
		// commit only: not synced by design
		check("save-commit-only", false, w.Save(raftpb.HardState{Term: term, Vote: 1, Commit: idx}, nil))
		if round%4 == 3 {
			cs := raftpb.ConfState{Voters: []uint64{1}}
			err := w.SaveSnapshot(walpb.Snapshot{Index: idx, Term: term, ConfState: &cs})
			check("save-snapshot", true, err)
		}
		if round%5 == 4 { // a new term with no entries: MustSync
			term++
			check("save-term-change", true, w.Save(raftpb.HardState{Term: term, Vote: 1, Commit: idx}, nil))
		}
	}
	fmt.Println("SYNCPROBE-DONE", n)
	os.Exit(0) // no Close: it would sync everything
}
