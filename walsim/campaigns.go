package main

import (
	"bufio"
	"bytes"
	"encoding/json"
	"fmt"
	"os"
	"path/filepath"
	"sort"
	"strings"

	"go.etcd.io/etcd/raft/v3/raftpb"
	"go.etcd.io/etcd/server/v3/etcdserver/api/snap"
	"go.etcd.io/etcd/server/v3/storage/wal"
	"go.etcd.io/etcd/server/v3/storage/wal/walpb"
)

// ---------------------------------------------------------------- seeded random crash scenarios (no prediction)

var payloadClasses = [][2]int{{0, 0}, {1, 40}, {1, 40}, {41, 400}, {41, 400}, {401, 1500}, {401, 1500}, {1501, 6000}, {6001, 40000}}

func genRandom(r *rng, id string) *Scenario {
	sc := &Scenario{ID: id, NoPred: true}
	sc.Seg = []int{128, 256, 256, 512, 1024}[r.intn(5)]
	sc.Meta = []int{2, 3, 3, 5}[r.intn(4)]
	nops := 1 + r.intn(6)
	term, last, commit := uint64(0), uint64(0), uint64(0)
	hs := [3]uint64{}
	big := r.intn(4) == 0
	for len(sc.Ops) < nops {
		kind := r.intn(10)
		if term == 0 {
			kind = 0
		}
		switch {
		case kind <= 1: // new term, maybe entries, maybe overwrite the uncommitted tail
			term += 1 + uint64(r.intn(2))
			n := r.intn(4)
			first := last + 1
			if n > 0 && last > commit && r.intn(3) == 0 {
				first = commit + 1 + uint64(r.intn(int(last-commit)))
			}
			op := Op{K: "save", First: first, Term: term, Sync: true}
			for i := 0; i < n; i++ {
				op.Bs = append(op.Bs, drawSize(r, big))
			}
			if n > 0 {
				last = first + uint64(n) - 1
			}
			if commit > last {
				commit = last
			}
			hs = [3]uint64{term, 1 + uint64(r.intn(3)), commit}
			op.Hs = hs
			sc.Ops = append(sc.Ops, op)
		case kind <= 5: // entries, with or without a hard state
			n := 1 + r.intn(3)
			op := Op{K: "save", First: last + 1, Term: term, Sync: true}
			for i := 0; i < n; i++ {
				op.Bs = append(op.Bs, drawSize(r, big))
			}
			last += uint64(n)
			if r.intn(2) == 0 {
				commit = commit + uint64(r.intn(int(last-commit)+1))
				hs[2] = commit
				op.Hs = hs
			}
			sc.Ops = append(sc.Ops, op)
		case kind <= 7: // commit-only hard state (MustSync false)
			if last == commit {
				continue
			}
			commit = commit + 1 + uint64(r.intn(int(last-commit)))
			hs[2] = commit
			sc.Ops = append(sc.Ops, Op{K: "save", First: last + 1, Term: term, Hs: hs, Sync: false})
		default: // snapshot at the commit index
			if commit == 0 {
				continue
			}
			dup := false
			for _, o := range sc.Ops {
				if o.K == "snap" && o.First == commit {
					dup = true
				}
			}
			if dup {
				continue
			}
			sc.Ops = append(sc.Ops, Op{K: "snap", First: commit, Term: term, Sync: true})
		}
	}
	switch r.intn(5) {
	case 0:
		sc.AsIs = true
	default:
		sc.LostSeed = r.next() | 1
	}
	if r.intn(3) == 0 {
		sc.Two = true
		op := Op{K: "save", Term: 0, Sync: true}
		op.Bs = []int{drawSize(r, false)}
		if r.intn(2) == 0 {
			op.Bs = append(op.Bs, drawSize(r, false))
		}
		sc.App = []Op{op}
		sc.Lost2Seed = r.next() | 1
		sc.AppNewTerm = r.intn(2) == 0
	}
	return sc
}

func drawSize(r *rng, big bool) int {
	n := len(payloadClasses)
	if !big {
		n -= 2
	}
	c := payloadClasses[r.intn(n)]
	if c[1] == c[0] {
		return c[0]
	}
	return c[0] + r.intn(c[1]-c[0]+1)
}

// pickLost chooses a subset of the sectors [lo, hi] from a seed: all subsets are reachable; simple shapes
// (none, all, only first, only last, all but first, all but last) are over-represented.
func pickLost(seed uint64, lo, hi int) []int {
	r := &rng{s: seed}
	var out []int
	n := hi - lo + 1
	if n <= 0 {
		return nil
	}
	switch r.intn(10) {
	case 0:
		return nil
	case 1:
		for s := lo; s <= hi; s++ {
			out = append(out, s)
		}
	case 2:
		out = []int{lo}
	case 3:
		out = []int{hi}
	case 4:
		for s := lo + 1; s <= hi; s++ {
			out = append(out, s)
		}
	case 5:
		for s := lo; s < hi; s++ {
			out = append(out, s)
		}
	default:
		for s := lo; s <= hi; s++ {
			if r.intn(2) == 0 {
				out = append(out, s)
			}
		}
	}
	return out
}

// genCutCrash: a write sequence whose last save cuts, crashed between the sync of the new head and the
// rename; after recovery one more save (which cuts again, reusing the left-over .tmp), then restart.
func genCutCrash(r *rng, id string) *Scenario {
	sc := &Scenario{ID: id, NoPred: true, CutCrash: true, Two: true}
	sc.Seg = []int{128, 256}[r.intn(2)]
	sc.Meta = []int{2, 3, 5}[r.intn(3)]
	term := uint64(1 + r.intn(200))
	vote := uint64(1 + r.intn(3))
	last, commit := uint64(0), uint64(0)
	for {
		n := 1 + r.intn(2)
		op := Op{K: "save", First: last + 1, Term: term, Sync: true}
		tot := 0
		for i := 0; i < n; i++ {
			s := 100 + r.intn(sc.Seg*8)
			op.Bs = append(op.Bs, s)
			tot += s
		}
		last += uint64(n)
		if len(sc.Ops) == 0 || r.intn(2) == 0 {
			commit += uint64(r.intn(int(last-commit) + 1))
			op.Hs = [3]uint64{term, vote, commit}
		}
		sc.Ops = append(sc.Ops, op)
		if len(sc.Ops) >= 2 && r.intn(2) == 0 || len(sc.Ops) >= 5 {
			break
		}
	}
	app := Op{K: "save", Sync: true, Bs: []int{1 + r.intn(60)}}
	sc.App = []Op{app}
	sc.AppNewTerm = r.intn(2) == 0
	sc.CloseBeforeCrash2 = true
	return sc
}

func runRandom(sink *Sink, work string, seed uint64, shard, nshard, n int, trace bool) {
	for i := 0; i < n; i++ {
		if i%nshard != shard {
			continue
		}
		id := fmt.Sprintf("r%d.%d", seed, i)
		r := &rng{s: seed*1000003 + uint64(i)}
		var sc *Scenario
		if i%8 == 7 {
			sc = genCutCrash(r, id)
		} else {
			sc = genRandom(r, id)
		}
		if trace {
			fmt.Println("BEGIN", id)
		}
		replayScenario(sink, sc, work, seed)
	}
}

// ---------------------------------------------------------------- all-offset single-byte corruption of WAL files

var masks = []byte{0x01, 0x80, 0xff}

func runCorrupt(sink *Sink, work string, seed uint64, shard, nshard, n int, full bool, trace bool, in string) {
	var scs []*Scenario
	if in != "" {
		f, err := os.Open(in)
		if err != nil {
			fmt.Fprintln(os.Stderr, err)
			os.Exit(3)
		}
		rd := bufio.NewReaderSize(f, 1<<20)
		for {
			line, err := rd.ReadBytes('\n')
			if len(line) > 1 {
				var sc Scenario
				if json.Unmarshal(line, &sc) == nil {
					scs = append(scs, &sc)
				}
			}
			if err != nil {
				break
			}
		}
		f.Close()
	}
	for i := 0; len(scs) < n; i++ {
		r := &rng{s: seed*7777 + uint64(i)}
		sc := genRandom(r, fmt.Sprintf("c%d.%d", seed, i))
		sc.Seg = []int{96, 128, 160}[r.intn(3)] // small files: every offset is visited
		for j := range sc.Ops {
			for k := range sc.Ops[j].Bs {
				if sc.Ops[j].Bs[k] > 300 {
					sc.Ops[j].Bs[k] = 1 + sc.Ops[j].Bs[k]%300
				}
			}
		}
		scs = append(scs, sc)
	}
	if len(scs) > n {
		scs = scs[:n]
	}
	base := filepath.Join(work, "w")
	img := filepath.Join(work, "img")
	counter := 0
	for _, sc := range scs {
		if sc.ID == "" {
			sc.ID = "c?"
		}
		wr := runOps(base, sc, seed, 1)
		if wr.Err != "" {
			if wr.W != nil {
				wr.W.Close()
			}
			sink.finding(Finding{ID: sc.ID, Class: "skip", Kind: "writer", Detail: wr.Err, Sig: "writer"})
			continue
		}
		wr.W.Close() // a cleanly closed log: everything handed to Save is on disk
		set, err := readDir(base)
		if err != nil {
			fmt.Fprintln(os.Stderr, "infra:", err)
			os.Exit(3)
		}
		cleanLog, frames, ends, clean := parseSet(set.Names, set.Data)
		okh, nh := matchHist(cleanLog, wr.Hist)
		if !clean || !okh || nh != len(wr.Hist) {
			sink.finding(Finding{ID: sc.ID, Class: "violation", Kind: "clean-write-mismatch", Detail: "closed log does not parse to the records handed to Save", Sig: "clean-write-mismatch", Scenario: sc})
			continue
		}
		writtenSnaps := snapsOf(wr.Hist)
		if shard == 0 {
			sink.stats.Cases++
		}
		sink.sample(map[string]interface{}{"image_of": sc, "files": len(set.Names), "bytes": totalLen(set)})
		for fi, name := range set.Names {
			orig := set.Data[name]
			limit := int64(len(orig))
			if !full {
				if l := ends[name] + 1024; l < limit {
					limit = l
				}
			}
			for x := int64(0); x < limit; x++ {
				for _, m := range masks {
					counter++
					if counter%nshard != shard {
						continue
					}
					if trace {
						fmt.Println("BEGIN", sc.ID, name, x, m)
					}
					flipAndJudge(sink, sc, wr, set, frames, ends, fi, x, m, seed, img, writtenSnaps)
				}
			}
		}
	}
	os.RemoveAll(img)
	os.RemoveAll(base)
}


// flipAndJudge flips one byte of one file of a cleanly closed log, runs every real reader on the result and
// judges what they return by the contract ("an unmodified prefix of what was written, or an error").
// It returns the outcome of the write-mode recovery: rejected | prefix | nonprefix | panic.
func flipAndJudge(sink *Sink, sc *Scenario, wr *WriteResult, set *FileSet, frames map[string][]Frame, ends map[string]int64,
	fi int, x int64, m byte, seed uint64, img string, writtenSnaps map[[2]uint64]bool) string {
	name := set.Names[fi]
	orig := set.Data[name]
	mut := append([]byte(nil), orig...)
	mut[x] ^= m
	data := map[string][]byte{}
	for _, nn := range set.Names {
		data[nn] = set.Data[nn]
	}
	data[name] = mut
	if err := writeImage(img, set.Names, data); err != nil {
		fmt.Fprintln(os.Stderr, "infra:", err)
		os.Exit(3)
	}
	rt, field := classify(frames[name], ends[name], x)
	where := "earlierfile"
	if fi == len(set.Names)-1 {
		where = "lastfile"
	}
	sigBase := fmt.Sprintf("wal/%s/%s/%s/xor%02x", where, rt, field, m)
	mk := func(reader, kind, detail string, real interface{}) {
		sink.finding(Finding{ID: sc.ID, Class: "violation", Kind: kind, Detail: fmt.Sprintf("%s after flipping byte %d of %s (xor %#02x, %s %s): %s", reader, x, name, m, rt, field, detail),
			Sig: sigBase + "/" + reader + "/" + kind,
			Scenario: map[string]interface{}{"image_of": sc, "seed": seed, "file": name, "file_index": fi, "offset": x, "xor": m}, Real: real})
	}
	sink.label("field=" + rt + "/" + field)
	// read mode
	ro := readRead(img, walpb.Snapshot{})
	sink.stats.Reads++
	judge(sink, "ReadAll(read)", ro, wr, true, mk)
	if ro.Panic == "" {
		emitTrace(fmt.Sprintf("%s/flip-%s-%d-%02x/read", sc.ID, name[:16], x, m), "corrupt", wr.Hist, 0, 0, ro.Err == "", ro.Hs, ro.Ents)
	}
	vo := readVerify(img, walpb.Snapshot{})
	sink.stats.Reads++
	judge(sink, "Verify", vo, wr, false, mk)
	// ValidSnapshotEntries
	func() {
		defer func() {
			if p := recover(); p != nil {
				mk("ValidSnapshotEntries", "panic", fmt.Sprint(p), nil)
			}
		}()
		snaps, err := wal.ValidSnapshotEntries(lg, img)
		sink.stats.Reads++
		if err == nil {
			for _, s := range snaps {
				if !writtenSnaps[[2]uint64{s.Index, s.Term}] {
					mk("ValidSnapshotEntries", "corrupt-accepted", fmt.Sprintf("returned snapshot {index %d term %d} that was never saved", s.Index, s.Term), nil)
				}
			}
		}
	}()
	// write mode (+ Repair)
	rc, w := recoverDir(img)
	sink.stats.Reads++
	if w != nil {
		func() { defer func() { recover() }(); w.Close() }()
	}
	if rc.Panic != "" {
		mk("Open+ReadAll(write)", "panic", rc.Panic, rc)
		return "panic"
	}
	if rc.Ok {
		if k := matchPrefix(wr.Hist, len(wr.Hist), rc.Out.Hs, rc.Out.Ents, true, true); k < 0 {
			mk("Open+ReadAll(write)", "corrupt-accepted", fmt.Sprintf("returned hard state %v and %d entries (last index %d): not a prefix of what was written (repair=%v)", rc.Out.Hs, rc.Out.Nents, rc.Out.Last, rc.Rep), rc)
			return "nonprefix"
		}
		sink.label("accepted.prefix")
		return "prefix"
	}
	sink.label("rejected")
	return "rejected"
}

func snapsOf(hist []Logical) map[[2]uint64]bool {
	out := map[[2]uint64]bool{{0, 0}: true}
	for _, l := range hist {
		if l.Kind == "snap" {
			out[[2]uint64{l.Index, l.Term}] = true
		}
	}
	return out
}

// replayCorruptScenario: a Corrupt scenario of Wal.tla - the model names the record word and the kind of
// damage; the harness picks a concrete byte of that class.
func replayCorruptScenario(sink *Sink, sc *Scenario, work string, seed uint64) {
	sink.stats.Cases++
	base := filepath.Join(work, "w")
	img := filepath.Join(work, "img")
	var wr *WriteResult
	ok := false
	for attempt := 0; attempt < 6 && !ok; attempt++ {
		if wr != nil && wr.W != nil {
			wr.W.Close()
		}
		wr = runOps(base, sc, seed+uint64(attempt)*7919, 0)
		if wr.Err != "" {
			if wr.W != nil {
				wr.W.Close()
			}
			sink.finding(Finding{ID: sc.ID, Class: "skip", Kind: "writer", Detail: wr.Err, Sig: "writer"})
			return
		}
		ok = layoutMatches(sc, wr)
	}
	wr.W.Close()
	if !ok {
		sink.finding(Finding{ID: sc.ID, Class: "skip", Kind: "layout", Detail: "record sizes differ", Sig: "layout"})
		return
	}
	set, err := readDir(base)
	if err != nil {
		fmt.Fprintln(os.Stderr, "infra:", err)
		os.Exit(3)
	}
	_, frames, ends, _ := parseSet(set.Names, set.Data)
	fi := sc.Cor.Seg - 1
	if fi < 0 || fi >= len(set.Names) {
		sink.finding(Finding{ID: sc.ID, Class: "skip", Kind: "layout", Detail: "segment count differs", Sig: "layout-seg"})
		return
	}
	name := set.Names[fi]
	r := &rng{s: seed ^ hashStr(sc.ID) ^ 0x5151}
	wordOff := int64(sc.Cor.X) * 8
	var x int64 = -1
	m := masks[r.intn(3)]
	var fr *Frame
	for i := range frames[name] {
		f := &frames[name][i]
		if wordOff >= f.Off && wordOff < f.Off+int64(f.Words)*8 {
			fr = f
		}
	}
	switch sc.Cor.Kind {
	case "len":
		x = wordOff + int64(r.intn(7))
	case "type":
		if fr != nil {
			for _, f := range fr.fields {
				if f.num == 1 && f.wt == 0 {
					x = fr.Off + 8 + int64(f.voff)
				}
			}
		}
		m = 0x01
	case "data":
		if fr != nil {
			var cand []int64
			for b := wordOff; b < wordOff+8; b++ {
				rel := b - fr.Off - 8
				if rel < 0 || rel >= int64(fr.RecLen) {
					continue // padding
				}
				if _, fld := classify(frames[name], ends[name], b); fld == "type.val" {
					continue // that is the "type" kind
				}
				cand = append(cand, b)
			}
			if len(cand) > 0 {
				x = cand[r.intn(len(cand))]
			}
		}
	}
	if x < 0 || x >= int64(len(set.Data[name])) {
		sink.finding(Finding{ID: sc.ID, Class: "skip", Kind: "layout", Detail: "no byte of the prescribed class at that word", Sig: "layout-cor"})
		return
	}
	out := flipAndJudge(sink, sc, wr, set, frames, ends, fi, x, m, seed, img, snapsOf(wr.Hist))
	sink.label("model-corrupt." + sc.Cor.Kind + "=" + out)
	if (out == "nonprefix") != sc.NonPrefix && out != "panic" {
		sink.finding(Finding{ID: sc.ID, Class: "divergence", Kind: "prediction", Detail: fmt.Sprintf("corruption %s at word %d of file %d: model accepted-non-prefix=%v, real outcome %s", sc.Cor.Kind, sc.Cor.X, sc.Cor.Seg, sc.NonPrefix, out), Sig: "prediction/corrupt-" + sc.Cor.Kind, Scenario: sc})
	}
	sink.sample(map[string]interface{}{"corrupt_scenario": sc, "byte": x, "xor": m, "real": out})
	os.RemoveAll(img)
}

func totalLen(s *FileSet) int {
	t := 0
	for _, n := range s.Names {
		t += len(s.Data[n])
	}
	return t
}

func judge(sink *Sink, reader string, o ReadOut, wr *WriteResult, ents bool, mk func(reader, kind, detail string, real interface{})) {
	if o.Panic != "" {
		mk(reader, "panic", o.Panic, o)
		return
	}
	if o.Err != "" {
		return
	}
	if k := matchPrefix(wr.Hist, len(wr.Hist), o.Hs, o.Ents, true, ents); k < 0 {
		mk(reader, "corrupt-accepted", fmt.Sprintf("returned hard state %v and %d entries (last index %d): not a prefix of what was written", o.Hs, o.Nents, o.Last), o)
	}
}

// ---------------------------------------------------------------- snapshot files

type snapRec struct {
	name string
	s    raftpb.Snapshot
}

func sameSnap(a *raftpb.Snapshot, b *raftpb.Snapshot) bool {
	return a.Metadata.Index == b.Metadata.Index && a.Metadata.Term == b.Metadata.Term && bytes.Equal(a.Data, b.Data) &&
		fmt.Sprint(a.Metadata.ConfState.Voters) == fmt.Sprint(b.Metadata.ConfState.Voters)
}

func runSnap(sink *Sink, work string, seed uint64, shard, nshard, n int, trace bool) {
	dir := filepath.Join(work, "snap")
	counter := 0
	for set := 0; set < n; set++ {
		r := &rng{s: seed*31337 + uint64(set)}
		nfiles := 1 + set%3
		os.RemoveAll(dir)
		os.MkdirAll(dir, 0700)
		ss := snap.New(lg, dir)
		var recs []snapRec
		term, index := uint64(1), uint64(0)
		for i := 0; i < nfiles; i++ {
			if r.intn(3) == 0 {
				term += 1 + uint64(r.intn(300))
			}
			index += 1 + uint64(r.intn(400))
			dl := []int{0, 7, 90, 600, 1400}[r.intn(5)]
			s := raftpb.Snapshot{Metadata: raftpb.SnapshotMetadata{Index: index, Term: term, ConfState: raftpb.ConfState{Voters: []uint64{1, 2, 3}}}}
			if dl > 0 {
				s.Data = r.nonZero(dl)
			}
			if err := ss.SaveSnap(s); err != nil {
				fmt.Fprintln(os.Stderr, "infra: SaveSnap:", err)
				os.Exit(3)
			}
			recs = append(recs, snapRec{name: fmt.Sprintf("%016x-%016x.snap", term, index), s: s})
		}
		files := map[string][]byte{}
		var names []string
		for _, rc := range recs {
			b, err := os.ReadFile(filepath.Join(dir, rc.name))
			if err != nil {
				fmt.Fprintln(os.Stderr, "infra: snapshot file missing:", err)
				os.Exit(3)
			}
			files[rc.name] = b
			names = append(names, rc.name)
		}
		sort.Strings(names)
		if shard == 0 {
			sink.stats.Cases++
		}
		sink.sample(map[string]interface{}{"snapshot_set": names, "sizes": func() []int {
			var o []int
			for _, n := range names {
				o = append(o, len(files[n]))
			}
			return o
		}()})
		// sanity: the clean set loads the newest
		restore := func(mutName string, mut []byte) {
			os.RemoveAll(dir)
			os.MkdirAll(dir, 0700)
			for _, nn := range names {
				b := files[nn]
				if nn == mutName {
					b = mut
				}
				os.WriteFile(filepath.Join(dir, nn), b, 0600)
			}
		}
		// expected: newest snapshot whose file is unmodified (index into recs, which is oldest..newest)
		check := func(what, mutName string, desc string, scen map[string]interface{}) {
			sigBase := "snap/" + desc
			report := func(kind, detail string) {
				sink.finding(Finding{ID: fmt.Sprintf("snapset%d", set), Class: "violation", Kind: kind, Detail: what + ": " + detail, Sig: sigBase + "/" + kind, Scenario: scen})
			}
			mutIdx := -1
			for i := range recs {
				if recs[i].name == mutName {
					mutIdx = i
				}
			}
			run := func(label string, walSnaps []walpb.Snapshot, candidates func(i int) bool) {
				var got *raftpb.Snapshot
				var err error
				pan := ""
				func() {
					defer func() {
						if p := recover(); p != nil {
							pan = fmt.Sprint(p)
						}
					}()
					s2 := snap.New(lg, dir)
					if walSnaps == nil {
						got, err = s2.Load()
					} else {
						got, err = s2.LoadNewestAvailable(walSnaps)
					}
				}()
				sink.stats.Reads++
				if pan != "" {
					report("panic", label+": "+pan)
					return
				}
				// newest intact candidate
				want := -1
				for i := len(recs) - 1; i >= 0; i-- {
					if i != mutIdx && candidates(i) {
						want = i
						break
					}
				}
				if err != nil {
					if want >= 0 {
						report("no-fallback", fmt.Sprintf("%s returned %v although %s is intact", label, err, recs[want].name))
					} else {
						sink.label("snap.rejected")
					}
					return
				}
				// something was returned: it must be byte-for-byte a saved snapshot
				which := -1
				for i := range recs {
					if sameSnap(got, &recs[i].s) {
						which = i
					}
				}
				if which < 0 {
					report("corrupt-accepted", fmt.Sprintf("%s returned a snapshot (index %d term %d, %d data bytes) that equals none of the saved ones", label, got.Metadata.Index, got.Metadata.Term, len(got.Data)))
					return
				}
				if which == want {
					if mutIdx > want && candidates(mutIdx) {
						sink.label("snap.fallback")
					} else {
						sink.label("snap.newest")
					}
					return
				}
				if which == mutIdx && candidates(mutIdx) && mutIdx > want {
					sink.label("snap.mutated-file-still-equal")
					return
				}
				report("wrong-fallback", fmt.Sprintf("%s returned %s, expected %s", label, recs[which].name, recs[max(want, 0)].name))
			}
			run("Load", nil, func(i int) bool { return true })
			restoreIfRenamed(dir, names, files, mutName)
			var all []walpb.Snapshot
			for _, rc := range recs {
				all = append(all, walpb.Snapshot{Index: rc.s.Metadata.Index, Term: rc.s.Metadata.Term})
			}
			run("LoadNewestAvailable(all)", all, func(i int) bool { return true })
			if len(recs) > 1 {
				restoreIfRenamed(dir, names, files, mutName)
				run("LoadNewestAvailable(all but newest)", all[:len(all)-1], func(i int) bool { return i < len(recs)-1 })
			}
		}
		restore("", nil)
		check("clean set", "", "clean", map[string]interface{}{"set": set, "seed": seed})
		for _, name := range names {
			orig := files[name]
			// single-byte corruption at every offset
			for x := 0; x < len(orig); x++ {
				for _, m := range masks {
					counter++
					if counter%nshard != shard {
						continue
					}
					if trace {
						fmt.Println("BEGIN snap", set, name, x, m)
					}
					mut := append([]byte(nil), orig...)
					mut[x] ^= m
					restore(name, mut)
					check(fmt.Sprintf("flip byte %d of %s xor %#02x", x, name, m), name, fmt.Sprintf("flip/%s/xor%02x", snapField(orig, x), m),
						map[string]interface{}{"set": set, "seed": seed, "file": name, "offset": x, "xor": m, "files": names})
				}
			}
			// torn write of the file: every truncation length, and every subset shape of lost sectors
			for l := 0; l < len(orig); l++ {
				counter++
				if counter%nshard != shard {
					continue
				}
				restore(name, orig[:l])
				check(fmt.Sprintf("%s truncated to %d bytes", name, l), name, "truncated", map[string]interface{}{"set": set, "seed": seed, "file": name, "truncate": l, "files": names})
			}
			nsec := (len(orig) + 511) / 512
			if nsec >= 1 && nsec <= 4 {
				for sub := 1; sub < 1<<uint(nsec); sub++ {
					counter++
					if counter%nshard != shard {
						continue
					}
					mut := append([]byte(nil), orig...)
					for s := 0; s < nsec; s++ {
						if sub&(1<<uint(s)) != 0 {
							sectorZero(mut, s, 0, nil)
						}
					}
					restore(name, mut)
					check(fmt.Sprintf("%s with sectors %b lost", name, sub), name, "lost-sectors", map[string]interface{}{"set": set, "seed": seed, "file": name, "lost_mask": sub, "files": names})
				}
			}
		}
	}
	os.RemoveAll(dir)
}

func max(a, b int) int {
	if a > b {
		return a
	}
	return b
}

func restoreIfRenamed(dir string, names []string, files map[string][]byte, mutName string) {
	// loadSnap renames a file it cannot read to <name>.broken; put the mutated file back for the next reader
	des, _ := os.ReadDir(dir)
	for _, de := range des {
		if strings.HasSuffix(de.Name(), ".broken") {
			os.Rename(filepath.Join(dir, de.Name()), filepath.Join(dir, strings.TrimSuffix(de.Name(), ".broken")))
		}
	}
}

// snapField classifies byte x of a snapshot file: snappb.Snapshot{crc=1 varint, data=2 bytes}
func snapField(b []byte, x int) string {
	fs, err := pbParse(b)
	if err != nil {
		return "?"
	}
	for _, f := range fs {
		name := map[int]string{1: "crc", 2: "data"}[f.num]
		if x >= f.off && x < f.voff {
			return name + ".tag"
		}
		if f.wt == 0 && x >= f.voff && x < f.voff+varintLen(f.v) {
			return name + ".val"
		}
		if f.wt == 2 {
			if x >= f.voff && x < f.boff {
				return name + ".len"
			}
			if x >= f.boff && x < f.boff+len(f.b) {
				return name + ".body"
			}
		}
	}
	return "?"
}

// ---------------------------------------------------------------- replay of Snap.tla scenarios (binding B1 for snapshot files)

type snapScenFile struct {
	St    string `json:"st"`
	Inwal bool   `json:"inwal"`
}
type snapScen struct {
	Files  []snapScenFile `json:"files"`
	Usewal bool           `json:"usewal"`
	Result int            `json:"result"`
	Broken []int          `json:"broken"`
}

func runSnapReplay(sink *Sink, work string, seed uint64, in string) {
	f, err := os.Open(in)
	if err != nil {
		fmt.Fprintln(os.Stderr, err)
		os.Exit(3)
	}
	defer f.Close()
	rd := bufio.NewReaderSize(f, 1<<20)
	dir := filepath.Join(work, "snapr")
	n := 0
	for {
		line, rerr := rd.ReadBytes('\n')
		if len(line) > 1 {
			var sc snapScen
			if json.Unmarshal(line, &sc) != nil {
				fmt.Fprintln(os.Stderr, "bad snap scenario")
				os.Exit(3)
			}
			n++
			r := &rng{s: seed*99991 + uint64(n)}
			os.RemoveAll(dir)
			os.MkdirAll(dir, 0700)
			ss := snap.New(lg, dir)
			var recs []snapRec
			var walSnaps []walpb.Snapshot
			for i, sf := range sc.Files {
				s := raftpb.Snapshot{Data: r.nonZero(1 + r.intn(900)), Metadata: raftpb.SnapshotMetadata{Index: uint64(10 * (i + 1)), Term: uint64(1 + i/2), ConfState: raftpb.ConfState{Voters: []uint64{1}}}}
				if err := ss.SaveSnap(s); err != nil {
					fmt.Fprintln(os.Stderr, "infra: SaveSnap:", err)
					os.Exit(3)
				}
				name := fmt.Sprintf("%016x-%016x.snap", s.Metadata.Term, s.Metadata.Index)
				recs = append(recs, snapRec{name: name, s: s})
				if sf.Inwal {
					walSnaps = append(walSnaps, walpb.Snapshot{Index: s.Metadata.Index, Term: s.Metadata.Term})
				}
				p := filepath.Join(dir, name)
				b, _ := os.ReadFile(p)
				switch sf.St {
				case "torn":
					if r.intn(2) == 0 || len(b) <= 512 {
						b = b[:r.intn(len(b))]
					} else {
						sectorZero(b, r.intn((len(b)+511)/512), 0, nil)
					}
					os.WriteFile(p, b, 0600)
				case "flip":
					b[r.intn(len(b))] ^= masks[r.intn(3)]
					os.WriteFile(p, b, 0600)
				}
			}
			sink.stats.Cases++
			var got *raftpb.Snapshot
			var lerr error
			pan := ""
			func() {
				defer func() {
					if p := recover(); p != nil {
						pan = fmt.Sprint(p)
					}
				}()
				s2 := snap.New(lg, dir)
				if sc.Usewal {
					if walSnaps == nil {
						walSnaps = []walpb.Snapshot{}
					}
					got, lerr = s2.LoadNewestAvailable(walSnaps)
				} else {
					got, lerr = s2.Load()
				}
			}()
			sink.stats.Reads++
			id := fmt.Sprintf("snapscen%d", n)
			if pan != "" {
				sink.finding(Finding{ID: id, Class: "violation", Kind: "panic", Detail: "snapshot load panicked: " + pan, Sig: "snapreplay/panic", Scenario: sc})
				continue
			}
			// contract
			want := 0
			for i := len(sc.Files); i >= 1; i-- {
				if sc.Files[i-1].St == "ok" && (!sc.Usewal || sc.Files[i-1].Inwal) {
					want = i
					break
				}
			}
			real := 0
			if lerr == nil {
				real = -1
				for i := range recs {
					if sameSnap(got, &recs[i].s) {
						real = i + 1
					}
				}
			}
			switch {
			case real == -1:
				sink.finding(Finding{ID: id, Class: "violation", Kind: "corrupt-accepted", Detail: "a snapshot was returned that equals none of the saved ones", Sig: "snapreplay/corrupt-accepted", Scenario: sc})
			case real != want && real > 0 && sc.Files[real-1].St != "ok":
				sink.label("snap.damage-harmless") // the damaged file still decodes to what was saved
			case real != want:
				kind := "wrong-fallback"
				if real == 0 {
					kind = "no-fallback"
				}
				sink.finding(Finding{ID: id, Class: "violation", Kind: kind, Detail: fmt.Sprintf("loaded file #%d, the newest intact candidate is #%d (0 = none)", real, want), Sig: "snapreplay/" + kind, Scenario: sc})
			}
			if real != sc.Result && real >= 0 && !(real > 0 && sc.Files[real-1].St != "ok") {
				sink.finding(Finding{ID: id, Class: "divergence", Kind: "prediction", Detail: fmt.Sprintf("model result %d real %d", sc.Result, real), Sig: "snapreplay/prediction", Scenario: sc})
			}
			// renamed files
			var broken []int
			for i, rc := range recs {
				if _, e := os.Stat(filepath.Join(dir, rc.name+".broken")); e == nil {
					broken = append(broken, i+1)
				}
			}
			if fmt.Sprint(broken) != fmt.Sprint(sc.Broken) && !(len(broken) == 0 && len(sc.Broken) == 0) {
				sink.finding(Finding{ID: id, Class: "divergence", Kind: "prediction", Detail: fmt.Sprintf("model renames %v, real renames %v", sc.Broken, broken), Sig: "snapreplay/broken-set", Scenario: sc})
			}
			sink.label(fmt.Sprintf("snapreplay.result=%d", real))
			sink.sample(map[string]interface{}{"snap_scenario": sc, "real_result": real, "real_broken": broken})
		}
		if rerr != nil {
			break
		}
	}
	os.RemoveAll(dir)
}

// ---------------------------------------------------------------- re-run of one recorded case

func runOne(sink *Sink, work string, seed uint64, in string) {
	b, err := os.ReadFile(in)
	if err != nil {
		fmt.Fprintln(os.Stderr, err)
		os.Exit(3)
	}
	var art struct {
		Replay struct {
			Seed    uint64 `json:"seed"`
			Finding struct {
				Scenario json.RawMessage `json:"scenario"`
			} `json:"finding"`
		} `json:"replay"`
	}
	if err := json.Unmarshal(b, &art); err != nil || len(art.Replay.Finding.Scenario) == 0 {
		fmt.Fprintln(os.Stderr, "not a C16 replay artefact:", err)
		os.Exit(3)
	}
	if art.Replay.Seed != 0 {
		seed = art.Replay.Seed
	}
	var flip struct {
		ImageOf   *Scenario `json:"image_of"`
		Seed      uint64    `json:"seed"`
		FileIndex int       `json:"file_index"`
		Offset    int64     `json:"offset"`
		Xor       byte      `json:"xor"`
	}
	if json.Unmarshal(art.Replay.Finding.Scenario, &flip) == nil && flip.ImageOf != nil {
		sc := flip.ImageOf
		base := filepath.Join(work, "w")
		wr := runOps(base, sc, flip.Seed, 1)
		if wr.Err != "" {
			fmt.Fprintln(os.Stderr, "writer:", wr.Err)
			os.Exit(3)
		}
		wr.W.Close()
		set, _ := readDir(base)
		_, frames, ends, _ := parseSet(set.Names, set.Data)
		out := flipAndJudge(sink, sc, wr, set, frames, ends, flip.FileIndex, flip.Offset, flip.Xor, flip.Seed, filepath.Join(work, "img"), snapsOf(wr.Hist))
		fmt.Println("outcome of write-mode recovery:", out)
		return
	}
	var sc Scenario
	if err := json.Unmarshal(art.Replay.Finding.Scenario, &sc); err != nil || len(sc.Ops) == 0 {
		fmt.Fprintln(os.Stderr, "this artefact has no crash/corruption scenario (snapshot-file findings: re-run `walsim snap` with the recorded seed)")
		os.Exit(3)
	}
	if sc.Cor.Kind != "" && sc.Cor.Kind != "none" {
		replayCorruptScenario(sink, &sc, work, seed)
	} else {
		replayScenario(sink, &sc, work, seed)
	}
}
