package main

import (
	"bufio"
	"encoding/json"
	"fmt"
	"os"
	"sort"

	pb "go.etcd.io/etcd/raft/v3/raftpb"
)

// Schedule file: one JSON object per line (one behaviour of the TLA+ specification):
//   {"id":"..","opt":{..Options..},"lockstep":true,"steps":[{"a":{..action..},"s":{..expected state..}},..]}
// Actions (the spec's `act` variable): {"name":"Campaign","i":1} {"name":"Propose","i":1,"v":3}
//   {"name":"Heartbeat","i":1} {"name":"Deliver"|"Drop"|"Dup","m":{..msg..}} {"name":"Crash","i":1,"keep":0|1}
//   {"name":"Restart","i":1} {"name":"ProposeConfChange","i":1,"v":101,"ch":3|-3}  (ch: +id add voter, -id remove voter)
// Expected state: {"n":[{node},..],"msgs":[{"m":{..},"c":k},..]}

type SAct struct {
	Name string `json:"name"`
	I    int    `json:"i"`
	V    int    `json:"v"`
	Keep int    `json:"keep"`
	Ch   int    `json:"ch"`
	M    *MsgD  `json:"m"`
}

type SPr struct {
	ID    uint64 `json:"id"` // 0 in schedules of instances without membership change: position k is node k+1
	Match uint64 `json:"match"`
	Next  uint64 `json:"next"`
	State string `json:"state"`
	Probe bool   `json:"probesent"`
}

type SNode struct {
	Up      bool     `json:"up"`
	Term    uint64   `json:"term"`
	Vote    uint64   `json:"vote"`
	Role    string   `json:"role"`
	Lead    uint64   `json:"lead"`
	Commit  uint64   `json:"commit"`
	Applied uint64   `json:"applied"`
	HS      HSD      `json:"hs"`
	SC      uint64   `json:"sc"`
	Log     []EntD   `json:"log"`
	Pr      []SPr    `json:"pr"`
	Cfg     []uint64 `json:"cfg"` // the voters of the node's current configuration (absent: not compared)
}

type SMsg struct {
	M MsgD `json:"m"`
	C int  `json:"c"`
}

type SState struct {
	N    []SNode `json:"n"`
	Msgs []SMsg  `json:"msgs"`
}

type SStep struct {
	A SAct    `json:"a"`
	S *SState `json:"s"`
}

type Behaviour struct {
	ID       string  `json:"id"`
	Opt      Options `json:"opt"`
	Lockstep bool    `json:"lockstep"`
	Quiesce  int     `json:"quiesce"` // after the steps: this many rounds of "tick every node, deliver everything in flight"
	Steps    []SStep `json:"steps"`
}

type Result struct {
	ID         string `json:"id"`
	Steps      int    `json:"steps"`
	Executed   int    `json:"executed"`
	Skipped    int    `json:"skipped"`
	Compared   int    `json:"compared"`
	DivergedAt int    `json:"diverged_at"` // step number (1-based) of the first disagreement, 0 = none
	Detail     string `json:"detail,omitempty"`
	Action     string `json:"action,omitempty"`
	FirstLine  int    `json:"first_line"`
	LastLine   int    `json:"last_line"`
	Panics     int    `json:"panics"`
}

func (c *Cluster) compare(s *SState) string {
	if len(s.N) != len(c.nodes) {
		return fmt.Sprintf("node count %d vs %d", len(s.N), len(c.nodes))
	}
	for i, n := range c.nodes {
		e := s.N[i]
		g := c.project(n)
		id := i + 1
		if e.Up != g.Up {
			return fmt.Sprintf("node %d up: spec %v impl %v", id, e.Up, g.Up)
		}
		if e.HS != g.HS {
			return fmt.Sprintf("node %d persisted hardstate: spec %+v impl %+v", id, e.HS, g.HS)
		}
		if e.SC != g.HSS.Commit {
			return fmt.Sprintf("node %d synced commit: spec %d impl %d", id, e.SC, g.HSS.Commit)
		}
		if len(e.Log) != len(g.Log) {
			return fmt.Sprintf("node %d log length: spec %d impl %d", id, len(e.Log), len(g.Log))
		}
		for k := range e.Log {
			if e.Log[k].T != g.Log[k].T || e.Log[k].P != g.Log[k].P || e.Log[k].C != g.Log[k].C {
				return fmt.Sprintf("node %d log[%d]: spec %+v impl %+v", id, k+1, e.Log[k], g.Log[k])
			}
		}
		if !e.Up {
			continue
		}
		if e.Term != g.Term || e.Vote != g.Vote || e.Role != g.Role || e.Lead != g.Lead || e.Commit != g.Commit || e.Applied != g.Applied {
			return fmt.Sprintf("node %d soft/hard state: spec term=%d vote=%d role=%s lead=%d commit=%d applied=%d impl term=%d vote=%d role=%s lead=%d commit=%d applied=%d",
				id, e.Term, e.Vote, e.Role, e.Lead, e.Commit, e.Applied, g.Term, g.Vote, g.Role, g.Lead, g.Commit, g.Applied)
		}
		if e.Cfg != nil {
			// the node's own configuration (Status().Config): exactly these voters, nothing joint, no learners
			same := len(e.Cfg) == len(g.Conf.V) && len(g.Conf.Vo) == 0 && len(g.Conf.L) == 0 && len(g.Conf.Ln) == 0
			for k := 0; same && k < len(e.Cfg); k++ {
				same = e.Cfg[k] == g.Conf.V[k]
			}
			if !same {
				return fmt.Sprintf("node %d configuration: spec voters %v impl %+v", id, e.Cfg, g.Conf)
			}
		}
		if e.Role == "L" {
			if len(e.Pr) != len(g.Pr) {
				return fmt.Sprintf("node %d progress size: spec %d impl %d", id, len(e.Pr), len(g.Pr))
			}
			for k := range e.Pr {
				x, y := e.Pr[k], g.Pr[k]
				if x.Match != y.Match || x.Next != y.Next || x.State != y.State || x.Probe != y.Probe || (x.ID != 0 && x.ID != y.ID) {
					return fmt.Sprintf("node %d progress[%d]: spec %+v impl %+v", id, k+1, x, y)
				}
			}
		}
	}
	// bag of messages
	want := map[string]int{}
	for _, m := range s.Msgs {
		want[m.M.key()] += m.C
	}
	got := map[string]int{}
	for _, m := range c.bag {
		got[describe(m).key()]++
	}
	var keys []string
	for k := range want {
		keys = append(keys, k)
	}
	for k := range got {
		if _, ok := want[k]; !ok {
			keys = append(keys, k)
		}
	}
	sort.Strings(keys)
	for _, k := range keys {
		if want[k] != got[k] {
			return fmt.Sprintf("in-flight message %s: spec x%d impl x%d", k, want[k], got[k])
		}
	}
	return ""
}

func (c *Cluster) runBehaviour(b Behaviour) Result {
	res := Result{ID: b.ID, Steps: len(b.Steps)}
	c.opt = b.Opt
	c.opt.Msgs = true
	np := len(c.panics)
	c.Do(Event{Ev: "reset", Note: b.ID})
	res.FirstLine = c.line
	diverged := false
	for k, st := range b.Steps {
		loose := ""
		if diverged || !b.Lockstep {
			loose = "loose"
		}
		var ok bool
		a := st.A
		switch a.Name {
		case "Campaign":
			ok = c.Do(Event{Ev: "campaign", Node: a.I})
		case "Heartbeat":
			ok = c.Do(Event{Ev: "tick", Node: a.I})
		case "Propose":
			ok = c.Do(Event{Ev: "propose", Node: a.I, P: a.V})
		case "Deliver":
			ok = c.Do(Event{Ev: "deliver", M: a.M, Note: loose})
		case "Drop":
			ok = c.Do(Event{Ev: "drop", M: a.M, Note: loose})
		case "Dup":
			ok = c.Do(Event{Ev: "dup", M: a.M, Note: loose})
		case "Crash":
			idx := 0
			if a.Keep != 0 {
				idx = -1
			}
			ok = c.Do(Event{Ev: "crash", Node: a.I, Idx: idx})
		case "Restart":
			ok = c.Do(Event{Ev: "restart", Node: a.I})
		case "ProposeConfChange":
			ty, id := int(pb.ConfChangeAddNode), a.Ch
			if a.Ch < 0 {
				ty, id = int(pb.ConfChangeRemoveNode), -a.Ch
			}
			ok = c.Do(Event{Ev: "confchange", Node: a.I, P: a.V, CC: &CCD{Ops: [][]int{{ty, id}}}})
		default:
			ok = false
		}
		if ok {
			res.Executed++
		} else {
			res.Skipped++
		}
		if !diverged && b.Lockstep && st.S != nil {
			d := ""
			if !ok {
				d = "action not applicable on the implementation"
			} else {
				d = c.compare(st.S)
			}
			res.Compared++
			if d != "" {
				diverged = true
				res.DivergedAt = k + 1
				res.Detail = d
				ab, _ := json.Marshal(a)
				res.Action = string(ab)
			}
		}
	}
	for r := 0; r < b.Quiesce; r++ {
		for _, n := range c.nodes {
			if n.rn != nil {
				c.Do(Event{Ev: "tick", Node: int(n.id)})
			}
		}
		for k := len(c.bag); k > 0 && len(c.bag) > 0; k-- {
			c.Do(Event{Ev: "deliver", A: 0})
		}
	}
	res.LastLine = c.line
	res.Panics = len(c.panics) - np
	return res
}

func replayMain(sched, out string) int {
	in, err := os.Open(sched)
	if err != nil {
		fmt.Fprintln(os.Stderr, err)
		return 2
	}
	defer in.Close()
	f, err := os.Create(out)
	if err != nil {
		fmt.Fprintln(os.Stderr, err)
		return 2
	}
	w := bufio.NewWriterSize(f, 1<<20)
	sc := bufio.NewScanner(in)
	sc.Buffer(make([]byte, 1<<20), 1<<28)
	var c *Cluster
	nb, nd := 0, 0
	for sc.Scan() {
		if len(sc.Bytes()) == 0 {
			continue
		}
		var b Behaviour
		if err := json.Unmarshal(sc.Bytes(), &b); err != nil {
			fmt.Fprintln(os.Stderr, "bad schedule line:", err)
			return 2
		}
		if b.Opt.N == 0 {
			b.Opt = Options{N: 3, Voters: []uint64{1, 2, 3}}
		}
		if c == nil {
			c = NewCluster(b.Opt, w)
		}
		r := c.runBehaviour(b)
		nb++
		if r.DivergedAt != 0 {
			nd++
		}
		rb, _ := json.Marshal(r)
		fmt.Println("RESULT " + string(rb))
	}
	w.Flush()
	f.Close()
	if c != nil {
		writeStats(c, map[string]interface{}{"behaviours": nb, "diverged": nd})
	}
	return 0
}
