module verif/raftsim

go 1.19

require go.etcd.io/etcd/raft/v3 v3.6.0-alpha.0

require (
	github.com/gogo/protobuf v1.3.2 // indirect
	github.com/golang/protobuf v1.5.2 // indirect
	go.etcd.io/etcd/api/v3 v3.6.0-alpha.0 // indirect
	go.etcd.io/etcd/client/pkg/v3 v3.6.0-alpha.0 // indirect
	google.golang.org/protobuf v1.27.1 // indirect
)

replace (
	go.etcd.io/etcd/api/v3 => /repo/etcd/api
	go.etcd.io/etcd/client/pkg/v3 => /repo/etcd/client/pkg
	go.etcd.io/etcd/pkg/v3 => /repo/etcd/pkg
	go.etcd.io/etcd/raft/v3 => /repo/etcd/raft
)
