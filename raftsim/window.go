// window: B1 walker for spec/ReadyWindow.tla (C15). Reads the transition table TLC prints for an MC_ReadyWindow instance
// (lines "EDGE {s,a,t}" as quoted TLA+ strings) and replays EVERY transition on a real raft.RawNode over the real
// MemoryStorage: shortest path from the initial state, then the edge, then an epilogue in which the leader the node
// follows does what a leader does with the acknowledgements the node really sent (announce min(match, committed)) and the
// last leader brings the node up to date.  After every step the node's Status, its storage and - at a Ready - the entries,
// committed entries and acknowledgements it hands out are compared with the model's target state (a difference is a
// DIVERGENCE).  The VERDICT is taken from the real node alone:
//
//	applied-wrong     an entry handed out in Ready.CommittedEntries is not the entry the node's leader holds at that index
//	committed-wrong   storage at or below the node's commit index differs from the leader's log
//	ack-not-durable   an acknowledgement left the node for an index whose entry in storage is not the leader's, and the leader
//	                  can commit that index with this acknowledgement
//	hardstate-regress persisted term / vote / commit went back
//
//	raftsim window [-walks N -depth D -seed S] < edges
package main

import (
	"bufio"
	"encoding/json"
	"flag"
	"fmt"
	"io"
	"math"
	"math/rand"
	"os"
	"sort"
	"strconv"
	"strings"
	"sync"

	"go.etcd.io/etcd/raft/v3"
	pb "go.etcd.io/etcd/raft/v3/raftpb"
)

type wEnt struct {
	I int `json:"i"`
	T int `json:"t"`
}
type wSnap struct {
	I    int `json:"i"`
	T    int `json:"t"`
	From int `json:"from"`
}
type wRd struct {
	Has   bool   `json:"has"`
	Saved bool   `json:"saved"`
	Ents  []wEnt `json:"ents"`
	Cents []wEnt `json:"cents"`
	Acks  []int  `json:"acks"`
	Snap  wSnap  `json:"snap"`
}
type wState struct {
	LL      [][]int
	Term    int
	Stable  []int
	Offs    int
	Unst    []int
	Commit  int
	Applied int
	Rd      wRd
	Acks    []int
	Match   []int
	Snapi   int
	Usnap   wSnap
}
type wAct struct {
	A    string `json:"a"`
	T    int    `json:"t"`
	Prev int    `json:"prev"`
	Pt   int    `json:"pt"`
	Ents []int  `json:"ents"`
	Lc   int    `json:"lc"`
	Br   string `json:"br"`
	I    int    `json:"i"`  // snap: index
	St   int    `json:"st"` // snap: term
}

func (a wAct) String() string {
	switch a.A {
	case "app":
		return fmt.Sprintf("app(term %d, prev %d/%d, ents %v, commit %d)[%s]", a.T, a.Prev, a.Pt, a.Ents, a.Lc, a.Br)
	case "hb":
		return fmt.Sprintf("heartbeat(term %d, commit %d)", a.T, a.Lc)
	case "snap":
		return fmt.Sprintf("snapshot(term %d, index %d/%d)[%s]", a.T, a.I, a.St, a.Br)
	}
	return a.A
}

func parseWState(raw json.RawMessage) (wState, error) {
	var parts []json.RawMessage
	var s wState
	if err := json.Unmarshal(raw, &parts); err != nil {
		return s, err
	}
	if len(parts) != 12 {
		return s, fmt.Errorf("state has %d components", len(parts))
	}
	dst := []interface{}{&s.LL, &s.Term, &s.Stable, &s.Offs, &s.Unst, &s.Commit, &s.Applied, &s.Rd, &s.Acks, &s.Match, &s.Snapi, &s.Usnap}
	for i, p := range parts {
		if err := json.Unmarshal(p, dst[i]); err != nil {
			return s, fmt.Errorf("component %d: %v", i, err)
		}
	}
	return s, nil
}

// ---------------------------------------------------------------- the environment's arithmetic (as in the spec)

func commonPrefix(a, b []int) int {
	n := 0
	for n < len(a) && n < len(b) && a[n] == b[n] {
		n++
	}
	return n
}
func retained(f [][]int, t int) int {
	r := len(f[t-1])
	for u := t + 1; u <= len(f); u++ {
		if c := commonPrefix(f[t-1], f[u-1]); c < r {
			r = c
		}
	}
	return r
}
func committable(f [][]int, t int) int {
	if t == 0 {
		return 0
	}
	c := committable(f, t-1)
	for j := 1; j <= retained(f, t); j++ {
		if f[t-1][j-1] == t && j > c {
			c = j
		}
	}
	return c
}

func wPayload(i, t int) []byte { return []byte(fmt.Sprintf("e%d.%d", i, t)) }
func leaderID(t int) uint64    { return uint64(2 + t%4) }

// ---------------------------------------------------------------- the real node

type wFail struct {
	Kind      string   `json:"kind"`
	Violation bool     `json:"violation"`
	Branch    string   `json:"branch"` // the action at which it showed
	Detail    string   `json:"detail"`
	Family    [][]int  `json:"family"`
	Path      []string `json:"path"`
	Phase     string   `json:"phase"` // path | edge | epilogue
	Count     int      `json:"count"`
}

type wNode struct {
	rn         *raft.RawNode
	d          *disk
	ll         [][]int
	rd         *raft.Ready
	rdCopy     []pb.Entry
	holder     bool // the Ready is a placeholder (HasReady was false)
	saved      bool
	match      []int
	hs         pb.HardState
	lastAppl   int
	steps      int
	fail       *wFail
	phase      string
	trail      []string
	sawAccept  bool
	snapFrom   int // term of the leader whose snapshot the storage starts from
	rdSnapFrom int
	pendFrom   map[int]int // snapshot index -> term of the leader that sent it
}

func newWNode(ll [][]int) *wNode {
	d := &disk{MemoryStorage: raft.NewMemoryStorage(), boot: pb.ConfState{Voters: []uint64{1, 2, 3, 4, 5}}}
	rn, err := raft.NewRawNode(&raft.Config{ID: 1, ElectionTick: 10, HeartbeatTick: 1, Storage: d, MaxSizePerMsg: math.MaxUint64,
		MaxCommittedSizePerReady: math.MaxUint64, MaxInflightMsgs: 256, Logger: quiet{}, DisableProposalForwarding: true})
	if err != nil {
		panic(err)
	}
	return &wNode{rn: rn, d: d, ll: ll, match: make([]int, len(ll))}
}

func (n *wNode) failf(kind string, violation bool, branch, format string, a ...interface{}) {
	if n.fail != nil && (n.fail.Violation || !violation) {
		return // keep the first one, but let a violation replace a divergence
	}
	n.fail = &wFail{Kind: kind, Violation: violation, Branch: branch, Detail: fmt.Sprintf(format, a...), Family: n.ll,
		Path: append([]string{}, n.trail...), Phase: n.phase}
}

func (n *wNode) guard(branch string, f func()) (ok bool) {
	defer func() {
		if r := recover(); r != nil {
			ok = false
			n.failf("panic", false, branch, "%v", r)
			n.rn = nil
		}
	}()
	f()
	return true
}

// storageTerms: the terms of the entries the storage holds, and the index of the first of them
func (n *wNode) storageFrom() (int, []int) {
	first, _ := n.d.FirstIndex()
	return int(first), n.storageTermsRaw()
}

// storageTerms: terms by index from 1; what a snapshot stands for (below the first index) is filled from the log of the
// leader that sent it (0 where unknown)
func (n *wNode) storageTerms() []int {
	first, raw := n.storageFrom()
	r := make([]int, 0, first-1+len(raw))
	for i := 1; i < first; i++ {
		t := 0
		if n.snapFrom >= 1 && i <= len(n.ll[n.snapFrom-1]) {
			t = n.ll[n.snapFrom-1][i-1]
		}
		r = append(r, t)
	}
	return append(r, raw...)
}

func (n *wNode) storageTermsRaw() []int {
	first, _ := n.d.FirstIndex()
	last, _ := n.d.LastIndex()
	var r []int
	if last >= first {
		ents, err := n.d.Entries(first, last+1, math.MaxUint64)
		if err != nil {
			return nil
		}
		for _, e := range ents {
			r = append(r, int(e.Term))
		}
	}
	return r
}

func (n *wNode) stepApp(a wAct) {
	m := pb.Message{Type: pb.MsgApp, From: leaderID(a.T), To: 1, Term: uint64(a.T), Index: uint64(a.Prev), LogTerm: uint64(a.Pt), Commit: uint64(a.Lc)}
	for j, t := range a.Ents {
		m.Entries = append(m.Entries, pb.Entry{Index: uint64(a.Prev + j + 1), Term: uint64(t), Data: wPayload(a.Prev+j+1, t)})
	}
	n.guard(a.Br, func() { _ = n.rn.Step(m) })
}

func (n *wNode) stepSnap(a wAct) {
	m := pb.Message{Type: pb.MsgSnap, From: leaderID(a.T), To: 1, Term: uint64(a.T), Snapshot: pb.Snapshot{Data: []byte(fmt.Sprintf("state at %d", a.I)),
		Metadata: pb.SnapshotMetadata{Index: uint64(a.I), Term: uint64(a.St), ConfState: pb.ConfState{Voters: []uint64{1, 2, 3, 4, 5}}}}}
	if n.pendFrom == nil {
		n.pendFrom = map[int]int{}
	}
	n.pendFrom[a.I] = a.T
	n.guard(a.Br, func() { _ = n.rn.Step(m) })
}

func (n *wNode) stepHb(t, lc int) {
	m := pb.Message{Type: pb.MsgHeartbeat, From: leaderID(t), To: 1, Term: uint64(t), Commit: uint64(lc)}
	n.guard("hb", func() { _ = n.rn.Step(m) })
}

func its(es []pb.Entry) []wEnt {
	r := []wEnt{}
	for _, e := range es {
		r = append(r, wEnt{int(e.Index), int(e.Term)})
	}
	return r
}

func sameEnts(a, b []wEnt) bool {
	if len(a) != len(b) {
		return false
	}
	for i := range a {
		if a[i] != b[i] {
			return false
		}
	}
	return true
}

// ready takes a Ready (or a placeholder). Returns the acknowledgements per term it carries.
func (n *wNode) ready(br string) (acks []int) {
	acks = make([]int, len(n.ll))
	if n.rn == nil {
		return
	}
	if !n.rn.HasReady() {
		n.rd, n.holder, n.saved, n.rdCopy = &raft.Ready{}, true, false, nil
		return
	}
	n.guard(br, func() {
		rd := n.rn.Ready()
		n.rd, n.holder, n.saved = &rd, false, false
		n.rdCopy = nil
		for _, e := range rd.Entries {
			c := e
			c.Data = append([]byte{}, e.Data...)
			n.rdCopy = append(n.rdCopy, c)
		}
		// the entries handed out for applying: in order, once, and the leader's (a snapshot in the same Ready comes first)
		if si := int(rd.Snapshot.Metadata.Index); si > n.lastAppl {
			n.lastAppl = si
		}
		T := int(n.rn.Status().Term)
		for _, e := range rd.CommittedEntries {
			i, t := int(e.Index), int(e.Term)
			if i != n.lastAppl+1 {
				n.failf("applied-order", false, br, "committed entries handed out from index %d after %d", i, n.lastAppl)
			}
			n.lastAppl = i
			if T >= 1 && (i > len(n.ll[T-1]) || n.ll[T-1][i-1] != t || string(e.Data) != string(wPayload(i, t))) {
				want := "nothing"
				if i <= len(n.ll[T-1]) {
					want = fmt.Sprintf("the entry of term %d", n.ll[T-1][i-1])
				}
				n.failf("applied-wrong", true, br, "the node (term %d) hands out index %d term %d data %q for applying; its leader holds %s there",
					T, i, t, e.Data, want)
			}
		}
		for _, m := range rd.Messages {
			if m.Type == pb.MsgAppResp && !m.Reject && int(m.Term) >= 1 && int(m.Term) <= len(acks) && int(m.Index) > acks[m.Term-1] {
				acks[m.Term-1] = int(m.Index)
			}
		}
	})
	return
}

func (n *wNode) save(br string) {
	if n.rn == nil || n.rd == nil || n.saved {
		return
	}
	n.saved = true
	if n.holder {
		return
	}
	rd := n.rd
	if !sameEnts(its(rd.Entries), its(n.rdCopy)) {
		n.failf("ready-rewritten", false, br, "the Ready the application holds read %v when it was handed out and reads %v now", its(n.rdCopy), its(rd.Entries))
	}
	n.guard(br, func() {
		if !raft.IsEmptySnap(rd.Snapshot) {
			if err := n.d.ApplySnapshot(rd.Snapshot); err != nil {
				panic("storage.ApplySnapshot: " + err.Error())
			}
			n.snapFrom = n.pendFrom[int(rd.Snapshot.Metadata.Index)]
			if int(rd.Snapshot.Metadata.Index) > n.lastAppl {
				n.lastAppl = int(rd.Snapshot.Metadata.Index) // the state machine is replaced by the snapshot's
			}
		}
		if len(rd.Entries) > 0 {
			if err := n.d.Append(rd.Entries); err != nil {
				panic("storage.Append: " + err.Error())
			}
		}
		if !raft.IsEmptyHardState(rd.HardState) {
			h := rd.HardState
			if h.Term < n.hs.Term || h.Commit < n.hs.Commit || (h.Term == n.hs.Term && n.hs.Vote != 0 && h.Vote != n.hs.Vote) {
				n.failf("hardstate-regress", true, br, "persisted hard state goes from %+v to %+v", n.hs, h)
			}
			n.hs = h
			n.d.writeHS(h, true)
		}
	})
	// now the messages leave the node
	st := n.storageTerms()
	for _, m := range rd.Messages {
		if m.Type != pb.MsgAppResp || m.Reject || m.Term < 1 || int(m.Term) > len(n.ll) {
			continue
		}
		t, idx := int(m.Term), int(m.Index)
		n.sawAccept = true
		L := n.ll[t-1]
		// what the leader may commit with this acknowledgement: its entries that every later leader holds (the other
		// members that store them keep anybody without them from being elected); beyond that a successor may since have
		// replaced what was acknowledged
		lim := idx
		if c := committable(n.ll, t); c < lim {
			lim = c
		}
		for i := 1; i <= lim; i++ {
			if i > len(st) || st[i-1] != L[i-1] {
				n.failf("ack-not-durable", true, br, "the node acknowledged index %d to the leader of term %d (log %v, committable up to %d) while its storage reads %v: index %d is not the leader's",
					idx, t, L, committable(n.ll, t), st, i)
				break
			}
		}
		if idx > n.match[t-1] {
			n.match[t-1] = idx
		}
	}
}

func (n *wNode) advance(br string) {
	if n.rn == nil || n.rd == nil {
		return
	}
	rd := n.rd
	n.rd = nil
	if n.holder {
		return
	}
	n.guard(br, func() { n.rn.Advance(*rd) })
}

// committedOK: storage at or below the node's commit index is the leader's log
func (n *wNode) committedOK(br string) {
	if n.rn == nil {
		return
	}
	s := n.rn.Status()
	T := int(s.Term)
	if T < 1 {
		return
	}
	st := n.storageTerms()
	for i := 1; i <= int(s.Commit) && i <= len(st); i++ {
		if i > len(n.ll[T-1]) || st[i-1] != n.ll[T-1][i-1] {
			n.failf("committed-wrong", true, br, "commit index %d, storage %v, the leader of term %d holds %v: index %d differs", s.Commit, st, T, n.ll[T-1], i)
			return
		}
	}
}

func (n *wNode) drain(br string) {
	for k := 0; k < 16 && n.rn != nil; k++ {
		if n.rd != nil {
			n.save(br)
			n.advance(br)
			continue
		}
		if !n.rn.HasReady() {
			break
		}
		n.ready(br)
	}
}

// compare the real node with a model state
func (n *wNode) compare(a wAct, want wState, acks []int) {
	if n.rn == nil {
		return
	}
	s := n.rn.Status()
	if int(s.Term) != want.Term || int(s.Commit) != want.Commit || int(s.Applied) != want.Applied {
		n.failf("status", false, a.Br+a.A, "after %s: term/commit/applied %d/%d/%d, model %d/%d/%d", a, s.Term, s.Commit, s.Applied, want.Term, want.Commit, want.Applied)
	}
	first, raw := n.storageFrom()
	var wantRaw []int
	if want.Snapi < len(want.Stable) {
		wantRaw = want.Stable[want.Snapi:]
	}
	if first != want.Snapi+1 || fmt.Sprint(raw) != fmt.Sprint(wantRaw) && !(len(raw) == 0 && len(wantRaw) == 0) {
		n.failf("storage", false, a.Br+a.A, "after %s: storage holds %v from index %d, model %v from index %d", a, raw, first, wantRaw, want.Snapi+1)
	}
	if a.A == "ready" {
		got := n.rd
		if !sameEnts(its(got.Entries), append([]wEnt{}, want.Rd.Ents...)) {
			n.failf("ready-entries", false, "ready", "Ready.Entries %v, model %v", its(got.Entries), want.Rd.Ents)
		}
		if !sameEnts(its(got.CommittedEntries), append([]wEnt{}, want.Rd.Cents...)) {
			n.failf("ready-committed", false, "ready", "Ready.CommittedEntries %v, model %v", its(got.CommittedEntries), want.Rd.Cents)
		}
		if int(got.Snapshot.Metadata.Index) != want.Rd.Snap.I || int(got.Snapshot.Metadata.Term) != want.Rd.Snap.T {
			n.failf("ready-snapshot", false, "ready", "Ready.Snapshot %d/%d, model %d/%d", got.Snapshot.Metadata.Index, got.Snapshot.Metadata.Term, want.Rd.Snap.I, want.Rd.Snap.T)
		}
		if fmt.Sprint(acks) != fmt.Sprint(want.Rd.Acks) {
			n.failf("ready-acks", false, "ready", "acknowledged per term %v, model %v", acks, want.Rd.Acks)
		}
	}
}

func (n *wNode) do(a wAct, want *wState) {
	if n.rn == nil {
		return
	}
	n.steps++
	n.trail = append(n.trail, a.String())
	var acks []int
	switch a.A {
	case "app":
		n.stepApp(a)
	case "hb":
		n.stepHb(a.T, a.Lc)
	case "snap":
		n.stepSnap(a)
	case "ready":
		acks = n.ready("ready")
	case "save":
		n.save("save")
	case "advance":
		n.advance("advance")
	}
	if want != nil {
		n.compare(a, *want, acks)
	}
}

// epilogue: what the leaders do next with what the node really told them
func (n *wNode) epilogue() {
	n.phase = "epilogue"
	n.drain("epilogue-drain")
	if n.rn == nil {
		return
	}
	T := int(n.rn.Status().Term)
	if T >= 1 {
		lc := n.match[T-1]
		if c := committable(n.ll, T); c < lc {
			lc = c
		}
		if lc > int(n.rn.Status().Commit) {
			n.trail = append(n.trail, fmt.Sprintf("heartbeat(term %d, commit %d) [epilogue: min(match, committed)]", T, lc))
			n.stepHb(T, lc)
			n.drain("epilogue-heartbeat")
		}
		n.committedOK("epilogue-heartbeat")
	}
	if n.rn == nil {
		return
	}
	// the last leader probes downwards until the node accepts, as a leader does after rejections
	F := len(n.ll)
	L := n.ll[F-1]
	cm := committable(n.ll, F)
	for p := len(L); p >= 0 && n.rn != nil; p-- {
		pt := 0
		if p > 0 {
			pt = L[p-1]
		}
		a := wAct{A: "app", T: F, Prev: p, Pt: pt, Ents: L[p:], Lc: cm, Br: "epilogue-catchup"}
		n.trail = append(n.trail, a.String())
		n.sawAccept = false
		n.stepApp(a)
		n.drain("epilogue-catchup")
		if n.sawAccept {
			break
		}
	}
	if n.rn == nil {
		return
	}
	n.committedOK("epilogue-catchup")
	st := n.storageTerms()
	if fmt.Sprint(st) != fmt.Sprint(L) {
		n.failf("catchup", false, "epilogue-catchup", "after the last leader (log %v) brought the node up to date its storage reads %v", L, st)
	}
	if s := n.rn.Status(); int(s.Commit) != cm || int(s.Applied) != cm {
		n.failf("catchup", false, "epilogue-catchup", "after catch-up commit/applied are %d/%d, the leader announced %d", s.Commit, s.Applied, cm)
	}
}

// ---------------------------------------------------------------- graph

type wEdge struct {
	to  int32
	act int32
}

func windowMain(args []string) {
	fs := flag.NewFlagSet("window", flag.ExitOnError)
	walks := fs.Int("walks", 0, "random walks over the graph (besides every edge)")
	depth := fs.Int("depth", 40, "steps per random walk")
	seed := fs.Int64("seed", 1, "")
	workers := fs.Int("workers", 8, "")
	noEdges := fs.Bool("noedges", false, "skip the per-edge replay (walks only)")
	fs.Parse(args)

	in := bufio.NewReaderSize(os.Stdin, 1<<22)
	stateID := map[string]int32{}
	var adj [][]wEdge
	actID := map[string]int32{}
	var acts []wAct
	var states []*wState
	var internParsed func(raw json.RawMessage) int32
	// ToJson does not fix the order of record fields: the key of a state is its re-marshalled parse
	rawID := map[string]int32{}
	intern := func(raw json.RawMessage) int32 {
		if id, ok := rawID[string(raw)]; ok {
			return id
		}
		id := internParsed(raw)
		rawID[string(raw)] = id
		return id
	}
	internParsed = func(raw json.RawMessage) int32 {
		st, err := parseWState(raw)
		if err != nil {
			fmt.Fprintln(os.Stderr, "bad state:", err)
			os.Exit(3)
		}
		kb, _ := json.Marshal(st)
		k := string(kb)
		if id, ok := stateID[k]; ok {
			return id
		}
		id := int32(len(states))
		stateID[k] = id
		states = append(states, &st)
		adj = append(adj, nil)
		return id
	}
	nEdges := 0
	for {
		line, err := in.ReadString('\n')
		if len(line) > 0 && strings.HasPrefix(line, "\"EDGE ") {
			txt, uerr := strconv.Unquote(strings.TrimSpace(line))
			if uerr != nil {
				fmt.Fprintln(os.Stderr, "bad line:", uerr)
				os.Exit(3)
			}
			var e struct {
				S json.RawMessage `json:"s"`
				A json.RawMessage `json:"a"`
				T json.RawMessage `json:"t"`
			}
			if jerr := json.Unmarshal([]byte(txt[5:]), &e); jerr != nil {
				fmt.Fprintln(os.Stderr, "bad edge:", jerr)
				os.Exit(3)
			}
			s, t := intern(e.S), intern(e.T)
			ak := string(e.A)
			ai, ok := actID[ak]
			if !ok {
				var a wAct
				if jerr := json.Unmarshal(e.A, &a); jerr != nil {
					fmt.Fprintln(os.Stderr, "bad action:", jerr)
					os.Exit(3)
				}
				ai = int32(len(acts))
				actID[ak] = ai
				acts = append(acts, a)
			}
			adj[s] = append(adj[s], wEdge{t, ai})
			nEdges++
		}
		if err == io.EOF {
			break
		}
		if err != nil {
			fmt.Fprintln(os.Stderr, err)
			os.Exit(3)
		}
	}
	stateID, rawID = nil, nil
	get := func(id int32) *wState {
		return states[id]
	}
	// initial states and the shortest-path tree
	parent := make([]int32, len(states))
	pedge := make([]int32, len(states))
	for i := range parent {
		parent[i] = -2
	}
	var queue []int32
	for i, s := range states {
		if s.Term == 0 && !s.Rd.Has && len(s.Stable) == 0 && len(s.Unst) == 0 {
			parent[i] = -1
			queue = append(queue, int32(i))
		}
	}
	inits := append([]int32{}, queue...)
	for len(queue) > 0 {
		s := queue[0]
		queue = queue[1:]
		for k, e := range adj[s] {
			if parent[e.to] == -2 {
				parent[e.to] = s
				pedge[e.to] = int32(k)
				queue = append(queue, e.to)
			}
		}
	}
	pathTo := func(s int32) (ids []int32, eks []int32) {
		for s >= 0 && parent[s] >= 0 {
			ids = append(ids, s)
			eks = append(eks, pedge[s])
			s = parent[s]
		}
		for i, j := 0, len(ids)-1; i < j; i, j = i+1, j-1 {
			ids[i], ids[j] = ids[j], ids[i]
			eks[i], eks[j] = eks[j], eks[i]
		}
		return
	}

	var mu sync.Mutex
	fails := map[string]*wFail{}
	branches := map[string]int{}
	var replayed, steps, unreachable int
	record := func(n *wNode, brs map[string]int) {
		mu.Lock()
		defer mu.Unlock()
		replayed++
		steps += n.steps
		for b, c := range brs {
			branches[b] += c
		}
		if n.fail != nil {
			k := n.fail.Kind + "|" + n.fail.Branch + "|" + n.fail.Phase + "|" + fmt.Sprint(n.fail.Family)
			if f, ok := fails[k]; ok {
				f.Count++
				if len(n.fail.Path) < len(f.Path) {
					c := f.Count
					*f = *n.fail
					f.Count = c
				}
			} else {
				n.fail.Count = 1
				fails[k] = n.fail
			}
		}
	}
	runPath := func(from int32, walk []wEdge) {
		// from: state whose shortest path is replayed first; walk: further edges from there
		ids, eks := pathTo(from)
		root := from
		if len(ids) > 0 {
			root = parent[ids[0]]
		}
		n := newWNode(get(root).LL)
		brs := map[string]int{}
		n.phase = "path"
		cur := root
		for i := range ids {
			e := adj[cur][eks[i]]
			n.do(acts[e.act], get(e.to))
			cur = e.to
		}
		n.phase = "edge"
		for _, e := range walk {
			a := acts[e.act]
			if a.A == "app" {
				brs[a.Br]++
			} else {
				brs[a.A]++
			}
			n.do(a, get(e.to))
		}
		n.epilogue()
		record(n, brs)
	}

	type job struct {
		from int32
		walk []wEdge
	}
	jobs := make(chan job, 1024)
	var wg sync.WaitGroup
	for w := 0; w < *workers; w++ {
		wg.Add(1)
		go func() {
			defer wg.Done()
			for j := range jobs {
				runPath(j.from, j.walk)
			}
		}()
	}
	if !*noEdges {
		for s := range adj {
			if parent[s] == -2 {
				unreachable++
				continue
			}
			for _, e := range adj[s] {
				jobs <- job{int32(s), []wEdge{e}}
			}
		}
	}
	r := rand.New(rand.NewSource(*seed))
	for w := 0; w < *walks && len(inits) > 0; w++ {
		cur := inits[r.Intn(len(inits))]
		start := cur
		var walk []wEdge
		for d := 0; d < *depth && len(adj[cur]) > 0; d++ {
			// prefer edges that change the state: most transitions are repeats that leave it where it is
			e := adj[cur][r.Intn(len(adj[cur]))]
			for try := 0; try < 3 && e.to == cur; try++ {
				e = adj[cur][r.Intn(len(adj[cur]))]
			}
			walk = append(walk, e)
			cur = e.to
		}
		jobs <- job{start, walk}
	}
	close(jobs)
	wg.Wait()

	enc := json.NewEncoder(os.Stdout)
	var keys []string
	for k := range fails {
		keys = append(keys, k)
	}
	sort.Strings(keys)
	nv, nd := 0, 0
	for _, k := range keys {
		if fails[k].Violation {
			nv += fails[k].Count
		} else {
			nd += fails[k].Count
		}
		enc.Encode(fails[k])
	}
	sum, _ := json.Marshal(map[string]interface{}{"states": len(states), "edges": nEdges, "initial_states": len(inits), "unreachable_states": unreachable,
		"replays": replayed, "real_steps": steps, "violating_replays": nv, "diverging_replays": nd, "branches": branches, "walks": *walks})
	fmt.Println("SUMMARY " + string(sum))
}
