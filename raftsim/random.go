package main

import (
	"math/rand"

	"go.etcd.io/etcd/raft/v3"
	pb "go.etcd.io/etcd/raft/v3/raftpb"
)

// Weights of the random scheduler (relative).
type Weights struct {
	Deliver, Tick, Campaign, Propose, Conf, Drop, Dup, Partition, Heal, Crash, Restart, Compact int
}

var defaultWeights = Weights{Deliver: 55, Tick: 10, Campaign: 3, Propose: 10, Conf: 2, Drop: 5, Dup: 3, Partition: 1, Heal: 2, Crash: 2, Restart: 5, Compact: 2}

type Profile struct {
	Name      string
	Opt       Options
	W         Weights
	JointBias bool // prefer explicit joint changes that swap voters for non-voters (disjoint majorities)
	Simple    bool // only simple changes: one voter added or removed per change, never joint, no learners (the scope of EtcdRaft.tla with ConfChange = TRUE)
	HoldPct   int  // per cent of node events that leave their Ready outstanding (Step between Ready and Advance, as node.run does)
}

// profiles cycles through cluster shapes / options so that one seed covers all of them.
func profiles(nodes int) []Profile {
	w := defaultWeights
	noconf := w
	noconf.Conf = 0
	faulty := w
	faulty.Crash, faulty.Restart, faulty.Partition, faulty.Drop = 5, 8, 3, 10
	three := []uint64{1, 2, 3}
	jointw := w
	jointw.Conf, jointw.Campaign, jointw.Crash, jointw.Restart, jointw.Compact = 5, 6, 1, 4, 1
	specw := faulty
	specw.Conf, specw.Compact, specw.Partition, specw.Drop = 0, 0, 0, 14
	specpv := specw // two-phase elections need about twice the campaigns to change leaders as often
	specpv.Campaign = 6
	specconf := specw // simple membership changes inside the specification: more proposals so that changes commit and apply
	specconf.Conf, specconf.Propose, specconf.Crash, specconf.Restart = 5, 8, 3, 8
	specconfpv := specconf
	specconfpv.Campaign = 6
	windoww := noconf
	windoww.Propose, windoww.Campaign, windoww.Drop, windoww.Compact = 22, 5, 9, 1
	if nodes == -1 { // profiles inside the scope of EtcdRaft.tla (trace validation, B2)
		return []Profile{
			{Name: "n3-spec", Opt: Options{N: 3, Voters: three}, W: specw},
			{Name: "n3-spec-one", Opt: Options{N: 3, Voters: three, MaxEnts: 1}, W: specw},
			// PreVote without CheckQuorum: inside EtcdRaft.tla with PreVote = TRUE (TraceEtcdRaft_prevote*.cfg)
			{Name: "n3-spec-prevote", Opt: Options{N: 3, Voters: three, PreVote: true}, W: specpv},
			{Name: "n3-spec-prevote-one", Opt: Options{N: 3, Voters: three, PreVote: true, MaxEnts: 1}, W: specpv},
			// simple membership changes (ConfChange = TRUE: TraceEtcdRaft_conf.cfg / _conf12_prevote_one.cfg): three voters that
			// shrink and grow again; two voters and an outsider that joins, PreVote, one entry per MsgApp
			{Name: "n3-spec-conf", Opt: Options{N: 3, Voters: three}, W: specconf, Simple: true},
			{Name: "n3-spec-conf12-prevote-one", Opt: Options{N: 3, Voters: []uint64{1, 2}, PreVote: true, MaxEnts: 1}, W: specconfpv, Simple: true},
		}
	}
	ps := []Profile{
		{Name: "n3", Opt: Options{N: 3, Voters: three}, W: noconf},
		{Name: "n3-one", Opt: Options{N: 3, Voters: three, MaxEnts: 1}, W: faulty},
		{Name: "n3-faulty", Opt: Options{N: 3, Voters: three}, W: faulty},
		{Name: "n3-prevote-cq", Opt: Options{N: 3, Voters: three, PreVote: true, CheckQuorum: true}, W: noconf},
		{Name: "n5-conf", Opt: Options{N: 5, Voters: three}, W: w},
		{Name: "n5-conf-one", Opt: Options{N: 5, Voters: three, MaxEnts: 1, PreVote: true}, W: w},
		{Name: "n5", Opt: Options{N: 5, Voters: []uint64{1, 2, 3, 4, 5}, MaxEnts: 1}, W: faulty},
		{Name: "n4-learner", Opt: Options{N: 4, Voters: three, Learners: []uint64{4}, CheckQuorum: true}, W: w},
		{Name: "n5-joint", Opt: Options{N: 5, Voters: three}, W: jointw, JointBias: true},
		// the application is slow: Readys stay outstanding while the node keeps stepping messages, proposals and ticks
		{Name: "n3-window", Opt: Options{N: 3, Voters: three}, W: windoww, HoldPct: 35},
		{Name: "n3-window-faulty", Opt: Options{N: 3, Voters: three}, W: faulty, HoldPct: 25},
	}
	if nodes > 0 {
		var r []Profile
		for _, p := range ps {
			if p.Opt.N == nodes {
				r = append(r, p)
			}
		}
		if len(r) > 0 {
			return r
		}
	}
	return ps
}

func (c *Cluster) upNodes() []*Node {
	var r []*Node
	for _, n := range c.nodes {
		if n.rn != nil {
			r = append(r, n)
		}
	}
	return r
}

func (c *Cluster) leaders() []*Node {
	var r []*Node
	for _, n := range c.nodes {
		if n.rn != nil && n.rn.Status().RaftState == raft.StateLeader {
			r = append(r, n)
		}
	}
	return r
}

func pick(r *rand.Rand, w []int) int {
	t := 0
	for _, x := range w {
		t += x
	}
	if t == 0 {
		return -1
	}
	k := r.Intn(t)
	for i, x := range w {
		if k < x {
			return i
		}
		k -= x
	}
	return -1
}

// genConf builds a random, applicable configuration change from the leader's current configuration.
func genConf(r *rand.Rand, n *Node, total int, jointBias bool, simple bool) *CCD {
	st := n.rn.Status()
	if simple {
		// one voter added or removed: raftpb.ConfChange, or a ConfChangeV2 with that single change and the automatic
		// transition (which is then a simple one). Mostly changes that do something in the leader's current
		// configuration, sometimes one that does not (adding a voter, removing a stranger); never the last voter.
		cur := st.Config.Voters[0]
		for try := 0; try < 20; try++ {
			id := uint64(1 + r.Intn(total))
			_, in := cur[id]
			add := r.Intn(2) == 0
			if add == in && r.Intn(5) > 0 {
				continue
			}
			if !add && in && len(cur) == 1 {
				continue
			}
			t := int(pb.ConfChangeAddNode)
			if !add {
				t = int(pb.ConfChangeRemoveNode)
			}
			return &CCD{V2: r.Intn(3) == 0, Trans: int(pb.ConfChangeTransitionAuto), Ops: [][]int{{t, int(id)}}}
		}
		return nil
	}
	joint := len(st.Config.Voters[1]) > 0
	if joint {
		if r.Intn(4) > 0 && !(jointBias && r.Intn(3) > 0) {
			return &CCD{V2: true, Ops: [][]int{}} // leave joint
		}
		if jointBias {
			return nil // stay joint for a while
		}
	}
	if jointBias && r.Intn(4) > 0 {
		// swap two voters for two non-voters with an explicit joint transition
		var in, out []int
		for id := 1; id <= total; id++ {
			if _, ok := st.Config.Voters[0][uint64(id)]; ok {
				in = append(in, id)
			} else {
				out = append(out, id)
			}
		}
		if len(in) >= 3 && len(out) >= 2 {
			r.Shuffle(len(in), func(i, j int) { in[i], in[j] = in[j], in[i] })
			r.Shuffle(len(out), func(i, j int) { out[i], out[j] = out[j], out[i] })
			return &CCD{V2: true, Trans: int(pb.ConfChangeTransitionJointExplicit), Ops: [][]int{
				{int(pb.ConfChangeRemoveNode), in[0]}, {int(pb.ConfChangeRemoveNode), in[1]},
				{int(pb.ConfChangeAddNode), out[0]}, {int(pb.ConfChangeAddNode), out[1]}}}
		}
	}
	voters := map[int]bool{}
	for id := range st.Config.Voters[0] {
		voters[int(id)] = true
	}
	mk := func() []int {
		id := 1 + r.Intn(total)
		var t int
		switch k := r.Intn(10); {
		case k < 4:
			t = int(pb.ConfChangeAddNode)
		case k < 7:
			t = int(pb.ConfChangeRemoveNode)
		default:
			t = int(pb.ConfChangeAddLearnerNode)
		}
		return []int{t, id}
	}
	apply := func(v map[int]bool, op []int) {
		if op[0] == int(pb.ConfChangeAddNode) {
			v[op[1]] = true
		} else {
			delete(v, op[1])
		}
	}
	for try := 0; try < 20; try++ {
		v := map[int]bool{}
		for k := range voters {
			v[k] = true
		}
		if r.Intn(2) == 0 { // v1, single
			op := mk()
			apply(v, op)
			if len(v) == 0 {
				continue
			}
			return &CCD{Ops: [][]int{op}}
		}
		k := 1 + r.Intn(3)
		var ops [][]int
		seen := map[int]bool{}
		for i := 0; i < k; i++ {
			op := mk()
			if seen[op[1]] {
				continue
			}
			seen[op[1]] = true
			ops = append(ops, op)
			apply(v, op)
		}
		if len(v) == 0 || len(ops) == 0 {
			continue
		}
		return &CCD{V2: true, Trans: r.Intn(3), Ops: ops}
	}
	return nil
}

// RandomRun executes `events` random events (after a reset line) with the given profile.
func (c *Cluster) RandomRun(r *rand.Rand, p Profile, events int, payload *int) {
	c.opt = p.Opt
	c.Do(Event{Ev: "reset", Note: p.Name})
	w := p.W
	for k := 0; k < events; k++ {
		up := c.upNodes()
		ld := c.leaders()
		var down []*Node
		for _, n := range c.nodes {
			if n.rn == nil {
				down = append(down, n)
			}
		}
		hold := false
		if p.HoldPct > 0 {
			var held []*Node
			for _, n := range c.nodes {
				if n.rn != nil && n.held != nil {
					held = append(held, n)
				}
			}
			if len(held) > 0 && r.Intn(100) < 30 {
				c.Do(Event{Ev: "release", Node: int(held[r.Intn(len(held))].id), Hold: r.Intn(100) < p.HoldPct})
				continue
			}
			hold = r.Intn(100) < p.HoldPct
		}
		ws := []int{w.Deliver, w.Tick, w.Campaign, w.Propose, w.Conf, w.Drop, w.Dup, w.Partition, w.Heal, w.Crash, w.Restart, w.Compact}
		if len(c.bag) == 0 {
			ws[0], ws[5], ws[6] = 0, 0, 0
		}
		if len(c.bag) > 60 { // keep the bag bounded
			ws[0], ws[5] = ws[0]*3, ws[5]*4
			ws[6] = 0
		}
		if len(up) == 0 {
			ws[1], ws[2], ws[3], ws[4], ws[9], ws[11] = 0, 0, 0, 0, 0, 0
		}
		if len(ld) == 0 {
			ws[3], ws[4] = 0, 0
			ws[2] *= 4
		}
		if len(down) == 0 {
			ws[10] = 0
		}
		if 2*(len(down)+1) > len(c.nodes) { // do not take a majority down too often
			ws[9] /= 4
		}
		if len(c.cut) == 0 {
			ws[8] = 0
		} else {
			ws[7] = 0
		}
		switch pick(r, ws) {
		case 0:
			c.Do(Event{Ev: "deliver", A: r.Intn(len(c.bag)), Hold: hold})
		case 1:
			n := up[r.Intn(len(up))]
			if len(ld) > 0 && r.Intn(3) > 0 {
				n = ld[r.Intn(len(ld))]
			}
			c.Do(Event{Ev: "tick", Node: int(n.id), Hold: hold})
		case 2:
			c.Do(Event{Ev: "campaign", Node: int(up[r.Intn(len(up))].id), Hold: hold})
		case 3:
			*payload++
			c.Do(Event{Ev: "propose", Node: int(ld[r.Intn(len(ld))].id), P: *payload, Hold: hold})
		case 4:
			n := ld[r.Intn(len(ld))]
			if cc := genConf(r, n, len(c.nodes), p.JointBias, p.Simple); cc != nil {
				*payload++
				c.Do(Event{Ev: "confchange", Node: int(n.id), P: *payload, CC: cc, Hold: hold})
			}
		case 5:
			c.Do(Event{Ev: "drop", A: r.Intn(len(c.bag))})
		case 6:
			c.Do(Event{Ev: "dup", A: r.Intn(len(c.bag))})
		case 7:
			c.Do(Event{Ev: "partition", Node: 1 + r.Intn(len(c.nodes))})
		case 8:
			c.Do(Event{Ev: "heal"})
		case 9:
			n := up[r.Intn(len(up))]
			keep := -1
			if u := len(n.d.unsynced); u > 0 {
				keep = r.Intn(u + 1)
			}
			c.Do(Event{Ev: "crash", Node: int(n.id), Idx: keep})
		case 10:
			c.Do(Event{Ev: "restart", Node: int(down[r.Intn(len(down))].id)})
		case 11:
			n := up[r.Intn(len(up))]
			st := n.rn.Status()
			first, _ := n.d.FirstIndex()
			if st.Applied >= first {
				idx := first + uint64(r.Int63n(int64(st.Applied-first+1)))
				c.Do(Event{Ev: "compact", Node: int(n.id), Idx: int(idx)})
			}
		}
	}
}
