// Package main: raftsim - deterministic single-threaded simulator of N real raft.RawNode instances.
//
// Every node runs over a raft.MemoryStorage wrapped in a "disk" that remembers which HardState
// writes were synced (Ready.MustSync, snapshot application, compaction) and which were not
// (commit-only updates). Messages live in an explicit bag. One *event* = one API call on one node
// followed by the complete Ready / persist / apply / Advance cycle of that node (repeated until
// HasReady() is false); the messages produced go to the bag. After every event one ndjson line with
// the event and the projection of every node is written.
package main

import (
	"bufio"
	"encoding/json"
	"fmt"
	"math"
	"sort"
	"strconv"

	"go.etcd.io/etcd/raft/v3"
	pb "go.etcd.io/etcd/raft/v3/raftpb"
)

// ---------------------------------------------------------------- options

type Options struct {
	N           int      `json:"nodes"`
	Voters      []uint64 `json:"voters"`
	Learners    []uint64 `json:"learners"`
	PreVote     bool     `json:"prevote"`
	CheckQuorum bool     `json:"checkquorum"`
	MaxEnts     int      `json:"maxents"` // 0 = unlimited entries per MsgApp, 1 = one entry per MsgApp
	Msgs        bool     `json:"-"`       // log the bag of in-flight messages in every line
}

// ---------------------------------------------------------------- logger (silent; Panic* panics)

type quiet struct{}

func (quiet) Debug(v ...interface{})                   {}
func (quiet) Debugf(format string, v ...interface{})   {}
func (quiet) Error(v ...interface{})                   {}
func (quiet) Errorf(format string, v ...interface{})   {}
func (quiet) Info(v ...interface{})                    {}
func (quiet) Infof(format string, v ...interface{})    {}
func (quiet) Warning(v ...interface{})                 {}
func (quiet) Warningf(format string, v ...interface{}) {}
func (quiet) Fatal(v ...interface{})                   { panic(fmt.Sprint(v...)) }
func (quiet) Fatalf(format string, v ...interface{})   { panic(fmt.Sprintf(format, v...)) }
func (quiet) Panic(v ...interface{})                   { panic(fmt.Sprint(v...)) }
func (quiet) Panicf(format string, v ...interface{})   { panic(fmt.Sprintf(format, v...)) }

// ---------------------------------------------------------------- disk

// disk is the durable part of a node. MemoryStorage holds what was written; synced is the last
// HardState known to be on stable storage; unsynced lists the HardStates written since (oldest
// first). A crash keeps a prefix of the unsynced writes.
type disk struct {
	*raft.MemoryStorage
	boot     pb.ConfState // genesis configuration (snapshot index 0), known to every node
	hs       pb.HardState // last written
	synced   pb.HardState
	unsynced []pb.HardState
}

func (d *disk) InitialState() (pb.HardState, pb.ConfState, error) {
	hs, cs, err := d.MemoryStorage.InitialState()
	if err != nil {
		return hs, cs, err
	}
	sn, _ := d.MemoryStorage.Snapshot()
	if sn.Metadata.Index == 0 {
		cs = d.boot
	}
	return hs, cs, nil
}

func (d *disk) writeHS(hs pb.HardState, sync bool) {
	_ = d.MemoryStorage.SetHardState(hs)
	d.hs = hs
	if sync {
		d.synced = hs
		d.unsynced = nil
	} else {
		d.unsynced = append(d.unsynced, hs)
	}
}

func (d *disk) syncAll() {
	d.synced = d.hs
	d.unsynced = nil
}

// ---------------------------------------------------------------- node / cluster

type Node struct {
	id      uint64
	rn      *raft.RawNode // nil when down
	d       *disk
	confAt  map[uint64]pb.ConfState // conf state after applying index i (only conf-change indexes)
	conf    pb.ConfState            // conf state at applied
	applied []int                   // payload ids applied since (re)start, for debugging
	ccFail  int
	held    *raft.Ready // a Ready that was saved, applied and sent but not yet passed to Advance (the window in which node.run keeps stepping)
}

type Cluster struct {
	opt          Options
	nodes        []*Node
	bag          []pb.Message
	cut          map[[2]uint64]bool
	w            *bufio.Writer
	line         int
	stats        map[string]int
	panics       []string
	panicsLogged int
	holdNext     bool // the event being executed leaves its first Ready outstanding
}

func genesis(opt Options) pb.ConfState {
	return pb.ConfState{Voters: append([]uint64{}, opt.Voters...), Learners: append([]uint64{}, opt.Learners...)}
}

func NewCluster(opt Options, w *bufio.Writer) *Cluster {
	c := &Cluster{opt: opt, w: w, stats: map[string]int{}}
	c.reset()
	return c
}

func (c *Cluster) reset() {
	c.nodes = nil
	c.bag = nil
	c.cut = map[[2]uint64]bool{}
	for i := 1; i <= c.opt.N; i++ {
		n := &Node{id: uint64(i), confAt: map[uint64]pb.ConfState{}}
		n.d = &disk{MemoryStorage: raft.NewMemoryStorage(), boot: genesis(c.opt)}
		n.conf = genesis(c.opt)
		c.nodes = append(c.nodes, n)
		c.start(n)
	}
}

func (c *Cluster) config(n *Node) *raft.Config {
	maxSize := uint64(math.MaxUint64)
	if c.opt.MaxEnts == 1 {
		maxSize = 0
	}
	sn, _ := n.d.MemoryStorage.Snapshot()
	return &raft.Config{
		ID:                        n.id,
		ElectionTick:              10,
		HeartbeatTick:             1,
		Storage:                   n.d,
		Applied:                   sn.Metadata.Index,
		MaxSizePerMsg:             maxSize,
		MaxCommittedSizePerReady:  math.MaxUint64,
		MaxInflightMsgs:           256,
		CheckQuorum:               c.opt.CheckQuorum,
		PreVote:                   c.opt.PreVote,
		Logger:                    quiet{},
		DisableProposalForwarding: true,
	}
}

func (c *Cluster) start(n *Node) {
	rn, err := raft.NewRawNode(c.config(n))
	if err != nil {
		panic(err)
	}
	n.rn = rn
	n.applied = nil
	n.confAt = map[uint64]pb.ConfState{}
	// the application restarts from its snapshot: conf state of the snapshot
	sn, _ := n.d.MemoryStorage.Snapshot()
	if sn.Metadata.Index == 0 {
		n.conf = n.d.boot
	} else {
		n.conf = sn.Metadata.ConfState
	}
}

func (c *Cluster) node(id int) *Node {
	if id < 1 || id > len(c.nodes) {
		return nil
	}
	return c.nodes[id-1]
}

// guarded runs f on node n; a panic inside the library takes the node down and is recorded.
func (c *Cluster) guarded(n *Node, f func()) (panicked bool) {
	defer func() {
		if r := recover(); r != nil {
			panicked = true
			msg := fmt.Sprint(r)
			c.panics = append(c.panics, fmt.Sprintf("line %d node %d: %s", c.line+1, n.id, msg))
			n.rn = nil
			n.held = nil
			c.stats["panic"]++
		}
	}()
	f()
	return false
}

func payloadOf(e pb.Entry) int {
	switch e.Type {
	case pb.EntryNormal:
		if len(e.Data) == 0 {
			return 0
		}
		v, err := strconv.Atoi(string(e.Data))
		if err != nil {
			return -2
		}
		return v
	case pb.EntryConfChange:
		var cc pb.ConfChange
		if cc.Unmarshal(e.Data) != nil {
			return -2
		}
		v, _ := strconv.Atoi(string(cc.Context))
		return v
	case pb.EntryConfChangeV2:
		if len(e.Data) == 0 {
			return 0
		}
		var cc pb.ConfChangeV2
		if cc.Unmarshal(e.Data) != nil {
			return -2
		}
		v, _ := strconv.Atoi(string(cc.Context))
		return v
	}
	return -2
}

// simpleCC describes a conf-change entry that changes exactly one voter without a joint transition the way
// spec/EtcdRaft.tla writes it: +id = ConfChangeAddNode id, -id = ConfChangeRemoveNode id; 0 = anything else.
func simpleCC(e pb.Entry) int {
	var v2 pb.ConfChangeV2
	switch e.Type {
	case pb.EntryConfChange:
		var cc pb.ConfChange
		if cc.Unmarshal(e.Data) != nil {
			return 0
		}
		v2 = cc.AsV2()
	case pb.EntryConfChangeV2:
		if len(e.Data) == 0 || v2.Unmarshal(e.Data) != nil {
			return 0
		}
	default:
		return 0
	}
	if _, joint := v2.EnterJoint(); joint || len(v2.Changes) != 1 {
		return 0
	}
	switch ch := v2.Changes[0]; ch.Type {
	case pb.ConfChangeAddNode:
		return int(ch.NodeID)
	case pb.ConfChangeRemoveNode:
		return -int(ch.NodeID)
	}
	return 0
}

// ready runs the Ready/persist/apply/Advance cycle of n until nothing is pending.
func (c *Cluster) ready(n *Node) {
	if n.held != nil { // the application is still busy with the previous Ready: raft keeps stepping, nothing new is handed out
		return
	}
	for iter := 0; n.rn != nil && n.rn.HasReady(); iter++ {
		if iter > 64 {
			panic("raftsim: Ready loop does not terminate")
		}
		rd := n.rn.Ready()
		if !raft.IsEmptySnap(rd.Snapshot) {
			if err := n.d.ApplySnapshot(rd.Snapshot); err != nil {
				panic(fmt.Sprintf("raftsim: ApplySnapshot: %v", err))
			}
			n.conf = rd.Snapshot.Metadata.ConfState
			n.confAt = map[uint64]pb.ConfState{}
		}
		if len(rd.Entries) > 0 {
			if err := n.d.Append(rd.Entries); err != nil {
				panic(fmt.Sprintf("raftsim: Append: %v", err))
			}
		}
		if !raft.IsEmptyHardState(rd.HardState) {
			n.d.writeHS(rd.HardState, rd.MustSync || !raft.IsEmptySnap(rd.Snapshot))
		} else if rd.MustSync || !raft.IsEmptySnap(rd.Snapshot) {
			n.d.syncAll()
		}
		for _, e := range rd.CommittedEntries {
			var cs *pb.ConfState
			switch e.Type {
			case pb.EntryConfChange:
				var cc pb.ConfChange
				if err := cc.Unmarshal(e.Data); err != nil {
					panic(err)
				}
				cs = c.applyCC(n, cc)
			case pb.EntryConfChangeV2:
				var cc pb.ConfChangeV2
				if err := cc.Unmarshal(e.Data); err != nil {
					panic(err)
				}
				cs = c.applyCC(n, cc)
			}
			if cs != nil {
				n.conf = *cs
				n.confAt[e.Index] = *cs
			}
			n.applied = append(n.applied, payloadOf(e))
		}
		for _, m := range rd.Messages {
			c.sendMsg(m)
		}
		if c.holdNext {
			c.holdNext = false
			c.stats["held"]++
			n.held = &rd
			return
		}
		n.rn.Advance(rd)
	}
}

// applyCC calls ApplyConfChange; an invalid change (library returns an error by panicking before it
// switches configuration) is treated as "the application rejects the change".
func (c *Cluster) applyCC(n *Node, cc pb.ConfChangeI) (cs *pb.ConfState) {
	defer func() {
		if r := recover(); r != nil {
			n.ccFail++
			c.stats["ccfail"]++
			cs = nil
		}
	}()
	return n.rn.ApplyConfChange(cc)
}

func (c *Cluster) sendMsg(m pb.Message) {
	if c.cut[[2]uint64{m.From, m.To}] {
		c.stats["cutdrop"]++
		return
	}
	if m.To < 1 || int(m.To) > len(c.nodes) {
		return
	}
	c.bag = append(c.bag, m)
}

// ---------------------------------------------------------------- message descriptors

type EntD struct {
	T uint64 `json:"t"`
	P int    `json:"p"`
	Y int    `json:"y"`
	C int    `json:"c"` // simple conf change: +id add voter, -id remove voter (see simpleCC)
}

type MsgD struct {
	Ty string `json:"ty"`
	Fr uint64 `json:"fr"`
	To uint64 `json:"to"`
	Tm uint64 `json:"tm"`
	Ix uint64 `json:"ix"`
	Lt uint64 `json:"lt"`
	Cm uint64 `json:"cm"`
	Rj bool   `json:"rj"`
	Ht uint64 `json:"ht"`
	Es []EntD `json:"es"`
	Si uint64 `json:"si"`
	St uint64 `json:"st"`
}

var tyName = map[pb.MessageType]string{
	pb.MsgApp: "App", pb.MsgAppResp: "AppResp", pb.MsgVote: "Vote", pb.MsgVoteResp: "VoteResp",
	pb.MsgHeartbeat: "HB", pb.MsgHeartbeatResp: "HBResp", pb.MsgSnap: "Snap", pb.MsgPreVote: "PreVote",
	pb.MsgPreVoteResp: "PreVoteResp", pb.MsgTimeoutNow: "TimeoutNow", pb.MsgProp: "Prop",
	pb.MsgReadIndex: "ReadIndex", pb.MsgReadIndexResp: "ReadIndexResp", pb.MsgTransferLeader: "Transfer",
}

func describe(m pb.Message) MsgD {
	d := MsgD{Ty: tyName[m.Type], Fr: m.From, To: m.To, Tm: m.Term, Ix: m.Index, Lt: m.LogTerm, Cm: m.Commit,
		Rj: m.Reject, Ht: m.RejectHint, Es: []EntD{}}
	if d.Ty == "" {
		d.Ty = m.Type.String()
	}
	for _, e := range m.Entries {
		d.Es = append(d.Es, EntD{T: e.Term, P: payloadOf(e), Y: int(e.Type), C: simpleCC(e)})
	}
	if m.Type == pb.MsgSnap {
		d.Si, d.St = m.Snapshot.Metadata.Index, m.Snapshot.Metadata.Term
	}
	return d
}

// key identifies a message. Messages that come from the specification carry no entry type: a conf-change
// entry (c != 0) of the specification is a raftpb.EntryConfChange.
func (a MsgD) key() string {
	for k := range a.Es {
		if a.Es[k].C != 0 && a.Es[k].Y == 0 {
			es := append([]EntD{}, a.Es...)
			for j := range es {
				if es[j].C != 0 && es[j].Y == 0 {
					es[j].Y = int(pb.EntryConfChange)
				}
			}
			a.Es = es
			break
		}
	}
	b, _ := json.Marshal(a)
	return string(b)
}

// ---------------------------------------------------------------- projection

type HSD struct {
	Term   uint64 `json:"term"`
	Vote   uint64 `json:"vote"`
	Commit uint64 `json:"commit"`
}

type ConfD struct {
	V  []uint64 `json:"v"`
	Vo []uint64 `json:"vo"`
	L  []uint64 `json:"l"`
	Ln []uint64 `json:"ln"`
	Al bool     `json:"al"`
}

type LogD struct {
	I uint64 `json:"i"`
	T uint64 `json:"t"`
	P int    `json:"p"`
	Y int    `json:"y"`
	C int    `json:"c"`
}

type PrD struct {
	ID    uint64 `json:"id"`
	Match uint64 `json:"match"`
	Next  uint64 `json:"next"`
	State string `json:"state"`
	Probe bool   `json:"probesent"`
}

type NodeD struct {
	ID      uint64 `json:"id"`
	Up      bool   `json:"up"`
	Term    uint64 `json:"term"`
	Vote    uint64 `json:"vote"`
	Role    string `json:"role"`
	Lead    uint64 `json:"lead"`
	Commit  uint64 `json:"commit"`
	Applied uint64 `json:"applied"`
	HS      HSD    `json:"hs"`
	HSS     HSD    `json:"hss"`
	First   uint64 `json:"first"`
	Last    uint64 `json:"last"`
	Log     []LogD `json:"log"`
	Conf    ConfD  `json:"conf"`
	SnapI   uint64 `json:"snapi"`
	SnapT   uint64 `json:"snapt"`
	Pr      []PrD  `json:"pr"`
	Held    bool   `json:"held"`
}

func u64s(a []uint64) []uint64 {
	r := append([]uint64{}, a...)
	sort.Slice(r, func(i, j int) bool { return r[i] < r[j] })
	return r
}

func confD(cs pb.ConfState) ConfD {
	return ConfD{V: u64s(cs.Voters), Vo: u64s(cs.VotersOutgoing), L: u64s(cs.Learners), Ln: u64s(cs.LearnersNext), Al: cs.AutoLeave}
}

var roleName = map[raft.StateType]string{raft.StateFollower: "F", raft.StateCandidate: "C", raft.StateLeader: "L", raft.StatePreCandidate: "P"}

func (c *Cluster) project(n *Node) NodeD {
	d := NodeD{ID: n.id, Up: n.rn != nil, Log: []LogD{}, Pr: []PrD{}, Held: n.held != nil}
	ms := n.d.MemoryStorage
	first, _ := ms.FirstIndex()
	last, _ := ms.LastIndex()
	sn, _ := ms.Snapshot()
	d.First, d.Last = first, last
	d.SnapI = first - 1
	d.SnapT, _ = ms.Term(first - 1)
	_ = sn
	if last >= first {
		ents, err := ms.Entries(first, last+1, math.MaxUint64)
		if err != nil {
			panic(fmt.Sprintf("raftsim: Entries(%d,%d): %v", first, last+1, err))
		}
		for _, e := range ents {
			d.Log = append(d.Log, LogD{I: e.Index, T: e.Term, P: payloadOf(e), Y: int(e.Type), C: simpleCC(e)})
		}
	}
	d.HS = HSD{n.d.hs.Term, n.d.hs.Vote, n.d.hs.Commit}
	d.HSS = HSD{n.d.synced.Term, n.d.synced.Vote, n.d.synced.Commit}
	if n.rn != nil {
		st := n.rn.Status()
		d.Term, d.Vote, d.Commit, d.Applied, d.Lead = st.Term, st.Vote, st.Commit, st.Applied, st.Lead
		d.Role = roleName[st.RaftState]
		cs := pb.ConfState{Voters: st.Config.Voters[0].Slice(), VotersOutgoing: st.Config.Voters[1].Slice(), AutoLeave: st.Config.AutoLeave}
		for id := range st.Config.Learners {
			cs.Learners = append(cs.Learners, id)
		}
		for id := range st.Config.LearnersNext {
			cs.LearnersNext = append(cs.LearnersNext, id)
		}
		d.Conf = confD(cs)
		if st.RaftState == raft.StateLeader {
			ids := []uint64{}
			for id := range st.Progress {
				ids = append(ids, id)
			}
			sort.Slice(ids, func(i, j int) bool { return ids[i] < ids[j] })
			for _, id := range ids {
				p := st.Progress[id]
				d.Pr = append(d.Pr, PrD{ID: id, Match: p.Match, Next: p.Next, State: p.State.String(), Probe: p.ProbeSent})
			}
		}
	} else {
		d.Term, d.Vote, d.Commit = n.d.hs.Term, n.d.hs.Vote, n.d.hs.Commit
		d.Applied = first - 1
		d.Role = "D"
		d.Conf = confD(n.conf)
	}
	return d
}

// ---------------------------------------------------------------- events

type CCD struct {
	V2    bool    `json:"v2"`
	Trans int     `json:"trans"` // ConfChangeTransition for v2
	Ops   [][]int `json:"ops"`   // [type, node]
}

type Event struct {
	Ev   string `json:"ev"`
	Node int    `json:"node"`
	P    int    `json:"p,omitempty"`
	M    *MsgD  `json:"m,omitempty"`
	CC   *CCD   `json:"cc,omitempty"`
	Idx  int    `json:"idx,omitempty"`  // compact index / crash: number of unsynced writes kept (-1 all)
	A    int    `json:"a,omitempty"`    // partition: other side / bag position
	Note string `json:"note,omitempty"` // result annotations
	Hold bool   `json:"hold,omitempty"` // leave the first Ready this event produces outstanding (no Advance) until a "release"
}

type Line struct {
	L    int      `json:"l"`
	Ev   string   `json:"ev"`
	Node int      `json:"node"`
	Arg  Event    `json:"arg"`
	OK   bool     `json:"ok"`
	N    []NodeD  `json:"n"`
	Msgs []MsgD   `json:"msgs"`
	Opt  *Options `json:"opt,omitempty"`
}

func (c *Cluster) emit(e Event, ok bool) {
	c.line++
	if len(c.panics) > c.panicsLogged {
		e.Note = "PANIC " + c.panics[len(c.panics)-1]
		c.panicsLogged = len(c.panics)
	}
	ln := Line{L: c.line, Ev: e.Ev, Node: e.Node, Arg: e, OK: ok}
	for _, n := range c.nodes {
		ln.N = append(ln.N, c.project(n))
	}
	ln.Msgs = []MsgD{}
	if c.opt.Msgs {
		ln.Msgs = c.bagD()
	}
	if e.Ev == "reset" {
		o := c.opt
		if o.Learners == nil {
			o.Learners = []uint64{}
		}
		if o.Voters == nil {
			o.Voters = []uint64{}
		}
		ln.Opt = &o
	}
	b, err := json.Marshal(ln)
	if err != nil {
		panic(err)
	}
	c.w.Write(b)
	c.w.WriteByte('\n')
	c.stats["ev."+e.Ev]++
}

func (c *Cluster) bagD() []MsgD {
	type kd struct {
		k string
		d MsgD
	}
	ks := make([]kd, 0, len(c.bag))
	for _, m := range c.bag {
		d := describe(m)
		ks = append(ks, kd{d.key(), d})
	}
	sort.Slice(ks, func(i, j int) bool { return ks[i].k < ks[j].k })
	r := make([]MsgD, 0, len(ks))
	for _, x := range ks {
		r = append(r, x.d)
	}
	return r
}

// findMsg returns the bag position of a message matching d exactly, or by decreasing closeness when
// loose is set (same type/from/to/term, then same type/from/to); -1 if none.
func (c *Cluster) findMsg(d MsgD, loose bool) int {
	k := d.key()
	for i, m := range c.bag {
		if describe(m).key() == k {
			return i
		}
	}
	if !loose {
		return -1
	}
	for i, m := range c.bag {
		x := describe(m)
		if x.Ty == d.Ty && x.Fr == d.Fr && x.To == d.To && x.Tm == d.Tm && x.Rj == d.Rj {
			return i
		}
	}
	for i, m := range c.bag {
		x := describe(m)
		if x.Ty == d.Ty && x.Fr == d.Fr && x.To == d.To {
			return i
		}
	}
	return -1
}

func (c *Cluster) take(pos int) pb.Message {
	m := c.bag[pos]
	c.bag = append(c.bag[:pos:pos], c.bag[pos+1:]...)
	return m
}

func ccFrom(d *CCD, id int) pb.ConfChangeI {
	ctx := []byte(strconv.Itoa(id))
	if !d.V2 {
		return pb.ConfChange{Type: pb.ConfChangeType(d.Ops[0][0]), NodeID: uint64(d.Ops[0][1]), Context: ctx}
	}
	cc := pb.ConfChangeV2{Transition: pb.ConfChangeTransition(d.Trans), Context: ctx}
	for _, op := range d.Ops {
		cc.Changes = append(cc.Changes, pb.ConfChangeSingle{Type: pb.ConfChangeType(op[0]), NodeID: uint64(op[1])})
	}
	return cc
}

// Do executes one event and logs one line. It returns whether the event was applicable.
func (c *Cluster) Do(e Event) bool {
	n := c.node(e.Node)
	ok := true
	c.holdNext = e.Hold
	defer func() { c.holdNext = false }()
	switch e.Ev {
	case "reset":
		c.reset()
	case "release": // Advance for the outstanding Ready, then whatever has piled up meanwhile
		if n == nil || n.rn == nil || n.held == nil {
			ok = false
			break
		}
		c.guarded(n, func() {
			rd := n.held
			n.held = nil
			n.rn.Advance(*rd)
			c.ready(n)
		})
	case "campaign":
		if n == nil || n.rn == nil {
			ok = false
			break
		}
		c.guarded(n, func() { _ = n.rn.Campaign(); c.ready(n) })
	case "tick": // real Tick on a leader (heartbeat / check-quorum); TickQuiesced elsewhere (no RNG involved)
		if n == nil || n.rn == nil {
			ok = false
			break
		}
		c.guarded(n, func() {
			if n.rn.Status().RaftState == raft.StateLeader {
				n.rn.Tick()
			} else {
				n.rn.TickQuiesced()
			}
			c.ready(n)
		})
	case "propose":
		if n == nil || n.rn == nil {
			ok = false
			break
		}
		c.guarded(n, func() {
			if err := n.rn.Propose([]byte(strconv.Itoa(e.P))); err != nil {
				ok = false
			}
			c.ready(n)
		})
	case "confchange":
		if n == nil || n.rn == nil || e.CC == nil || len(e.CC.Ops) == 0 && !e.CC.V2 {
			ok = false
			break
		}
		c.guarded(n, func() {
			if err := n.rn.ProposeConfChange(ccFrom(e.CC, e.P)); err != nil {
				ok = false
			}
			c.ready(n)
		})
	case "deliver":
		pos := -1
		if e.M != nil {
			pos = c.findMsg(*e.M, e.Note == "loose")
		} else if e.A >= 0 && e.A < len(c.bag) {
			pos = e.A
		}
		if pos < 0 {
			ok = false
			break
		}
		m := c.take(pos)
		md := describe(m)
		e.M = &md
		e.Node = int(m.To)
		n = c.node(e.Node)
		if n == nil || n.rn == nil {
			e.Note = "to-down-node"
			break
		}
		c.guarded(n, func() {
			if err := n.rn.Step(m); err != nil {
				e.Note = err.Error()
			}
			c.ready(n)
		})
	case "drop":
		pos := -1
		if e.M != nil {
			pos = c.findMsg(*e.M, e.Note == "loose")
		} else if e.A >= 0 && e.A < len(c.bag) {
			pos = e.A
		}
		if pos < 0 {
			ok = false
			break
		}
		md := describe(c.take(pos))
		e.M = &md
	case "dup":
		pos := -1
		if e.M != nil {
			pos = c.findMsg(*e.M, e.Note == "loose")
		} else if e.A >= 0 && e.A < len(c.bag) {
			pos = e.A
		}
		if pos < 0 {
			ok = false
			break
		}
		md := describe(c.bag[pos])
		e.M = &md
		c.bag = append(c.bag, c.bag[pos])
	case "partition": // isolate node e.Node from everybody (both directions); in-flight messages stay
		if n == nil {
			ok = false
			break
		}
		for _, o := range c.nodes {
			if o.id != n.id {
				c.cut[[2]uint64{n.id, o.id}] = true
				c.cut[[2]uint64{o.id, n.id}] = true
			}
		}
	case "cut": // cut one directed link Node -> A
		c.cut[[2]uint64{uint64(e.Node), uint64(e.A)}] = true
	case "heal":
		c.cut = map[[2]uint64]bool{}
	case "crash":
		if n == nil || n.rn == nil {
			ok = false
			break
		}
		n.rn = nil
		n.held = nil
		keep := e.Idx
		if keep < 0 || keep > len(n.d.unsynced) {
			keep = len(n.d.unsynced)
		}
		hs := n.d.synced
		if keep > 0 {
			hs = n.d.unsynced[keep-1]
		}
		_ = n.d.MemoryStorage.SetHardState(hs)
		n.d.hs = hs
		n.d.synced = hs
		n.d.unsynced = nil
	case "restart":
		if n == nil || n.rn != nil {
			ok = false
			break
		}
		c.guarded(n, func() { c.start(n); c.ready(n) })
	case "compact": // snapshot + compact at index Idx (<= applied)
		if n == nil || n.rn == nil {
			ok = false
			break
		}
		st := n.rn.Status()
		first, _ := n.d.FirstIndex()
		idx := uint64(e.Idx)
		if idx > st.Applied || idx < first {
			ok = false
			break
		}
		// conf state at idx: the latest recorded conf change at or below idx, else the snapshot/genesis one
		cs := n.d.boot
		if sn, _ := n.d.MemoryStorage.Snapshot(); sn.Metadata.Index > 0 {
			cs = sn.Metadata.ConfState
		}
		var best uint64
		for i, x := range n.confAt {
			if i <= idx && i >= best {
				best, cs = i, x
			}
		}
		if _, err := n.d.CreateSnapshot(idx, &cs, []byte("s")); err != nil {
			ok = false
			break
		}
		if err := n.d.Compact(idx); err != nil {
			ok = false
			break
		}
		for i := range n.confAt {
			if i <= idx {
				delete(n.confAt, i)
			}
		}
		n.d.syncAll()
	default:
		ok = false
	}
	c.emit(e, ok)
	return ok
}
