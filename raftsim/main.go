package main

import (
	"bufio"
	"encoding/json"
	"flag"
	"fmt"
	"math/rand"
	"os"
	"sort"
)

func usage() {
	fmt.Fprintln(os.Stderr, `usage:
  raftsim random -seed S -runs R -events E [-nodes N] -out trace.ndjson
  raftsim replay -schedule sched.json -out trace.ndjson [-lockstep]
  raftsim window [-walks N -depth D -seed S -workers W] < EDGE lines of MC_ReadyWindow`)
	os.Exit(2)
}

func writeStats(c *Cluster, extra map[string]interface{}) {
	m := map[string]interface{}{"lines": c.line, "stats": c.stats, "panics": c.panics}
	for k, v := range extra {
		m[k] = v
	}
	b, _ := json.Marshal(m)
	fmt.Println("STATS " + string(b))
}

func main() {
	if len(os.Args) < 2 {
		usage()
	}
	switch os.Args[1] {
	case "window":
		windowMain(os.Args[2:])
	case "random":
		fs := flag.NewFlagSet("random", flag.ExitOnError)
		seed := fs.Int64("seed", 1, "")
		runs := fs.Int("runs", 10, "")
		events := fs.Int("events", 300, "")
		nodes := fs.Int("nodes", 0, "restrict to profiles with this many nodes (0 = all)")
		out := fs.String("out", "trace.ndjson", "")
		msgs := fs.Bool("msgs", false, "log in-flight messages")
		prof := fs.String("profile", "", "restrict to one profile name")
		fs.Parse(os.Args[2:])
		f, err := os.Create(*out)
		if err != nil {
			fmt.Fprintln(os.Stderr, err)
			os.Exit(2)
		}
		w := bufio.NewWriterSize(f, 1<<20)
		ps := profiles(*nodes)
		if *prof != "" {
			var q []Profile
			for _, p := range ps {
				if p.Name == *prof {
					q = append(q, p)
				}
			}
			ps = q
		}
		if len(ps) == 0 {
			fmt.Fprintln(os.Stderr, "no profile")
			os.Exit(2)
		}
		c := NewCluster(ps[0].Opt, w)
		payload := 0
		used := map[string]int{}
		for i := 0; i < *runs; i++ {
			r := rand.New(rand.NewSource(*seed*1000003 + int64(i)))
			p := ps[i%len(ps)]
			p.Opt.Msgs = *msgs
			used[p.Name]++
			c.RandomRun(r, p, *events, &payload)
		}
		w.Flush()
		f.Close()
		names := []string{}
		for k := range used {
			names = append(names, k)
		}
		sort.Strings(names)
		writeStats(c, map[string]interface{}{"runs": *runs, "profiles": names})
	case "replay":
		fs := flag.NewFlagSet("replay", flag.ExitOnError)
		sched := fs.String("schedule", "", "")
		out := fs.String("out", "trace.ndjson", "")
		fs.Parse(os.Args[2:])
		os.Exit(replayMain(*sched, *out))
	default:
		usage()
	}
}
