#!/bin/sh
# Self-test of the B3 lock-order part of checks/C13.py (lib/locks.py): applies each mutant to a scratch git worktree
# of /repo and runs the B3 loop against it (VERIF_REPO). Usage: selftest/C13/run.sh [quick|thorough] [--full] [mutant...]
#   --full  run the whole check (checks/C13.py: concurrent histories + B3) instead of B3 alone
# Never commits; removes the worktree afterwards.
HERE="$(cd "$(dirname "$0")" && pwd)"
VERIF="$(cd "$HERE/../.." && pwd)"
TIER=quick; FULL=0; NAMES=""
for a in "$@"; do case "$a" in quick|thorough) TIER=$a;; --full) FULL=1;; *) NAMES="$NAMES $a";; esac; done
WT=/tmp/c13wt
[ -d "$WT" ] || git -C /repo worktree add "$WT" HEAD >/dev/null 2>&1 || exit 2
git -C "$WT" checkout -q -- .
[ -n "$NAMES" ] || NAMES=$(cd "$HERE" && ls *.diff | sed 's/\.diff$//')
export PYTHONPATH="$VERIF/lib" GOFLAGS=-mod=mod GOPROXY=off GOSUMDB=off GOTOOLCHAIN=local PYTHONUNBUFFERED=1
cd "$VERIF"
for m in $NAMES; do
  if [ "$m" != unchanged ]; then
    git -C "$WT" apply "$HERE/$m.diff" || { echo "$m: patch does not apply"; continue; }
  fi
  t0=$(date +%s)
  if [ "$FULL" = 1 ]; then
    VERIF_REPO="$WT" timeout 1500 python3 checks/C13.py "$TIER" > "/tmp/c13_selftest_$m.log" 2>&1
  else
    VERIF_REPO="$WT" timeout 900 python3 lib/locks.py "$TIER" > "/tmp/c13_selftest_$m.log" 2>&1
  fi
  rc=$?
  t1=$(date +%s)
  nv=$(grep -c '^VIOLATION' "/tmp/c13_selftest_$m.log")
  nb=$(grep -c '"branch": "lockorder' "/tmp/c13_selftest_$m.log")
  nd=$(grep -c '^DIVERGENCE' "/tmp/c13_selftest_$m.log")
  echo "$m: tier=$TIER exit=$rc violations=$nv (lockorder: $nb) divergence-lines=$nd wall=$((t1-t0))s"
  grep -o '"branch": "lockorder[^"]*"' "/tmp/c13_selftest_$m.log" | sort | uniq -c | sed 's/^/      /' | head -8
  grep '^B3' "/tmp/c13_selftest_$m.log" | sed 's/^/      /'
  git -C "$WT" checkout -q -- .
done
git -C /repo worktree remove --force "$WT"
