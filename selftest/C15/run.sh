#!/bin/sh
# Self-test of the C15 check (DESIGN.md section 4.1): apply each mutant of etcd/raft to a scratch git worktree of
# /repo (outside /repo and /verif, removed afterwards) and run the check against it with VERIF_REPO.
#   usage: selftest/C15/run.sh [quick|thorough] [mutant-name ...]
# Expected: exit 1 with a VIOLATION line for every mutant listed as caught in README.md.
TIER="${1:-quick}"; [ $# -gt 0 ] && shift
HERE="$(cd "$(dirname "$0")" && pwd)"; ROOT="$(cd "$HERE/../.." && pwd)"
WT="${C15_WT:-/tmp/c15wt-selftest}"
git -C /repo worktree remove --force "$WT" >/dev/null 2>&1
git -C /repo worktree add --detach "$WT" HEAD >/dev/null 2>&1 || { echo "cannot create worktree $WT"; exit 2; }
trap 'git -C /repo worktree remove --force "$WT" >/dev/null 2>&1' EXIT
MUTS="$*"; [ -z "$MUTS" ] && MUTS="$(cd "$HERE" && ls *.diff | sed 's/\.diff$//')"
cd "$ROOT" || exit 2
for m in $MUTS; do
  git -C "$WT" checkout -- . && git -C "$WT" apply "$HERE/$m.diff" || { echo "$m: patch does not apply"; continue; }
  out="$(VERIF_REPO="$WT" PYTHONPATH="$ROOT/lib" VERIF_SEED="${VERIF_SEED:-1}" python3 checks/C15.py "$TIER" 2>&1)"; rc=$?
  echo "== $m tier=$TIER exit=$rc"
  echo "$out" | grep -E "^VIOLATION|signature:|^DIVERGENCE|INFRA-ERROR" | head -8 | cut -c1-220
done
git -C "$WT" checkout -- .
