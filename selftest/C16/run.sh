#!/bin/sh
# Self-test of checks/C16.py: applies each mutant to a scratch git worktree of /repo and runs the check
# against it (VERIF_REPO). Usage: selftest/C16/run.sh [quick|thorough] [--pkgtests] [mutant-name...]
# Never commits; removes the worktree afterwards.
HERE="$(cd "$(dirname "$0")" && pwd)"
VERIF="$(cd "$HERE/../.." && pwd)"
TIER=quick; PKG=0; NAMES=""
for a in "$@"; do case "$a" in quick|thorough) TIER=$a;; --pkgtests) PKG=1;; *) NAMES="$NAMES $a";; esac; done
WT=/tmp/c16wt
[ -d "$WT" ] || git -C /repo worktree add "$WT" HEAD >/dev/null 2>&1 || exit 2
git -C "$WT" checkout -q -- . 
[ -n "$NAMES" ] || NAMES=$(cd "$HERE" && ls *.diff | sed 's/\.diff$//')
export PYTHONPATH="$VERIF/lib" GOFLAGS=-mod=mod GOPROXY=off GOSUMDB=off GOTOOLCHAIN=local
cd "$VERIF"
for m in $NAMES; do
  git -C "$WT" apply "$HERE/$m.diff" || { echo "$m: patch does not apply"; continue; }
  pk="-"
  if [ "$PKG" = 1 ]; then
    cp /repo/etcd/go.sum "$WT/etcd/go.sum" 2>/dev/null
    if (cd "$WT/etcd/server" && timeout 900 go test -count=1 ./storage/wal/ ./etcdserver/api/snap/ >/tmp/c16_pkgtest.log 2>&1); then pk=pass; else pk=FAIL; fi
  fi
  t0=$(date +%s)
  VERIF_REPO="$WT" timeout 1500 python3 checks/C16.py "$TIER" > "/tmp/c16_selftest_$m.log" 2>&1
  rc=$?
  t1=$(date +%s)
  nv=$(grep -c '^VIOLATION' "/tmp/c16_selftest_$m.log")
  src=$(grep -m1 'findings-by-source' "/tmp/c16_selftest_$m.log" | sed 's/.*findings-by-source //; s/ (witnesses.*//')
  echo "$m: tier=$TIER exit=$rc distinct-signatures=$nv pkgtests=$pk wall=$((t1-t0))s  sources: $src"
  grep -o '"branch": "[^"]*", "kind": "[^"]*"' "/tmp/c16_selftest_$m.log" | sort | uniq -c | sed 's/^/      /' | head -6
  git -C "$WT" checkout -q -- .
done
git -C /repo worktree remove --force "$WT"
