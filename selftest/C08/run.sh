#!/bin/bash
# Self-test of checks/C08.py: apply one mutant at a time to a scratch worktree of /repo and run the check against it.
# usage: selftest/C08/run.sh [quick|thorough] [mutant-name ...]      (default: quick, all mutants)
# RUNNER overrides the check command (default: python3 checks/C08.py).  Nothing is committed anywhere.
set -u
cd /verif
TIER=quick
if [ "${1:-}" = quick ] || [ "${1:-}" = thorough ]; then TIER=$1; shift; fi
WT=/tmp/c08-selftest-wt
RUNNER=${RUNNER:-python3 checks/C08.py}
git -C /repo worktree remove --force $WT >/dev/null 2>&1
git -C /repo worktree add --detach $WT HEAD >/dev/null 2>&1 || { echo "cannot create worktree"; exit 2; }
trap 'git -C /repo worktree remove --force $WT >/dev/null 2>&1' EXIT
MUTS="$*"
[ -z "$MUTS" ] && MUTS=$(cd selftest/C08 && ls *.diff | sed 's/\.diff$//')
for m in $MUTS; do
  git -C $WT checkout -q -- . && git -C $WT apply /verif/selftest/C08/$m.diff || { echo "$m: patch does not apply"; continue; }
  t0=$(date +%s)
  VERIF_REPO=$WT PYTHONPATH=/verif/lib timeout 3000 $RUNNER $TIER > /tmp/c08_selftest_$m.log 2>&1
  rc=$?
  echo "== $m: exit $rc ($(( $(date +%s) - t0 )) s)"
  grep -E '^(VIOLATION|  signature|DIVERGENCE|INFRA-ERROR)' /tmp/c08_selftest_$m.log | head -12
  git -C $WT checkout -q -- .
done
