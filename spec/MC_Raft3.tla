------------------------------ MODULE MC_Raft3 ------------------------------
(* Model-checking / schedule-emitting instance of EtcdRaft (constants in the .cfg files).           *)
(*   MC_Raft3.cfg         exhaustive check of the faithful spec (all W_* FALSE), small bounds       *)
(*   MC_Raft3_sim.cfg     larger bounds for  -simulate ; EmitSim prints every finished behaviour as *)
(*                        one JSON schedule (actions + expected projection) for lockstep replay     *)
(*   MC_Raft3_prevote.cfg, _prevote_full.cfg, _prevote_faults.cfg, _sim_prevote.cfg,                *)
(*   _sim1_prevote.cfg    the same instances with PreVote = TRUE (two-phase election); the quick    *)
(*                        exhaustive one explores Campaign() of nodes 1 and 2 only                  *)
(*   MC_Raft3_conf.cfg, _conf_full.cfg, _sim_conf*.cfg   ConfChange = TRUE: simple membership changes (one voter added *)
(*                        or removed at a time); three nodes of which InitVoters are voters at the start                   *)
(*   MC_RaftAtk_*.cfg     one weakened rule each; EmitAttack prints the counterexample schedule     *)
EXTENDS EtcdRaft, TLCExt, Json

RECURSIVE Sorted(_)
Sorted(S) == IF S = {} THEN <<>> ELSE LET x == Min(S) IN <<x>> \o Sorted(S \ {x})

(* cfg = the voters of the node's own configuration; pr = the leader's Progress map: one record per id of that configuration *)
ProjNode(s, i) ==
    [up |-> s.role[i] # "D", term |-> s.term[i], vote |-> s.vote[i], role |-> s.role[i], lead |-> s.lead[i],
     commit |-> s.commit[i], applied |-> s.applied[i], hs |-> s.hs[i], sc |-> s.sc[i], log |-> s.log[i],
     cfg |-> Sorted(s.cfg[i]),
     pr |-> IF s.role[i] = "L" THEN LET ids == Sorted(s.cfg[i]) IN [k \in 1..Len(ids) |-> [id |-> ids[k]] @@ s.pr[i][ids[k]]] ELSE <<>>]

RECURSIVE SetToSeq(_)
SetToSeq(S) == IF S = {} THEN <<>> ELSE LET x == CHOOSE x \in S : TRUE IN <<x>> \o SetToSeq(S \ {x})

ProjState(s) == [n |-> [i \in 1..N |-> ProjNode(s, i)],
                 msgs |-> SetToSeq({[m |-> m, c |-> s.net[m]] : m \in DOMAIN s.net})]

Schedule == LET tr == Trace IN [k \in 1..(Len(tr) - 1) |-> [a |-> tr[k + 1].act, s |-> ProjState(tr[k + 1])]]
ScheduleNoState == LET tr == Trace IN [k \in 1..(Len(tr) - 1) |-> [a |-> tr[k + 1].act]]

CONSTANT SimDepth
(* -simulate: print the behaviour when it reaches SimDepth states *)
EmitSim == TLCGet("level") # SimDepth \/ PrintT("SCHEDULE " \o ToJson(Schedule))

(* ACTION_CONSTRAINT of the -simulate instances with ConfChange = TRUE: the random walk spends its crash budget only once *)
(* a conf change is committed somewhere, so that crashes and restarts meet switched configurations                        *)
CrashAfterConfChange == act'.name = "Crash" => \E i \in Server : \E k \in 1..commit[i] : log[i][k].c # 0

(* weakened instances: print the schedule that breaks safety, then report the violation *)
EmitAttackM == (Safety /\ MatchSound) \/ (PrintT("ATTACK " \o ToJson(ScheduleNoState)) /\ FALSE)
EmitAttack == Safety \/ (PrintT("ATTACK " \o ToJson(ScheduleNoState)) /\ FALSE)
=============================================================================
