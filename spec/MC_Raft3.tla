------------------------------ MODULE MC_Raft3 ------------------------------
(* Model-checking / schedule-emitting instance of EtcdRaft (constants in the .cfg files).           *)
(*   MC_Raft3.cfg         exhaustive check of the faithful spec (all W_* FALSE), small bounds       *)
(*   MC_Raft3_sim.cfg     larger bounds for  -simulate ; EmitSim prints every finished behaviour as *)
(*                        one JSON schedule (actions + expected projection) for lockstep replay     *)
(*   MC_Raft3_prevote.cfg, _prevote_full.cfg, _prevote_faults.cfg, _sim_prevote.cfg,                *)
(*   _sim1_prevote.cfg    the same instances with PreVote = TRUE (two-phase election); the quick    *)
(*                        exhaustive one explores Campaign() of nodes 1 and 2 only                  *)
(*   MC_Raft3_conf.cfg, _conf_full.cfg, _sim_conf*.cfg   ConfChange = TRUE: simple membership changes (one voter added *)
(*                        or removed at a time); three nodes of which InitVoters are voters at the start                   *)
(*   MC_RaftAtk_*.cfg     one weakened rule each; EmitAttack prints the counterexample schedule     *)
EXTENDS EtcdRaft, TLCExt, Json

RECURSIVE Sorted(_)
Sorted(S) == IF S = {} THEN <<>> ELSE LET x == Min(S) IN <<x>> \o Sorted(S \ {x})

(* cfg = the voters of the node's own configuration; pr = the leader's Progress map: one record per id of that configuration *)
ProjNode(s, i) ==
    [up |-> s.role[i] # "D", term |-> s.term[i], vote |-> s.vote[i], role |-> s.role[i], lead |-> s.lead[i],
     commit |-> s.commit[i], applied |-> s.applied[i], hs |-> s.hs[i], sc |-> s.sc[i], log |-> s.log[i],
     cfg |-> Sorted(s.cfg[i]),
     pr |-> IF s.role[i] = "L" THEN LET ids == Sorted(s.cfg[i]) IN [k \in 1..Len(ids) |-> [id |-> ids[k]] @@ s.pr[i][ids[k]]] ELSE <<>>]

RECURSIVE SetToSeq(_)
SetToSeq(S) == IF S = {} THEN <<>> ELSE LET x == CHOOSE x \in S : TRUE IN <<x>> \o SetToSeq(S \ {x})

ProjState(s) == [n |-> [i \in 1..N |-> ProjNode(s, i)],
                 msgs |-> SetToSeq({[m |-> m, c |-> s.net[m]] : m \in DOMAIN s.net})]

Schedule == LET tr == Trace IN [k \in 1..(Len(tr) - 1) |-> [a |-> tr[k + 1].act, s |-> ProjState(tr[k + 1])]]
ScheduleNoState == LET tr == Trace IN [k \in 1..(Len(tr) - 1) |-> [a |-> tr[k + 1].act]]

CONSTANT SimDepth
(* -simulate: print the behaviour when it reaches SimDepth states *)
EmitSim == TLCGet("level") # SimDepth \/ PrintT("SCHEDULE " \o ToJson(Schedule))

(* ACTION_CONSTRAINT of the -simulate instances with ConfChange = TRUE: the random walk spends its crash budget only once *)
(* a conf change is committed somewhere, so that crashes and restarts meet switched configurations                        *)
CrashAfterConfChange == act'.name = "Crash" => \E i \in Server : \E k \in 1..commit[i] : log[i][k].c # 0

(* Scripted search: an attack that needs five nodes and some thirty steps is out of reach of a blind search; its outline is  *)
(* written down as a sequence of step patterns and TLC explores only behaviours that follow it (which messages an action     *)
(* loses at send time stays open). TLC thereby CHECKS that the outline is a behaviour of the weakened specification that     *)
(* ends in a safety violation, and fills in every message.  ACTION_CONSTRAINT Scripted; Script <- <the outline>.              *)
CONSTANT Script
Pat(name, i, ty, fr, to) == [name |-> name, i |-> i, ty |-> ty, fr |-> fr, to |-> to]
Cmp(i) == Pat("Campaign", i, "", 0, 0)
Prp(i) == Pat("Propose", i, "", 0, 0)
Dlv(ty, fr, to) == Pat("Deliver", 0, ty, fr, to)
StepMatches(a, p) ==
    /\ a.name = p.name
    /\ (p.name \in {"Campaign", "Propose"} => a.i = p.i)
    /\ (p.name = "Deliver" => a.m.ty = p.ty /\ a.m.fr = p.fr /\ a.m.to = p.to)
Scripted == LET k == TLCGet("level") IN k > Len(Script) \/ StepMatches(act', Script[k])
NoScript == <<>>

(* W_KeepMatchOnReset, five nodes.  1 leads term 1 and replicates two entries to 2 only (uncommitted: 2 of 5); 3 is elected by *)
(* 4 and 5, its empty entry reaches 1 (whose tail is truncated), 4 and 5; 1 is elected again by 4 and 5 - with Match[2] = 2  *)
(* left over from term 1 - appends its empty entry at index 2 and needs only ONE real acknowledgement (4) to "commit" it;      *)
(* then 5 is elected by 2 and 3, none of which holds that entry.                                                               *)
KeepMatchScript == <<
    Cmp(1), Dlv("Vote", 1, 2), Dlv("Vote", 1, 4), Dlv("Vote", 1, 3), Dlv("VoteResp", 2, 1), Dlv("VoteResp", 4, 1),
    Dlv("App", 1, 2), Dlv("AppResp", 2, 1), Prp(1), Dlv("App", 1, 2), Dlv("AppResp", 2, 1),
    Cmp(3), Dlv("Vote", 3, 4), Dlv("Vote", 3, 5), Dlv("VoteResp", 4, 3), Dlv("VoteResp", 5, 3),
    Dlv("App", 3, 1), Dlv("App", 3, 4), Dlv("App", 3, 5),
    Cmp(1), Dlv("Vote", 1, 4), Dlv("Vote", 1, 5), Dlv("VoteResp", 4, 1), Dlv("VoteResp", 5, 1),
    Dlv("App", 1, 4), Dlv("AppResp", 4, 1),
    Cmp(5), Dlv("Vote", 5, 2), Dlv("Vote", 5, 3), Dlv("VoteResp", 2, 5), Dlv("VoteResp", 3, 5) >>

(* weakened instances: print the schedule that breaks safety, then report the violation *)
EmitAttackM == (Safety /\ MatchSound) \/ (PrintT("ATTACK " \o ToJson(ScheduleNoState)) /\ FALSE)
EmitAttack == Safety \/ (PrintT("ATTACK " \o ToJson(ScheduleNoState)) /\ FALSE)
=============================================================================
