------------------------------- MODULE Cluster -------------------------------
(***************************************************************************)
(* C08 durability model of RedisGO cluster mode, at the grain of the code. *)
(*                                                                         *)
(* What is modelled (file:line of /repo at the pinned commit + hooks):     *)
(*   raftexample/raft.go serveChannels Ready loop (493-518), publishEntries*)
(*   (160-235), maybeTriggerSnapshot (401-440), saveSnap (126-142),        *)
(*   publishSnapshot (381-397), replayWAL/loadSnapshot/openWAL (237-298),  *)
(*   serveChannels prologue (443-449);                                     *)
(*   server/server.go handleClusterCommits (139-168: `msg == nil` =        *)
(*   "loaded empty snapshot" is SKIPPED: nothing ever loads a snapshot     *)
(*   into the keyspace);  server/db_manager.go HandleCluster (241-274:     *)
(*   propose, wait for the callback, reply);  memdb/db.go GetSnapshot      *)
(*   (134-137: json.Marshal of the raw value map).                         *)
(*                                                                         *)
(* What is ASSUMED (C15's business): consensus.  `log` is the one agreed   *)
(* order of proposals; a node's raft core hands it, in a Ready, the next   *)
(* entries of `log` it does not have yet and the commit index              *)
(* CommitFor(.) = the largest index held DURABLY (WAL) by a quorum.  The   *)
(* copied-in raft acknowledges a node's own entries only in Advance, i.e.  *)
(* after the loop has saved them (etcd/raft/raft.go advance(): "the leader *)
(* needs to self-ack the entries just appended"), and followers answer     *)
(* through Send, which the loop orders after WalSave; so an index is       *)
(* committed only when a quorum has SAVED it - observed on real traces: a  *)
(* single-node cluster emits Entries in one Ready and the same index as    *)
(* CommittedEntries in the next.  A follower that is catching up can still *)
(* receive an index as Entries and CommittedEntries in ONE Ready (c2 may   *)
(* exceed what the node itself has saved).  Entries are never re-ordered   *)
(* or truncated (no conflicting leaders); a lagging node whose next entry  *)
(* every other live node has compacted receives a snapshot.                *)
(*                                                                         *)
(* The Ready loop is split exactly as raft.go orders it; the pc value of a *)
(* node names the NEXT stage, and the hook event that the verif build      *)
(* emits after a stage is the crash gate between this stage and the next   *)
(* (GateOf).  Crash(n) is enabled at every pc.                             *)
(*                                                                         *)
(*   idle -TakeReady-> [savesnap -> savesnapwal ->] walsave                *)
(*        [-> applysnap -> pubsnap] -> append -> send -> publish           *)
(*        -> trigger [-> getsnap -> createsnap -> snapfile -> snapwal      *)
(*        -> compact] -> advance -> idle                                   *)
(*   apply goroutine: Apply(n) (one entry at a time), Reply(n, w)          *)
(*                                                                         *)
(* As-built flags (CONSTANTS):                                             *)
(*   SnapshotRestoresStateMachine  FALSE as built (F1)                     *)
(*   SnapshotSerialisesAllTypes    FALSE as built: a list value makes      *)
(*       GetSnapshot fail and the node die (F2); other collection types    *)
(*       are written as {} (F3)                                            *)
(* With both TRUE every property below holds (validates the restart logic  *)
(* of the model); as built TLC's counterexamples are the leads.            *)
(***************************************************************************)
EXTENDS Integers, Sequences, FiniteSets, TLC

CONSTANTS Nodes,          \* node ids
          NW,             \* number of client writes 1..NW
          WKeys, WKinds,  \* sequences 1..NW: key and kind ("str" | "list" | "coll") of write w
          WVia,           \* sequence 1..NW: the node that receives write w from its client
          SnapCount,      \* defaultSnapshotCount
          CatchUp,        \* snapshotCatchUpEntriesN
          MaxCrashes,     \* bound on Crash steps
          SnapshotRestoresStateMachine, SnapshotSerialisesAllTypes

ASSUME CatchUp <= SnapCount   \* otherwise the second Compact(1) panics with ErrCompacted (raft.go:433; not reachable
                              \* with the shipped constants 10000/10000, so not part of the property)

VARIABLES log,            \* the agreed sequence of write ids (consensus assumed)
          acked,          \* writes whose reply reached the client
          up,             \* node process alive
          pc,             \* next stage of the node's Ready loop
          rd,             \* the Ready being processed
          wal,            \* durable: [ents, commit, snaps]   (entries 1..ents, hard state, snapshot markers)
          snapFiles,      \* durable: set of [idx, data]
          snapshotIndex, appliedIndex,   \* rc.snapshotIndex, rc.appliedIndex (volatile)
          stor,           \* raft.MemoryStorage (volatile): [snap, data, compact, last]
          kv,             \* the node's keyspace (volatile): key -> sequence of write ids
          applyQ,         \* batch handed to the apply goroutine: [lo, hi], empty when lo > hi
          waiting,        \* resultCallback table: writes proposed through this node still waiting
          resCh,          \* results handed to the connection goroutine, reply not yet written
          crashes,        \* number of Crash steps so far
          diedAtSnap      \* nodes that died INSIDE maybeTriggerSnapshot (not by Crash)

vars == <<log, acked, up, pc, rd, wal, snapFiles, snapshotIndex, appliedIndex, stor, kv, applyQ, waiting, resCh,
          crashes, diedAtSnap>>

Keys == {WKeys[w] : w \in 1..NW}
KindOf(k) == LET w == CHOOSE x \in 1..NW : WKeys[x] = k IN WKinds[w]
EmptyKV == [k \in Keys |-> <<>>]
Max(a, b) == IF a >= b THEN a ELSE b
Min(a, b) == IF a <= b THEN a ELSE b
Quorums == {Q \in SUBSET Nodes : 2 * Cardinality(Q) > Cardinality(Nodes)}

\* the sequential meaning of a write: SET replaces, RPUSH/SADD/... extend
ApplyW(m, w) == [m EXCEPT ![WKeys[w]] = IF WKinds[w] = "str" THEN <<w>> ELSE Append(@, w)]
RECURSIVE Eval(_)
Eval(i) == IF i = 0 THEN EmptyKV ELSE ApplyW(Eval(i - 1), log[i])
Idx(w) == CHOOSE i \in 1..Len(log) : log[i] = w
Proposed == {log[i] : i \in 1..Len(log)}

NoRd == [snap |-> 0, data |-> EmptyKV, e1 |-> 1, e2 |-> 0, c2 |-> 0, hc |-> 0]
NoStor == [snap |-> 0, data |-> EmptyKV, compact |-> 0, last |-> 0]
NoQ == [lo |-> 1, hi |-> 0]
QEmpty(n) == applyQ[n].lo > applyQ[n].hi

\* what the node holds durably: WAL entries, or everything up to a snapshot that has both marker and file
Persisted(m) == wal[m].ents
\* commit index visible in a Ready of a node that holds (in memory) the entries up to k
CommitFor(k) ==
  LET ok == {i \in 0..k : \E Q \in Quorums : \A m \in Q : Persisted(m) >= i}
  IN CHOOSE i \in ok : \A j \in ok : j <= i

\* GetSnapshot as built: json.Marshal(map) - a list is a cyclic linked list (error -> log.Panic), every other
\* collection has only unexported fields ({}), strings survive (base64)
HasList(m) == \E k \in Keys : KindOf(k) = "list" /\ m[k] # <<>>
SnapOf(m) == IF SnapshotSerialisesAllTypes THEN m
             ELSE [k \in Keys |-> IF KindOf(k) = "str" THEN m[k] ELSE <<>>]

Init ==
  /\ log = <<>> /\ acked = {}
  /\ up = [n \in Nodes |-> TRUE]
  /\ pc = [n \in Nodes |-> "idle"]
  /\ rd = [n \in Nodes |-> NoRd]
  /\ wal = [n \in Nodes |-> [ents |-> 0, commit |-> 0, snaps |-> {}]]
  /\ snapFiles = [n \in Nodes |-> {}]
  /\ snapshotIndex = [n \in Nodes |-> 0]
  /\ appliedIndex = [n \in Nodes |-> 0]
  /\ stor = [n \in Nodes |-> NoStor]
  /\ kv = [n \in Nodes |-> EmptyKV]
  /\ applyQ = [n \in Nodes |-> NoQ]
  /\ waiting = [n \in Nodes |-> {}]
  /\ resCh = [n \in Nodes |-> {}]
  /\ crashes = 0
  /\ diedAtSnap = {}

----------------------------------------------------------------------------
\* client -> HandleCluster: register the callback, proposeC <- proposal (db_manager.go:242-255). A proposal is
\* only ordered when a leader exists (a quorum is alive); otherwise the client blocks (not modelled: no ack).
Propose(w) ==
  LET n == WVia[w] IN
  /\ w \notin Proposed /\ (w = 1 \/ (w - 1) \in Proposed)
  /\ up[n] /\ \E Q \in Quorums : \A m \in Q : up[m]
  /\ log' = Append(log, w)
  /\ waiting' = [waiting EXCEPT ![n] = @ \cup {w}]
  /\ UNCHANGED <<acked, up, pc, rd, wal, snapFiles, snapshotIndex, appliedIndex, stor, kv, applyQ, resCh, crashes, diedAtSnap>>

\* rd := <-rc.Node.Ready()   (raft.go:493; event `ready`)
TakeReady(n) ==
  /\ up[n] /\ pc[n] = "idle"
  /\ LET others == {m \in Nodes \ {n} : up[m]}
         e1 == stor[n].last + 1
         canEnts == e1 <= Len(log) /\ (Cardinality(Nodes) = 1 \/ \E m \in others : stor[m].compact < e1)
         snapSrc == {m \in others : stor[m].snap >= e1}
     IN IF e1 <= Len(log) /\ ~canEnts /\ snapSrc # {}
        THEN \E m \in snapSrc :      \* MsgSnap from a live node whose log no longer holds e1
               /\ rd' = [rd EXCEPT ![n] = [snap |-> stor[m].snap, data |-> stor[m].data, e1 |-> e1, e2 |-> e1 - 1,
                                           c2 |-> appliedIndex[n], hc |-> Max(wal[n].commit, stor[m].snap)]]
               /\ pc' = [pc EXCEPT ![n] = "savesnap"]
        ELSE LET e2 == IF canEnts THEN Len(log) ELSE e1 - 1
                 c2 == Max(appliedIndex[n], Max(Min(wal[n].commit, e2), CommitFor(e2)))
             IN /\ (e2 >= e1 \/ c2 > appliedIndex[n])
                /\ rd' = [rd EXCEPT ![n] = [snap |-> 0, data |-> EmptyKV, e1 |-> e1, e2 |-> e2, c2 |-> c2, hc |-> c2]]
                /\ pc' = [pc EXCEPT ![n] = "walsave"]
  /\ UNCHANGED <<log, acked, up, wal, snapFiles, snapshotIndex, appliedIndex, stor, kv, applyQ, waiting, resCh, crashes, diedAtSnap>>

\* rc.saveSnap(rd.Snapshot) part 1: snapshotter.SaveSnap (raft.go:135)
SaveSnapFile(n) ==
  /\ up[n] /\ pc[n] = "savesnap"
  /\ snapFiles' = [snapFiles EXCEPT ![n] = @ \cup {[idx |-> rd[n].snap, data |-> rd[n].data]}]
  /\ pc' = [pc EXCEPT ![n] = "savesnapwal"]
  /\ UNCHANGED <<log, acked, up, rd, wal, snapshotIndex, appliedIndex, stor, kv, applyQ, waiting, resCh, crashes, diedAtSnap>>

\* rc.saveSnap part 2: wal.SaveSnapshot (synced) (raft.go:138)
SaveSnapWal(n) ==
  /\ up[n] /\ pc[n] = "savesnapwal"
  /\ wal' = [wal EXCEPT ![n].snaps = @ \cup {rd[n].snap}, ![n].ents = Max(@, rd[n].snap)]
  /\ pc' = [pc EXCEPT ![n] = "walsave"]
  /\ UNCHANGED <<log, acked, up, rd, snapFiles, snapshotIndex, appliedIndex, stor, kv, applyQ, waiting, resCh, crashes, diedAtSnap>>

\* rc.wal.Save(rd.HardState, rd.Entries)  (raft.go:500; event `walsave`). A save without entries (commit-only hard
\* state) is buffered, not flushed: a kill may lose it (DESIGN 2.4).
WalSave(n) ==
  /\ up[n] /\ pc[n] = "walsave"
  /\ \E c \in (IF rd[n].e2 >= rd[n].e1 THEN {rd[n].hc} ELSE {wal[n].commit, rd[n].hc}) :
       wal' = [wal EXCEPT ![n].ents = Max(@, rd[n].e2), ![n].commit = Max(@, c)]
  /\ pc' = [pc EXCEPT ![n] = IF rd[n].snap > 0 THEN "applysnap" ELSE "append"]
  /\ UNCHANGED <<log, acked, up, rd, snapFiles, snapshotIndex, appliedIndex, stor, kv, applyQ, waiting, resCh, crashes, diedAtSnap>>

\* rc.raftStorage.ApplySnapshot(rd.Snapshot)  (raft.go:503)
ApplySnap(n) ==
  /\ up[n] /\ pc[n] = "applysnap"
  /\ stor' = [stor EXCEPT ![n] = [snap |-> rd[n].snap, data |-> rd[n].data, compact |-> rd[n].snap, last |-> rd[n].snap]]
  /\ pc' = [pc EXCEPT ![n] = "pubsnap"]
  /\ UNCHANGED <<log, acked, up, rd, wal, snapFiles, snapshotIndex, appliedIndex, kv, applyQ, waiting, resCh, crashes, diedAtSnap>>

\* rc.publishSnapshot: commitC <- nil ("trigger kvstore to load snapshot"), indexes := snapshot index
\* (raft.go:381-397); server.go:142-145 logs "loaded empty snapshot" and continues.
PubSnap(n) ==
  /\ up[n] /\ pc[n] = "pubsnap" /\ QEmpty(n)
  /\ kv' = [kv EXCEPT ![n] = IF SnapshotRestoresStateMachine THEN rd[n].data ELSE @]
  /\ snapshotIndex' = [snapshotIndex EXCEPT ![n] = rd[n].snap]
  /\ appliedIndex' = [appliedIndex EXCEPT ![n] = rd[n].snap]
  /\ pc' = [pc EXCEPT ![n] = "append"]
  /\ UNCHANGED <<log, acked, up, rd, wal, snapFiles, stor, applyQ, waiting, resCh, crashes, diedAtSnap>>

\* rc.raftStorage.Append(rd.Entries)  (raft.go:506; event `append`)
AppendStor(n) ==
  /\ up[n] /\ pc[n] = "append"
  /\ stor' = [stor EXCEPT ![n].last = Max(@, rd[n].e2)]
  /\ pc' = [pc EXCEPT ![n] = "send"]
  /\ UNCHANGED <<log, acked, up, rd, wal, snapFiles, snapshotIndex, appliedIndex, kv, applyQ, waiting, resCh, crashes, diedAtSnap>>

\* rc.transport.Send(...)  (raft.go:508; event `send`); messages are part of the assumed consensus service
Send(n) ==
  /\ up[n] /\ pc[n] = "send"
  /\ pc' = [pc EXCEPT ![n] = "publish"]
  /\ UNCHANGED <<log, acked, up, rd, wal, snapFiles, snapshotIndex, appliedIndex, stor, kv, applyQ, waiting, resCh, crashes, diedAtSnap>>

\* rc.publishEntries(rc.entriesToApply(rd.CommittedEntries)): hand the batch to the apply goroutine over the
\* unbuffered commitC (blocks until the previous batch is done), then rc.appliedIndex = last (raft.go:510; `publish`)
Publish(n) ==
  /\ up[n] /\ pc[n] = "publish"
  /\ IF rd[n].c2 > appliedIndex[n]
     THEN /\ QEmpty(n)
          /\ applyQ' = [applyQ EXCEPT ![n] = [lo |-> appliedIndex[n] + 1, hi |-> rd[n].c2]]
          /\ appliedIndex' = [appliedIndex EXCEPT ![n] = rd[n].c2]
     ELSE UNCHANGED <<applyQ, appliedIndex>>
  /\ pc' = [pc EXCEPT ![n] = "trigger"]
  /\ UNCHANGED <<log, acked, up, rd, wal, snapFiles, snapshotIndex, stor, kv, waiting, resCh, crashes, diedAtSnap>>

\* handleClusterCommits: execute one command, look up the callback, hand over the result (server.go:146-160; `apply`)
Apply(n) ==
  /\ up[n] /\ ~QEmpty(n)
  /\ LET i == applyQ[n].lo
         w == log[i] IN
     /\ kv' = [kv EXCEPT ![n] = ApplyW(@, w)]
     /\ applyQ' = [applyQ EXCEPT ![n].lo = i + 1]
     /\ resCh' = [resCh EXCEPT ![n] = IF w \in waiting[n] THEN @ \cup {w} ELSE @]
  /\ UNCHANGED <<log, acked, up, pc, rd, wal, snapFiles, snapshotIndex, appliedIndex, stor, waiting, crashes, diedAtSnap>>

\* HandleCluster: res := <-resCh; conn.Write(res)  (db_manager.go:256-265; event `reply` just before the write)
Reply(n, w) ==
  /\ up[n] /\ w \in resCh[n]
  /\ acked' = acked \cup {w}
  /\ resCh' = [resCh EXCEPT ![n] = @ \ {w}]
  /\ waiting' = [waiting EXCEPT ![n] = @ \ {w}]
  /\ UNCHANGED <<log, up, pc, rd, wal, snapFiles, snapshotIndex, appliedIndex, stor, kv, applyQ, crashes, diedAtSnap>>

\* maybeTriggerSnapshot: threshold test and wait for applyDoneC (raft.go:402-413); event `snapshot_start`
Trigger(n) ==
  /\ up[n] /\ pc[n] = "trigger"
  /\ IF appliedIndex[n] - snapshotIndex[n] <= SnapCount
     THEN pc' = [pc EXCEPT ![n] = "advance"]
     ELSE QEmpty(n) /\ pc' = [pc EXCEPT ![n] = "getsnap"]
  /\ UNCHANGED <<log, acked, up, rd, wal, snapFiles, snapshotIndex, appliedIndex, stor, kv, applyQ, waiting, resCh, crashes, diedAtSnap>>

Down(n) ==   \* what a dying process loses
  /\ up' = [up EXCEPT ![n] = FALSE]
  /\ pc' = [pc EXCEPT ![n] = "down"]
  /\ rd' = [rd EXCEPT ![n] = NoRd]
  /\ snapshotIndex' = [snapshotIndex EXCEPT ![n] = 0]
  /\ appliedIndex' = [appliedIndex EXCEPT ![n] = 0]
  /\ stor' = [stor EXCEPT ![n] = NoStor]
  /\ kv' = [kv EXCEPT ![n] = EmptyKV]
  /\ applyQ' = [applyQ EXCEPT ![n] = NoQ]
  /\ waiting' = [waiting EXCEPT ![n] = {}]
  /\ resCh' = [resCh EXCEPT ![n] = {}]

\* data, err := rc.getSnapshot(); if err != nil { log.Panic(err) }  (raft.go:417-420)
GetSnap(n) ==
  /\ up[n] /\ pc[n] = "getsnap"
  /\ IF ~SnapshotSerialisesAllTypes /\ HasList(kv[n])
     THEN /\ Down(n) /\ diedAtSnap' = diedAtSnap \cup {n}
          /\ UNCHANGED <<log, acked, wal, snapFiles, crashes>>
     ELSE /\ rd' = [rd EXCEPT ![n].data = SnapOf(kv[n])]
          /\ pc' = [pc EXCEPT ![n] = "createsnap"]
          /\ UNCHANGED <<log, acked, up, wal, snapFiles, snapshotIndex, appliedIndex, stor, kv, applyQ, waiting, resCh, crashes, diedAtSnap>>

\* rc.raftStorage.CreateSnapshot(rc.appliedIndex, &rc.confState, data)  (raft.go:421)
CreateSnap(n) ==
  /\ up[n] /\ pc[n] = "createsnap"
  /\ stor' = [stor EXCEPT ![n].snap = appliedIndex[n], ![n].data = rd[n].data]
  /\ pc' = [pc EXCEPT ![n] = "snapfile"]
  /\ UNCHANGED <<log, acked, up, rd, wal, snapFiles, snapshotIndex, appliedIndex, kv, applyQ, waiting, resCh, crashes, diedAtSnap>>

\* rc.saveSnap(snap): snapshot file first, then the WAL marker (raft.go:425, 135, 138)
SnapFile(n) ==
  /\ up[n] /\ pc[n] = "snapfile"
  /\ snapFiles' = [snapFiles EXCEPT ![n] = @ \cup {[idx |-> appliedIndex[n], data |-> rd[n].data]}]
  /\ pc' = [pc EXCEPT ![n] = "snapwal"]
  /\ UNCHANGED <<log, acked, up, rd, wal, snapshotIndex, appliedIndex, stor, kv, applyQ, waiting, resCh, crashes, diedAtSnap>>

SnapWal(n) ==
  /\ up[n] /\ pc[n] = "snapwal"
  /\ wal' = [wal EXCEPT ![n].snaps = @ \cup {appliedIndex[n]}, ![n].commit = Max(@, rd[n].hc)]   \* SaveSnapshot syncs: flushes a buffered hard state
  /\ pc' = [pc EXCEPT ![n] = "compact"]
  /\ UNCHANGED <<log, acked, up, rd, snapFiles, snapshotIndex, appliedIndex, stor, kv, applyQ, waiting, resCh, crashes, diedAtSnap>>

\* rc.raftStorage.Compact(compactIndex); event `snapshot_done`; rc.snapshotIndex = rc.appliedIndex (raft.go:429-439)
Compact(n) ==
  /\ up[n] /\ pc[n] = "compact"
  /\ stor' = [stor EXCEPT ![n].compact = Max(@, IF appliedIndex[n] > CatchUp THEN appliedIndex[n] - CatchUp ELSE 1)]
  /\ snapshotIndex' = [snapshotIndex EXCEPT ![n] = appliedIndex[n]]
  /\ pc' = [pc EXCEPT ![n] = "advance"]
  /\ UNCHANGED <<log, acked, up, rd, wal, snapFiles, appliedIndex, kv, applyQ, waiting, resCh, crashes, diedAtSnap>>

\* rc.Node.Advance()  (raft.go:518; event `advance` just before)
Advance(n) ==
  /\ up[n] /\ pc[n] = "advance"
  /\ pc' = [pc EXCEPT ![n] = "idle"]
  /\ rd' = [rd EXCEPT ![n] = NoRd]
  /\ UNCHANGED <<log, acked, up, wal, snapFiles, snapshotIndex, appliedIndex, stor, kv, applyQ, waiting, resCh, crashes, diedAtSnap>>

\* kill -9 at any point (between any two stages; the apply and connection goroutines die with the process)
Crash(n) ==
  /\ up[n] /\ crashes < MaxCrashes
  /\ Down(n)
  /\ crashes' = crashes + 1
  /\ UNCHANGED <<log, acked, wal, snapFiles, diedAtSnap>>

\* startRaft -> replayWAL: loadSnapshot (newest snapshot that has a WAL marker AND a file), openWAL at it, ReadAll,
\* ApplySnapshot + SetHardState + Append into a new MemoryStorage (raft.go:237-298); serveChannels prologue:
\* snapshotIndex = appliedIndex = snapshot index (443-449); RestartNode: raft applied = snapshot index, committed =
\* hard state commit => the entries above the snapshot are published again.  The keyspace starts EMPTY; as built
\* nothing loads the snapshot data into it.
LoadableSnaps(n) == {s \in snapFiles[n] : s.idx \in wal[n].snaps}
Restart(n) ==
  /\ ~up[n]
  /\ LET L == LoadableSnaps(n)
         s == IF L = {} THEN [idx |-> 0, data |-> EmptyKV] ELSE CHOOSE x \in L : \A y \in L : y.idx <= x.idx
     IN /\ stor' = [stor EXCEPT ![n] = [snap |-> s.idx, data |-> s.data, compact |-> s.idx, last |-> Max(s.idx, wal[n].ents)]]
        /\ snapshotIndex' = [snapshotIndex EXCEPT ![n] = s.idx]
        /\ appliedIndex' = [appliedIndex EXCEPT ![n] = s.idx]
        /\ kv' = [kv EXCEPT ![n] = IF SnapshotRestoresStateMachine THEN s.data ELSE EmptyKV]
  /\ up' = [up EXCEPT ![n] = TRUE]
  /\ pc' = [pc EXCEPT ![n] = "idle"]
  /\ UNCHANGED <<log, acked, rd, wal, snapFiles, applyQ, waiting, resCh, crashes, diedAtSnap>>

Next ==
  \/ \E w \in 1..NW : Propose(w)
  \/ \E n \in Nodes : \/ TakeReady(n) \/ SaveSnapFile(n) \/ SaveSnapWal(n) \/ WalSave(n) \/ ApplySnap(n) \/ PubSnap(n)
                      \/ AppendStor(n) \/ Send(n) \/ Publish(n) \/ Apply(n) \/ Trigger(n) \/ GetSnap(n)
                      \/ CreateSnap(n) \/ SnapFile(n) \/ SnapWal(n) \/ Compact(n) \/ Advance(n)
                      \/ Crash(n) \/ Restart(n)
                      \/ \E w \in 1..NW : Reply(n, w)

Spec == Init /\ [][Next]_vars

----------------------------------------------------------------------------
\* hook event = crash gate that lands a kill exactly before the stage named by pc (raftexample/verif_event.go)
GateOf(p) == CASE p = "walsave" -> "ready" [] p = "savesnap" -> "ready" [] p = "append" -> "walsave" [] p = "send" -> "append"
               [] p = "publish" -> "send" [] p = "trigger" -> "publish" [] p = "getsnap" -> "snapshot_start"
               [] p = "advance" -> "advance" [] p = "idle" -> "kill" [] OTHER -> "kill"
\* (the stages inside saveSnap / between CreateSnapshot and Compact have no gate of their own: `snapshot_start` is
\*  the last gate before them, `snapshot_done` the first after; they are reached on real nodes only by kill -9
\*  under load.  `snapshot_done` sits between Compact and the assignment of rc.snapshotIndex, both volatile.)

----------------------------------------------------------------------------
TypeOK ==
  /\ \A n \in Nodes : /\ wal[n].ents \in 0..NW /\ wal[n].commit \in 0..NW
                      /\ appliedIndex[n] \in 0..NW /\ snapshotIndex[n] <= appliedIndex[n]
                      /\ stor[n].compact <= Max(stor[n].snap, 1)
  /\ acked \subseteq Proposed

ExecIdx(n) == IF QEmpty(n) THEN appliedIndex[n] ELSE applyQ[n].lo - 1
\* the replicated state machine is the fold of the log prefix the node has executed
StateMachineCorrect == \A n \in Nodes : up[n] => kv[n] = Eval(ExecIdx(n))

\* C08, first clause: whenever a node is up and has caught up with every acknowledged write, its keyspace reflects
\* every acknowledged write (its key holds what the log prefix says: that write or a later one)
MaxAcked == IF acked = {} THEN 0 ELSE CHOOSE i \in {Idx(w) : w \in acked} : \A j \in {Idx(w) : w \in acked} : j <= i
CaughtUp(n) == up[n] /\ QEmpty(n) /\ appliedIndex[n] >= MaxAcked
Durability == \A n \in Nodes : CaughtUp(n) => \A w \in acked : kv[n][WKeys[w]] = Eval(appliedIndex[n])[WKeys[w]]

\* an acknowledgement is only given for an entry that a quorum holds durably
AckAfterDurable == [][\A w \in acked' \ acked : \E Q \in Quorums : \A m \in Q : Persisted(m) >= Idx(w)]_vars

\* C08, last clause: taking a snapshot never takes a node down
SnapshotNeverKills == diedAtSnap = {}

\* an acknowledged write is never lost from the durable state of a quorum
AckedStaysDurable == \A w \in acked : \E Q \in Quorums : \A m \in Q : Persisted(m) >= Idx(w)
=============================================================================
