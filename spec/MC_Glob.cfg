SPECIFICATION Spec
CONSTANTS
  MaxLen = 4
  Slice = 0
  NSlices = 1
CHECK_DEADLOCK FALSE
