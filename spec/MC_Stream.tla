------------------------------ MODULE MC_Stream ------------------------------
(* Bounded instance for C18: XADD / XRANGE over one stream and one string key. *)
EXTENDS MCBase

xk == <<120>>  sk == <<115>>  nk == <<110>>
B(i) == IntToBytes(i)
CONSTANT Grid, MaxEntries
Id(ms, sq) == B(ms) \o L_dash \o B(sq)
Ids == {Id(ms, sq) : ms \in Grid, sq \in Grid}
F1 == << <<102>>, <<97>> >>                      \* f a
F2 == << <<102>>, <<97, 13, 10>>, <<>>, <<98>> >> \* f "a\r\n"  "" b

GridQuick == {0, 1, 2}
GridThorough == {0, 1, 2, 3}
StreamSetup == << <<L_set, sk, <<97>>>> >>

Bounds == {L_dash, L_plus} \cup Ids \cup {B(ms) : ms \in Grid}

StreamCmds ==
       {<<L_xadd, xk, id>> \o F1 : id \in Ids}
  \cup {<<L_xadd, xk, B(ms) \o L_dash \o L_star>> \o F1 : ms \in Grid}
  \* the end of the id space: the last id, then a partial id in the same millisecond (no next sequence number)
  \cup {<<L_xadd, xk, BigStr(Int64Max) \o L_dash \o BigStr(Int64Max)>> \o F1, <<L_xadd, xk, BigStr(Int64Max) \o L_dash \o L_star>> \o F1}
  \cup {<<L_xadd, xk, B(1)>> \o F1, <<L_xadd, xk, Id(2, 2)>> \o F2, <<L_xadd, xk, <<97>>>> \o F1, <<L_xadd, xk, Id(1, 1), <<102>>>>,
        <<L_xadd, xk, Id(1, 1), <<102>>, <<97>>, <<103>>>>, <<L_xadd, sk, Id(1, 1)>> \o F1, <<L_xadd, xk, Id(1, 1)>>,
        <<L_xadd, nk, L_nomkstream, Id(1, 1)>> \o F1, <<L_xadd, xk, L_nomkstream, Id(2, 1)>> \o F1}
  \cup {<<L_xadd, xk, L_maxlen, B(n), Id(2, 2)>> \o F1 : n \in {0, 1, 2, 3}}
  \cup {<<L_xadd, xk, L_maxlen, L_eq, B(1), Id(2, 1)>> \o F1, <<L_xadd, xk, L_maxlen, L_tilde, B(1), Id(2, 1)>> \o F1,
        <<L_xadd, xk, L_maxlen, B(-1), Id(2, 1)>> \o F1, <<L_xadd, xk, L_maxlen, <<97>>, Id(2, 1)>> \o F1, <<L_xadd, xk, L_maxlen>>,
        <<L_xadd, xk, L_maxlen, B(1), L_limit, B(10), Id(2, 1)>> \o F1, <<L_xadd, xk, L_maxlen, L_tilde, B(1), L_limit, B(10), Id(2, 1)>> \o F1}
  \cup {<<L_xadd, xk, L_minid, th, Id(2, 2)>> \o F1 : th \in {Id(0, 1), Id(1, 0), Id(1, 2), Id(2, 2), B(1), B(2)}}
  \cup {<<L_xadd, xk, L_minid, <<97>>, Id(2, 2)>> \o F1, <<L_xadd, xk, L_minid, L_eq, Id(1, 1), Id(2, 2)>> \o F1}
  \cup {<<L_xrange, xk, lo, hi>> : lo \in Bounds, hi \in Bounds}
  \cup {<<L_xrange, xk, L_dash, L_plus, L_count, B(n)>> : n \in {0, 1, 2, -1}}
  \cup {<<L_xrange, nk, L_dash, L_plus>>, <<L_xrange, sk, L_dash, L_plus>>, <<L_xrange, xk, <<97>>, L_plus>>, <<L_xrange, xk, L_dash>>,
        <<L_xrange, xk, L_dash, L_plus, <<97>>, B(1)>>, <<L_xrange, xk, L_dash, L_plus, L_count, <<97>>>>}
  \cup {<<L_exists, xk>>, <<L_exists, nk>>, <<L_type, xk>>, <<L_del, xk>>}

StreamBound(s) == \A k \in DOMAIN s.db : s.db[k].t = "stream" => Len(s.db[k].v) <= MaxEntries
=============================================================================
