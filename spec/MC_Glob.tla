------------------------------- MODULE MC_Glob -------------------------------
(***************************************************************************)
(* C17: the glob grammar as a total table.  TLC evaluates Match(p, s) for  *)
(* EVERY pattern over the metacharacter alphabet up to MaxLen and every    *)
(* subject up to length 3, and prints one row per pattern; harness/cmd/    *)
(* globcheck compares util.PattenMatch and the KEYS command with each row. *)
(* The table is split into NSlices independent TLC runs (Slice = 0..).     *)
(* Meta-properties of the grammar itself are checked on the table too.     *)
(***************************************************************************)
EXTENDS Glob, Json, SequencesExt

CONSTANTS MaxLen, Slice, NSlices

Alpha == {97, 98, 42, 63, 91, 93, 94, 45, 92}          \* a b * ? [ ] ^ - \
SubjAlpha == {97, 98, 45, 93, 92}                      \* a b - ] \  (a key may contain the escape character itself)
Subjects == SetToSeq(UNION {[1..n -> SubjAlpha] : n \in 0..3})
Patterns == UNION {[1..n -> Alpha] : n \in 0..MaxLen}
Mine(p) == (SeqSum(p) + Len(p)) % NSlices = Slice

Row(p) == [p |-> p, st |-> PatternStatus(p), r |-> [i \in 1..Len(Subjects) |-> Match(p, Subjects[i])]]

ASSUME PrintT("SUBJECTS " \o ToJson([s |-> Subjects]))
ASSUME \A p \in Patterns : Mine(p) => PrintT("ROW " \o ToJson(Row(p)))

\* ---- meta-checks of the specification itself ----
Escaped(s) == Flat([i \in 1..Len(s) |-> <<92, s[i]>>])
ASSUME Slice # 0 \/ \A i \in 1..Len(Subjects) :
         LET s == Subjects[i] IN
           /\ Match(<<42>>, s) = "T"                                   \* * matches everything
           /\ Match(Escaped(s), s) = "T"                               \* every string matches its own escaping
           /\ ((\A j \in 1..Len(s) : s[j] # 92) => Match(s \o <<42>>, s) \in {"T", "U"})   \* trailing * matches the empty run (s free of escapes)
           /\ (Len(s) = 1 => Match(<<63>>, s) = "T")                   \* ? = exactly one byte
           /\ (Len(s) # 1 => Match(<<63>>, s) = "F")
           /\ Match(<<91, 97>>, s) = "F"                                \* unterminated class matches nothing
           /\ Match(<<97, 92>>, s) = "F"                                \* trailing backslash matches nothing

VARIABLE dummy
Init == dummy = 0
Next == UNCHANGED dummy
Spec == Init /\ [][Next]_dummy
=============================================================================
