SPECIFICATION Spec
CONSTANTS
  n1 = n1
  n2 = n2
  n3 = n3
  Nodes <- N3
  NW = 2
  WKeys <- KeysCol2
  WKinds <- KindsCol2
  WVia <- Via12
  SnapCount = 1
  CatchUp = 0
  MaxCrashes = 3
  SnapshotRestoresStateMachine = TRUE
  SnapshotSerialisesAllTypes = FALSE
INVARIANTS TypeOK Durability
ACTION_CONSTRAINT PORSerial
