SPECIFICATION Spec
CONSTANTS
  T0 = 1000
  MaxTicks = 3
  Groups = {"str", "strdeep", "list"}
VIEW View
ACTION_CONSTRAINT Emit
INVARIANT NotBefore
INVARIANT DeadlinesOnLiveKeys
PROPERTY NoTtlNeverExpires
PROPERTY GoneAfter
PROPERTY ExpireOptions
PROPERTY PersistClears
PROPERTY OverwriteClears
PROPERTY KeepTtlKeeps
CHECK_DEADLOCK FALSE
