SPECIFICATION Spec
CONSTANTS
  Mode = "mc"
  MaxLen = 5
  Slice = 0
  NSlices = 1
  Deep = TRUE
  Streams <- MCStreams
INVARIANTS
  ChunkingIndependence
  OutIsPrefix
PROPERTY
  NothingAfterStop
CHECK_DEADLOCK FALSE
