------------------------------- MODULE KsMatch -------------------------------
(***************************************************************************)
(* ReplyMatch(x, g): does the observed canonical reply g match the reply   *)
(* pattern x produced by the model?  (The same rules are implemented in    *)
(* harness/canon for the edge walker.)                                     *)
(***************************************************************************)
EXTENDS Keyspace

CountIn(q, x) == Cardinality({j \in 1..Len(q) : q[j] = x})
BagEq(xs, gs) == Len(xs) = Len(gs) /\ \A i \in 1..Len(xs) : CountIn(xs, xs[i]) = CountIn(gs, xs[i])
PairUp(q) == [i \in 1..(Len(q) \div 2) |-> <<q[2*i - 1], q[2*i]>>]
Core(g) == Rp(g.k, g.v, g.e, <<>>)
IntOf(r) == ParseSmall(r.v).n

\* zwin pattern (KsZset.tla RZWin)
ZWinMatch(x, g) ==
  LET ms == StrsOf(x.a[1]) scs == StrsOf(x.a[2]) stA == IntOf(x.a[3]) cnt == IntOf(x.a[4])
      rev == IntOf(x.a[5]) = 1  ws == IntOf(x.a[6]) = 1
      n == Len(ms)
      PosIn(m) == CHOOSE i \in 1..n : ms[i] = m
      LoOf(m) == (CHOOSE i \in 1..n : scs[i] = scs[PosIn(m)] /\ \A j \in 1..(i - 1) : scs[j] # scs[PosIn(m)]) - 1
      HiOf(m) == (CHOOSE i \in 1..n : scs[i] = scs[PosIn(m)] /\ \A j \in (i + 1)..n : scs[j] # scs[PosIn(m)]) - 1
  IN AllStr(g)
     /\ LET flat == StrsOf(g)
            mem0 == IF ws THEN [i \in 1..(Len(flat) \div 2) |-> flat[2 * i - 1]] ELSE flat
            sco0 == IF ws THEN [i \in 1..(Len(flat) \div 2) |-> flat[2 * i]] ELSE <<>>
            mem == IF rev THEN Rev(mem0) ELSE mem0
            sco == IF rev THEN Rev(sco0) ELSE sco0
        IN (~ws \/ Len(flat) % 2 = 0) /\ Len(mem) = cnt /\ Distinct(mem)
           /\ \A j \in 1..Len(mem) :
                /\ mem[j] \in RangeOf(ms)
                /\ LoOf(mem[j]) <= stA + j - 1 /\ stA + j - 1 <= HiOf(mem[j])
                /\ (~ws \/ sco[j] = scs[PosIn(mem[j])])

RECURSIVE ReplyMatch(_, _)
ReplyMatch(x, g) ==
  CASE x.k = "any"    -> TRUE
    [] x.k = "uarr"   -> g.k = "arr" /\ BagEq(x.a, [i \in 1..Len(g.a) |-> Core(g.a[i])])
    [] x.k = "upairs" -> g.k = "arr" /\ Len(g.a) % 2 = 0
                         /\ BagEq(PairUp(x.a), PairUp([i \in 1..Len(g.a) |-> Core(g.a[i])]))
    [] x.k = "arr"    -> g.k = "arr" /\ Len(g.a) = Len(x.a) /\ \A i \in 1..Len(x.a) : ReplyMatch(x.a[i], g.a[i])
    [] x.k = "irange" -> g.k = "int" /\ LET p == ParseSmall(g.v) IN p.ok /\ p.n >= IntOf(x.a[1]) /\ p.n <= IntOf(x.a[2])
    [] x.k = "zwin"   -> g.k = "arr" /\ ZWinMatch(x, g)
    [] OTHER          -> g.k = x.k /\ g.v = x.v /\ g.e = x.e
=============================================================================
