----------------------------- MODULE RespParser -----------------------------
(***************************************************************************)
(* C02: RESP request decoding.                                             *)
(*                                                                         *)
(*  (a) Enc(argv)       the wire form of a command (array of bulk strings) *)
(*  (b) DecodeAll(s)    the reference decoder: a total function from byte  *)
(*                      streams to [cmds, term, why]                       *)
(*  (c) the parser as a state machine reading the stream in chunks of     *)
(*      arbitrary sizes (Read(k)) and consuming one line / one bulk body   *)
(*      at a time (Consume)                                                *)
(*  (d) ChunkingIndependence, NothingAfterStop, OutIsPrefix (checked by    *)
(*      TLC on MC_Resp) and Exactness (ASSUMEs of MC_RespExact).           *)
(*                                                                         *)
(* Bytes are naturals 0..255.  Classification of a top-level item:         *)
(*   cmd         *n CRLF (n >= 1) followed by n bulks $len CRLF payload CRLF*)
(*   malformed   a definite protocol error: a line terminated by LF that is*)
(*               not preceded by CR; a length field that is not a decimal  *)
(*               integer or is < -1; a bulk payload not followed by CRLF.  *)
(*               Decoding stops, nothing may be delivered afterwards and   *)
(*               the connection must be told (error) or closed.            *)
(*   unspec      well-formed RESP that is not a command (simple string,    *)
(*               error, integer, inline text, empty line, null / empty     *)
(*               array, top-level bulk, array holding a non-bulk, a nested *)
(*               array or a nil bulk, a length written with '+', leading   *)
(*               zeros or as "-0").  Implementations differ (ignore, error,*)
(*               close), so decoding stops and only liveness is required.  *)
(*   incomplete  the stream ends inside the item.                          *)
(*   eof         the stream ends between items.                            *)
(* `why` refines `term` into the branch label used in failure signatures.  *)
(***************************************************************************)
EXTENDS Bytes

R_CR == 13
R_LF == 10
R_STAR == 42
R_DOLLAR == 36
R_MINUS == 45
R_PLUS == 43
R_COLON == 58
CRLF == <<R_CR, R_LF>>

(* ------------------------------ (a) encoder ---------------------------- *)
EncBulk(b) == <<R_DOLLAR>> \o IntToBytes(Len(b)) \o CRLF \o b \o CRLF
Enc(argv) == <<R_STAR>> \o IntToBytes(Len(argv)) \o CRLF \o Flat([i \in 1..Len(argv) |-> EncBulk(argv[i])])
EncAll(cmds) == Flat([i \in 1..Len(cmds) |-> Enc(cmds[i])])

(* ------------------------- (b) reference decoder ----------------------- *)
\* A declared length larger than anything a test stream can hold.  Length fields are read as
\* digit sequences (TLC integers are 32-bit): 2^31, 2^63-1 and 2^63 all become Huge.
Huge == 1000000000

\* f = the bytes between the type byte and CRLF.
\*   bad     not a decimal integer            neg   an integer < -1
\*   null    -1                               n     an integer >= 0 (value in .n, capped at Huge)
\*   corner  an integer in a spelling on which implementations differ (+5, 007, -0)
LenField(f) ==
  LET neg  == Len(f) >= 1 /\ f[1] = R_MINUS
      plus == Len(f) >= 1 /\ f[1] = R_PLUS
      body == IF neg \/ plus THEN Tail(f) ELSE f
  IN IF body = <<>> \/ ~AllDigits(body) THEN [k |-> "bad", n |-> 0]
     ELSE LET dg == Dig(body)
              nd == StripLead(dg)
          IN IF plus \/ nd # dg \/ (neg /\ nd = <<0>>) THEN [k |-> "corner", n |-> 0]
             ELSE IF neg THEN (IF nd = <<1>> THEN [k |-> "null", n |-> 0] ELSE [k |-> "neg", n |-> 0])
             ELSE IF Len(nd) > 9 THEN [k |-> "n", n |-> Huge]
             ELSE [k |-> "n", n |-> DigitsVal(nd)]

\* index of the first LF at or after p, 0 if there is none
RECURSIVE FindLF(_, _)
FindLF(s, p) == IF p > Len(s) THEN 0 ELSE IF s[p] = R_LF THEN p ELSE FindLF(s, p + 1)

\* The line starting at p.  k = "inc" (no LF before the end of the stream), "barelf" (LF not preceded by
\* CR), "ok" (t = type byte, 0 for the empty line; f = field; next = index after the LF).
Line(s, p) ==
  LET q == FindLF(s, p)
  IN IF q = 0 THEN [k |-> "inc", t |-> 0, f |-> <<>>, next |-> p]
     ELSE IF q = p THEN [k |-> "barelf", t |-> 0, f |-> <<>>, next |-> q + 1]
     ELSE IF s[q - 1] # R_CR THEN [k |-> "barelf", t |-> 0, f |-> <<>>, next |-> q + 1]
     ELSE IF q = p + 1 THEN [k |-> "ok", t |-> 0, f |-> <<>>, next |-> q + 1]
     ELSE [k |-> "ok", t |-> s[p], f |-> SubSeq(s, p + 1, q - 2), next |-> q + 1]

Stop(term, why) == [k |-> term, why |-> why, v |-> <<>>, argv |-> <<>>, next |-> 0]

\* The bulk whose header line ln (type $) has just been read.
BulkAt(s, ln) ==
  LET lf == LenField(ln.f)
  IN IF lf.k = "bad" THEN Stop("malformed", "bulk_len_not_int")
     ELSE IF lf.k = "neg" THEN Stop("malformed", "bulk_len_negative")
     ELSE IF lf.k = "corner" THEN Stop("unspec", "len_spelling")
     ELSE IF lf.k = "null" THEN [k |-> "nil", why |-> "", v |-> <<>>, argv |-> <<>>, next |-> ln.next]
     ELSE IF ln.next + lf.n + 1 > Len(s) THEN Stop("incomplete", IF lf.n = Huge THEN "bulk_huge_len" ELSE "bulk_body")
     ELSE IF s[ln.next + lf.n] # R_CR \/ s[ln.next + lf.n + 1] # R_LF THEN Stop("malformed", "bulk_terminator")
     ELSE [k |-> "bulk", why |-> "", v |-> SubSeq(s, ln.next, ln.next + lf.n - 1), argv |-> <<>>, next |-> ln.next + lf.n + 2]

\* n more elements of the array being read, starting at p; acc = arguments so far
RECURSIVE Elems(_, _, _, _)
Elems(s, p, n, acc) ==
  IF n = 0 THEN [k |-> "cmd", why |-> "", v |-> <<>>, argv |-> acc, next |-> p]
  ELSE IF p > Len(s) THEN Stop("incomplete", IF n >= Huge - 16 THEN "array_huge_len" ELSE "array_elems")
  ELSE LET ln == Line(s, p) IN
    IF ln.k = "inc" THEN Stop("incomplete", "elem_line")
    ELSE IF ln.k = "barelf" THEN Stop("malformed", "bare_lf_in_array")
    ELSE IF ln.t = R_STAR THEN
         (IF LenField(ln.f).k \in {"bad", "neg"} THEN Stop("malformed", "nested_array_len") ELSE Stop("unspec", "nested_array"))
    ELSE IF ln.t # R_DOLLAR THEN Stop("unspec", "nonbulk_in_array")
    ELSE LET b == BulkAt(s, ln) IN
      IF b.k = "bulk" THEN Elems(s, b.next, n - 1, Append(acc, b.v))
      ELSE IF b.k = "nil" THEN Stop("unspec", "nil_in_array")
      ELSE b

Item(s, p) ==
  IF p > Len(s) THEN Stop("eof", "eof")
  ELSE LET ln == Line(s, p) IN
    IF ln.k = "inc" THEN Stop("incomplete", "line")
    ELSE IF ln.k = "barelf" THEN Stop("malformed", "bare_lf")
    ELSE IF ln.t = R_STAR THEN
         LET lf == LenField(ln.f)
         IN IF lf.k = "bad" THEN Stop("malformed", "array_len_not_int")
            ELSE IF lf.k = "neg" THEN Stop("malformed", "array_len_negative")
            ELSE IF lf.k = "corner" THEN Stop("unspec", "len_spelling")
            ELSE IF lf.k = "null" THEN Stop("unspec", "null_array")
            ELSE IF lf.n = 0 THEN Stop("unspec", "empty_array")
            ELSE Elems(s, ln.next, lf.n, <<>>)
    ELSE IF ln.t = R_DOLLAR THEN
         LET b == BulkAt(s, ln)
         IN IF b.k = "bulk" THEN Stop("unspec", "top_level_bulk")
            ELSE IF b.k = "nil" THEN Stop("unspec", "top_level_nil")
            ELSE b
    ELSE IF ln.t = 0 THEN Stop("unspec", "empty_line")
    ELSE IF ln.t = R_PLUS THEN Stop("unspec", "simple_string")
    ELSE IF ln.t = R_MINUS THEN Stop("unspec", "error_value")
    ELSE IF ln.t = R_COLON THEN Stop("unspec", "integer_value")
    ELSE Stop("unspec", "inline_text")

RECURSIVE DecodeFrom(_, _, _)
DecodeFrom(s, p, acc) ==
  LET it == Item(s, p)
  IN IF it.k = "cmd" THEN DecodeFrom(s, it.next, Append(acc, it.argv))
     ELSE [cmds |-> acc, term |-> it.k, why |-> it.why]

DecodeAll(s) == DecodeFrom(s, 1, <<>>)

PrefixOf(a, b) == Len(a) <= Len(b) /\ SubSeq(b, 1, Len(a)) = a

(* --------------------- (c) the parser as a state machine ---------------- *)
CONSTANT Streams          \* the byte streams of the instance

VARIABLES
  stream,   \* what the client writes on this connection (chosen in Init, never changes)
  expect,   \* DecodeAll(stream), evaluated once
  wire,     \* written by the client, not yet returned by a read
  buf,      \* read, not yet consumed by the parser
  ps,       \* [n: elements still missing (0 = between items), acc: arguments so far,
            \*  want: length of the pending bulk body (-1 = none), top: the pending bulk is top-level]
  out,      \* commands delivered to the connection loop, in order
  st        \* "run" | "malformed" | "unspec"  (decoding stops in the last two)

vars == <<stream, expect, wire, buf, ps, out, st>>

Idle == [n |-> 0, acc |-> <<>>, want |-> -1, top |-> FALSE]

Init ==
  /\ stream \in Streams
  /\ expect = DecodeAll(stream)
  /\ wire = stream
  /\ buf = <<>>
  /\ ps = Idle
  /\ out = <<>>
  /\ st = "run"

\* the schedule quantifier: a read returns any non-empty prefix of what is on the wire
Read(k) ==
  /\ st = "run"
  /\ k \in 1..Len(wire)
  /\ buf' = buf \o SubSeq(wire, 1, k)
  /\ wire' = SubSeq(wire, k + 1, Len(wire))
  /\ UNCHANGED <<stream, expect, ps, out, st>>

LineReady == ps.want < 0 /\ FindLF(buf, 1) # 0
BodyReady == ps.want >= 0 /\ Len(buf) >= ps.want + 2
CanConsume == st = "run" /\ (LineReady \/ BodyReady)

Halt(s) == /\ st' = s
           /\ UNCHANGED <<ps, out>>

TakeLine ==
  /\ st = "run" /\ LineReady
  /\ LET ln == Line(buf, 1) IN
     /\ buf' = SubSeq(buf, ln.next, Len(buf))
     /\ IF ln.k = "barelf" THEN Halt("malformed")
        ELSE IF ln.t = R_STAR THEN
             LET lf == LenField(ln.f) IN
               IF lf.k \in {"bad", "neg"} THEN Halt("malformed")
               ELSE IF ps.n > 0 \/ lf.k \in {"corner", "null"} \/ lf.n = 0 THEN Halt("unspec")
               ELSE /\ ps' = [Idle EXCEPT !.n = lf.n]
                    /\ UNCHANGED <<out, st>>
        ELSE IF ln.t = R_DOLLAR THEN
             LET lf == LenField(ln.f) IN
               IF lf.k \in {"bad", "neg"} THEN Halt("malformed")
               ELSE IF lf.k \in {"corner", "null"} THEN Halt("unspec")
               ELSE /\ ps' = [ps EXCEPT !.want = lf.n, !.top = (ps.n = 0)]
                    /\ UNCHANGED <<out, st>>
        ELSE Halt("unspec")
  /\ UNCHANGED <<stream, expect, wire>>

TakeBody ==
  /\ st = "run" /\ BodyReady
  /\ LET w == ps.want IN
     /\ buf' = SubSeq(buf, w + 3, Len(buf))
     /\ IF buf[w + 1] # R_CR \/ buf[w + 2] # R_LF THEN Halt("malformed")
        ELSE IF ps.top THEN Halt("unspec")
        ELSE LET acc == Append(ps.acc, SubSeq(buf, 1, w)) IN
             IF ps.n = 1 THEN /\ out' = Append(out, acc)
                              /\ ps' = Idle
                              /\ st' = st
             ELSE /\ ps' = [ps EXCEPT !.n = ps.n - 1, !.acc = acc, !.want = -1]
                  /\ UNCHANGED <<out, st>>
  /\ UNCHANGED <<stream, expect, wire>>

Consume == TakeLine \/ TakeBody

Next == (\E k \in 1..Len(wire) : Read(k)) \/ Consume

Spec == Init /\ [][Next]_vars

(* ------------------------------ (d) properties ------------------------- *)
\* the parser has nothing more to do: every byte has been read (or decoding has stopped) and no step is enabled
Quiescent == (wire = <<>> \/ st # "run") /\ ~CanConsume

TermOf == IF st # "run" THEN st
          ELSE IF buf = <<>> /\ ps = Idle THEN "eof" ELSE "incomplete"

\* Whatever the Read schedule was, the commands delivered and the way decoding ended are those of the
\* reference decoder applied to the whole stream.
ChunkingIndependence == Quiescent => (out = expect.cmds /\ TermOf = expect.term)

\* At every moment what has been delivered is a prefix of the reference result (nothing invented, nothing early).
OutIsPrefix == PrefixOf(out, expect.cmds)

\* Once decoding has stopped nothing is delivered any more.
NothingAfterStop == [][st # "run" => (out' = out /\ st' = st)]_vars

=============================================================================
