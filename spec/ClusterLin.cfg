SPECIFICATION Spec
CONSTANTS
  Nodes = {1, 2, 3}
  Clients = {1, 2}
  MaxOps = 3
  AllowRandom = FALSE
  MaxCrashes = 1
INVARIANT ReplicaAgreement
INVARIANT AckedExactlyOnce
INVARIANT OwnReply
INVARIANT RealTime
CHECK_DEADLOCK FALSE
