------------------------------- MODULE Sched -------------------------------
(***************************************************************************)
(* C05 / C13 / C18 (B1 for schedules): preemption-bounded interleavings of *)
(* two or three commands at the granularity of the implementation's        *)
(* synchronisation points, to be replayed on the real code by a            *)
(* deterministic scheduler (harness/cmd/sched).                            *)
(*                                                                         *)
(* A programme is what ONE command does, as recorded on the real code by   *)
(* the hooks H1 (stripe lock requests, memdb/dblock.go) and H2 (keyspace   *)
(* map accesses, memdb/concurrentmap.go) when the command runs alone:      *)
(*     [op |-> "start"]                    the command is about to begin   *)
(*     [op |-> "acq", kind |-> "R"|"W", pos |-> stripe]   lock request     *)
(*     [op |-> "map"]                      Get/Set/Delete/... on the map   *)
(*     [op |-> "rel", kind, pos]           lock release                    *)
(*     [op |-> "reply"]                    the executor has returned; the  *)
(*                                         reply is serialised afterwards  *)
(*                                         (as the connection handler does)*)
(* "start", "acq", "map", "reply" are GATES: the hook can hold the goroutine     *)
(* there. A release is not a gate (the hook fires after the unlock).       *)
(* One model step of thread t = the scheduler opens t's current gate and   *)
(* t runs to its next gate (or returns), performing the releases on the    *)
(* way.  A gate "acq" can only be opened when sync.RWMutex would let the   *)
(* request through at once (the scheduler never lets a goroutine park      *)
(* inside Lock(): a parked writer would also block new readers, and the    *)
(* scheduler could no longer tell who runs).                               *)
(*                                                                         *)
(* The lock state is that of Locks.tla without the announce phase.         *)
(* Schedules are enumerated up to MaxPre preemptions (a switch away from   *)
(* a thread that could have continued), the CHESS bound: most atomicity    *)
(* bugs need one or two.  Every complete schedule is printed once:         *)
(*     "SCHED {tup, sched}"   sched = the thread chosen at every step      *)
(* and a state in which nobody can move while somebody is unfinished is    *)
(* printed as "STUCK {tup, sched}" (a lock-order deadlock of the observed  *)
(* programmes: the replay decides whether the real code deadlocks).        *)
(*                                                                         *)
(* The replay interprets a schedule by its PREEMPTION POINTS (run t for n  *)
(* gates, then u for m gates, ...; the last segment of every thread runs   *)
(* to completion), so it remains meaningful when a command takes another   *)
(* path than it did alone - which is exactly what happens in the           *)
(* interesting interleavings.                                              *)
(***************************************************************************)
EXTENDS Integers, Sequences, FiniteSets, TLC, Json

CONSTANTS Tuples,     \* sequence of tuples; a tuple is a sequence of programmes (one per thread)
          MaxPre,     \* preemption bound for tuples of two threads
          MaxPre3,    \* preemption bound for tuples of three or more threads
          NStripes

VARIABLES tup,    \* index of the tuple being scheduled
          pc,     \* pc[t]: index of t's current gate in its programme (Len+1 = returned)
          wm,     \* wm[s]: thread holding stripe s for writing, 0 = none
          rd,     \* rd[s][t]: read locks held
          cur,    \* thread that made the last step (0 initially)
          pre,    \* preemptions so far
          hist,   \* the schedule so far
          done    \* the terminal state has been printed

vars == <<tup, pc, wm, rd, cur, pre, hist, done>>

Threads == 1..Len(Tuples[tup])
Prog(t) == Tuples[tup][t]
Unfinished(t) == pc[t] <= Len(Prog(t))
Gate(t) == Prog(t)[pc[t]]
Stripes == 1..NStripes
Readers(s) == LET Sum[n \in 0..Len(Tuples[tup])] == IF n = 0 THEN 0 ELSE Sum[n - 1] + rd[s][n] IN Sum[Len(Tuples[tup])]
Bound == IF Len(Tuples[tup]) <= 2 THEN MaxPre ELSE MaxPre3

\* would sync.RWMutex let the request through at once?
Enabled(t) ==
  /\ Unfinished(t)
  /\ \/ Gate(t).op \in {"start", "map", "reply"}
     \/ Gate(t).op = "acq" /\ Gate(t).kind = "R" /\ wm[Gate(t).pos] = 0
     \/ Gate(t).op = "acq" /\ Gate(t).kind = "W" /\ wm[Gate(t).pos] = 0 /\ Readers(Gate(t).pos) = 0

\* lock state and pc of t after the releases between gate i-1 and the next gate
RECURSIVE RunOn(_, _, _, _)
RunOn(t, i, w, r) ==
  IF i <= Len(Prog(t)) /\ Prog(t)[i].op = "rel"
  THEN LET s == Prog(t)[i].pos IN
       IF Prog(t)[i].kind = "W"
       THEN RunOn(t, i + 1, IF w[s] = t THEN [w EXCEPT ![s] = 0] ELSE w, r)
       ELSE RunOn(t, i + 1, w, IF r[s][t] > 0 THEN [r EXCEPT ![s][t] = @ - 1] ELSE r)
  ELSE [pc |-> i, wm |-> w, rd |-> r]

Init == /\ tup \in 1..Len(Tuples)
        /\ pc = [t \in Threads |-> 1]
        /\ wm = [s \in Stripes |-> 0]
        /\ rd = [s \in Stripes |-> [t \in Threads |-> 0]]
        /\ cur = 0 /\ pre = 0 /\ hist = <<>> /\ done = FALSE

Step(t) ==
  /\ ~done /\ Enabled(t)
  /\ LET cost == IF cur # 0 /\ cur # t /\ Enabled(cur) THEN 1 ELSE 0
         g == Gate(t)
         w1 == IF g.op = "acq" /\ g.kind = "W" THEN [wm EXCEPT ![g.pos] = t] ELSE wm
         r1 == IF g.op = "acq" /\ g.kind = "R" THEN [rd EXCEPT ![g.pos][t] = @ + 1] ELSE rd
         a == RunOn(t, pc[t] + 1, w1, r1)
     IN /\ pre + cost <= Bound
        /\ pre' = pre + cost
        /\ pc' = [pc EXCEPT ![t] = a.pc] /\ wm' = a.wm /\ rd' = a.rd
  /\ cur' = t /\ hist' = Append(hist, t)
  /\ UNCHANGED <<tup, done>>

AllReturned == \A t \in Threads : ~Unfinished(t)
Stuck == (\E t \in Threads : Unfinished(t)) /\ (\A t \in Threads : ~Enabled(t))

Report == /\ ~done /\ (AllReturned \/ Stuck)
          /\ PrintT((IF Stuck THEN "STUCK " ELSE "SCHED ") \o ToJson([tup |-> tup, sched |-> hist]))
          /\ done' = TRUE
          /\ UNCHANGED <<tup, pc, wm, rd, cur, pre, hist>>

Next == (\E t \in Threads : Step(t)) \/ Report
Spec == Init /\ [][Next]_vars

\* ---- what TLC checks on the scheduling model itself ----
TypeOK == /\ pre \in 0..Bound
          /\ \A s \in Stripes : wm[s] \in 0..Len(Tuples[tup])
          /\ \A s \in Stripes : \A t \in Threads : rd[s][t] >= 0
\* a stripe held for writing has no reader, and nobody holds two modes (what the replay's own accounting must see)
Exclusion == \A s \in Stripes : wm[s] # 0 => Readers(s) = 0
\* the bound never strands a run: as long as somebody could move, some step is allowed (continuing costs nothing)
NoStrand == (~done /\ \E t \in Threads : Enabled(t)) => \E t \in Threads : ENABLED Step(t)
\* a thread that has returned holds nothing if its programme releases what it acquires
=============================================================================
