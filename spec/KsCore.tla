------------------------------- MODULE KsCore -------------------------------
(***************************************************************************)
(* Core of the sequential Redis keyspace reference model.                  *)
(*                                                                         *)
(* State  s == [db  |-> function  key -> value   (DOMAIN = live keys),     *)
(*              exp |-> function  key -> [lo, hi] (keys with a deadline)]  *)
(* Time is whole unix seconds.  A deadline is a window [lo, hi]: the key   *)
(* is certainly visible while now < lo, certainly gone once now > hi, and  *)
(* may expire at any moment while lo <= now <= hi (one-second granularity  *)
(* of the property; once gone it stays gone).  EX/EXAT/EXPIRE give lo = hi.*)
(*                                                                         *)
(* A command is a function  (s, now, argv, hint) -> sequence of outcomes   *)
(* [r |-> reply, s |-> next state, b |-> branch label].  More than one      *)
(* outcome = documented ambiguity (DESIGN.md 2.4) or randomness.           *)
(* `hint` is the reply observed on the implementation (trace validation)   *)
(* or NoHint (model checking: enumerate); it only selects among legal       *)
(* outcomes of random commands.                                            *)
(***************************************************************************)
EXTENDS Bytes, SequencesExt, FiniteSetsExt

\* ---- values ----
StrV(b)    == [t |-> "string", v |-> b]
ListV(q)   == [t |-> "list",   v |-> q]
HashV(f)   == [t |-> "hash",   v |-> f]
SetV(S)    == [t |-> "set",    v |-> S]
ZsetV(f)   == [t |-> "zset",   v |-> f]
StreamV(es, last) == [t |-> "stream", v |-> es, last |-> last]

EmptyState == [db |-> <<>>, exp |-> <<>>]

FPut(f, k, v) == [x \in (DOMAIN f) \cup {k} |-> IF x = k THEN v ELSE f[x]]
FDel(f, K)    == [x \in (DOMAIN f) \ K |-> f[x]]

Has(s, k)      == k \in DOMAIN s.db
HasT(s, k, t)  == Has(s, k) /\ s.db[k].t = t
Val(s, k)      == s.db[k].v
HasExp(s, k)   == k \in DOMAIN s.exp

\* write a value, keeping any deadline
PutKeep(s, k, v)  == [db |-> FPut(s.db, k, v), exp |-> s.exp]
\* write a value, clearing any deadline
PutClear(s, k, v) == [db |-> FPut(s.db, k, v), exp |-> FDel(s.exp, {k})]
DelKeys(s, K)     == [db |-> FDel(s.db, K), exp |-> FDel(s.exp, K)]
SetExp(s, k, lo, hi) == [db |-> s.db, exp |-> FPut(s.exp, k, [lo |-> lo, hi |-> hi])]
ClearExp(s, k)    == [db |-> s.db, exp |-> FDel(s.exp, {k})]

\* keys whose deadline has certainly passed are dropped before every command
Purge(s, now) == DelKeys(s, {k \in DOMAIN s.exp : s.exp[k].hi < now})
\* keys that may or may not have expired at `now`
Maybe(s, now) == {k \in DOMAIN s.exp : s.exp[k].lo <= now /\ now <= s.exp[k].hi}

\* ---- replies ----
Rp(k, v, e, a) == [k |-> k, v |-> v, e |-> e, a |-> a]
RInt(n)    == Rp("int", IntToBytes(n), "", <<>>)
RBig(x)    == Rp("int", BigStr(x), "", <<>>)
RStr(b)    == Rp("str", b, "", <<>>)
RNil       == Rp("nil", <<>>, "", <<>>)
RErr       == Rp("err", <<>>, "OTHER", <<>>)
RWrong     == Rp("err", <<>>, "WRONGTYPE", <<>>)
RArr(a)    == Rp("arr", <<>>, "", a)
RUArr(a)   == Rp("uarr", <<>>, "", a)     \* elements in any order
RUPairs(a) == Rp("upairs", <<>>, "", a)   \* flat f1 v1 f2 v2 ..., pairs in any order
RIntIn(lo, hi) == Rp("irange", <<>>, "", <<RInt(lo), RInt(hi)>>)   \* any integer in lo..hi
RAny       == Rp("any", <<>>, "", <<>>)
ROK        == RStr(L_OK)
NoHint     == Rp("nohint", <<>>, "", <<>>)
RStrs(bs)  == RArr([i \in 1..Len(bs) |-> RStr(bs[i])])
RUStrs(bs) == RUArr([i \in 1..Len(bs) |-> RStr(bs[i])])

IsErr(r) == r.k = "err"






\* ---- outcomes ----
Out(r, s, b) == [r |-> r, s |-> s, b |-> b]
One(r, s, b) == << Out(r, s, b) >>
Two(o1, o2)  == o1 \o o2

\* ---- common argument helpers ----
\* is the byte string w (already lower-case literal) equal to arg ignoring ASCII case?
IsWord(arg, w) == Lower(arg) = w
=============================================================================
