SPECIFICATION Spec
CONSTANTS
  Mode = "mc"
  MaxLen = 4
  Slice = 0
  NSlices = 1
  Deep = FALSE
  Streams <- MCStreams
INVARIANTS
  ChunkingIndependence
  OutIsPrefix
PROPERTY
  NothingAfterStop
CHECK_DEADLOCK FALSE
