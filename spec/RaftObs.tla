------------------------------ MODULE RaftObs ------------------------------
(***************************************************************************)
(* C15 property monitor.  Binds to the ndjson trace written by raftsim     *)
(* (one line per simulated event, carrying the projection of EVERY real    *)
(* raft.RawNode after the event) and evaluates the clauses of C15 on every *)
(* step of every real run:                                                 *)
(*   ElectionSafety          <= 1 leader per term (history variable)       *)
(*   LogMatching             same (index,term) => identical prefixes       *)
(*   StateMachineSafety      no two nodes differ at an index <= both commits*)
(*   CommittedNeverRewritten the global committed prefix (history variable *)
(*                           gc) never changes; nodes lose committed       *)
(*                           entries only by compaction                    *)
(*   LeaderCompleteness      a node becoming leader holds gc               *)
(*   HardStateMonotonic      persisted term/commit never decrease, vote    *)
(*                           changes only with the term; the one allowed   *)
(*                           ambiguity: across a crash the commit-only     *)
(*                           unsynced HardState may fall back, but not     *)
(*                           below the last synced commit (DESIGN 2.4)     *)
(* A failed clause prints one line  MISMATCH {json}  (first failure of     *)
(* each clause per run) and the monitor keeps going; the POSTCONDITION     *)
(* requires that the whole trace was consumed.  The variables are fully    *)
(* determined by the trace: there is exactly one behaviour.                *)
(*                                                                         *)
(* Trace line: [l, ev, node, ok, n: <<node>>...]; node =                   *)
(*  [id, up, term, vote, role in {"F","C","P","L","D"}, lead, commit,      *)
(*   applied, hs:[term,vote,commit] (persisted), hss (last synced),        *)
(*   first, last, log: <<[i,t,p,y]>>, conf, snapi, snapt, pr]              *)
(***************************************************************************)
EXTENDS Integers, Sequences, FiniteSets, TLC, Json, IOUtils

Trace == ndJsonDeserialize(IOEnv.TRACE)
NLines == Len(Trace)

VARIABLES l,        \* number of trace lines consumed
          leaders,  \* history: set of <<term, id>> ever observed as leader in this run
          gc,       \* history: global committed prefix, gc[idx] = [t, p, y] ([t |-> -1..] = not observed)
          gct,      \* history: gct[idx] = term in which idx became committed (min term of the nodes whose commit first covered it)
          seen      \* clauses already reported in this run
vars == <<l, leaders, gc, gct, seen>>

Max(S) == CHOOSE x \in S : \A y \in S : y <= x
Min2(a, b) == IF a < b THEN a ELSE b
Max2(a, b) == IF a > b THEN a ELSE b
Min(S) == CHOOSE x \in S : \A y \in S : y >= x

Nodes(k) == Trace[k].n
Idx(k) == 1..Len(Nodes(k))
Has(nd, idx) == idx >= nd.first /\ idx <= nd.last
E(nd, idx) == LET e == nd.log[idx - nd.first + 1] IN [t |-> e.t, p |-> e.p, y |-> e.y]
Unknown == [t |-> -1, p |-> -1, y |-> -1]
(* The commit index the entries in the node's STORAGE answer for.  While a Ready is outstanding (held) raft has stepped    *)
(* further than what the application persisted: nd.commit is raft's in-memory commit index, which then refers to raft's    *)
(* in-memory log (unstable entries, or a snapshot just restored from a MsgSnap and not yet saved), whereas nd.log is what  *)
(* was saved up to the outstanding Ready together with nd.hs.  E.g. a held follower whose storage still carries a stale    *)
(* uncommitted suffix receives a snapshot: commit jumps to the snapshot index in memory, the suffix in storage is          *)
(* replaced only when the next Ready is saved.  Until the release the storage is judged by the persisted commit index.     *)
CommitS(nd) == IF nd.held THEN Min2(nd.commit, nd.hs.commit) ELSE nd.commit
NoCt == 1000000

(* ----------------------------- clauses -------------------------------- *)

NewLeaders(k) == {<<Nodes(k)[j].term, Nodes(k)[j].id>> : j \in {j \in Idx(k) : Nodes(k)[j].up /\ Nodes(k)[j].role = "L"}}

ElectionSafetyBad(k, ldrs) ==
    {<<x, y>> \in NewLeaders(k) \X (ldrs \cup NewLeaders(k)) : x[1] = y[1] /\ x[2] # y[2]}

WellFormedBad(k) ==
    {Nodes(k)[j].id : j \in {j \in Idx(k) :
        LET nd == Nodes(k)[j] IN
          ~ ( /\ nd.first = nd.snapi + 1
              /\ nd.snapi <= nd.commit
              \* while a Ready is outstanding (held) raft has stepped further than what the application persisted
              /\ (nd.held \/ nd.commit <= nd.last)
              /\ nd.applied <= nd.commit
              /\ Len(nd.log) = nd.last - nd.first + 1
              /\ \A x \in 1..Len(nd.log) : nd.log[x].i = nd.first + x - 1
              /\ \A x \in 1..(Len(nd.log) - 1) : nd.log[x].t <= nd.log[x + 1].t
              /\ (nd.up /\ ~nd.held => nd.hs.term = nd.term /\ nd.hs.vote = nd.vote /\ nd.hs.commit = nd.commit) )}}

EqEnt(na, nb, idx) == LET x == na.log[idx - na.first + 1]
                          y == nb.log[idx - nb.first + 1]
                      IN x.t = y.t /\ x.p = y.p /\ x.y = y.y
EqTerm(na, nb, idx) == na.log[idx - na.first + 1].t = nb.log[idx - nb.first + 1].t
Pairs(k) == {w \in Idx(k) \X Idx(k) : w[1] < w[2]}

(* violated iff some common index carries the same term in both logs although the logs differ at or below it *)
LogMatchingBad(k) ==
    {w \in Pairs(k) :
        LET na == Nodes(k)[w[1]]
            nb == Nodes(k)[w[2]]
            rng == Max2(na.first, nb.first)..Min2(na.last, nb.last)
            D == {i \in rng : ~EqEnt(na, nb, i)}
            T == {i \in rng : EqTerm(na, nb, i)}
        IN D # {} /\ T # {} /\ (CHOOSE d \in D : \A d2 \in D : d <= d2) <= Max(T)}

StateMachineSafetyBad(k) ==
    {w \in Pairs(k) :
        LET na == Nodes(k)[w[1]]
            nb == Nodes(k)[w[2]]
        IN \E i \in Max2(na.first, nb.first)..Min2(Min2(CommitS(na), CommitS(nb)), Min2(na.last, nb.last)) : ~EqEnt(na, nb, i)}

MaxCommit(k) == Max({CommitS(Nodes(k)[j]) : j \in Idx(k)} \cup {0})

(* extend the committed history with what the nodes of line k have committed *)
Extend(k, g) ==
    [idx \in 1..Max2(Len(g), MaxCommit(k)) |->
        IF idx <= Len(g) /\ g[idx] # Unknown THEN g[idx]
        ELSE LET hs == {j \in Idx(k) : CommitS(Nodes(k)[j]) >= idx /\ Has(Nodes(k)[j], idx)}
             IN IF hs = {} THEN Unknown ELSE E(Nodes(k)[CHOOSE j \in hs : \A j2 \in hs : j <= j2], idx)]

ExtendCt(k, g, ct) ==
    [idx \in 1..Max2(Len(g), MaxCommit(k)) |->
        IF idx <= Len(ct) THEN ct[idx]
        ELSE Min({Nodes(k)[j].term : j \in {j \in Idx(k) : CommitS(Nodes(k)[j]) >= idx}})]

NeverRewrittenBad(k, g) ==
    {j \in Idx(k) :
        LET nd == Nodes(k)[j]
        IN \E idx \in nd.first..Min2(Min2(CommitS(nd), nd.last), Len(g)) : g[idx] # Unknown /\ E(nd, idx) # g[idx]}

(* "never removes": an entry a node held at the previous line that equals the globally committed entry at its index *)
(* is still held (or compacted away) now                                                                            *)
RemovedBad(k, g) ==
    IF k = 1 \/ Trace[k].ev = "reset" \/ Len(Nodes(k)) # Len(Nodes(k - 1)) THEN {}
    ELSE {j \in Idx(k) :
            LET p == Nodes(k - 1)[j]
                q == Nodes(k)[j]
            IN \E idx \in p.first..Min2(p.last, Len(g)) :
                  /\ g[idx] # Unknown /\ E(p, idx) = g[idx]
                  /\ idx >= q.first
                  /\ ~(Has(q, idx) /\ E(q, idx) = g[idx])}

(* a node that is leader of term T now and was not known as leader of T before must hold every entry of gc (as of *)
(* the previous line) that became committed in a term < T                                                        *)
LeaderCompletenessBad(k, ldrs, g, ct) ==
    {j \in {j \in Idx(k) : Nodes(k)[j].up /\ Nodes(k)[j].role = "L" /\ <<Nodes(k)[j].term, Nodes(k)[j].id>> \notin ldrs} :
        LET nd == Nodes(k)[j]
        IN \E idx \in 1..Len(g) :
              /\ g[idx] # Unknown
              /\ ct[idx] < nd.term
              /\ ~ ( \/ idx < nd.snapi
                     \/ idx = nd.snapi /\ nd.snapt = g[idx].t
                     \/ Has(nd, idx) /\ E(nd, idx) = g[idx] )}

HardStateBad(k) ==
    IF k = 1 \/ Trace[k].ev = "reset" \/ Len(Nodes(k)) # Len(Nodes(k - 1)) THEN {}
    ELSE {Nodes(k)[j].id : j \in {j \in Idx(k) :
            LET p == Nodes(k - 1)[j]
                q == Nodes(k)[j]
                crashed == Trace[k].ev = "crash" /\ Trace[k].node = q.id
            IN ~ ( /\ q.hs.term >= p.hs.term
                   /\ (q.hs.term = p.hs.term /\ p.hs.vote # 0 => q.hs.vote = p.hs.vote)
                   /\ (q.hs.commit >= p.hs.commit \/ (crashed /\ q.hs.commit >= p.hss.commit))
                   \* the state the node acts upon (volatile when up, persisted when down); what a node stepped to while
                   \* its Ready was outstanding (held) was neither persisted nor sent, so a crash may take it back
                   /\ \/ crashed /\ p.held
                      \/ /\ q.term >= p.term
                         /\ (q.term = p.term /\ p.vote # 0 => q.vote = p.vote)
                         /\ (q.commit >= p.commit \/ (crashed /\ q.commit >= p.hss.commit)) )}}

(* ----------------------------- behaviour ------------------------------ *)

Init == l = 0 /\ leaders = {} /\ gc = <<>> /\ gct = <<>> /\ seen = {} /\ TLCSet(1, 0) /\ TLCSet(2, 0)

Next ==
    /\ l < NLines
    /\ LET k == l + 1
           rst == Trace[k].ev = "reset"
           ldrs == IF rst THEN {} ELSE leaders
           g0 == IF rst THEN <<>> ELSE gc
           ct0 == IF rst THEN <<>> ELSE gct
           sn == IF rst THEN {} ELSE seen
           g1 == Extend(k, g0)
           es == ElectionSafetyBad(k, ldrs)
           wf == WellFormedBad(k)
           lm == LogMatchingBad(k)
           sm == StateMachineSafetyBad(k)
           nr == NeverRewrittenBad(k, g1) \cup RemovedBad(k, g0)
           lc == LeaderCompletenessBad(k, ldrs, g0, ct0)
           hm == HardStateBad(k)
           failed == {x \in {<<"ElectionSafety", es = {}>>, <<"WellFormed", wf = {}>>, <<"LogMatching", lm = {}>>,
                             <<"StateMachineSafety", sm = {}>>, <<"CommittedNeverRewritten", nr = {}>>,
                             <<"LeaderCompleteness", lc = {}>>, <<"HardStateMonotonic", hm = {}>>} : ~x[2]}
       IN /\ l' = k
          /\ leaders' = ldrs \cup NewLeaders(k)
          /\ gc' = g1
          /\ gct' = ExtendCt(k, g0, ct0)
          /\ seen' = sn \cup {x[1] : x \in failed}
          /\ TLCSet(1, k)
          /\ LET R(name, set) == IF set = {} \/ name \in sn THEN TRUE
                                 ELSE /\ TLCSet(2, TLCGet(2) + 1)
                                      /\ PrintT("MISMATCH " \o ToJson([inv |-> name, line |-> k, ev |-> Trace[k].ev,
                                                  node |-> Trace[k].node, witness |-> CHOOSE w \in set : TRUE,
                                                  count |-> Cardinality(set)]))
             IN /\ R("ElectionSafety", es)
                /\ R("WellFormed", wf)
                /\ R("LogMatching", lm)
                /\ R("StateMachineSafety", sm)
                /\ R("CommittedNeverRewritten", nr)
                /\ R("LeaderCompleteness", lc)
                /\ R("HardStateMonotonic", hm)

Spec == Init /\ [][Next]_vars

(* the whole trace was consumed (no silent stop); number of mismatches is printed *)
Post == /\ PrintT("MONITOR-DONE " \o ToJson([lines |-> NLines, consumed |-> TLCGet(1), mismatches |-> TLCGet(2)]))
        /\ TLCGet(1) = NLines
=============================================================================
