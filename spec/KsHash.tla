------------------------------- MODULE KsHash -------------------------------
(***************************************************************************)
(* Hash commands from the Redis command reference.  A hash value is a      *)
(* function field -> bytes with a NON-EMPTY domain; the empty byte string  *)
(* is a legal value and a legal field.                                     *)
(* Code under test: /repo/memdb/hash.go, /repo/memdb/hash_struct.go.       *)
(***************************************************************************)
EXTENDS KsList

HashOf(s, k) == IF Has(s, k) THEN Val(s, k) ELSE <<>>
PutHash(s, k, f) == IF DOMAIN f = {} THEN DelKeys(s, {k}) ELSE PutKeep(s, k, HashV(f))
HFields(f) == SortBytes(DOMAIN f)

RECURSIVE HSetApply(_, _, _)
HSetApply(f, a, i) == IF i > Len(a) THEN f ELSE HSetApply(FPut(f, a[i], a[i + 1]), a, i + 2)

CmdHSet(s, now, a) ==
  IF Len(a) < 4 \/ Len(a) % 2 # 0 THEN One(RErr, s, "hset.arity")
  ELSE IF WrongFor(s, a[2], "hash") THEN One(RWrong, s, "hset.wrongtype")
  ELSE LET f0 == HashOf(s, a[2])
           f1 == HSetApply(f0, a, 3)
           added == Cardinality(DOMAIN f1) - Cardinality(DOMAIN f0)
       IN One(RInt(added), PutHash(s, a[2], f1),
              "hset" \o (IF Has(s, a[2]) THEN ".present" ELSE ".new") \o (IF added = 0 THEN ".update" ELSE IF added < (Len(a) - 2) \div 2 THEN ".mixed" ELSE ".added"))

CmdHSetNx(s, now, a) ==
  IF Len(a) # 4 THEN One(RErr, s, "hsetnx.arity")
  ELSE IF WrongFor(s, a[2], "hash") THEN One(RWrong, s, "hsetnx.wrongtype")
  ELSE LET f0 == HashOf(s, a[2]) IN
       IF a[3] \in DOMAIN f0 THEN One(RInt(0), s, "hsetnx.exists")
       ELSE One(RInt(1), PutHash(s, a[2], FPut(f0, a[3], a[4])), IF Has(s, a[2]) THEN "hsetnx.added" ELSE "hsetnx.new")

CmdHGet(s, now, a) ==
  IF Len(a) # 3 THEN One(RErr, s, "hget.arity")
  ELSE IF WrongFor(s, a[2], "hash") THEN One(RWrong, s, "hget.wrongtype")
  ELSE LET f == HashOf(s, a[2]) IN
       IF a[3] \in DOMAIN f THEN One(RStr(f[a[3]]), s, IF f[a[3]] = <<>> THEN "hget.emptyvalue" ELSE "hget.present")
       ELSE One(RNil, s, IF Has(s, a[2]) THEN "hget.nofield" ELSE "hget.missing")

CmdHMGet(s, now, a) ==
  IF Len(a) < 3 THEN One(RErr, s, "hmget.arity")
  ELSE IF WrongFor(s, a[2], "hash") THEN One(RWrong, s, "hmget.wrongtype")
  ELSE LET f == HashOf(s, a[2]) IN
       One(RArr([i \in 1..(Len(a) - 2) |-> IF a[i + 2] \in DOMAIN f THEN RStr(f[a[i + 2]]) ELSE RNil]), s,
           IF Has(s, a[2]) THEN "hmget.present" ELSE "hmget.missing")

CmdHGetAll(s, now, a) ==
  IF Len(a) # 2 THEN One(RErr, s, "hgetall.arity")
  ELSE IF WrongFor(s, a[2], "hash") THEN One(RWrong, s, "hgetall.wrongtype")
  ELSE LET f == HashOf(s, a[2]) fs == HFields(f) IN
       One(RUPairs(Flat([i \in 1..Len(fs) |-> <<RStr(fs[i]), RStr(f[fs[i]])>>])), s,
           IF Has(s, a[2]) THEN "hgetall.present" ELSE "hgetall.missing")

CmdHKeys(s, now, a) ==
  IF Len(a) # 2 THEN One(RErr, s, "hkeys.arity")
  ELSE IF WrongFor(s, a[2], "hash") THEN One(RWrong, s, "hkeys.wrongtype")
  ELSE One(RUStrs(HFields(HashOf(s, a[2]))), s, IF Has(s, a[2]) THEN "hkeys.present" ELSE "hkeys.missing")

CmdHVals(s, now, a) ==
  IF Len(a) # 2 THEN One(RErr, s, "hvals.arity")
  ELSE IF WrongFor(s, a[2], "hash") THEN One(RWrong, s, "hvals.wrongtype")
  ELSE LET f == HashOf(s, a[2]) fs == HFields(f) IN
       One(RUStrs([i \in 1..Len(fs) |-> f[fs[i]]]), s, IF Has(s, a[2]) THEN "hvals.present" ELSE "hvals.missing")

CmdHLen(s, now, a) ==
  IF Len(a) # 2 THEN One(RErr, s, "hlen.arity")
  ELSE IF WrongFor(s, a[2], "hash") THEN One(RWrong, s, "hlen.wrongtype")
  ELSE One(RInt(Cardinality(DOMAIN HashOf(s, a[2]))), s, IF Has(s, a[2]) THEN "hlen.present" ELSE "hlen.missing")

CmdHExists(s, now, a) ==
  IF Len(a) # 3 THEN One(RErr, s, "hexists.arity")
  ELSE IF WrongFor(s, a[2], "hash") THEN One(RWrong, s, "hexists.wrongtype")
  ELSE LET f == HashOf(s, a[2]) IN
       One(RInt(IF a[3] \in DOMAIN f THEN 1 ELSE 0), s,
           IF a[3] \in DOMAIN f THEN (IF f[a[3]] = <<>> THEN "hexists.emptyvalue" ELSE "hexists.yes") ELSE "hexists.no")

CmdHStrLen(s, now, a) ==
  IF Len(a) # 3 THEN One(RErr, s, "hstrlen.arity")
  ELSE IF WrongFor(s, a[2], "hash") THEN One(RWrong, s, "hstrlen.wrongtype")
  ELSE LET f == HashOf(s, a[2]) IN
       One(RInt(IF a[3] \in DOMAIN f THEN Len(f[a[3]]) ELSE 0), s, IF a[3] \in DOMAIN f THEN "hstrlen.present" ELSE "hstrlen.absent")

CmdHDel(s, now, a) ==
  IF Len(a) < 3 THEN One(RErr, s, "hdel.arity")
  ELSE IF WrongFor(s, a[2], "hash") THEN One(RWrong, s, "hdel.wrongtype")
  ELSE LET f == HashOf(s, a[2])
           D == {a[i] : i \in 3..Len(a)} \cap DOMAIN f
           f1 == FDel(f, D)
       IN One(RInt(Cardinality(D)), IF Has(s, a[2]) THEN PutHash(s, a[2], f1) ELSE s,
              IF ~Has(s, a[2]) THEN "hdel.missing" ELSE IF D = {} THEN "hdel.none" ELSE IF DOMAIN f1 = {} THEN "hdel.emptied" ELSE "hdel.some")

CmdHIncrBy(s, now, a) ==
  IF Len(a) # 4 THEN One(RErr, s, "hincrby.arity")
  ELSE LET p == ParseBig(a[4]) IN
    IF WrongFor(s, a[2], "hash") THEN
      \* error precedence is not fixed by the reference: wrong type AND invalid increment -> either error
      WithCorner(~p.ok \/ p.corner, One(RWrong, s, "hincrby.wrongtype"), s, "hincrby.wrongtype_alt")
    ELSE IF ~p.ok THEN One(RErr, s, "hincrby.argnotint")
    ELSE LET f == HashOf(s, a[2])
             cur == IF a[3] \in DOMAIN f THEN ParseBig(f[a[3]]) ELSE [ok |-> TRUE, corner |-> FALSE, n |-> BigZero]
         IN IF ~cur.ok THEN One(RErr, s, "hincrby.notint")
            ELSE LET r == BigAdd(cur.n, p.n) IN
                 IF ~InInt64(r) THEN One(RErr, s, "hincrby.overflow")
                 ELSE WithCorner(p.corner \/ cur.corner,
                        One(RBig(r), PutHash(s, a[2], FPut(f, a[3], BigStr(r))),
                            IF a[3] \in DOMAIN f THEN "hincrby.present" ELSE IF Has(s, a[2]) THEN "hincrby.newfield" ELSE "hincrby.newkey"),
                        s, "hincrby.corner")

CmdHIncrByFloat(s, now, a) ==
  IF Len(a) # 4 THEN One(RErr, s, "hincrbyfloat.arity")
  ELSE LET p == ParseDec(a[4]) IN
    IF WrongFor(s, a[2], "hash") THEN
      WithCorner(~p.ok \/ p.corner, One(RWrong, s, "hincrbyfloat.wrongtype"), s, "hincrbyfloat.wrongtype_alt")
    ELSE IF Len(a[4]) > 15 \/ (a[3] \in DOMAIN HashOf(s, a[2]) /\ Len(HashOf(s, a[2])[a[3]]) > 15) THEN One(RAny, s, "hincrbyfloat.unmodelled_precision")
    ELSE IF ~p.ok THEN One(RErr, s, "hincrbyfloat.argnotfloat")
    ELSE LET f == HashOf(s, a[2])
             cur == IF a[3] \in DOMAIN f THEN ParseDec(f[a[3]]) ELSE ParseDec(L_zero)
         IN IF ~cur.ok THEN One(RErr, s, "hincrbyfloat.notfloat")
            ELSE LET r == DecStr(DecAdd(cur, p)) IN
                 WithCorner(p.corner \/ cur.corner,
                   One(RStr(r), PutHash(s, a[2], FPut(f, a[3], r)),
                       IF a[3] \in DOMAIN f THEN "hincrbyfloat.present" ELSE "hincrbyfloat.new"),
                   s, "hincrbyfloat.corner")

(* HRANDFIELD key [count [WITHVALUES]] - random: legal replies are characterised.
   count > 0: distinct fields, min(count, |h|) of them; count < 0: |count| fields, repeats allowed.
   With a hint (observed reply) the outcome is the hint when legal, otherwise a canonical legal reply
   (so a mismatch is reported against it).  Without a hint (model checking): canonical reply only,
   flagged "random" so the walker applies the legality rule in Go (LegalRandFields). *)
StrsOf(g) == [i \in 1..Len(g.a) |-> g.a[i].v]
AllStr(g) == g.k = "arr" /\ \A i \in 1..Len(g.a) : g.a[i].k = "str"
Distinct(q) == \A i, j \in 1..Len(q) : i # j => q[i] # q[j]

CmdHRandField(s, now, a, h) ==
  IF Len(a) < 2 \/ Len(a) > 4 THEN One(RErr, s, "hrandfield.arity")
  ELSE IF Len(a) = 4 /\ Lower(a[4]) # L_withvalues THEN One(RErr, s, "hrandfield.syntax")
  ELSE IF WrongFor(s, a[2], "hash") THEN
    \* wrong type AND invalid count -> either error (precedence not fixed by the reference)
    WithCorner(Len(a) >= 3 /\ (~ParseSmall(a[3]).ok \/ ParseSmall(a[3]).corner),
               One(RWrong, s, "hrandfield.wrongtype"), s, "hrandfield.wrongtype_alt")
  ELSE LET f == HashOf(s, a[2])
           fs == HFields(f)
           wv == Len(a) = 4
  IN IF Len(a) = 2 THEN
       (IF fs = <<>> THEN One(RNil, s, "hrandfield.missing")
        ELSE IF h.k = "nohint" THEN [i \in 1..Len(fs) |-> Out(RStr(fs[i]), s, "hrandfield.one")]
        ELSE IF h.k = "str" /\ h.v \in DOMAIN f THEN One(RStr(h.v), s, "hrandfield.one")
        ELSE One(RStr(fs[1]), s, "hrandfield.one"))
     ELSE LET p == ParseSmall(a[3]) IN
       IF ~p.ok THEN One(RErr, s, "hrandfield.notint")
       ELSE IF fs = <<>> THEN One(RArr(<<>>), s, "hrandfield.count.missing")
       ELSE LET n == IF p.n >= 0 THEN Min2(p.n, Len(fs)) ELSE 0 - p.n
                canon == IF p.n >= 0 THEN Take(fs, n) ELSE Repeat(fs[1], n)
                canonR == IF wv THEN RUPairs(Flat([i \in 1..Len(canon) |-> <<RStr(canon[i]), RStr(f[canon[i]])>>]))
                          ELSE RUStrs(canon)
                hs == IF AllStr(h) THEN StrsOf(h) ELSE <<>>
                hf == IF wv THEN [i \in 1..(Len(hs) \div 2) |-> hs[2 * i - 1]] ELSE hs
                legal == AllStr(h) /\ (~wv \/ Len(hs) % 2 = 0) /\ Len(hf) = n
                         /\ (\A i \in 1..Len(hf) : hf[i] \in DOMAIN f)
                         /\ (p.n < 0 \/ Distinct(hf))
                         /\ (~wv \/ \A i \in 1..Len(hf) : hs[2 * i] = f[hf[i]])
                lbl == "hrandfield" \o (IF p.n >= 0 THEN ".count_pos" ELSE ".count_neg") \o (IF wv THEN ".withvalues" ELSE "")
                mk(q) == IF wv THEN RUPairs(Flat([i \in 1..Len(q) |-> <<RStr(q[i]), RStr(f[q[i]])>>])) ELSE RUStrs(q)
                allq == IF p.n >= 0 THEN LET ss == SetToSeq(kSubset(n, DOMAIN f)) IN [i \in 1..Len(ss) |-> SortBytes(ss[i])]
                        ELSE SetToSeq([1..n -> DOMAIN f])
            IN IF h.k = "nohint" THEN [i \in 1..Len(allq) |-> Out(mk(allq[i]), s, lbl)]
               ELSE IF legal THEN One(RArr([i \in 1..Len(hs) |-> RStr(hs[i])]), s, lbl) ELSE One(canonR, s, lbl)
=============================================================================
