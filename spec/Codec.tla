-------------------------------- MODULE Codec --------------------------------
(***************************************************************************)
(* C14: the replicated log must carry commands without altering them.      *)
(* Two codecs between the connection handler (HandleCluster) and the apply *)
(* loop (handleClusterCommits):                                            *)
(*  AsBuilt  : ToStringCommand, strings.Join(args, " "), JSON string inside *)
(*             RaftProposal.Data; apply side json.Unmarshal,               *)
(*             strings.Split(.., " ")  (the pinned commit)                 *)
(*  Faithful : RaftProposal.Args [][]byte, which encoding/json renders as  *)
(*             base64 strings - the identity on byte strings               *)
(* Property: Decode(Encode(argv)) = argv for every argument vector.        *)
(* TLC enumerates every argv of <= MaxArgs arguments of length <= MaxLen   *)
(* over an alphabet with space, CR, LF, a non-UTF-8 byte and both letter   *)
(* cases; each vector is also pushed through the REAL proposal             *)
(* marshal/unmarshal + dispatch path by harness/cmd/codeccheck.            *)
(***************************************************************************)
EXTENDS Bytes, Json

CONSTANTS MaxArgs, MaxLen, Slice, NSlices

Alpha == {97, 65, 32, 13, 10, 255}                \* a A SP CR LF 0xFF
Vals == UNION {[1..n -> Alpha] : n \in 0..MaxLen}
Argvs == UNION {[1..n -> Vals] : n \in 1..MaxArgs}

\* ---- as-built codec ----
RECURSIVE JoinSp(_)
JoinSp(a) == IF Len(a) = 1 THEN a[1] ELSE a[1] \o <<32>> \o JoinSp(Tail(a))
\* encoding/json replaces every byte that is not valid UTF-8 by U+FFFD (EF BF BD); within Alpha only 0xFF is invalid
JsonStr(b) == Flat([i \in 1..Len(b) |-> IF b[i] >= 128 THEN <<239, 191, 189>> ELSE <<b[i]>>])
RECURSIVE SplitSp(_, _)
SplitSp(b, cur) == IF b = <<>> THEN <<cur>>
                   ELSE IF Head(b) = 32 THEN <<cur>> \o SplitSp(Tail(b), <<>>)
                   ELSE SplitSp(Tail(b), Append(cur, Head(b)))
AsBuilt(a) == SplitSp(JsonStr(JoinSp(a)), <<>>)

\* ---- faithful codec ----
Faithful(a) == a

RoundTripFaithful == \A a \in Argvs : Faithful(a) = a
\* classes of argument vectors the as-built codec corrupts (documented lead; not an assertion)
Corrupted(a) == AsBuilt(a) # a
ASSUME RoundTripFaithful
ASSUME \E a \in Argvs : Corrupted(a)                       \* the model of the old codec is not vacuous
ASSUME \A a \in Argvs : (\A i \in 1..Len(a) : a[i] # <<>> /\ \A j \in 1..Len(a[i]) : a[i][j] \in {97, 65, 13, 10}) => ~Corrupted(a)

Mine(a) == (Len(a) + SeqSum(Flat(a))) % NSlices = Slice
ASSUME \A a \in Argvs : Mine(a) => PrintT("VEC " \o ToJson([a |-> a, asbuilt_ok |-> ~Corrupted(a)]))

VARIABLE dummy
Init == dummy = 0
Next == UNCHANGED dummy
Spec == Init /\ [][Next]_dummy
=============================================================================
