SPECIFICATION Spec
CONSTANTS
  MaxTerm = 2
  MaxBatch = 2
  Alias = TRUE
  Families <- TwoLeaders
INVARIANTS TypeOK NoPanic CommittedIsLeaders AppliedIsLeaders AckIsDurable AckedNotLost Quiescent
PROPERTIES ReadyImmutable
VIEW View
CHECK_DEADLOCK FALSE
