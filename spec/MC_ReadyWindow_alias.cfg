SPECIFICATION Spec
CONSTANTS
  MaxTerm = 2
  MaxBatch = 2
  WithSnap = TRUE
  Alias = TRUE
  Families <- QuickTwo
INVARIANTS TypeOK NoPanic CommittedIsLeaders AppliedIsLeaders AckIsDurable AckedNotLost Quiescent
PROPERTIES ReadyImmutable
VIEW View
CHECK_DEADLOCK FALSE
