SPECIFICATION Spec
CONSTANTS
  Conns = {1, 2, 3}
  Chans = {1, 2}
  MaxMsgs = 3
INVARIANT ExactlyOnceInOrderToSubscribers
PROPERTY CountIsFanout
CHECK_DEADLOCK FALSE
