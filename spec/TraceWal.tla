------------------------------ MODULE TraceWal ------------------------------
(***************************************************************************)
(* C16, binding B2 (implementation -> specification).  walsim records, for *)
(* every reader call it makes on a mutilated copy of a REAL wal directory, *)
(* one JSON object:                                                        *)
(*   id      scenario id and reader                                        *)
(*   kind    "crash" (the image is a legal crash image: recovery must      *)
(*           succeed) or "corrupt" (a byte was flipped: error is allowed)  *)
(*   hist    the logical records handed to Save/SaveSnapshot, in order     *)
(*   durable number of leading records covered by a completed sync         *)
(*   from    index of the snapshot the log was opened at                   *)
(*   ok      the reader (after Repair when it asked for it) succeeded      *)
(*   hs, ents what it returned                                             *)
(* TLC evaluates the contract of Wal.tla (RecoveredIsPrefix, written here  *)
(* over values instead of record ids) on every line.                       *)
(***************************************************************************)
EXTENDS Integers, Sequences, FiniteSets, TLC, Json, IOUtils

Trace == ndJsonDeserialize(IOEnv.TRACE)

VARIABLE l
Min(a, b) == IF a < b THEN a ELSE b

Ent(r) == [i |-> r.i, t |-> r.t, s |-> r.s, n |-> r.n]

\* what a correct reader returns for the first k records of h (superseded entries dropped)
RECURSIVE Fold(_, _)
Fold(h, k) ==
  IF k = 0 THEN [ents |-> <<>>, hs |-> <<0, 0, 0>>]
  ELSE LET p == Fold(h, k - 1)
           r == h[k]
       IN CASE r.k = "entry" -> [p EXCEPT !.ents = Append(SubSeq(@, 1, Min(r.i - 1, Len(@))), Ent(r))]
            [] r.k = "state" -> [p EXCEPT !.hs = <<r.t, r.v, r.c>>]
            [] OTHER -> p

Above(ents, from) == IF Len(ents) > from THEN SubSeq(ents, from + 1, Len(ents)) ELSE <<>>

Matches(e, k) == LET f == Fold(e.hist, k)
                 IN f.hs = e.hs /\ Above(f.ents, e.from) = [j \in 1..Len(e.ents) |-> Ent(e.ents[j])]

Accept(e) ==
  IF e.kind = "crash"
  THEN e.ok /\ \E k \in e.durable..Len(e.hist) : Matches(e, k)          \* RecoveredIsPrefix + TornTailRepairable
  ELSE e.ok => \E k \in 0..Len(e.hist) : Matches(e, k)                  \* CorruptionNeverAccepted

Init == l = 0
Next == /\ l < Len(Trace)
        /\ l' = l + 1
        /\ (Accept(Trace[l']) \/ PrintT("REJECT " \o Trace[l'].id))
Spec == Init /\ [][Next]_l
=============================================================================
