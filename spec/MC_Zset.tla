------------------------------- MODULE MC_Zset -------------------------------
(* Bounded instances for C12.
   "Opts": 3 members, scores 1/2/inf, every option combination, ties, all rank windows.
   "Deep": up to 7 members with distinct or tied scores, single-pair ZADD/ZREM - AVL rotations and
           rebalancing after deletions in trees of height up to 4; structural invariants are
           evaluated by the walker on the implementation's tree after every edge.            *)
EXTENDS MCBase

zk == <<122>>  sk == <<115>>
B(i) == IntToBytes(i)
M(i) == <<96 + i>>                       \* members "a", "b", ...
Sc1 == <<49>>  Sc2 == <<50>>  ScI == L_inf  ScH == <<49, 46, 53>>
U(w) == [i \in 1..Len(w) |-> IF w[i] >= 97 /\ w[i] <= 122 THEN w[i] - 32 ELSE w[i]]

ZsetSetup == << <<L_set, sk, <<97>>>> >>

AddOptSets == { <<>>, <<L_nx>>, <<L_xx>>, <<L_gt>>, <<L_lt>>, <<L_ch>>, <<L_xx, L_ch>>, <<L_gt, L_ch>>, <<L_lt, L_ch>>, <<L_xx, L_gt>>,
             <<L_incr>>, <<L_xx, L_incr>>, <<L_nx, L_incr>>, <<L_gt, L_incr>>, <<U(L_nx)>>, <<U(L_ch)>>, <<U(L_incr)>> }
ZIdx == {-4, -2, -1, 0, 1, 2, 3}
RangeOptSets == { <<>>, <<L_rev>>, <<L_withscores>>, <<L_rev, L_withscores>>, <<U(L_withscores)>> }

ZOptsCmds ==
       {<<L_zadd, zk>> \o o \o <<sc, m>> : o \in AddOptSets, sc \in {Sc1, Sc2}, m \in {M(1), M(2), M(3)}}
  \cup {<<L_zadd, zk, ScI, M(3)>>, <<L_zadd, zk, L_minus_inf, M(3)>>, <<L_zadd, zk, L_incr, L_minus_inf, M(3)>>, <<L_zadd, zk, ScH, M(2)>>}
  \cup {<<L_zadd, zk, Sc1, M(1), Sc2, M(2)>>, <<L_zadd, zk, L_ch, Sc2, M(1), Sc2, M(2)>>, <<L_zadd, zk, Sc1, M(1), Sc2, M(1)>>,
        <<L_zadd, zk, L_nx, L_xx, Sc1, M(1)>>, <<L_zadd, zk, L_gt, L_lt, Sc1, M(1)>>, <<L_zadd, zk, L_nx, L_gt, Sc1, M(1)>>,
        <<L_zadd, zk, L_incr, Sc1, M(1), Sc2, M(2)>>, <<L_zadd, zk, Sc1>>, <<L_zadd, zk, Sc1, M(1), Sc2>>, <<L_zadd, zk, <<120>>, M(1)>>,
        <<L_zadd, zk, Sc1, M(1), <<120>>, M(2)>>, <<L_zadd, sk, Sc1, M(1)>>, <<L_zadd, zk>>}
  \cup {<<L_zrem, zk, m>> : m \in {M(1), M(2), M(3), M(4)}} \cup {<<L_zrem, zk, M(1), M(2)>>, <<L_zrem, zk, M(1), M(1)>>, <<L_zrem, sk, M(1)>>, <<L_zrem, zk>>}
  \cup {<<L_zrange, zk, B(i), B(j)>> \o o : i \in ZIdx, j \in ZIdx, o \in RangeOptSets}
  \cup {<<L_zrange, sk, B(0), B(-1)>>, <<L_zrange, zk, <<120>>, B(0)>>, <<L_zrange, zk, B(0)>>}
  \cup {<<L_zrank, zk, m>> : m \in {M(1), M(2), M(3), M(4)}} \cup {<<L_zrank, sk, M(1)>>, <<L_zrank, zk>>}
  \cup {<<L_exists, zk>>, <<L_type, zk>>, <<L_del, zk>>}

ScoreOK(p) == p.inf # 0 \/ (p.x.sc <= 1 /\ DecLess(p.x, [neg |-> FALSE, d |-> <<4>>, sc |-> 0]) /\ ~p.x.neg)
ZOptsBound(s) == \A k \in DOMAIN s.db : s.db[k].t = "zset" => \A m \in DOMAIN s.db[k].v : ScoreOK(s.db[k].v[m])

\* ---- deep instance ----
CONSTANT DeepN
DeepScores(i) == {IntToBytes(i), IntToBytes(i) \o <<46, 53>>, IntToBytes((i % 3) + 1)}   \* own score, own + 0.5, a tie class
ZDeepCmds ==
       UNION {{<<L_zadd, zk, sc, M(i)>> : sc \in {IntToBytes(i), IntToBytes((i % 3) + 1)}} : i \in 1..DeepN}
  \cup {<<L_zrem, zk, M(i)>> : i \in 1..DeepN}
  \cup {<<L_zrank, zk, M(i)>> : i \in {1, DeepN}}
  \cup {<<L_zrange, zk, B(0), B(-1), L_withscores>>, <<L_zrange, zk, B(1), B(-2)>>, <<L_zrange, zk, B(0), B(2), L_rev>>}
ZDeepBound(s) == TRUE
=============================================================================
