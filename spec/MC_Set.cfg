SPECIFICATION Spec
CONSTANTS
  Cmds <- SetCmds
  SetupCmds <- SetSetup
  Bound <- SetBound
  T0 = 1000
  Members <- MembersQuick
VIEW View
ACTION_CONSTRAINT Emit
INVARIANT TypeOK
PROPERTY ErrorsChangeNothing
CHECK_DEADLOCK FALSE
