------------------------------ MODULE KsString ------------------------------
(***************************************************************************)
(* String commands, transcribed from the Redis command reference.          *)
(* Code under test: /repo/memdb/string.go (setString .. appendString).     *)
(***************************************************************************)
EXTENDS KsCore

AltErr(outs, s, b) == outs \o One(RErr, s, b)
WithCorner(corner, outs, s, b) == IF corner THEN AltErr(outs, s, b) ELSE outs

\* -------------------------------------------------------------------- SET
SetOpts0 == [ok |-> TRUE, nx |-> FALSE, xx |-> FALSE, get |-> FALSE, keep |-> FALSE, mode |-> "none", tv |-> <<>>]
RECURSIVE SetOpts(_, _, _)
SetOpts(a, i, acc) ==
  IF i > Len(a) THEN acc
  ELSE LET w == Lower(a[i]) IN
    IF w = L_nx THEN SetOpts(a, i + 1, [acc EXCEPT !.nx = TRUE])
    ELSE IF w = L_xx THEN SetOpts(a, i + 1, [acc EXCEPT !.xx = TRUE])
    ELSE IF w = L_get THEN SetOpts(a, i + 1, [acc EXCEPT !.get = TRUE])
    ELSE IF w = L_keepttl THEN
         (IF acc.mode # "none" THEN [acc EXCEPT !.ok = FALSE] ELSE SetOpts(a, i + 1, [acc EXCEPT !.keep = TRUE]))
    ELSE IF w = L_ex \/ w = L_px \/ w = L_exat THEN
         (IF i + 1 > Len(a) \/ acc.mode # "none" \/ acc.keep THEN [acc EXCEPT !.ok = FALSE]
          ELSE SetOpts(a, i + 2, [acc EXCEPT !.mode = (IF w = L_ex THEN "ex" ELSE IF w = L_px THEN "px" ELSE "exat"),
                                             !.tv = a[i + 1]]))
    ELSE [acc EXCEPT !.ok = FALSE]

\* absolute unix seconds up to 2*10^9 (clamped above; TLC integers are 32-bit)
ParseAbs(b) ==
  LET p == ParseBig(b) IN
  IF ~p.ok THEN [ok |-> FALSE, corner |-> FALSE, n |-> 0]
  ELSE IF FitsSmall(p.n) THEN [ok |-> TRUE, corner |-> p.corner, n |-> SmallOfBig(p.n)]
  ELSE IF p.n.neg THEN [ok |-> TRUE, corner |-> p.corner, n |-> 0 - 1000000000]
  ELSE IF Len(p.n.d) = 10 /\ MagLess(p.n.d, <<2,0,0,0,0,0,0,0,0,0>>)
       THEN [ok |-> TRUE, corner |-> p.corner, n |-> p.n.d[1] * 1000000000 + DigitsVal(Tail(p.n.d))]
  ELSE [ok |-> TRUE, corner |-> p.corner, n |-> 2000000000]

Clamp8(n) == IF n > 100000000 THEN 100000000 ELSE n

\* install the deadline of a relative/absolute time option (n > 0 for ex/px)
ApplyTtl(s, k, mode, n, now) ==
  CASE mode = "ex"   -> SetExp(s, k, now + Clamp8(n), now + Clamp8(n))
    [] mode = "px"   -> SetExp(s, k, now + (n \div 1000), now + ((n + 999) \div 1000))
    [] mode = "exat" -> SetExp(s, k, n, n)
    [] OTHER         -> s

CmdSet(s, now, a) ==
  IF Len(a) < 3 THEN One(RErr, s, "set.arity")
  ELSE LET o == SetOpts(a, 4, SetOpts0)
           k == a[2]
           v == a[3]
  IN IF ~o.ok \/ (o.nx /\ o.xx) THEN One(RErr, s, "set.syntax")
     ELSE LET tp == IF o.mode = "exat" THEN ParseAbs(o.tv) ELSE IF o.mode = "none" THEN [ok |-> TRUE, corner |-> FALSE, n |-> 1] ELSE ParseSmall(o.tv)
     IN IF ~tp.ok THEN One(RErr, s, "set.ttl.notint")
        ELSE LET
          exists == Has(s, k)
          isStr  == HasT(s, k, "string")
          old    == IF isStr THEN RStr(Val(s, k)) ELSE RNil
          cond   == (~o.nx \/ ~exists) /\ (~o.xx \/ exists)
          nonpos == o.mode # "none" /\ tp.n <= 0
          s1     == IF o.keep THEN PutKeep(s, k, StrV(v)) ELSE PutClear(s, k, StrV(v))
          s2     == IF nonpos THEN DelKeys(s, {k}) ELSE ApplyTtl(s1, k, o.mode, tp.n, now)
          lbl    == "set" \o (IF o.nx THEN ".nx" ELSE IF o.xx THEN ".xx" ELSE ".plain") \o (IF o.get THEN ".get" ELSE "")
                    \o (IF o.mode # "none" THEN "." \o o.mode ELSE IF o.keep THEN ".keepttl" ELSE "")
          main ==
            IF o.get /\ exists /\ ~isStr THEN One(RWrong, s, lbl \o ".wrongtype")
            ELSE IF ~cond THEN One(IF o.get THEN old ELSE RNil, s, lbl \o ".vetoed")
            ELSE LET done == One(IF o.get THEN old ELSE ROK, s2,
                                 lbl \o (IF exists THEN (IF isStr THEN ".overwrite" ELSE ".overwrite_othertype") ELSE ".new")
                                     \o (IF nonpos THEN ".nonpositive" ELSE ""))
                 IN IF exists /\ ~isStr THEN Two(done, One(RWrong, s, lbl \o ".overwrite_othertype.wrongtype")) ELSE done
          m2 == IF nonpos \/ tp.corner \/ (o.nx /\ o.get) THEN AltErr(main, s, lbl \o ".err_alt") ELSE main
        IN m2

\* -------------------------------------------------------------------- GET / GETRANGE / STRLEN
CmdGet(s, now, a) ==
  IF Len(a) # 2 THEN One(RErr, s, "get.arity")
  ELSE IF ~Has(s, a[2]) THEN One(RNil, s, "get.missing")
  ELSE IF ~HasT(s, a[2], "string") THEN One(RWrong, s, "get.wrongtype")
  ELSE One(RStr(Val(s, a[2])), s, "get.present")

CmdStrLen(s, now, a) ==
  IF Len(a) # 2 THEN One(RErr, s, "strlen.arity")
  ELSE IF ~Has(s, a[2]) THEN One(RInt(0), s, "strlen.missing")
  ELSE IF ~HasT(s, a[2], "string") THEN One(RWrong, s, "strlen.wrongtype")
  ELSE One(RInt(Len(Val(s, a[2]))), s, "strlen.present")

\* GETRANGE window exactly as the reference implementation computes it
GetRangeOf(v, st0, en0) ==
  LET n == Len(v) IN
  IF st0 < 0 /\ en0 < 0 /\ st0 > en0 THEN <<>>
  ELSE LET st1 == IF st0 < 0 THEN n + st0 ELSE st0
           en1 == IF en0 < 0 THEN n + en0 ELSE en0
           st2 == IF st1 < 0 THEN 0 ELSE st1
           en2 == IF en1 < 0 THEN 0 ELSE en1
           en3 == IF en2 >= n THEN n - 1 ELSE en2
       IN IF n = 0 \/ st2 > en3 THEN <<>> ELSE SubSeq(v, st2 + 1, en3 + 1)

CmdGetRange(s, now, a) ==
  IF Len(a) # 4 THEN One(RErr, s, "getrange.arity")
  ELSE LET p1 == ParseSmall(a[3])
           p2 == ParseSmall(a[4])
       IN IF ~p1.ok \/ ~p2.ok THEN
               \* error precedence is not fixed by the reference: a wrong-type key may be reported first
               (IF Has(s, a[2]) /\ ~HasT(s, a[2], "string")
                THEN Two(One(RErr, s, "getrange.notint"), One(RWrong, s, "getrange.notint.wrongtype_first"))
                ELSE One(RErr, s, "getrange.notint"))
          ELSE IF Has(s, a[2]) /\ ~HasT(s, a[2], "string") THEN One(RWrong, s, "getrange.wrongtype")
          ELSE LET v == IF Has(s, a[2]) THEN Val(s, a[2]) ELSE <<>>
                   r == GetRangeOf(v, p1.n, p2.n)
                   lbl == IF ~Has(s, a[2]) THEN "getrange.missing"
                          ELSE IF r = <<>> THEN "getrange.empty_window"
                          ELSE IF p1.n < 0 \/ p2.n < 0 THEN "getrange.negative_idx"
                          ELSE IF p2.n >= Len(v) THEN "getrange.clamped_end" ELSE "getrange.inside"
               IN WithCorner(p1.corner \/ p2.corner, One(RStr(r), s, lbl), s, "getrange.corner")

\* -------------------------------------------------------------------- SETRANGE / APPEND
CmdSetRange(s, now, a) ==
  IF Len(a) # 4 THEN One(RErr, s, "setrange.arity")
  ELSE LET p == ParseSmall(a[3])
           k == a[2]
           patch == a[4]
       IN IF ~p.ok \/ p.n < 0 THEN One(RErr, s, "setrange.badoffset")
          ELSE IF Has(s, k) /\ ~HasT(s, k, "string") THEN One(RWrong, s, "setrange.wrongtype")
          ELSE LET old == IF Has(s, k) THEN Val(s, k) ELSE <<>> IN
               IF patch = <<>> THEN One(RInt(Len(old)), s, IF Has(s, k) THEN "setrange.emptypatch.present" ELSE "setrange.emptypatch.missing")
               ELSE IF p.n + Len(patch) > 536870912 THEN One(RErr, s, "setrange.toolong")
               ELSE LET padded == IF Len(old) < p.n THEN old \o Repeat(0, p.n - Len(old)) ELSE old
                        tailv  == Drop(padded, Min2(Len(padded), p.n + Len(patch)))
                        nv     == Take(padded, p.n) \o patch \o tailv
                        lbl    == IF ~Has(s, k) THEN "setrange.new"
                                  ELSE IF p.n > Len(old) THEN "setrange.pad"
                                  ELSE IF p.n + Len(patch) < Len(old) THEN "setrange.middle" ELSE "setrange.tail"
                    IN WithCorner(p.corner, One(RInt(Len(nv)), PutKeep(s, k, StrV(nv)), lbl), s, "setrange.corner")

CmdAppend(s, now, a) ==
  IF Len(a) # 3 THEN One(RErr, s, "append.arity")
  ELSE IF Has(s, a[2]) /\ ~HasT(s, a[2], "string") THEN One(RWrong, s, "append.wrongtype")
  ELSE LET old == IF Has(s, a[2]) THEN Val(s, a[2]) ELSE <<>>
           nv  == old \o a[3]
       IN One(RInt(Len(nv)), PutKeep(s, a[2], StrV(nv)), IF Has(s, a[2]) THEN "append.present" ELSE "append.new")

\* -------------------------------------------------------------------- MSET / MGET / SETNX / SETEX
RECURSIVE MSetApply(_, _, _)
MSetApply(s, a, i) == IF i > Len(a) THEN s ELSE MSetApply(PutClear(s, a[i], StrV(a[i + 1])), a, i + 2)

CmdMSet(s, now, a) ==
  IF Len(a) < 3 \/ Len(a) % 2 = 0 THEN One(RErr, s, "mset.arity")
  ELSE LET other == \E i \in 1..((Len(a) - 1) \div 2) : Has(s, a[2 * i]) /\ ~HasT(s, a[2 * i], "string")
           done  == One(ROK, MSetApply(s, a, 2), IF other THEN "mset.overwrite_othertype" ELSE "mset.ok")
       IN IF other THEN Two(done, One(RWrong, s, "mset.overwrite_othertype.wrongtype")) ELSE done

CmdMGet(s, now, a) ==
  IF Len(a) < 2 THEN One(RErr, s, "mget.arity")
  ELSE One(RArr([i \in 1..(Len(a) - 1) |-> IF HasT(s, a[i + 1], "string") THEN RStr(Val(s, a[i + 1])) ELSE RNil]), s, "mget.ok")

CmdSetNx(s, now, a) ==
  IF Len(a) # 3 THEN One(RErr, s, "setnx.arity")
  ELSE IF Has(s, a[2]) THEN One(RInt(0), s, "setnx.present")
  ELSE One(RInt(1), PutClear(s, a[2], StrV(a[3])), "setnx.new")

CmdSetEx(s, now, a) ==
  IF Len(a) # 4 THEN One(RErr, s, "setex.arity")
  ELSE LET p == ParseSmall(a[3]) k == a[2] IN
       IF ~p.ok THEN One(RErr, s, "setex.notint")
       ELSE IF p.n <= 0 THEN Two(One(RErr, s, "setex.nonpositive.err"), One(ROK, DelKeys(s, {k}), "setex.nonpositive.removed"))
       ELSE LET other == Has(s, k) /\ ~HasT(s, k, "string")
                done  == One(ROK, ApplyTtl(PutClear(s, k, StrV(a[4])), k, "ex", p.n, now),
                             IF other THEN "setex.overwrite_othertype" ELSE IF Has(s, k) THEN "setex.overwrite" ELSE "setex.new")
                d2    == IF other THEN Two(done, One(RWrong, s, "setex.overwrite_othertype.wrongtype")) ELSE done
            IN WithCorner(p.corner, d2, s, "setex.corner")

\* -------------------------------------------------------------------- INCR family
IncrGeneric(s, k, delta, lbl, extraCorner) ==
  IF Has(s, k) /\ ~HasT(s, k, "string") THEN One(RWrong, s, lbl \o ".wrongtype")
  ELSE LET cur == IF Has(s, k) THEN ParseBig(Val(s, k)) ELSE [ok |-> TRUE, corner |-> FALSE, n |-> BigZero] IN
       IF ~cur.ok THEN One(RErr, s, lbl \o ".notint")
       ELSE LET r == BigAdd(cur.n, delta) IN
            IF ~InInt64(r) THEN One(RErr, s, lbl \o ".overflow")
            ELSE WithCorner(cur.corner \/ extraCorner,
                            One(RBig(r), PutKeep(s, k, StrV(BigStr(r))), lbl \o (IF Has(s, k) THEN ".present" ELSE ".new")),
                            s, lbl \o ".corner")

CmdIncr(s, now, a) == IF Len(a) # 2 THEN One(RErr, s, "incr.arity") ELSE IncrGeneric(s, a[2], BigOfInt(1), "incr", FALSE)
CmdDecr(s, now, a) == IF Len(a) # 2 THEN One(RErr, s, "decr.arity") ELSE IncrGeneric(s, a[2], BigOfInt(-1), "decr", FALSE)
CmdIncrBy(s, now, a) ==
  IF Len(a) # 3 THEN One(RErr, s, "incrby.arity")
  ELSE LET p == ParseBig(a[3]) IN IF ~p.ok THEN One(RErr, s, "incrby.argnotint") ELSE IncrGeneric(s, a[2], p.n, "incrby", p.corner)
CmdDecrBy(s, now, a) ==
  IF Len(a) # 3 THEN One(RErr, s, "decrby.arity")
  ELSE LET p == ParseBig(a[3]) IN
       IF ~p.ok THEN One(RErr, s, "decrby.argnotint")
       ELSE IF p.n = Int64Min THEN AltErr(IncrGeneric(s, a[2], BigNeg(p.n), "decrby.min", p.corner), s, "decrby.min.err")
       ELSE IncrGeneric(s, a[2], BigNeg(p.n), "decrby", p.corner)

CmdIncrByFloat(s, now, a) ==
  IF Len(a) # 3 THEN One(RErr, s, "incrbyfloat.arity")
  ELSE LET p == ParseDec(a[3]) k == a[2] IN
       IF Has(s, k) /\ ~HasT(s, k, "string") THEN
            \* error precedence is not fixed by the reference: a bad increment may be reported first
            (IF ~p.ok THEN Two(One(RWrong, s, "incrbyfloat.wrongtype"), One(RErr, s, "incrbyfloat.wrongtype.argnotfloat_first"))
             ELSE One(RWrong, s, "incrbyfloat.wrongtype"))
       ELSE IF Len(a[3]) > 15 \/ (Has(s, k) /\ Len(Val(s, k)) > 15) THEN One(RAny, s, "incrbyfloat.unmodelled_precision")
       ELSE IF ~p.ok THEN One(RErr, s, "incrbyfloat.argnotfloat")
       ELSE LET cur == IF Has(s, k) THEN ParseDec(Val(s, k)) ELSE ParseDec(L_zero) IN
            IF ~cur.ok THEN One(RErr, s, "incrbyfloat.notfloat")
            ELSE LET r == DecStr(DecAdd(cur, p)) IN
                 WithCorner(p.corner \/ cur.corner,
                            One(RStr(r), PutKeep(s, k, StrV(r)), IF Has(s, k) THEN "incrbyfloat.present" ELSE "incrbyfloat.new"),
                            s, "incrbyfloat.corner")
=============================================================================
