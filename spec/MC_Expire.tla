------------------------------ MODULE MC_Expire ------------------------------
(***************************************************************************)
(* C06: time-to-live.  The keyspace model with explicit time: `now`        *)
(* advances by Tick; every command runs through Keyspace.Exec, whose first *)
(* step drops keys whose deadline has certainly passed and may drop keys   *)
(* whose deadline window contains `now`.  The properties of C06 are        *)
(* checked here on the model; the transitions (including Tick) are         *)
(* replayed on the REAL clock by harness/cmd/ttltour and the recorded      *)
(* traces validated by TraceKs.tla.                                        *)
(***************************************************************************)
EXTENDS KsMatch, Json

CONSTANTS T0, MaxTicks, Groups

VARIABLES st, now, out
vars == <<st, now, out>>
View == <<st, now>>

kk == <<107>>  k2 == <<106>>  lk == <<108>>  hk == <<104>>  sk == <<115>>  zk == <<122>>
B(i) == IntToBytes(i)
va == <<97>>  vb == <<98>>
ExpOpts == {<<>>, <<L_nx>>, <<L_xx>>, <<L_gt>>, <<L_lt>>}

\* command groups: "str" string + deadline commands on kk; "strdeep" RENAME / MSET / INCR with the second key; "list" a list
\* key; "agg" a hash, a set and a sorted set key. The product of all groups is too large for one instance (and TLC's disk
\* state queue cannot serialise some of the nested function values: the instances run with the in-memory queue), so the
\* thorough tier runs {"str","strdeep","list"} and {"list","agg"} as two instances.
Cmds ==
  (IF "str" \in Groups THEN
       {<<L_set, kk, va>>, <<L_set, kk, vb, L_keepttl>>, <<L_set, kk, va, L_ex, B(1)>>, <<L_set, kk, va, L_ex, B(2)>>,
        <<L_set, kk, va, L_px, B(1500)>>, <<L_set, kk, va, L_xx, L_ex, B(1)>>, <<L_set, kk, vb, L_nx>>, <<L_setex, kk, B(1), va>>,
        <<L_set, kk, va, L_exat, <<1>>>>, <<L_set, kk, va, L_ex, B(0)>>}      \* EXAT argument <<1>> is a placeholder: the driver sends now+1
  \cup {<<L_expire, kk, B(n)>> \o o : n \in {1, 2, 0, -1}, o \in ExpOpts}    \* non-positive times with options too: a vetoed one must change nothing (seed C06-r3)
  \cup {<<L_persist, kk>>, <<L_ttl, kk>>, <<L_get, kk>>, <<L_exists, kk>>, <<L_del, kk>>, <<L_strlen, kk>>, <<L_type, kk>>, <<L_keys, L_star>>,
        <<L_append, kk, vb>>, <<L_setnx, kk, vb>>, <<L_getrange, kk, B(0), B(-1)>>, <<L_mget, kk, k2>>}
   ELSE IF "strcore" \in Groups THEN   \* the few deadline commands the second-key group needs
       {<<L_set, kk, va>>, <<L_set, kk, va, L_ex, B(1)>>, <<L_set, kk, vb, L_keepttl>>, <<L_expire, kk, B(1)>>, <<L_expire, kk, B(2)>>, <<L_persist, kk>>,
        <<L_ttl, kk>>, <<L_get, kk>>, <<L_del, kk>>, <<L_keys, L_star>>}
   ELSE {<<L_keys, L_star>>})
  \cup (IF "strdeep" \in Groups THEN {<<L_rename, kk, k2>>, <<L_rename, k2, kk>>, <<L_ttl, k2>>, <<L_get, k2>>, <<L_mset, kk, va, k2, vb>>} ELSE {})   \* (no INCR: it walks through 99 values within the length bound)
  \cup (IF "list" \in Groups THEN {<<L_rpush, lk, va>>, <<L_expire, lk, B(1)>>, <<L_llen, lk>>, <<L_lrange, lk, B(0), B(-1)>>, <<L_lpush, lk, vb>>, <<L_lpop, lk>>, <<L_ttl, lk>>,
                                  \* commands that empty, rotate or rewrite the list in place: the deadline goes with the key and only with it
                                  <<L_rpop, lk>>, <<L_lmove, lk, lk, L_left, L_right>>, <<L_lmove, lk, lk, L_right, L_right>>, <<L_ltrim, lk, B(1), B(-1)>>,
                                  <<L_lrem, lk, B(0), va>>, <<L_lset, lk, B(0), vb>>} ELSE {})
  \cup (IF "agg" \in Groups THEN
         {<<L_hset, hk, va, vb>>, <<L_expire, hk, B(1)>>, <<L_hget, hk, va>>, <<L_hlen, hk>>, <<L_hdel, hk, va>>, <<L_hset, hk, vb, va>>,
          <<L_sadd, sk, va>>, <<L_expire, sk, B(1)>>, <<L_scard, sk>>, <<L_smembers, sk>>, <<L_sadd, sk, vb>>, <<L_srem, sk, va>>,
          <<L_zadd, zk, B(1), va>>, <<L_expire, zk, B(1)>>, <<L_zrange, zk, B(0), B(-1)>>, <<L_zrank, zk, va>>, <<L_zadd, zk, B(2), vb>>, <<L_zrem, zk, va>>,
          <<L_expire, hk, B(2), L_gt>>, <<L_persist, zk>>, <<L_ttl, sk>>}
        ELSE {})

\* the EXAT placeholder is instantiated with now + 1 in the model as well
Inst(c) == IF Len(c) = 5 /\ c[4] = L_exat THEN [c EXCEPT ![5] = B(now + 1)] ELSE c

Init == st = EmptyState /\ now = T0 /\ out = [c |-> <<>>, r |-> RNil, b |-> "init"]

Bounded == \A k \in DOMAIN st.db :
             CASE st.db[k].t = "string" -> Len(st.db[k].v) <= 2
               [] st.db[k].t = "list" -> Len(st.db[k].v) <= 2
               [] OTHER -> TRUE

DoCmd == \E c \in Cmds :
           LET o == Exec(st, now, Inst(c), NoHint) IN
           \E i \in 1..Len(o) : st' = o[i].s /\ now' = now /\ out' = [c |-> c, r |-> o[i].r, b |-> o[i].b]
Tick == now < T0 + MaxTicks /\ now' = now + 1 /\ st' = st /\ out' = [c |-> << <<116, 105, 99, 107>> >>, r |-> RNil, b |-> "tick"]   \* pseudo-command "tick"

Next == Bounded /\ (DoCmd \/ Tick)
Spec == Init /\ [][Next]_vars

\* ---- C06 on the model ----
Live(s, t) == {k \in DOMAIN s.db : ~(k \in DOMAIN s.exp /\ s.exp[k].hi < t)}
\* a key without a deadline never disappears by the passage of time
NoTtlNeverExpires == [][out'.b = "tick" => \A k \in DOMAIN st.db : ~HasExp(st, k) => k \in Live(st', now')]_vars
\* nothing is certainly gone before its deadline: while now < lo the key is live
NotBefore == \A k \in DOMAIN st.exp : now < st.exp[k].lo => k \in DOMAIN st.db
\* after the deadline window no command can observe the key: Exec starts from Purge (checked as: a read of a key past hi sees it missing)
GoneAfter == [][\A k \in DOMAIN st.exp : st.exp[k].hi < now /\ out'.b # "tick" => ~(k \in DOMAIN st'.db /\ st'.db[k] = st.db[k] /\ HasExp(st', k) /\ st'.exp[k] = st.exp[k])]_vars
\* deadlines exist only on live keys
DeadlinesOnLiveKeys == DOMAIN st.exp \subseteq DOMAIN st.db
\* EXPIRE NX changes a deadline only when there was none; XX only when there was one
ExpireOptions ==
  [][(Len(out'.c) = 4 /\ Lower(out'.c[1]) = L_expire /\ out'.r = RInt(1) /\ kk \in DOMAIN Purge(st, now).db) =>
       /\ (Lower(out'.c[4]) = L_nx => ~HasExp(Purge(st, now), kk) \/ kk \in Maybe(st, now))
       /\ (Lower(out'.c[4]) = L_xx => HasExp(Purge(st, now), kk))]_vars
\* PERSIST and overwrite without KEEPTTL clear the deadline
PersistClears == [][(out'.c = <<L_persist, kk>> /\ out'.r = RInt(1)) => ~HasExp(st', kk)]_vars
OverwriteClears == [][(out'.c = <<L_set, kk, va>> /\ out'.r = ROK) => ~HasExp(st', kk)]_vars
KeepTtlKeeps == [][(out'.c = <<L_set, kk, vb, L_keepttl>> /\ out'.r = ROK /\ HasExp(Purge(st, now), kk) /\ ~(kk \in Maybe(st, now))) => (HasExp(st', kk) /\ st'.exp[kk] = st.exp[kk])]_vars

ValJ(v) == CASE v.t = "hash" -> LET fs == HFields(v.v) IN [i \in 1..Len(fs) |-> <<fs[i], v.v[fs[i]]>>]
             [] v.t = "set" -> SortBytes(v.v)
             [] v.t = "zset" -> LET ms == ZSorted(v.v, DOMAIN v.v) IN [i \in 1..Len(ms) |-> <<ms[i], ScStr(v.v[ms[i]])>>]
             [] OTHER -> v.v
StJ(s, t) == LET ks == SortBytes(DOMAIN s.db) IN
  [i \in 1..Len(ks) |-> [k |-> ks[i], t |-> s.db[ks[i]].t, v |-> ValJ(s.db[ks[i]]),
                          lo |-> IF HasExp(s, ks[i]) THEN s.exp[ks[i]].lo - T0 ELSE -1, hi |-> IF HasExp(s, ks[i]) THEN s.exp[ks[i]].hi - T0 ELSE -1]]
Emit == PrintT("EDGE " \o ToJson([s |-> [st |-> StJ(st, now), now |-> now - T0], c |-> out'.c, b |-> out'.b, t |-> [st |-> StJ(st', now'), now |-> now' - T0]]))
ASSUME PrintT("INIT " \o ToJson([st |-> StJ(EmptyState, T0), now |-> 0]))
=============================================================================
