SPECIFICATION Spec
CONSTANTS
  n1 = n1
  n2 = n2
  n3 = n3
  Nodes <- N2
  NW = 2
  WKeys <- KeysMix2
  WKinds <- KindsMix2
  WVia <- Via12
  SnapCount = 1
  CatchUp = 0
  MaxCrashes = 2
  SnapshotRestoresStateMachine = TRUE
  SnapshotSerialisesAllTypes = TRUE
ACTION_CONSTRAINT Emit
