---------------------------- MODULE ReadyWindow ----------------------------
(* C15, the part the cluster-level specification (EtcdRaft.tla) treats as one atomic step: how ONE node's log travels   *)
(* through raftLog = unstable over storage, the Ready handed to the application, the application's save, and Advance.   *)
(* node.run keeps stepping messages while a Ready is outstanding, so between Ready and Advance any number of appends   *)
(* (also conflicting ones of a newer leader) and heartbeats arrive; stableTo's term check exists for exactly that race. *)
(*                                                                                                                      *)
(* The node under test is a follower (id 1 of five voters) that is never asked for its vote; the environment plays    *)
(* the other four members, among them the leaders (elected by three of those four).  The leaders' logs                  *)
(* are fixed per behaviour (`ll`, one log per term, chosen in Init from Families): leader t sends any slice of ll[t]   *)
(* in any order, any number of times (loss, duplication, reordering, delay), with any commit index it may legally      *)
(* announce.  One action per call the code offers: Step(MsgApp), Step(MsgHeartbeat), Ready, the application's          *)
(* storage.Append (Save), Advance.  Structured like the code (log.go, log_unstable.go, storage.go, rawnode.go):        *)
(*   unst/offs            unstable.entries / unstable.offset                                                           *)
(*   stable               MemoryStorage.ents (terms by index)                                                          *)
(*   rd                   the Ready the application holds (entries, committed entries, messages), saved or not         *)
(*   acks                 raft.msgs (MsgAppResp only)                                                                  *)
(* Bound by raftsim `window` (B1): every transition TLC generates is replayed on a real raft.RawNode with the real     *)
(* MemoryStorage and the outputs of every Ready compared; the verdict is taken from the real node alone (entries it    *)
(* hands out as committed versus the leader's committed entries, storage at or below commit, persisted hard state).    *)
EXTENDS Integers, Sequences, FiniteSets, TLC, Json

CONSTANTS MaxTerm,      \* leaders of terms 1..MaxTerm
          MaxBatch,     \* entries per MsgApp
          Families,     \* set of leader-log families: each a sequence (by term) of logs (sequences of terms)
          Alias         \* TRUE: model the defect "truncateAndAppend writes into the array the outstanding Ready reads" (self-test)

VARIABLES ll, term, stable, offs, unst, commit, applied, rd, acks, match, out

vars == <<ll, term, stable, offs, unst, commit, applied, rd, acks, match, out>>
View == <<ll, term, stable, offs, unst, commit, applied, rd, acks, match>>

Min2(a, b) == IF a < b THEN a ELSE b
Max2(a, b) == IF a > b THEN a ELSE b
MaxS(S) == CHOOSE x \in S : \A y \in S : y <= x
MinS(S) == CHOOSE x \in S : \A y \in S : x <= y

\* raft.msgs, reduced to what the leaders act upon: per leader term the highest index acknowledged (0 = none); rejections and
\* repeated acknowledgements carry nothing the model needs and are not modelled
NoAcks == [t \in 1..MaxTerm |-> 0]
Ack(a, t, i) == [a EXCEPT ![t] = Max2(a[t], i)]
NoRd == [has |-> FALSE, saved |-> FALSE, ents |-> <<>>, cents |-> <<>>, acks |-> NoAcks]

(* ------------------------------ the environment: leaders and what they may commit ------------------------------ *)
CommonPrefix(a, b) == MaxS({0} \cup {n \in 1..Min2(Len(a), Len(b)) : \A j \in 1..n : a[j] = b[j]})
\* what every later leader still holds of leader t's log
Retained(f, t) == MinS({Len(f[t])} \cup {CommonPrefix(f[t], f[u]) : u \in (t + 1)..Len(f)})
\* highest index leader t may have committed: an entry of its own term (and with it everything before) that all later
\* leaders hold, or what an earlier leader had committed
RECURSIVE Committable(_, _)
Committable(f, t) ==
    IF t = 0 THEN 0
    ELSE MaxS({Committable(f, t - 1)} \cup {j \in 1..Retained(f, t) : f[t][j] = t})

\* a family is well formed when every leader holds what earlier leaders may have committed and ends in entries of its own
\* term (the empty entry a new leader appends), terms never decreasing along a log
WellFormedFamily(f) ==
    /\ \A t \in 1..Len(f) :
          /\ Len(f[t]) >= 1 /\ f[t][Len(f[t])] = t
          /\ \A j \in 1..Len(f[t]) : f[t][j] \in 1..t
          /\ \A j \in 1..(Len(f[t]) - 1) : f[t][j] <= f[t][j + 1]
          \* log matching among leaders: an entry of term u at index j is leader u's entry at j
          /\ \A j \in 1..Len(f[t]) : LET u == f[t][j] IN j <= Len(f[u]) /\ \A i \in 1..j : f[u][i] = f[t][i]

(* ------------------------------------------- raftLog as the code reads it ------------------------------------------ *)
Last == IF unst # <<>> THEN offs + Len(unst) - 1 ELSE Len(stable)          \* raftLog.lastIndex
InUnst(i) == i >= offs /\ i < offs + Len(unst)
TermAt(i) == IF i = 0 THEN 0                                                \* raftLog.term (0 = none)
             ELSE IF i > Last THEN 0
             ELSE IF InUnst(i) THEN unst[i - offs + 1]
             ELSE IF i <= Len(stable) THEN stable[i] ELSE 0
Match(i, t) == (i = 0 /\ t = 0) \/ (i >= 1 /\ i <= Last /\ TermAt(i) = t)   \* raftLog.matchTerm

Ent(i, t) == [i |-> i, t |-> t]

(* ------------------------------------------------------ actions ---------------------------------------------------- *)
Init ==
    /\ ll \in Families
    /\ term = 0 /\ stable = <<>> /\ offs = 1 /\ unst = <<>> /\ commit = 0 /\ applied = 0
    /\ rd = NoRd /\ acks = NoAcks
    /\ match = [t \in 1..MaxTerm |-> 0]
    /\ out = [a |-> "init"]

Terms == Max2(term, 1)..MaxTerm

\* unstable.truncateAndAppend(ents) with ents starting at index `after`; third result: what the outstanding Ready reads
\* afterwards (only the Alias variant changes it)
TruncAppend(after, suf) ==
    IF after = offs + Len(unst) THEN [offs |-> offs, unst |-> unst \o suf, rd |-> rd]
    ELSE IF after <= offs THEN [offs |-> after, unst |-> suf, rd |-> rd]
    ELSE [offs |-> offs, unst |-> SubSeq(unst, 1, after - offs) \o suf,
          rd |-> IF Alias /\ rd.has /\ rd.ents # <<>> /\ rd.ents[1].i = offs
                 THEN [rd EXCEPT !.ents = [x \in 1..Len(rd.ents) |->
                           LET i == rd.ents[x].i IN
                           IF i >= after /\ i < after + Len(suf) THEN Ent(i, suf[i - after + 1]) ELSE rd.ents[x]]]
                 ELSE rd]

\* Step(MsgApp{Term t, Index prev, LogTerm, Entries ll[t][prev+1..prev+k], Commit lc}) -- raft.handleAppendEntries
StepApp(t, prev, k, lc) ==
    /\ LET L == ll[t]
           pt == IF prev = 0 THEN 0 ELSE L[prev]
           conf == {j \in 1..k : ~Match(prev + j, L[prev + j])}
       IN
       /\ term' = t
       /\ IF prev < commit THEN
             /\ acks' = Ack(acks, t, commit)
             /\ UNCHANGED <<offs, unst, commit, rd>>
             /\ out' = [a |-> "app", t |-> t, prev |-> prev, pt |-> pt, ents |-> SubSeq(L, prev + 1, prev + k), lc |-> lc, br |-> "below-commit"]
          ELSE IF Match(prev, pt) THEN
             /\ IF conf = {} THEN UNCHANGED <<offs, unst, rd>>
                ELSE LET ci == prev + MinS(conf)
                         r == TruncAppend(ci, SubSeq(L, ci, prev + k))
                     IN offs' = r.offs /\ unst' = r.unst /\ rd' = r.rd
             /\ commit' = Max2(commit, Min2(lc, prev + k))
             /\ acks' = Ack(acks, t, prev + k)
             /\ out' = [a |-> "app", t |-> t, prev |-> prev, pt |-> pt, ents |-> SubSeq(L, prev + 1, prev + k), lc |-> lc,
                        br |-> IF conf = {} THEN "match-nothing-new"
                               ELSE IF prev + MinS(conf) = offs + Len(unst) THEN "append"
                               ELSE IF prev + MinS(conf) <= offs THEN "replace-unstable" ELSE "truncate-unstable"]
          ELSE
             /\ UNCHANGED <<offs, unst, commit, rd, acks>>
             /\ out' = [a |-> "app", t |-> t, prev |-> prev, pt |-> pt, ents |-> SubSeq(L, prev + 1, prev + k), lc |-> lc, br |-> "reject"]
    /\ UNCHANGED <<ll, stable, applied, match>>

\* a delayed append of a deposed leader: ignored without an answer (no CheckQuorum / PreVote)
StepStale(t, prev, k) ==
    /\ t < term
    /\ out' = [a |-> "app", t |-> t, prev |-> prev, pt |-> IF prev = 0 THEN 0 ELSE ll[t][prev],
               ents |-> SubSeq(ll[t], prev + 1, prev + k), lc |-> 0, br |-> "stale"]
    /\ UNCHANGED <<ll, term, stable, offs, unst, commit, applied, rd, acks, match>>

\* Step(MsgHeartbeat{Term t, Commit lc}); the leader announces min(match, committed) -- raft.handleHeartbeat
StepHb(t, lc) ==
    /\ term' = t
    /\ commit' = Max2(commit, lc)
    /\ out' = [a |-> "hb", t |-> t, lc |-> lc]
    /\ UNCHANGED <<ll, stable, offs, unst, applied, rd, acks, match>>

\* RawNode.Ready: unstable entries, committed entries not yet applied, messages
Ready ==
    /\ ~rd.has
    /\ rd' = [has |-> TRUE, saved |-> FALSE,
              ents |-> [x \in 1..Len(unst) |-> Ent(offs + x - 1, unst[x])],
              cents |-> [x \in 1..(commit - applied) |-> Ent(applied + x, TermAt(applied + x))],
              acks |-> acks]
    /\ acks' = NoAcks
    /\ out' = [a |-> "ready"]
    /\ UNCHANGED <<ll, term, stable, offs, unst, commit, applied, match>>

\* the application: storage.Append(rd.Entries), then the messages go out (the leader learns the acknowledgements)
Save ==
    /\ rd.has /\ ~rd.saved
    /\ stable' = IF rd.ents = <<>> THEN stable
                 ELSE SubSeq(stable, 1, rd.ents[1].i - 1) \o [x \in 1..Len(rd.ents) |-> rd.ents[x].t]
    /\ match' = [t \in 1..MaxTerm |-> Max2(match[t], rd.acks[t])]
    /\ rd' = [rd EXCEPT !.saved = TRUE]
    /\ out' = [a |-> "save"]
    /\ UNCHANGED <<ll, term, offs, unst, commit, applied, acks>>

\* RawNode.Advance(rd): appliedTo, stableTo(index and TERM of the last entry of the Ready)
Advance ==
    /\ rd.has /\ rd.saved
    /\ applied' = IF rd.cents = <<>> THEN applied ELSE rd.cents[Len(rd.cents)].i
    /\ IF rd.ents # <<>> /\ InUnst(rd.ents[Len(rd.ents)].i) /\ unst[rd.ents[Len(rd.ents)].i - offs + 1] = rd.ents[Len(rd.ents)].t
       THEN LET i == rd.ents[Len(rd.ents)].i IN
            /\ unst' = SubSeq(unst, i - offs + 2, Len(unst))
            /\ offs' = i + 1
       ELSE UNCHANGED <<offs, unst>>
    /\ rd' = NoRd
    /\ out' = [a |-> "advance"]
    /\ UNCHANGED <<ll, term, stable, commit, acks, match>>

Next ==
    \/ \E t \in Terms : \E prev \in 0..Len(ll[t]) : \E k \in 0..Min2(MaxBatch, Len(ll[t]) - prev) :
          \E lc \in {0, Min2(Committable(ll, t), prev + k)} : StepApp(t, prev, k, lc)
    \/ \E t \in 1..MaxTerm : StepStale(t, 0, 1)
    \/ \E t \in Terms : \E lc \in {0, Min2(match[t], Committable(ll, t))} : StepHb(t, lc)
    \/ Ready \/ Save \/ Advance

Spec == Init /\ [][Next]_vars

(* ----------------------------------------------------- properties --------------------------------------------------- *)
TypeOK ==
    /\ term \in 0..MaxTerm /\ offs \in 1..20 /\ commit \in 0..20 /\ applied \in 0..commit
    /\ \A x \in 1..Len(stable) : stable[x] \in 1..MaxTerm
    /\ \A x \in 1..Len(unst) : unst[x] \in 1..MaxTerm

\* none of the library's own panics is reachable with a conforming leader and a conforming application
NoPanic ==
    /\ commit <= Last                                                      \* raftLog.commitTo
    /\ offs <= Len(stable) + 1                                             \* no hole between storage and unstable
    /\ (rd.has /\ ~rd.saved /\ rd.ents # <<>> => rd.ents[1].i <= Len(stable) + 1)   \* MemoryStorage.Append "missing log entry"

\* the node's log up to its commit index is the leader's (two nodes never differ at a committed index)
CommittedIsLeaders ==
    term >= 1 => \A i \in 1..commit : TermAt(i) = ll[term][i]

\* what the node hands out for applying is the committed entry
AppliedIsLeaders ==
    rd.has => \A x \in 1..Len(rd.cents) : rd.cents[x].t = ll[term][rd.cents[x].i]

\* an acknowledgement that has left the node (its Ready was saved) is backed by storage: persist before acknowledging.
\* Stated for what the acknowledged leader can commit with it (its entries that every later leader holds: the members
\* storing them keep anybody without them from being elected); beyond that a successor may since have replaced them.
AckIsDurable ==
    \A t \in 1..MaxTerm : \A i \in 1..Min2(match[t], Committable(ll, t)) : i <= Len(stable) /\ stable[i] = ll[t][i]

\* and the log the node acts upon agrees with it (the clause the defect modelled by Alias breaks first)
AckedNotLost ==
    term >= 1 => \A i \in 1..match[term] : TermAt(i) = ll[term][i]

\* when nothing is outstanding and nothing unstable, storage is the log
Quiescent ==
    ~rd.has /\ unst = <<>> => offs = Len(stable) + 1

\* the Ready the application holds is not rewritten behind its back (an action property)
ReadyImmutable == [][rd.has /\ rd'.has => rd'.ents = rd.ents /\ rd'.cents = rd.cents]_vars

Emit == PrintT("EDGE " \o ToJson([s |-> View, a |-> out', t |-> View']))
=============================================================================
