---------------------------- MODULE ReadyWindow ----------------------------
(* C15, the part the cluster-level specification (EtcdRaft.tla) treats as one atomic step: how ONE node's log travels   *)
(* through raftLog = unstable over storage, the Ready handed to the application, the application's save, and Advance.   *)
(* node.run keeps stepping messages while a Ready is outstanding, so between Ready and Advance any number of appends   *)
(* (also conflicting ones of a newer leader) and heartbeats arrive; stableTo's term check exists for exactly that race. *)
(*                                                                                                                      *)
(* The node under test is a follower (id 1 of five voters) that is never asked for its vote; the environment plays    *)
(* the other four members, among them the leaders (elected by three of those four).  The leaders' logs                  *)
(* are fixed per behaviour (`ll`, one log per term, chosen in Init from Families): leader t sends any slice of ll[t]   *)
(* in any order, any number of times (loss, duplication, reordering, delay), with any commit index it may legally      *)
(* announce.  One action per call the code offers: Step(MsgApp), Step(MsgHeartbeat), Ready, the application's          *)
(* storage.Append (Save), Advance.  Structured like the code (log.go, log_unstable.go, storage.go, rawnode.go):        *)
(*   unst/offs            unstable.entries / unstable.offset                                                           *)
(*   stable               MemoryStorage.ents (terms by index)                                                          *)
(*   rd                   the Ready the application holds (entries, committed entries, messages), saved or not         *)
(*   acks                 raft.msgs (MsgAppResp only)                                                                  *)
(* Bound by raftsim `window` (B1): every transition TLC generates is replayed on a real raft.RawNode with the real     *)
(* MemoryStorage and the outputs of every Ready compared; the verdict is taken from the real node alone (entries it    *)
(* hands out as committed versus the leader's committed entries, storage at or below commit, persisted hard state).    *)
EXTENDS Integers, Sequences, FiniteSets, TLC, Json

CONSTANTS MaxTerm,      \* leaders of terms 1..MaxTerm
          MaxBatch,     \* entries per MsgApp
          Families,     \* set of leader-log families: each a sequence (by term) of logs (sequences of terms)
          WithSnap,     \* leaders also send snapshots (MsgSnap)
          Alias         \* TRUE: model the defect "truncateAndAppend writes into the array the outstanding Ready reads" (self-test)

VARIABLES ll, term, stable, offs, unst, commit, applied, rd, acks, match, out,
          snapi,     \* index of the snapshot the storage starts from (MemoryStorage.ents[0]); `stable` keeps the terms below
                     \* it too (they are the committed prefix the snapshot stands for) but the storage cannot return them
          usnap      \* unstable.snapshot: [i, t, from] (from = the term of the leader that sent it) or NoSnap

vars == <<ll, term, stable, offs, unst, commit, applied, rd, acks, match, out, snapi, usnap>>
View == <<ll, term, stable, offs, unst, commit, applied, rd, acks, match, snapi, usnap>>

Min2(a, b) == IF a < b THEN a ELSE b
Max2(a, b) == IF a > b THEN a ELSE b
MaxS(S) == CHOOSE x \in S : \A y \in S : y <= x
MinS(S) == CHOOSE x \in S : \A y \in S : x <= y

\* raft.msgs, reduced to what the leaders act upon: per leader term the highest index acknowledged (0 = none); rejections and
\* repeated acknowledgements carry nothing the model needs and are not modelled
NoAcks == [t \in 1..MaxTerm |-> 0]
Ack(a, t, i) == [a EXCEPT ![t] = Max2(a[t], i)]
NoSnap == [i |-> 0, t |-> 0, from |-> 0]
NoRd == [has |-> FALSE, saved |-> FALSE, ents |-> <<>>, cents |-> <<>>, acks |-> NoAcks, snap |-> NoSnap]

(* ------------------------------ the environment: leaders and what they may commit ------------------------------ *)
CommonPrefix(a, b) == MaxS({0} \cup {n \in 1..Min2(Len(a), Len(b)) : \A j \in 1..n : a[j] = b[j]})
\* what every later leader still holds of leader t's log
Retained(f, t) == MinS({Len(f[t])} \cup {CommonPrefix(f[t], f[u]) : u \in (t + 1)..Len(f)})
\* highest index leader t may have committed: an entry of its own term (and with it everything before) that all later
\* leaders hold, or what an earlier leader had committed
RECURSIVE Committable(_, _)
Committable(f, t) ==
    IF t = 0 THEN 0
    ELSE MaxS({Committable(f, t - 1)} \cup {j \in 1..Retained(f, t) : f[t][j] = t})

\* a family is well formed when every leader holds what earlier leaders may have committed and ends in entries of its own
\* term (the empty entry a new leader appends), terms never decreasing along a log
WellFormedFamily(f) ==
    /\ \A t \in 1..Len(f) :
          /\ Len(f[t]) >= 1 /\ f[t][Len(f[t])] = t
          /\ \A j \in 1..Len(f[t]) : f[t][j] \in 1..t
          /\ \A j \in 1..(Len(f[t]) - 1) : f[t][j] <= f[t][j + 1]
          \* log matching among leaders: an entry of term u at index j is leader u's entry at j
          /\ \A j \in 1..Len(f[t]) : LET u == f[t][j] IN j <= Len(f[u]) /\ \A i \in 1..j : f[u][i] = f[t][i]

(* ------------------------------------------- raftLog as the code reads it ------------------------------------------ *)
First == IF usnap.i # 0 THEN usnap.i + 1 ELSE snapi + 1                      \* raftLog.firstIndex
Last == IF unst # <<>> THEN offs + Len(unst) - 1                            \* raftLog.lastIndex
        ELSE IF usnap.i # 0 THEN usnap.i ELSE Len(stable)
InUnst(i) == i >= offs /\ i < offs + Len(unst)
TermAt(i) == IF i = 0 \/ i < First - 1 \/ i > Last THEN 0                    \* raftLog.term (0 = none)
             ELSE IF InUnst(i) THEN unst[i - offs + 1]
             ELSE IF usnap.i # 0 /\ i = usnap.i THEN usnap.t               \* unstable.maybeTerm below offset
             ELSE IF i >= snapi /\ i <= Len(stable) THEN stable[i] ELSE 0   \* storage.Term (ErrCompacted / ErrUnavailable = none)
Match(i, t) == (i = 0 /\ t = 0) \/ (i >= 1 /\ t # 0 /\ TermAt(i) = t)       \* raftLog.matchTerm

Ent(i, t) == [i |-> i, t |-> t]

(* ------------------------------------------------------ actions ---------------------------------------------------- *)
Init ==
    /\ ll \in Families
    /\ term = 0 /\ stable = <<>> /\ offs = 1 /\ unst = <<>> /\ commit = 0 /\ applied = 0
    /\ rd = NoRd /\ acks = NoAcks
    /\ match = [t \in 1..MaxTerm |-> 0]
    /\ snapi = 0 /\ usnap = NoSnap
    /\ out = [a |-> "init"]

Terms == Max2(term, 1)..MaxTerm

\* unstable.truncateAndAppend(ents) with ents starting at index `after`; third result: what the outstanding Ready reads
\* afterwards (only the Alias variant changes it)
TruncAppend(after, suf) ==
    IF after = offs + Len(unst) THEN [offs |-> offs, unst |-> unst \o suf, rd |-> rd]
    ELSE IF after <= offs THEN [offs |-> after, unst |-> suf, rd |-> rd]
    ELSE [offs |-> offs, unst |-> SubSeq(unst, 1, after - offs) \o suf,
          rd |-> IF Alias /\ rd.has /\ rd.ents # <<>> /\ rd.ents[1].i = offs
                 THEN [rd EXCEPT !.ents = [x \in 1..Len(rd.ents) |->
                           LET i == rd.ents[x].i IN
                           IF i >= after /\ i < after + Len(suf) THEN Ent(i, suf[i - after + 1]) ELSE rd.ents[x]]]
                 ELSE rd]

\* Step(MsgApp{Term t, Index prev, LogTerm, Entries ll[t][prev+1..prev+k], Commit lc}) -- raft.handleAppendEntries
StepApp(t, prev, k, lc) ==
    /\ LET L == ll[t]
           pt == IF prev = 0 THEN 0 ELSE L[prev]
           conf == {j \in 1..k : ~Match(prev + j, L[prev + j])}
       IN
       /\ term' = t
       /\ IF prev < commit THEN
             /\ acks' = Ack(acks, t, commit)
             /\ UNCHANGED <<offs, unst, commit, rd>>
             /\ out' = [a |-> "app", t |-> t, prev |-> prev, pt |-> pt, ents |-> SubSeq(L, prev + 1, prev + k), lc |-> lc, br |-> "below-commit"]
          ELSE IF Match(prev, pt) THEN
             /\ IF conf = {} THEN UNCHANGED <<offs, unst, rd>>
                ELSE LET ci == prev + MinS(conf)
                         r == TruncAppend(ci, SubSeq(L, ci, prev + k))
                     IN offs' = r.offs /\ unst' = r.unst /\ rd' = r.rd
             /\ commit' = Max2(commit, Min2(lc, prev + k))
             /\ acks' = Ack(acks, t, prev + k)
             /\ out' = [a |-> "app", t |-> t, prev |-> prev, pt |-> pt, ents |-> SubSeq(L, prev + 1, prev + k), lc |-> lc,
                        br |-> IF conf = {} THEN "match-nothing-new"
                               ELSE IF prev + MinS(conf) = offs + Len(unst) THEN "append"
                               ELSE IF prev + MinS(conf) <= offs THEN "replace-unstable" ELSE "truncate-unstable"]
          ELSE
             /\ UNCHANGED <<offs, unst, commit, rd, acks>>
             /\ out' = [a |-> "app", t |-> t, prev |-> prev, pt |-> pt, ents |-> SubSeq(L, prev + 1, prev + k), lc |-> lc, br |-> "reject"]
    /\ UNCHANGED <<ll, stable, applied, match, snapi, usnap>>

\* a delayed append of a deposed leader: ignored without an answer (no CheckQuorum / PreVote)
StepStale(t, prev, k) ==
    /\ t < term
    /\ out' = [a |-> "app", t |-> t, prev |-> prev, pt |-> IF prev = 0 THEN 0 ELSE ll[t][prev],
               ents |-> SubSeq(ll[t], prev + 1, prev + k), lc |-> 0, br |-> "stale"]
    /\ UNCHANGED <<ll, term, stable, offs, unst, commit, applied, rd, acks, match, snapi, usnap>>

\* Step(MsgHeartbeat{Term t, Commit lc}); the leader announces min(match, committed) -- raft.handleHeartbeat
StepHb(t, lc) ==
    /\ term' = t
    /\ commit' = Max2(commit, lc)
    /\ out' = [a |-> "hb", t |-> t, lc |-> lc]
    /\ UNCHANGED <<ll, stable, offs, unst, applied, rd, acks, match, snapi, usnap>>

\* Step(MsgSnap{Term t, Snapshot{Index s, Term ll[t][s]}}): the leader found this follower too far behind (or merely thinks
\* so) -- raft.handleSnapshot / restore / raftLog.restore / unstable.restore
StepSnap(t, sidx) ==
    /\ WithSnap
    /\ term' = t
    /\ LET st == ll[t][sidx] IN
       IF sidx <= commit THEN
          /\ acks' = Ack(acks, t, commit)
          /\ UNCHANGED <<offs, unst, commit, usnap>>
          /\ out' = [a |-> "snap", t |-> t, i |-> sidx, st |-> st, br |-> "snap-below-commit"]
       ELSE IF Match(sidx, st) THEN                          \* the log already holds it: only the commit index moves
          /\ commit' = sidx
          /\ acks' = Ack(acks, t, sidx)
          /\ UNCHANGED <<offs, unst, usnap>>
          /\ out' = [a |-> "snap", t |-> t, i |-> sidx, st |-> st, br |-> "snap-fast-forward"]
       ELSE
          /\ commit' = sidx /\ offs' = sidx + 1 /\ unst' = <<>> /\ usnap' = [i |-> sidx, t |-> st, from |-> t]
          /\ acks' = Ack(acks, t, sidx)
          /\ out' = [a |-> "snap", t |-> t, i |-> sidx, st |-> st, br |-> "snap-restore"]
    /\ UNCHANGED <<ll, stable, applied, rd, match, snapi>>

\* RawNode.Ready: unstable entries, committed entries not yet applied, messages
Ready ==
    /\ ~rd.has
    /\ rd' = [has |-> TRUE, saved |-> FALSE,
              ents |-> [x \in 1..Len(unst) |-> Ent(offs + x - 1, unst[x])],
              \* raftLog.nextEnts: from max(applied + 1, firstIndex) - with a snapshot pending that is right above it, in the
              \* same Ready (the application applies the snapshot, then the entries)
              cents |-> LET lo == Max2(applied + 1, First) IN [x \in 1..(commit + 1 - lo) |-> Ent(lo + x - 1, TermAt(lo + x - 1))],
              acks |-> acks, snap |-> usnap]
    /\ acks' = NoAcks
    /\ out' = [a |-> "ready"]
    /\ UNCHANGED <<ll, term, stable, offs, unst, commit, applied, match, snapi, usnap>>

\* the application: storage.ApplySnapshot(rd.Snapshot), storage.Append(rd.Entries), then the messages go out (the leader
\* learns the acknowledgements)
Save ==
    /\ rd.has /\ ~rd.saved
    /\ LET base == IF rd.snap.i # 0 THEN SubSeq(ll[rd.snap.from], 1, rd.snap.i) ELSE stable     \* ApplySnapshot: ents = [dummy]
           sn == IF rd.snap.i # 0 THEN rd.snap.i ELSE snapi
           keep == SelectSeq(rd.ents, LAMBDA e : e.i > sn)                                      \* Append drops what is compacted
       IN /\ snapi' = sn
          /\ stable' = IF keep = <<>> THEN base
                       ELSE SubSeq(base, 1, keep[1].i - 1) \o [x \in 1..Len(keep) |-> keep[x].t]
    /\ match' = [t \in 1..MaxTerm |-> Max2(match[t], rd.acks[t])]
    /\ rd' = [rd EXCEPT !.saved = TRUE]
    /\ out' = [a |-> "save"]
    /\ UNCHANGED <<ll, term, offs, unst, commit, applied, acks, usnap>>

\* RawNode.Advance(rd): appliedTo, stableTo(index and TERM of the last entry of the Ready)
Advance ==
    /\ rd.has /\ rd.saved
    /\ applied' = IF rd.cents # <<>> THEN rd.cents[Len(rd.cents)].i            \* Ready.appliedCursor
                  ELSE IF rd.snap.i # 0 THEN rd.snap.i ELSE applied
    /\ IF rd.ents # <<>> /\ InUnst(rd.ents[Len(rd.ents)].i) /\ unst[rd.ents[Len(rd.ents)].i - offs + 1] = rd.ents[Len(rd.ents)].t
       THEN LET i == rd.ents[Len(rd.ents)].i IN
            /\ unst' = SubSeq(unst, i - offs + 2, Len(unst))
            /\ offs' = i + 1
       ELSE UNCHANGED <<offs, unst>>
    /\ usnap' = IF rd.snap.i # 0 /\ usnap.i = rd.snap.i THEN NoSnap ELSE usnap   \* unstable.stableSnapTo
    /\ rd' = NoRd
    /\ out' = [a |-> "advance"]
    /\ UNCHANGED <<ll, term, stable, commit, acks, match, snapi>>

Next ==
    \/ \E t \in Terms : \E prev \in 0..Len(ll[t]) : \E k \in 0..Min2(MaxBatch, Len(ll[t]) - prev) :
          \E lc \in {0, Min2(Committable(ll, t), prev + k)} : StepApp(t, prev, k, lc)
    \/ \E t \in 1..MaxTerm : StepStale(t, 0, 1)
    \/ \E t \in Terms : \E lc \in {0, Min2(match[t], Committable(ll, t))} : StepHb(t, lc)
    \/ \E t \in Terms : \E sidx \in {Committable(ll, t), Committable(ll, t) - 1} \ {0, -1} : StepSnap(t, sidx)
    \/ Ready \/ Save \/ Advance

Spec == Init /\ [][Next]_vars

(* ----------------------------------------------------- properties --------------------------------------------------- *)
TypeOK ==
    /\ term \in 0..MaxTerm /\ offs \in 1..20 /\ commit \in 0..20 /\ applied \in 0..commit
    /\ \A x \in 1..Len(stable) : stable[x] \in 1..MaxTerm
    /\ \A x \in 1..Len(unst) : unst[x] \in 1..MaxTerm

\* none of the library's own panics is reachable with a conforming leader and a conforming application
NoPanic ==
    /\ commit <= Last                                                      \* raftLog.commitTo
    /\ (usnap.i = 0 => offs <= Len(stable) + 1)                           \* no hole between storage and unstable
    /\ applied <= commit /\ (rd.has /\ rd.snap.i # 0 => rd.snap.i >= applied)  \* raftLog.appliedTo
    /\ (rd.has /\ rd.snap.i # 0 => rd.snap.i > snapi \/ rd.saved)               \* MemoryStorage.ApplySnapshot: not out of date
    /\ (rd.has /\ ~rd.saved /\ rd.ents # <<>> =>                          \* MemoryStorage.Append "missing log entry"
            rd.ents[1].i <= (IF rd.snap.i # 0 THEN rd.snap.i ELSE Len(stable)) + 1)

\* the node's log up to its commit index is the leader's (two nodes never differ at a committed index)
CommittedIsLeaders ==
    term >= 1 => \A i \in Max2(First - 1, 1)..commit : TermAt(i) = ll[term][i]      \* (what a snapshot stands for is not readable)

\* what the node hands out for applying is the committed entry
AppliedIsLeaders ==
    rd.has => \A x \in 1..Len(rd.cents) : rd.cents[x].t = ll[term][rd.cents[x].i]

\* an acknowledgement that has left the node (its Ready was saved) is backed by storage: persist before acknowledging.
\* Stated for what the acknowledged leader can commit with it (its entries that every later leader holds: the members
\* storing them keep anybody without them from being elected); beyond that a successor may since have replaced them.
AckIsDurable ==
    \A t \in 1..MaxTerm : \A i \in 1..Min2(match[t], Committable(ll, t)) : i <= Len(stable) /\ stable[i] = ll[t][i]

\* and the log the node acts upon agrees with it (the clause the defect modelled by Alias breaks first)
AckedNotLost ==
    term >= 1 => \A i \in Max2(First - 1, 1)..match[term] : TermAt(i) = ll[term][i]

\* when nothing is outstanding and nothing unstable, storage is the log
Quiescent ==
    ~rd.has /\ unst = <<>> /\ usnap.i = 0 => offs = Len(stable) + 1

\* the Ready the application holds is not rewritten behind its back (an action property)
ReadyImmutable == [][rd.has /\ rd'.has => rd'.ents = rd.ents /\ rd'.cents = rd.cents /\ rd'.snap = rd.snap]_vars

Emit == PrintT("EDGE " \o ToJson([s |-> View, a |-> out', t |-> View']))
=============================================================================
