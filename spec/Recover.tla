------------------------------ MODULE Recover ------------------------------
(***************************************************************************)
(* C16 (and the restart half of C08): what ONE node writes to its WAL and  *)
(* snapshot directories while it processes Ready structs, and what its own *)
(* recovery path rebuilds from them after a process crash at any point.    *)
(*                                                                         *)
(* Transcribed from raftexample/raft.go:                                   *)
(*   serveChannels (Ready loop, 510-535)   snapshot in the Ready? saveSnap  *)
(*                                         first; then wal.Save(hs, ents)   *)
(*   saveSnap (127-143)                    snapshot FILE, then the WAL      *)
(*                                         snapshot record (synced)         *)
(*   maybeTriggerSnapshot (418-457)        local snapshot at appliedIndex   *)
(*   loadSnapshot (244-257)                newest snapshot file that the    *)
(*                                         WAL vouches for                  *)
(*   replayWAL (287-315)                   wal.Open at that snapshot,       *)
(*                                         ReadAll, storage := snapshot +   *)
(*                                         hard state + entries             *)
(* and from the wal package at record granularity (Wal.tla has the sector   *)
(* granularity): Save syncs iff raft.MustSync (entries, or term / vote      *)
(* changed); a record that was not synced is still in the process's page    *)
(* writer and is lost - or written in part - by a crash; any later sync     *)
(* makes everything before it durable. wal.ValidSnapshotEntries = snapshot  *)
(* records whose index is <= the commit of the last hard state record.      *)
(*                                                                         *)
(* One step = one durable operation (a crash between any two). The node's   *)
(* volatile raft state is only kept as far as it decides what is written    *)
(* next. The properties are those of the recovered triple (snapshot, hard   *)
(* state, entries) that the node hands to raft.RestartNode:                 *)
(*   Acceptable    snapshot.index <= commit <= last index, no gap           *)
(*                 (RestartNode panics otherwise: the node can never start) *)
(*   NothingLost   every entry and the hard state of every COMPLETED Save    *)
(*                 (MustSync ones: always; the others: unless a crash came   *)
(*                 before the next sync) is recovered unmodified             *)
(*   NothingInvented  what is recovered was written                          *)
(* Every behaviour up to the bounds is printed at each recovery as          *)
(*   "RSCEN {steps, expect}"                                                *)
(* and replayed on real directories with the real wal / snap packages and   *)
(* the node's own loadSnapshot + replayWAL (hook H8, harness/cmd/recoversim).*)
(***************************************************************************)
EXTENDS Integers, Sequences, FiniteSets, TLC, Json

CONSTANTS MaxIdx, MaxTerm, MaxReady, MaxCrash, MaxAppend,
          MaxCuts,              \* how many Saves may end with a segment cut (wal.go cut(): the Save that finds the file past
                                \* SegmentSizeBytes syncs, starts the file <seq+1>-<enti+1>.wal with the current hard state)
          MaxDamage,            \* how many times the newest snapshot file may be found damaged at a restart
          W_EntiAlways,         \* FALSE: as the code does (SaveSnapshot moves enti only forward). TRUE: weakened, to show
                                \* that the properties depend on it
          InstallSaveFirst,     \* FALSE: as the code does (snapshot file, WAL snapshot record, THEN hard state). TRUE: the
                                \* as-observed variant for B3 - a Ready loop seen to save the hard state of a snapshot-
                                \* carrying Ready before the snapshot; its behaviours are replayed to obtain a real witness
          SnapshotMustBeInWal   \* TRUE: as the code does (LoadNewestAvailable(ValidSnapshotEntries)); FALSE: the weakened
                                \* variant "newest readable file" - kept to show that Acceptable tells them apart

VARIABLES
  wal,        \* durable records, in order: [k |-> "snap", i, t] | [k |-> "ent", i, t] | [k |-> "hs", t, c]
  unsynced,   \* records handed to the wal but not synced yet (same shape)
  files,      \* set of [i, t]: snapshot files
  vol,        \* volatile: [last, term, commit, snap, lt]  lt = function index -> term of the node's log above snap
  pend,       \* steps of the Ready being processed, not yet executed
  hist,       \* what was done so far (for the replay)
  nready, ncrash,
  segs,       \* segment files: <<[pos |-> number of records before the segment, name |-> index in its file name]>>
  enti,       \* WAL.enti: index of the last entry saved (names the next segment)
  ncut, ndmg,
  up,         \* TRUE while the process runs
  rec         \* last recovery result: [snap |-> [i, t], hs |-> [t, c], ents |-> <<[i, t], ...>>]

vars == <<wal, unsynced, files, vol, pend, hist, nready, ncrash, segs, enti, ncut, ndmg, up, rec>>

NoRec == [snap |-> [i |-> 0, t |-> 0], hs |-> [t |-> 0, c |-> 0], ents |-> <<>>, err |-> "none", enti |-> 0]

Init == /\ wal = << [k |-> "snap", i |-> 0, t |-> 0] >>        \* wal.Create writes the empty snapshot record
        /\ unsynced = <<>> /\ files = {}
        /\ vol = [last |-> 0, term |-> 1, commit |-> 0, snap |-> 0, lt |-> <<>>]
        /\ pend = <<>> /\ hist = <<>> /\ nready = 0 /\ ncrash = 0 /\ up = TRUE /\ rec = NoRec
        /\ segs = << [pos |-> 0, name |-> 0] >> /\ enti = 0 /\ ncut = 0 /\ ndmg = 0

WalSnaps(w) == {[i |-> w[j].i, t |-> w[j].t] : j \in {x \in 1..Len(w) : w[x].k = "snap"}}
TermAt(i) == IF i \in DOMAIN vol.lt THEN vol.lt[i] ELSE 0
Idle == up /\ pend = <<>> /\ nready < MaxReady

\* what becomes committed agrees with every snapshot this disk has heard of (snapshots are of committed state: a node whose
\* directory holds a snapshot record (i, t) is never told that another entry is committed at i)
KnownSnaps == files \cup WalSnaps(wal \o unsynced)
AgreesWithSnaps(c, lt) == \A s \in KnownSnaps : (s.i <= c /\ s.i \in DOMAIN lt) => lt[s.i] = s.t

\* ---- Ready structs (what the node decides to persist next) ----
\* new entries at the current term, commit may advance; MustSync because of the entries
AppendEnts(k, c) ==
  /\ Idle /\ vol.last + k <= MaxIdx /\ c \in vol.commit..(vol.last + k)
  /\ AgreesWithSnaps(c, [j \in (DOMAIN vol.lt) \cup ((vol.last + 1)..(vol.last + k)) |-> IF j > vol.last THEN vol.term ELSE vol.lt[j]])
  /\ LET ents == [j \in 1..k |-> [i |-> vol.last + j, t |-> vol.term]] IN
     /\ pend' = << [op |-> "save", t |-> vol.term, c |-> c, ents |-> ents, sync |-> TRUE, cut |-> FALSE] >>
     /\ vol' = [vol EXCEPT !.last = vol.last + k, !.commit = c,
                            !.lt = [j \in (DOMAIN vol.lt) \cup ((vol.last + 1)..(vol.last + k)) |-> IF j > vol.last THEN vol.term ELSE vol.lt[j]]]
  /\ nready' = nready + 1 /\ UNCHANGED <<wal, unsynced, files, hist, ncrash, segs, enti, ncut, ndmg, up, rec>>

\* raft.MustSync compares with the hard state of the previous Save (after a restart: the recovered one); Vote is constant here
PrevT == LET w == wal \o unsynced
             H == {j \in 1..Len(w) : w[j].k = "hs"} IN
         IF H = {} THEN 0 ELSE w[CHOOSE j \in H : \A x \in H : x <= j].t

\* only the commit index moves: the Save does not sync
CommitOnly(c) ==
  /\ Idle /\ c \in (vol.commit + 1)..vol.last /\ AgreesWithSnaps(c, vol.lt)
  /\ pend' = << [op |-> "save", t |-> vol.term, c |-> c, ents |-> <<>>, sync |-> (vol.term # PrevT), cut |-> FALSE] >>
  /\ vol' = [vol EXCEPT !.commit = c]
  /\ nready' = nready + 1 /\ UNCHANGED <<wal, unsynced, files, hist, ncrash, segs, enti, ncut, ndmg, up, rec>>

\* a new term; the uncommitted tail from j on is replaced by one entry of the new term (j = last+1: nothing replaced)
NewTerm(j) ==
  /\ Idle /\ vol.term < MaxTerm /\ j \in (vol.commit + 1)..(vol.last + 1) /\ j > vol.snap /\ j <= MaxIdx
  /\ LET nt == vol.term + 1 IN
     /\ pend' = << [op |-> "save", t |-> nt, c |-> vol.commit, ents |-> << [i |-> j, t |-> nt] >>, sync |-> TRUE, cut |-> FALSE] >>
     /\ vol' = [vol EXCEPT !.term = nt, !.last = j,
                            !.lt = [x \in {y \in DOMAIN vol.lt : y < j} \cup {j} |-> IF x = j THEN nt ELSE vol.lt[x]]]
  /\ nready' = nready + 1 /\ UNCHANGED <<wal, unsynced, files, hist, ncrash, segs, enti, ncut, ndmg, up, rec>>

\* maybeTriggerSnapshot: local snapshot at the applied (= committed) index
LocalSnap ==
  /\ Idle /\ vol.commit > vol.snap
  /\ LET i == vol.commit  t == TermAt(i) IN
     /\ pend' = << [op |-> "snapfile", i |-> i, t |-> t], [op |-> "walsnap", i |-> i, t |-> t] >>
     /\ vol' = [vol EXCEPT !.snap = i, !.lt = [x \in {y \in DOMAIN vol.lt : y >= i} |-> vol.lt[x]]]
  /\ nready' = nready + 1 /\ UNCHANGED <<wal, unsynced, files, hist, ncrash, segs, enti, ncut, ndmg, up, rec>>

\* a Ready that carries the leader's snapshot (this node was too far behind): file, WAL record, then the hard state
\* whose commit is the snapshot index; the hard state record is synced only if the term changes with it
InstallSnap(i, t) ==
  /\ Idle /\ i \in (vol.last + 1)..MaxIdx /\ t \in vol.term..MaxTerm
  \* snapshots are of committed state: what this node's disk already knows about committed indexes (snapshot files and
  \* WAL snapshot records, also those its recovery did not choose) is consistent with the new one
  /\ \A s \in files \cup WalSnaps(wal) : (s.i = i => s.t = t) /\ (s.i < i => s.t <= t) /\ (s.i > i => s.t >= t)
  /\ LET sv == [op |-> "save", t |-> t, c |-> i, ents |-> <<>>, sync |-> (t # PrevT), cut |-> FALSE]
         sf == [op |-> "snapfile", i |-> i, t |-> t]
         ws == [op |-> "walsnap", i |-> i, t |-> t]
     IN pend' = IF InstallSaveFirst THEN <<sv, sf, ws>> ELSE <<sf, ws, sv>>
  /\ vol' = [last |-> i, term |-> t, commit |-> i, snap |-> i, lt |-> (i :> t)]
  /\ nready' = nready + 1 /\ UNCHANGED <<wal, unsynced, files, hist, ncrash, segs, enti, ncut, ndmg, up, rec>>

\* ---- durable steps ----
RecsOfSave(s) == [j \in 1..Len(s.ents) |-> [k |-> "ent", i |-> s.ents[j].i, t |-> s.ents[j].t]] \o << [k |-> "hs", t |-> s.t, c |-> s.c] >>

Step ==
  /\ up /\ pend # <<>>
  /\ LET s == Head(pend) IN
     \E cut \in (IF s.op = "save" /\ ncut < MaxCuts THEN BOOLEAN ELSE {FALSE}) :
       LET e1 == IF s.op = "save" /\ s.ents # <<>> THEN s.ents[Len(s.ents)].i                  \* saveEntry: w.enti = e.Index
                 ELSE IF s.op = "walsnap" /\ (W_EntiAlways \/ enti < s.i) THEN s.i ELSE enti  \* SaveSnapshot
           all == wal \o unsynced \o RecsOfSave(s)
       IN
       /\ enti' = e1
       /\ CASE s.op = "save" /\ cut ->
                 \* cut(): sync what was written, new file named <seq+1>-<enti+1>, its head repeats the hard state
                 /\ wal' = all \o << [k |-> "hs", t |-> s.t, c |-> s.c] >> /\ unsynced' = <<>> /\ files' = files
                 /\ segs' = Append(segs, [pos |-> Len(all), name |-> e1 + 1]) /\ ncut' = ncut + 1
            [] s.op = "save" /\ ~cut ->
                 /\ IF s.sync THEN wal' = all /\ unsynced' = <<>> ELSE unsynced' = unsynced \o RecsOfSave(s) /\ wal' = wal
                 /\ files' = files /\ UNCHANGED <<segs, ncut>>
            [] s.op = "snapfile" -> files' = files \cup {[i |-> s.i, t |-> s.t]} /\ UNCHANGED <<wal, unsynced, segs, ncut>>
            [] s.op = "walsnap" -> /\ wal' = wal \o unsynced \o << [k |-> "snap", i |-> s.i, t |-> s.t] >> /\ unsynced' = <<>>
                                  /\ files' = files /\ UNCHANGED <<segs, ncut>>
       /\ hist' = Append(hist, IF s.op = "save" THEN [s EXCEPT !.cut = cut] ELSE s)
  /\ pend' = Tail(pend)
  /\ UNCHANGED <<vol, nready, ncrash, ndmg, up, rec>>

\* process crash: what was not synced survives as any prefix (the page writer may have flushed whole pages)
Crash(n) ==
  /\ up /\ ncrash < MaxCrash /\ n \in 0..Len(unsynced)
  /\ wal' = wal \o SubSeq(unsynced, 1, n) /\ unsynced' = <<>>
  /\ up' = FALSE /\ pend' = <<>> /\ ncrash' = ncrash + 1
  /\ hist' = Append(hist, [op |-> "crash", kept |-> n])
  /\ UNCHANGED <<files, vol, nready, segs, enti, ncut, ndmg, rec>>

LastHs(w) == LET H == {j \in 1..Len(w) : w[j].k = "hs"} IN
             IF H = {} THEN [t |-> 0, c |-> 0] ELSE LET m == CHOOSE j \in H : \A x \in H : x <= j IN [t |-> w[m].t, c |-> w[m].c]
Valid(w) == {s \in WalSnaps(w) : s.i <= LastHs(w).c}                     \* wal.ValidSnapshotEntries

\* the newest snapshot file is found damaged at the restart (the snapshotter sets it aside and takes the next one)
NewestFile == CHOOSE f \in files : \A g \in files : g.i <= f.i
Damage ==
  /\ ~up /\ ndmg < MaxDamage /\ files # {}
  \* an older snapshot file the WAL vouches for is left to fall back to (with none left the state is gone: no recovery
  \* can be asked to produce it)
  /\ \E g \in files \ {NewestFile} :
        /\ g \in Valid(wal) /\ \A h \in (files \ {NewestFile}) \cap Valid(wal) : h.i <= g.i
        \* ... and the WAL holds the entries between it and the commit index (a snapshot installed from the leader stands
        \* for entries this node never had: with that file gone they are gone)
        /\ \A i \in (g.i + 1)..LastHs(wal).c : \E j \in 1..Len(wal) : wal[j].k = "ent" /\ wal[j].i = i
  /\ files' = files \ {NewestFile}
  /\ hist' = Append(hist, [op |-> "damage", i |-> NewestFile.i, t |-> NewestFile.t])
  /\ ndmg' = ndmg + 1
  /\ UNCHANGED <<wal, unsynced, vol, pend, nready, ncrash, segs, enti, ncut, up, rec>>

\* ---- recovery: loadSnapshot + replayWAL ----
Chosen(w, F) == LET C == IF SnapshotMustBeInWal THEN {f \in F : f \in Valid(w)} ELSE F IN                   \* Snapshotter.LoadNewestAvailable
                IF C = {} THEN [i |-> 0, t |-> 0] ELSE CHOOSE f \in C : \A g \in C : g.i <= f.i
\* wal.Open(snap): the last file whose name index is <= snap.Index (searchIndex walks the names from the end)
SegFor(sn) == CHOOSE k \in 1..Len(segs) : segs[k].name <= sn.i /\ \A j \in (k + 1)..Len(segs) : segs[j].name > sn.i
\* ReadAll from there: an entry above the snapshot lands at its offset (cutting what follows; beyond the end is
\* ErrSliceOutOfRange), a snapshot record at the starting index must carry the same term (ErrSnapshotMismatch);
\* w.enti = index of the last entry record read, whatever its index
RECURSIVE ReadAll(_, _, _, _)
ReadAll(w, j, sn, a) ==
  IF j > Len(w) \/ a.err # "none" THEN a
  ELSE IF w[j].k = "ent" THEN
         IF w[j].i > sn.i THEN
            LET upx == w[j].i - sn.i - 1 IN
            IF upx > Len(a.ents) THEN ReadAll(w, j + 1, sn, [a EXCEPT !.err = "slice-out-of-range"])
            ELSE ReadAll(w, j + 1, sn, [a EXCEPT !.ents = Append(SubSeq(a.ents, 1, upx), [i |-> w[j].i, t |-> w[j].t]), !.enti = w[j].i])
         ELSE ReadAll(w, j + 1, sn, [a EXCEPT !.enti = w[j].i])
       ELSE IF w[j].k = "snap" /\ w[j].i = sn.i THEN
         IF w[j].t # sn.t THEN ReadAll(w, j + 1, sn, [a EXCEPT !.err = "snapshot-mismatch"])
         ELSE ReadAll(w, j + 1, sn, [a EXCEPT !.match = TRUE])
       ELSE IF w[j].k = "hs" THEN ReadAll(w, j + 1, sn, [a EXCEPT !.hs = [t |-> w[j].t, c |-> w[j].c]])
       ELSE ReadAll(w, j + 1, sn, a)

Recovered(w, F) ==
  LET sn == Chosen(w, F)
      a == ReadAll(w, segs[SegFor(sn)].pos + 1, sn, [ents |-> <<>>, hs |-> [t |-> 0, c |-> 0], match |-> FALSE, err |-> "none", enti |-> 0])
  IN [snap |-> sn, hs |-> a.hs, ents |-> a.ents, enti |-> a.enti,
      \* as built: in write mode ReadAll overwrites ErrSnapshotNotFound with the result of newFileEncoder (wal.go:544-562),
      \* so a starting snapshot record that is not met is NOT an error for a restarting node (a.match is not consulted)
      err |-> a.err]

Recover ==
  /\ ~up
  /\ LET r == Recovered(wal, files)
         last == IF r.ents = <<>> THEN r.snap.i ELSE r.ents[Len(r.ents)].i
     IN /\ rec' = r
        /\ vol' = [last |-> last, term |-> IF r.hs.t = 0 THEN 1 ELSE r.hs.t, commit |-> r.hs.c, snap |-> r.snap.i,
                   lt |-> [x \in {r.ents[j].i : j \in 1..Len(r.ents)} \cup (IF r.snap.i > 0 THEN {r.snap.i} ELSE {}) |->
                            IF x = r.snap.i THEN r.snap.t ELSE (CHOOSE e \in {r.ents[j] : j \in 1..Len(r.ents)} : e.i = x).t]]
        /\ enti' = r.enti
        /\ hist' = Append(hist, [op |-> "recover", expect |-> r])
        /\ PrintT("RSCEN " \o ToJson([steps |-> hist', expect |-> r]))
  /\ up' = TRUE
  /\ UNCHANGED <<wal, unsynced, files, pend, nready, ncrash, segs, ncut, ndmg>>

Next == \/ \E k \in 1..MaxAppend : \E c \in 0..MaxIdx : AppendEnts(k, c)
        \/ \E c \in 1..MaxIdx : CommitOnly(c)
        \/ \E j \in 1..MaxIdx : NewTerm(j)
        \/ LocalSnap
        \/ \E i \in 1..MaxIdx : \E t \in 1..MaxTerm : InstallSnap(i, t)
        \/ Step
        \/ \E n \in 0..3 : Crash(n)
        \/ Damage
        \/ Recover

Spec == Init /\ [][Next]_vars

\* ---- properties of what recovery hands to raft.RestartNode (evaluated on the durable state at every moment: a crash
\* may come now) ----
RNow == Recovered(wal, files)
LastOf(r) == IF r.ents = <<>> THEN r.snap.i ELSE r.ents[Len(r.ents)].i
Acceptable ==
  LET r == RNow IN
  /\ r.snap.i <= r.hs.c \/ r.snap.i = 0
  /\ r.hs.c <= LastOf(r)
  /\ \A j \in 1..Len(r.ents) : r.ents[j].i = r.snap.i + j          \* contiguous from the snapshot
  /\ r.snap \in WalSnaps(wal)                                       \* the WAL knows the snapshot
  /\ r.err = "none"                                                 \* wal.Open + ReadAll succeed from the file chosen by name

\* a synced entry record that no later record at or below its index supersedes, and that the chosen snapshot does not
\* cover, is recovered with its term
NothingLost ==
  LET r == RNow IN
  \A j \in 1..Len(wal) :
    (wal[j].k = "ent" /\ wal[j].i > r.snap.i /\ ~\E x \in (j + 1)..Len(wal) : wal[x].k = "ent" /\ wal[x].i <= wal[j].i)
      => \E e \in 1..Len(r.ents) : r.ents[e] = [i |-> wal[j].i, t |-> wal[j].t]

NothingInvented ==
  LET r == RNow IN
  /\ \A e \in 1..Len(r.ents) : \E j \in 1..Len(wal) : wal[j].k = "ent" /\ wal[j].i = r.ents[e].i /\ wal[j].t = r.ents[e].t
  /\ r.snap.i > 0 => r.snap \in files

\* the committed prefix never shrinks across a recovery once it was synced: the recovered commit is at least the commit
\* of the last SYNCED hard state (a commit-only update may be lost: DESIGN 2.4)
TypeOK == /\ nready \in 0..MaxReady /\ ncrash \in 0..MaxCrash /\ vol.commit <= vol.last /\ vol.snap <= vol.commit
=============================================================================
