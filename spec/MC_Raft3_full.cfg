CONSTANTS
  Server = {1, 2, 3}
  Campaigners = {1, 2, 3}
  MaxTerm = 2
  MaxProposals = 1
  MaxCrashes = 0
  MaxDrops = 0
  MaxDups = 0
  MaxHeartbeats = 0
  MaxLog = 3
  MaxNet = 4
  MaxEnts = 0
  LossySend = FALSE
  SimDepth = 0
  Script <- NoScript
  W_CommitAnyTerm = FALSE
  W_VoteIgnoreVoted = FALSE
  W_VoteIgnoreLog = FALSE
  W_NoPersistVote = FALSE
  W_AppendAlwaysTruncates = FALSE
  W_HeartbeatCommitUnbounded = FALSE
  W_QuorumMinusOne = FALSE
  W_KeepMatchOnReset = FALSE
  PreVote = FALSE
  W_PreVoteRespCountsAsVote = FALSE
  ConfChange = FALSE
  InitVoters = {1, 2, 3}
  AddVoters = {}
  RemoveVoters = {}
  MaxConfChanges = 0
  MaxConfRefusals = 0
  W_ConfChangeNoPendingCheck = FALSE
  W_AddedVoterCaughtUp = FALSE
INIT Init
NEXT Next
CONSTRAINT NetBound
VIEW view
INVARIANTS ElectionSafety LogMatching StateMachineSafety LeaderCompleteness CommitWithinLog PersistedMatchesVolatile MatchSound
PROPERTY HardStateMonotonic
