------------------------------- MODULE Snap -------------------------------
(***************************************************************************)
(* C16 - snapshot files (server/etcdserver/api/snap/snapshotter.go).       *)
(*                                                                         *)
(* A snapshot directory holds files <term>-<index>.snap; a file wraps the  *)
(* marshalled raftpb.Snapshot with a CRC (snapshotter.go:75-105).  A file  *)
(* is "ok" (as written and fsynced), "torn" (the crash interrupted         *)
(* WriteAndSyncFile: any subset of its sectors / any prefix reached the    *)
(* disk) or "flip" (one stored byte changed).  The CRC is abstract: Read   *)
(* (snapshotter.go:166-208) fails exactly for files that are not "ok".     *)
(* loadMatching (snapshotter.go:135-147) walks the names newest first,     *)
(* renames unreadable files to .broken and returns the first readable one  *)
(* that matchFn accepts.                                                   *)
(***************************************************************************)
EXTENDS Integers, Sequences, FiniteSets, TLC

CONSTANTS MaxFiles

VARIABLES files,    \* sequence ordered like the sorted file names (oldest first): [st, inwal]
          broken,   \* indexes renamed to .broken by a Load
          result,   \* 0 = ErrNoSnapshot, i = files[i] returned, -1 = nothing loaded yet
          usewal    \* the Load in progress was LoadNewestAvailable(walSnaps)

vars == <<files, broken, result, usewal>>

Init == files = <<>> /\ broken = {} /\ result = -1 /\ usewal = FALSE

(* SaveSnap completes; the caller then records the snapshot in the WAL (raftexample/raft.go:129-138),
   unless the crash comes in between (inwal = FALSE) *)
Save(inwal) == /\ result = -1 /\ Len(files) < MaxFiles
               /\ files' = Append(files, [st |-> "ok", inwal |-> inwal])
               /\ UNCHANGED <<broken, result, usewal>>

(* crash inside WriteAndSyncFile: the newest file is partial; its WAL record was never written *)
TornSave == /\ result = -1 /\ Len(files) < MaxFiles
            /\ files' = Append(files, [st |-> "torn", inwal |-> FALSE])
            /\ UNCHANGED <<broken, result, usewal>>

Flip(i) == /\ result = -1 /\ files[i].st = "ok"
           /\ \A j \in 1..Len(files) : files[j].st # "flip"          \* single corruption
           /\ files' = [files EXCEPT ![i].st = "flip"]
           /\ UNCHANGED <<broken, result, usewal>>

Readable(i) == files[i].st = "ok"

(* loadMatching, newest first *)
RECURSIVE Walk(_, _)
Walk(i, w) == IF i = 0 THEN [r |-> 0, b |-> {}]
              ELSE IF ~Readable(i) THEN LET t == Walk(i - 1, w) IN [r |-> t.r, b |-> t.b \cup {i}]
              ELSE IF w => files[i].inwal THEN [r |-> i, b |-> {}]
              ELSE Walk(i - 1, w)

Load(w) == /\ result = -1 /\ Len(files) >= 1
           /\ LET t == Walk(Len(files), w) IN result' = t.r /\ broken' = t.b
           /\ usewal' = w
           /\ UNCHANGED files

Next == \/ \E b \in BOOLEAN : Save(b)
        \/ TornSave
        \/ \E i \in 1..Len(files) : Flip(i)
        \/ \E w \in BOOLEAN : Load(w)

Spec == Init /\ [][Next]_vars

Candidates == {i \in 1..Len(files) : files[i].st = "ok" /\ (usewal => files[i].inwal)}

(* a damaged newest snapshot file falls back to the newest intact one; damaged bytes are never returned *)
SnapFallback ==
  result >= 0 =>
    /\ (Candidates = {} <=> result = 0)
    /\ (result > 0 => result \in Candidates /\ \A j \in Candidates : j <= result)

(* only unreadable files are renamed, and only those newer than the one returned *)
BrokenOnlyDamaged == \A i \in broken : files[i].st # "ok" /\ i > result

=============================================================================
