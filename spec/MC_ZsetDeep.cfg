SPECIFICATION Spec
CONSTANTS
  Cmds <- ZDeepCmds
  SetupCmds <- ZsetSetup
  Bound <- ZDeepBound
  T0 = 1000
  DeepN = 5
VIEW View
ACTION_CONSTRAINT Emit
INVARIANT TypeOK
PROPERTY ErrorsChangeNothing
CHECK_DEADLOCK FALSE
