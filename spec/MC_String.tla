------------------------------ MODULE MC_String ------------------------------
(* Bounded instance for C01: string + generic key commands.                 *)
EXTENDS MCBase

CONSTANT Quick
k1 == <<107>>  K1 == <<75>>  kl == <<108>>      \* "k", "K" (case twin), "l" (a list)
Vals == IF Quick THEN {<<>>, <<97>>, <<13, 10>>} ELSE {<<>>, <<97>>, <<98, 13, 10>>}          \* "", "a", "b\r\n"
Idx == IF Quick THEN {-2, 0, 1} ELSE {-3, -1, 0, 1, 2}
AKeys == {k1, K1, kl}
MKeys == IF Quick THEN {k1, kl} ELSE AKeys     \* keys used by the less case-sensitive-critical commands
B(i) == IntToBytes(i)

StringCmds ==
       {<<L_set, k1, v>> : v \in Vals} \cup {<<L_set, K1, <<97>>>>, <<L_set, kl, <<97>>>>}
  \cup {<<L_set, k, <<97>>, o>> : k \in {k1, kl}, o \in {L_nx, L_xx, L_get, L_keepttl}}
  \cup {<<L_set, k1, <<97>>, L_nx, L_get>>, <<L_set, k1, <<97>>, L_nx, L_xx>>, <<L_set, k1, <<97>>, L_ex, B(100)>>,
        <<L_set, k1, <<97>>, L_px, B(100000)>>, <<L_set, k1, <<97>>, L_ex>>, <<L_set, k1, <<97>>, L_ex, B(0)>>,
        <<L_set, k1, <<97>>, L_ex, B(100), L_keepttl>>, <<L_set, k1, <<97>>, L_exat, B(T0 + 100)>>, <<L_set, k1>>, <<L_set>>,
        <<L_set, k1, <<97>>, <<66>>>>, <<L_set, k1, <<97>>, L_xx, L_ex, B(50)>>}
  \cup {<<L_get, k>> : k \in AKeys} \cup {<<L_get>>}
  \cup {<<L_strlen, k>> : k \in MKeys}
  \cup {<<L_append, k, v>> : k \in {k1, kl}, v \in {<<>>, <<97>>}}
  \cup {<<L_getrange, k, B(i), B(j)>> : k \in {k1, kl}, i \in Idx, j \in Idx} \cup {<<L_getrange, k1, <<97>>, B(0)>>}
  \cup {<<L_setrange, k, B(i), v>> : k \in {k1, kl}, i \in {0, 1, 3}, v \in {<<>>, <<120>>}} \cup {<<L_setrange, k1, B(-1), <<120>>>>}
  \cup {<<L_mset, k1, <<97>>, K1, <<97>>>>, <<L_mset, k1, <<97>>, kl, <<97>>>>, <<L_mset, k1, <<97>>, k1, <<>>>>, <<L_mset, k1>>}
  \cup {<<L_mget, k1, K1, kl>>, <<L_mget, k1, k1>>}
  \cup {<<L_setnx, k, <<97>>>> : k \in MKeys}
  \cup {<<L_setex, k1, B(100), <<97>>>>, <<L_setex, kl, B(100), <<97>>>>, <<L_setex, k1, <<97>>, <<97>>>>, <<L_setex, k1, B(0), <<97>>>>}
  \cup {<<L_del, k>> : k \in AKeys} \cup {<<L_del, k1, K1>>, <<L_del, k1, k1>>, <<L_del>>}
  \cup {<<L_exists, k>> : k \in AKeys} \cup {<<L_exists, k1, k1, K1>>}
  \cup {<<L_type, k>> : k \in MKeys}
  \cup {<<L_rename, a, b>> : a \in MKeys, b \in MKeys} \cup {<<L_rename, k1, K1>>, <<L_rename, K1, k1>>}
  \cup {<<L_keys, L_star>>, <<L_keys, <<107>>>>, <<L_ping>>, <<L_ping, <<97, 13, 10>>>>}
  \cup {<<L_ttl, k1>>, <<L_persist, k1>>, <<L_expire, k1, B(100)>>}
  \cup {<<<<83, 69, 84>>, k1, <<97>>>>, <<<<71, 101, 84>>, k1>>}   \* SET / GeT: command names are case-insensitive

StringSetup == << <<L_rpush, kl, <<97>>>> >>
\* bound: k1 holds strings of length <= 3, every other string has length <= 1
StringBound(s) ==
  /\ \A k \in DOMAIN s.db : s.db[k].t = "string" => Len(s.db[k].v) <= (IF k = k1 THEN (IF Quick THEN 2 ELSE 3) ELSE 1)
  \* quick: do not explore behind states the ambiguity alternatives lead to (l overwritten by a string), nor deadlines on other keys
  /\ (Quick => (\A k \in DOMAIN s.db : k = kl => s.db[k].t = "list") /\ DOMAIN s.exp \subseteq {k1})

\* ---- numeric instance: one key, 64-bit integer and exact-decimal arithmetic ----
NumVals == {<<48>>, <<49>>, <<45,49>>, <<57>>, <<97>>, <<>>, BigStr(Int64Max), BigStr(Int64Min), <<48,48,55>>}
FloatVals == {<<49,46,53>>, <<97>>, <<>>, <<50>>}
NumCmds ==
       {<<L_set, k1, v>> : v \in NumVals} \cup {<<L_get, k1>>, <<L_incr, k1>>, <<L_decr, k1>>, <<L_del, k1>>, <<L_incr, kl>>, <<L_incrby, kl, <<49>>>>}
  \cup {<<c, k1, n>> : c \in {L_incrby, L_decrby}, n \in {<<53>>, <<45,49>>, <<97>>, BigStr(Int64Max), BigStr(Int64Min), <<>>}}
  \* float arithmetic on its own key so that operands stay in the exactly-representable subset (DESIGN.md 2.4)
  \cup {<<L_set, K1, v>> : v \in FloatVals} \cup {<<L_get, K1>>}
  \cup {<<L_incrbyfloat, K1, n>> : n \in {<<49,46,53>>, <<45,48,46,53>>, <<97>>, <<50>>, <<48,46,50,53>>, L_inf, L_minus_inf, L_nan}} \cup {<<L_incrbyfloat, kl, <<49>>>>}
  \cup {<<L_incr>>, <<L_incrby, k1>>, <<L_incrbyfloat, K1>>, <<L_decrby, k1, <<49>>, <<49>>>>}
\* integers on k: |n| <= 12 or one of the seeded values; exact decimals on K: -1 < x < 5, at most one fractional digit
SmallDec(v, lo, hi) == LET p == ParseDec(v) IN p.ok /\ ~p.corner /\ p.sc <= 1 /\ Len(v) <= 3
                         /\ DecLess(DecOfBig(BigOfInt(lo)), p) /\ DecLess(p, DecOfBig(BigOfInt(hi)))
NumBound(s) == \A k \in DOMAIN s.db : s.db[k].t = "string" =>
                 IF k = K1 THEN s.db[k].v \in FloatVals \/ SmallDec(s.db[k].v, -1, 5)
                 ELSE s.db[k].v \in NumVals \/ (SmallDec(s.db[k].v, -13, 13) /\ ParseBig(s.db[k].v).ok)
=============================================================================
