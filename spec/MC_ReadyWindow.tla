-------------------------- MODULE MC_ReadyWindow --------------------------
EXTENDS ReadyWindow

\* hand-picked leader-log families (quick tier): a successor that lacks the tail of its predecessor, at several depths
F1 == << <<1, 1, 1>>, <<1, 1, 2>>, <<1, 1, 2, 3>> >>
F2 == << <<1, 1, 1, 1>>, <<1, 2, 2>>, <<1, 2, 3, 3>> >>
F3 == << <<1, 1>>, <<1, 1, 2, 2>>, <<1, 1, 2, 3>> >>
F4 == << <<1, 1, 1>>, <<1, 2, 2, 2>>, <<1, 1, 1, 3>> >>
QuickFamilies == {F1, F2, F3, F4}
\* two leaders (quick tier, exhaustive)
G1 == << <<1, 1, 1>>, <<1, 1, 2>> >>
G2 == << <<1, 1, 1, 1>>, <<1, 2, 2>> >>
G3 == << <<1, 1>>, <<1, 1, 2, 2>> >>
TwoLeaders == {G1, G2, G3}
QuickTwo == {G1, G2}
OnlyG1 == {G1}
OnlyG2 == {G2}
OnlyG3 == {G3}
Only1 == {F1}
Only2 == {F2}
Only3 == {F3}
Only4 == {F4}

\* every well-formed family of MaxTerm leaders with logs of at most n entries (thorough tier, model only)
RECURSIVE Seqs(_, _)
Seqs(t, n) == IF n = 0 THEN {<<>>} ELSE {Append(s, x) : s \in Seqs(t, n - 1), x \in 1..t}
LogsOf(t, n) == {s \in UNION {Seqs(t, k) : k \in 1..n} : s[Len(s)] = t /\ \A j \in 1..(Len(s) - 1) : s[j] <= s[j + 1]}
AllFamiliesUpTo(n) == {f \in [1..MaxTerm -> UNION {LogsOf(t, n) : t \in 1..MaxTerm}] :
                          (\A t \in 1..MaxTerm : f[t] \in LogsOf(t, n)) /\ WellFormedFamily(f)}
AllFamilies3 == AllFamiliesUpTo(3)

ASSUME \A f \in QuickFamilies : WellFormedFamily(f)
=============================================================================
