CONSTANTS
  Server = {1, 2, 3}
  Campaigners = {1, 2}
  MaxTerm = 1
  MaxProposals = 0
  MaxCrashes = 0
  MaxDrops = 0
  MaxDups = 0
  MaxHeartbeats = 0
  MaxLog = 2
  MaxNet = 6
  MaxEnts = 0
  LossySend = FALSE
  SimDepth = 0
  Script <- NoScript
  W_CommitAnyTerm = FALSE
  W_VoteIgnoreVoted = FALSE
  W_VoteIgnoreLog = FALSE
  W_NoPersistVote = FALSE
  W_AppendAlwaysTruncates = FALSE
  W_HeartbeatCommitUnbounded = FALSE
  W_QuorumMinusOne = FALSE
  W_KeepMatchOnReset = FALSE
  PreVote = TRUE
  W_PreVoteRespCountsAsVote = TRUE
  ConfChange = FALSE
  InitVoters = {1, 2, 3}
  AddVoters = {}
  RemoveVoters = {}
  MaxConfChanges = 0
  MaxConfRefusals = 0
  W_ConfChangeNoPendingCheck = FALSE
  W_AddedVoterCaughtUp = FALSE
INIT Init
NEXT Next
CONSTRAINT NetBound
VIEW view
INVARIANT EmitAttack
