---------------------------- MODULE TraceCluster ----------------------------
(***************************************************************************)
(* B2 for C08: validation of the hook traces recorded by REAL cluster node *)
(* processes (raftexample/verif_event.go, build tag verif) against the     *)
(* stage structure of Cluster.tla.  One pass, one line per step (pattern   *)
(* of TraceKs.tla): a line that the specification cannot follow prints a   *)
(* CLFAIL record and the rest of that node's trace is skipped.             *)
(*                                                                         *)
(* Input (ndjson named by env TRACE; checks/C08.py normalises the hook's   *)
(* all-string fields into uniformly typed records and concatenates the     *)
(* per-node traces, each introduced by a `reset` line):                    *)
(*   {"ev":..., "seq":n, "id":"...", "a":n, "b":n, "f":bool, "src":"..."}  *)
(*   ready:   a = len(Entries)  b = len(CommittedEntries)  f = snapshot?   *)
(*   walsave: a = len(Entries)  b = index of the last saved entry (0 none) *)
(*   append:  b = index of the last appended entry                         *)
(*   send:    a = number of messages                                       *)
(*   publish: a = rc.appliedIndex after publishEntries                     *)
(*   snapshot_start: a = applied    snapshot_done: a = applied b = compact *)
(*   advance: a = rc.snapshotIndex                                         *)
(*   propose / apply / reply: id                                           *)
(* seq restarts at 1 when the node process restarts (new incarnation).     *)
(*                                                                         *)
(* Rules (names appear in CLFAIL records):                                 *)
(*  seq        events of one incarnation are numbered without gaps         *)
(*  order      every Ready cycle is ready, walsave, append, send, publish, *)
(*             [snapshot_start, snapshot_done,] advance  (raft.go 493-518: *)
(*             WalSave before Append, Send, Publish; snapshot after publish*)
(*             and before Advance)                                         *)
(*  fields     walsave.entries = ready.entries; append.last = walsave.last *)
(*             when entries were saved; publish.applied never decreases    *)
(*             and only moves when the Ready carried committed entries or  *)
(*             a snapshot; snapshot_start/done.applied = applied;          *)
(*             advance.snapshot_index = applied right after a snapshot     *)
(*             (taken or installed) and unchanged otherwise                *)
(*  saved      first incarnation (WAL empty at start): nothing is published*)
(*             beyond the highest index a walsave event covers             *)
(*  apply      `apply id` at most once per incarnation, only after some    *)
(*             Ready with committed entries passed `send`, and - for an id *)
(*             proposed on this node in this incarnation - only after a    *)
(*             walsave with entries that follows the propose               *)
(*             (AckAfterDurable as observable on one node)                 *)
(*  reply      `reply id` only after `apply id` on this node, once, and    *)
(*             only for an id proposed on this node in this incarnation    *)
(*  restart    the snapshot index a restarted node starts from is 0 or the *)
(*             index of a snapshot this node started or installed earlier, *)
(*             and not older than the newest snapshot it completed         *)
(***************************************************************************)
EXTENDS Integers, Sequences, FiniteSets, TLC, Json, IOUtils

Trace == ndJsonDeserialize(IOEnv.TRACE)

VARIABLES l, s, skip
vars == <<l, s, skip>>

Fresh == [stage |-> "idle", inc |-> 0, lastSeq |-> 0,
          rdE |-> 0, rdC |-> 0, rdSnap |-> FALSE, snapSaved |-> FALSE, cycLast |-> 0,
          applied |-> 0, snapIdx |-> 0, savedHi |-> 0, handed |-> FALSE, firstAdv |-> TRUE,
          proposed |-> {}, pend |-> {}, appliedIds |-> {}, replied |-> {},
          started |-> {}, installed |-> {}, maxDone |-> 0, justSnap |-> FALSE,
          \* hard state: rdT / rdV = term and vote carried by the Ready in progress (0 = this Ready has no hard state);
          \* actT / actV = the last term and vote whose Ready got as far as `send` with messages - what the node ACTED upon
          \* (a vote it granted, a term it campaigned in). Kept across incarnations: a restarted node must recover at least that.
          rdT |-> 0, rdV |-> 0, actT |-> 0, actV |-> 0]

Init == l = 1 /\ s = Fresh /\ skip = FALSE

Max(a, b) == IF a >= b THEN a ELSE b

\* start of a new incarnation: everything volatile is forgotten; snapshots taken so far stay on disk
Reborn(t) == [t EXCEPT !.stage = "idle", !.inc = t.inc + 1, !.rdE = 0, !.rdC = 0, !.rdSnap = FALSE, !.snapSaved = FALSE, !.cycLast = 0,
                       !.applied = 0, !.snapIdx = 0, !.handed = FALSE, !.firstAdv = TRUE,
                       !.proposed = {}, !.pend = {}, !.appliedIds = {}, !.replied = {}, !.justSnap = FALSE, !.rdT = 0, !.rdV = 0]

\* result of one event on state t: [ok, why, t]
Bad(t, why) == [ok |-> FALSE, why |-> why, t |-> t]
Good(t) == [ok |-> TRUE, why |-> "", t |-> t]

StepEv(t0, e) ==
  LET t1 == IF e.seq = 1 THEN Reborn(t0) ELSE t0
      t == [t1 EXCEPT !.lastSeq = e.seq] IN
  IF e.seq # 1 /\ e.seq # t0.lastSeq + 1 THEN Bad(t, "seq: event numbers of one incarnation are not contiguous (an event is missing)")
  ELSE IF e.ev = "ready" THEN
       IF t.stage # "idle" THEN Bad(t, "order: ready while the previous cycle has not reached advance")
       ELSE Good([t EXCEPT !.stage = "ready", !.rdE = e.a, !.rdC = e.b, !.rdSnap = e.f, !.snapSaved = FALSE, !.cycLast = 0, !.rdT = e.c, !.rdV = e.d])
  ELSE IF e.ev = "recovered" THEN
       \* replayWAL: the hard state read back from the WAL. Term and vote are synced before the messages of their Ready leave
       \* (raft.MustSync), so a restart never finds less than what the node acted upon
       IF e.c < t.actT THEN Bad(t, "recovered: the persisted term is behind a term the node had acted upon (sent messages in) before it went down")
       ELSE IF e.c = t.actT /\ t.actV # 0 /\ e.d # t.actV THEN Bad(t, "recovered: the persisted vote differs from the vote the node had sent in that term before it went down")
       ELSE Good(t)
  ELSE IF e.ev = "savesnap" THEN
       \* the snapshot of a Ready (file + WAL record) is made durable BEFORE the hard state and entries of that Ready
       \* (raft.go: "must save the snapshot file and WAL snapshot entry before saving any other entries or hardstate");
       \* Recover.tla shows why: a hard state whose commit is the snapshot index must never be durable without the snapshot
       IF t.stage # "ready" \/ ~t.rdSnap THEN Bad(t, "order: the snapshot of a Ready is saved after its hard state / entries (savesnap must come between ready and walsave)")
       ELSE Good([t EXCEPT !.snapSaved = TRUE])
  ELSE IF e.ev = "walsave" THEN
       IF t.stage # "ready" THEN Bad(t, "order: walsave must directly follow ready")
       ELSE IF t.rdSnap /\ ~t.snapSaved THEN Bad(t, "order: the snapshot of a Ready is saved after its hard state / entries (walsave of a Ready that carries a snapshot before savesnap)")
       ELSE IF e.a # t.rdE THEN Bad(t, "fields: walsave saved a different number of entries than the Ready carried")
       ELSE Good([t EXCEPT !.stage = "walsave", !.cycLast = e.b, !.savedHi = Max(@, e.b),
                           !.pend = IF e.a > 0 THEN {} ELSE @])
  ELSE IF e.ev = "append" THEN
       IF t.stage # "walsave" THEN Bad(t, "order: append before walsave (entries reach raft storage before the WAL)")
       ELSE IF t.rdE > 0 /\ e.b # t.cycLast THEN Bad(t, "fields: append.last differs from walsave.last")
       ELSE Good([t EXCEPT !.stage = "append"])
  ELSE IF e.ev = "send" THEN
       IF t.stage # "append" THEN Bad(t, "order: send before walsave/append (messages leave before the WAL write)")
       ELSE Good([t EXCEPT !.stage = "send", !.handed = @ \/ t.rdC > 0,
                           !.actT = IF e.a > 0 /\ t.rdT # 0 THEN t.rdT ELSE @,
                           !.actV = IF e.a > 0 /\ t.rdT # 0 THEN t.rdV ELSE @])
  ELSE IF e.ev = "publish" THEN
       IF t.stage # "send" THEN Bad(t, "order: publish before walsave/append/send (entries handed to the state machine before the WAL write)")
       ELSE IF e.a < t.applied THEN Bad(t, "fields: appliedIndex decreased")
       ELSE IF t.inc > 0 /\ ~t.firstAdv /\ t.rdC = 0 /\ ~t.rdSnap /\ e.a # t.applied THEN Bad(t, "fields: appliedIndex moved although the Ready carried no committed entries")
       ELSE IF t.inc = 1 /\ e.a > t.savedHi /\ ~t.rdSnap /\ t.installed = {} THEN Bad(t, "saved: an index was published that no walsave of this node covers")
       ELSE Good([t EXCEPT !.stage = "publish", !.applied = e.a, !.justSnap = t.rdSnap,
                           !.installed = IF t.rdSnap THEN @ \cup {e.a} ELSE @])
  ELSE IF e.ev = "snapshot_start" THEN
       IF t.stage # "publish" THEN Bad(t, "order: snapshot_start outside the window publish..advance")
       ELSE IF e.a # t.applied THEN Bad(t, "fields: snapshot taken at an index other than appliedIndex")
       ELSE Good([t EXCEPT !.stage = "snapstart", !.started = @ \cup {e.a}])
  ELSE IF e.ev = "snapshot_done" THEN
       IF t.stage # "snapstart" THEN Bad(t, "order: snapshot_done without snapshot_start")
       ELSE IF e.a # t.applied \/ e.b > e.a THEN Bad(t, "fields: snapshot_done index/compaction beyond appliedIndex")
       ELSE Good([t EXCEPT !.stage = "snapdone", !.maxDone = Max(@, e.a), !.justSnap = TRUE])
  ELSE IF e.ev = "advance" THEN
       IF t.stage \notin {"publish", "snapdone"} THEN Bad(t, "order: advance before publish (or inside an unfinished snapshot)")
       ELSE IF t.firstAdv /\ t.inc > 1 /\ ~t.justSnap /\ ~(e.a = 0 \/ e.a \in t.started \/ e.a \in t.installed)
            THEN Bad(t, "restart: the node restarted from a snapshot index it never started or installed")
       ELSE IF t.firstAdv /\ t.inc > 1 /\ ~t.justSnap /\ e.a < t.maxDone
            THEN Bad(t, "restart: the node restarted from an older snapshot than the newest it completed")
       ELSE IF t.justSnap /\ e.a # t.applied THEN Bad(t, "fields: snapshotIndex is not appliedIndex right after a snapshot")
       ELSE IF ~t.firstAdv /\ ~t.justSnap /\ e.a # t.snapIdx THEN Bad(t, "fields: snapshotIndex changed without a snapshot")
       ELSE IF e.a > t.applied THEN Bad(t, "fields: snapshotIndex beyond appliedIndex")
       ELSE Good([t EXCEPT !.stage = "idle", !.snapIdx = e.a, !.firstAdv = FALSE, !.justSnap = FALSE])
  ELSE IF e.ev = "propose" THEN
       Good([t EXCEPT !.proposed = @ \cup {e.id}, !.pend = @ \cup {e.id}])
  ELSE IF e.ev = "apply" THEN
       IF e.id \in t.appliedIds THEN Bad(t, "apply: the same proposal was applied twice in one incarnation")
       ELSE IF ~t.handed THEN Bad(t, "apply: a command was applied before any committed entries had passed walsave/append/send")
       ELSE IF e.id \in t.pend THEN Bad(t, "apply: a command proposed on this node was applied before any walsave with entries followed its proposal")
       ELSE Good([t EXCEPT !.appliedIds = @ \cup {e.id}])
  ELSE IF e.ev = "reply" THEN
       IF e.id \notin t.appliedIds THEN Bad(t, "reply: a client was answered before its command was applied on this node")
       ELSE IF e.id \notin t.proposed THEN Bad(t, "reply: answer for a command that was not proposed on this node in this incarnation")
       ELSE IF e.id \in t.replied THEN Bad(t, "reply: the same command was answered twice")
       ELSE Good([t EXCEPT !.replied = @ \cup {e.id}])
  ELSE Bad(t, "unknown event")

Step ==
  /\ l <= Len(Trace)
  /\ l' = l + 1
  /\ LET e == Trace[l] IN
     IF e.ev = "reset" THEN s' = Fresh /\ skip' = FALSE
     ELSE IF skip THEN UNCHANGED <<s, skip>>
     ELSE LET r == StepEv(s, e) IN
          IF r.ok THEN s' = r.t /\ skip' = FALSE
          ELSE /\ PrintT("CLFAIL " \o ToJson([line |-> l, src |-> e.src, seq |-> e.seq, ev |-> e.ev, why |-> r.why,
                                             stage |-> s.stage, inc |-> s.inc]))
               /\ s' = s /\ skip' = TRUE

Spec == Init /\ [][Step]_vars
Accepted == TLCGet("stats").diameter - 1 = Len(Trace)
=============================================================================
