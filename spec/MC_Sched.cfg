SPECIFICATION Spec
INVARIANT TypeOK
INVARIANT Exclusion
INVARIANT NoStrand
