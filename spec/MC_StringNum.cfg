SPECIFICATION Spec
CONSTANTS
  Cmds <- NumCmds
  SetupCmds <- StringSetup
  Bound <- NumBound
  T0 = 1000
VIEW View
ACTION_CONSTRAINT Emit
INVARIANT TypeOK
PROPERTY ErrorsChangeNothing
CHECK_DEADLOCK FALSE
