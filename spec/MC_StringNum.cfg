SPECIFICATION Spec
CONSTANTS
  Cmds <- NumCmds
  InitSt <- StringInit
  Bound <- NumBound
  T0 = 1000
VIEW View
CONSTRAINT Constraint
ACTION_CONSTRAINT Emit
INVARIANT TypeOK
PROPERTY ErrorsChangeNothing
CHECK_DEADLOCK FALSE
