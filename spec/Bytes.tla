------------------------------- MODULE Bytes -------------------------------
(***************************************************************************)
(* Byte strings are sequences of naturals 0..255.  This module holds the   *)
(* byte-level helpers shared by every keyspace module: case folding,       *)
(* ASCII literals, lexicographic order, and exact decimal arithmetic on     *)
(* digit sequences (TLC integers are 32-bit, Redis integers are 64-bit).   *)
(***************************************************************************)
EXTENDS Integers, Sequences, FiniteSets, TLC, Lit

IsUpper(c) == c >= 65 /\ c <= 90
LowerB(c) == IF IsUpper(c) THEN c + 32 ELSE c
Lower(b) == [i \in 1..Len(b) |-> LowerB(b[i])]

\* ---- sequence helpers ----
RECURSIVE SeqSum(_)
SeqSum(s) == IF s = <<>> THEN 0 ELSE Head(s) + SeqSum(Tail(s))

Rev(s) == [i \in 1..Len(s) |-> s[Len(s) + 1 - i]]
Take(s, n) == SubSeq(s, 1, IF n > Len(s) THEN Len(s) ELSE n)
Drop(s, n) == SubSeq(s, n + 1, Len(s))
RangeOf(s) == {s[i] : i \in 1..Len(s)}
Repeat(x, n) == [i \in 1..n |-> x]
Min2(a, b) == IF a < b THEN a ELSE b
Max2(a, b) == IF a > b THEN a ELSE b

RECURSIVE Flat(_)
Flat(ss) == IF ss = <<>> THEN <<>> ELSE Head(ss) \o Flat(Tail(ss))

\* lexicographic order on byte strings (memcmp order)
RECURSIVE BLess(_, _)
BLess(a, b) == IF b = <<>> THEN FALSE
               ELSE IF a = <<>> THEN TRUE
               ELSE IF Head(a) < Head(b) THEN TRUE
               ELSE IF Head(a) > Head(b) THEN FALSE
               ELSE BLess(Tail(a), Tail(b))

\* deterministic enumeration of a finite set of byte strings in lexicographic order
RECURSIVE SortBytes(_)
SortBytes(S) == IF S = {} THEN <<>>
                ELSE LET m == CHOOSE x \in S : \A y \in S : y = x \/ BLess(x, y)
                     IN <<m>> \o SortBytes(S \ {m})

\* ---- decimal digits ----
IsDigit(c) == c >= 48 /\ c <= 57
AllDigits(b) == \A i \in 1..Len(b) : IsDigit(b[i])
Dig(b) == [i \in 1..Len(b) |-> b[i] - 48]          \* bytes -> digits
Und(d) == [i \in 1..Len(d) |-> d[i] + 48]          \* digits -> bytes

RECURSIVE StripLead(_)
StripLead(d) == IF Len(d) > 1 /\ Head(d) = 0 THEN StripLead(Tail(d)) ELSE d

\* magnitude comparison on normalised digit sequences (most significant first)
MagLess(a, b) == IF Len(a) # Len(b) THEN Len(a) < Len(b) ELSE BLess(a, b)

RECURSIVE AddLsf(_, _, _)
AddLsf(a, b, c) ==
  IF a = <<>> /\ b = <<>> THEN (IF c = 0 THEN <<>> ELSE <<c>>)
  ELSE LET x == IF a = <<>> THEN 0 ELSE Head(a)
           y == IF b = <<>> THEN 0 ELSE Head(b)
           t == x + y + c
       IN <<t % 10>> \o AddLsf(IF a = <<>> THEN <<>> ELSE Tail(a), IF b = <<>> THEN <<>> ELSE Tail(b), t \div 10)

RECURSIVE SubLsf(_, _, _)   \* a - b - borrow, requires a >= b
SubLsf(a, b, br) ==
  IF a = <<>> THEN <<>>
  ELSE LET x == Head(a)
           y == IF b = <<>> THEN 0 ELSE Head(b)
           t == x - y - br
       IN IF t < 0 THEN <<t + 10>> \o SubLsf(Tail(a), IF b = <<>> THEN <<>> ELSE Tail(b), 1)
          ELSE <<t>> \o SubLsf(Tail(a), IF b = <<>> THEN <<>> ELSE Tail(b), 0)

MagAdd(a, b) == StripLead(Rev(AddLsf(Rev(a), Rev(b), 0)))
MagSub(a, b) == StripLead(Rev(SubLsf(Rev(a), Rev(b), 0)))      \* a >= b

\* A big integer: [neg |-> BOOLEAN, d |-> normalised digits]; zero is never negative.
BigZero == [neg |-> FALSE, d |-> <<0>>]
BigNorm(x) == IF x.d = <<0>> THEN BigZero ELSE x
BigNeg(x) == BigNorm([neg |-> ~x.neg, d |-> x.d])
BigAdd(x, y) ==
  IF x.neg = y.neg THEN BigNorm([neg |-> x.neg, d |-> MagAdd(x.d, y.d)])
  ELSE IF MagLess(x.d, y.d) THEN BigNorm([neg |-> y.neg, d |-> MagSub(y.d, x.d)])
  ELSE BigNorm([neg |-> x.neg, d |-> MagSub(x.d, y.d)])
BigLess(x, y) == IF x.neg # y.neg THEN x.neg
                 ELSE IF x.neg THEN MagLess(y.d, x.d) ELSE MagLess(x.d, y.d)
BigLeq(x, y) == x = y \/ BigLess(x, y)
BigStr(x) == IF x.neg THEN <<45>> \o Und(x.d) ELSE Und(x.d)

Int64Max == [neg |-> FALSE, d |-> <<9,2,2,3,3,7,2,0,3,6,8,5,4,7,7,5,8,0,7>>]
Int64Min == [neg |-> TRUE,  d |-> <<9,2,2,3,3,7,2,0,3,6,8,5,4,7,7,5,8,0,8>>]
InInt64(x) == BigLeq(Int64Min, x) /\ BigLeq(x, Int64Max)

(* Parsing of a signed 64-bit decimal as Redis' string2ll does.
   Result: [ok, corner, n].  ok = FALSE: certainly not an integer.
   corner = TRUE: lexical corner case on which implementations differ
   (leading '+', leading zeros, "-0"); the numeric reading is in n. *)
ParseBig(b) ==
  LET neg  == Len(b) >= 1 /\ b[1] = 45
      plus == Len(b) >= 1 /\ b[1] = 43
      body == IF neg \/ plus THEN Tail(b) ELSE b
  IN IF body = <<>> \/ ~AllDigits(body) \/ Len(body) > 25 THEN [ok |-> FALSE, corner |-> FALSE, n |-> BigZero]
     ELSE LET dg == Dig(body)
              nd == StripLead(dg)
              n  == BigNorm([neg |-> neg, d |-> nd])
              corner == plus \/ nd # dg \/ (neg /\ nd = <<0>>)
          IN IF ~InInt64(n) THEN [ok |-> FALSE, corner |-> FALSE, n |-> BigZero]
             ELSE [ok |-> TRUE, corner |-> corner, n |-> n]

\* small integers (|n| < 10^9) to/from TLC integers
RECURSIVE NatDigits(_)
NatDigits(n) == IF n < 10 THEN <<n>> ELSE NatDigits(n \div 10) \o <<n % 10>>
IntToBytes(n) == IF n < 0 THEN <<45>> \o Und(NatDigits(0 - n)) ELSE Und(NatDigits(n))
BigOfInt(n) == IF n < 0 THEN [neg |-> TRUE, d |-> NatDigits(0 - n)] ELSE [neg |-> FALSE, d |-> NatDigits(n)]
RECURSIVE DigitsVal(_)
DigitsVal(d) == IF d = <<>> THEN 0 ELSE DigitsVal(SubSeq(d, 1, Len(d) - 1)) * 10 + d[Len(d)]
FitsSmall(x) == Len(x.d) <= 9
SmallOfBig(x) == IF x.neg THEN 0 - DigitsVal(x.d) ELSE DigitsVal(x.d)

(* ParseSmall: an index/count argument.  [ok, big, n]: ok = syntactically an int64;
   big = outside +-10^9 (n is then clamped to +-10^9, which is beyond every
   modelled collection size, so "beyond either end" semantics are preserved). *)
ParseSmall(b) ==
  LET p == ParseBig(b)
  IN IF ~p.ok THEN [ok |-> FALSE, corner |-> FALSE, n |-> 0]
     ELSE IF FitsSmall(p.n) THEN [ok |-> TRUE, corner |-> p.corner, n |-> SmallOfBig(p.n)]
     ELSE [ok |-> TRUE, corner |-> p.corner, n |-> IF p.n.neg THEN 0 - 1000000000 ELSE 1000000000]

(* ---- exact decimals: [neg, d (integer mantissa digits), sc (number of fractional digits)] ----
   Used for INCRBYFLOAT / HINCRBYFLOAT / scores.  Drivers only generate values on
   which IEEE-754 double addition and shortest formatting are exact (few digits,
   dyadic fractions), so exact decimal arithmetic is the reference there. *)
PosOf(b, c) == IF \E i \in 1..Len(b) : b[i] = c THEN CHOOSE i \in 1..Len(b) : b[i] = c /\ \A j \in 1..(i-1) : b[j] # c ELSE 0

ParseDec(b) ==
  LET neg  == Len(b) >= 1 /\ b[1] = 45
      plus == Len(b) >= 1 /\ b[1] = 43
      body == IF neg \/ plus THEN Tail(b) ELSE b
      dot  == PosOf(body, 46)
      ip   == IF dot = 0 THEN body ELSE SubSeq(body, 1, dot - 1)
      fp   == IF dot = 0 THEN <<>> ELSE SubSeq(body, dot + 1, Len(body))
  IN IF body = <<>> \/ ~AllDigits(ip) \/ ~AllDigits(fp) \/ (ip = <<>> /\ fp = <<>>) \/ Len(body) > 17
     THEN [ok |-> FALSE, corner |-> FALSE, neg |-> FALSE, d |-> <<0>>, sc |-> 0]
     ELSE LET m == StripLead(Dig(ip \o fp))
          IN [ok |-> TRUE, corner |-> plus \/ ip = <<>> \/ (dot # 0 /\ fp = <<>>),
              neg |-> neg /\ m # <<0>>, d |-> m, sc |-> Len(fp)]

DecScaleTo(x, sc) == [neg |-> x.neg, d |-> StripLead(x.d \o Repeat(0, sc - x.sc))]
RECURSIVE DecTrim(_)
DecTrim(x) == IF x.sc > 0 /\ x.d[Len(x.d)] = 0 /\ Len(x.d) > 1
              THEN DecTrim([neg |-> x.neg, d |-> SubSeq(x.d, 1, Len(x.d) - 1), sc |-> x.sc - 1])
              ELSE IF x.d = <<0>> THEN [neg |-> FALSE, d |-> <<0>>, sc |-> 0] ELSE x
DecAdd(x, y) ==
  LET sc == Max2(x.sc, y.sc)
      s  == BigAdd(DecScaleTo(x, sc), DecScaleTo(y, sc))
  IN DecTrim([neg |-> s.neg, d |-> s.d, sc |-> sc])
DecLess(x, y) ==
  LET sc == Max2(x.sc, y.sc) IN BigLess(DecScaleTo(x, sc), DecScaleTo(y, sc))
DecEq(x, y) == ~DecLess(x, y) /\ ~DecLess(y, x)
DecStr(x0) ==
  LET x == DecTrim([neg |-> x0.neg, d |-> x0.d, sc |-> x0.sc])
      pd == IF Len(x.d) <= x.sc THEN Repeat(0, x.sc + 1 - Len(x.d)) \o x.d ELSE x.d
      ip == SubSeq(pd, 1, Len(pd) - x.sc)
      fp == SubSeq(pd, Len(pd) - x.sc + 1, Len(pd))
      body == IF x.sc = 0 THEN Und(ip) ELSE Und(ip) \o <<46>> \o Und(fp)
  IN IF x.neg THEN <<45>> \o body ELSE body
DecOfBig(n) == [neg |-> n.neg, d |-> n.d, sc |-> 0]
=============================================================================
