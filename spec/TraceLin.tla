------------------------------- MODULE TraceLin -------------------------------
(***************************************************************************)
(* Linearizability of recorded concurrent histories against the sequential *)
(* keyspace reference (C05, C13, C07).  One ndjson line per event:         *)
(*   {"ev":"reset","h":n}                           start of history n     *)
(*   {"ev":"inv","h":n,"id":i,"now":sec,"argv":[..],"reply":{..},"answered":b}   *)
(*   {"ev":"res","h":n,"id":i,"reply":{k,v,e,a}}      client got the reply *)
(* Events are in real-time order (a global ticket taken before invoke and  *)
(* after return), so an operation is concurrent with everything between    *)
(* its inv and res lines.  Multi-key commands that the property declares   *)
(* atomic (MSET, RENAME, LMOVE, SMOVE) are single operations here.         *)
(*                                                                         *)
(* The checker keeps the SET of configurations [st, done]: st = model state *)
(* after the operations linearized so far, done = operations already        *)
(* linearized whose response line is still ahead.  Just-in-time            *)
(* linearization: configurations are only extended at a `res` line, by     *)
(* linearizing open operations (in any order) until the responding one is  *)
(* in `done`; an operation may be linearized only with a model outcome     *)
(* whose reply pattern matches its LOGGED reply (known from the trace).    *)
(* If no configuration survives a `res` line the history is not            *)
(* linearizable: a NONLIN record is printed and the history is skipped.    *)
(***************************************************************************)
EXTENDS KsMatch, Json, IOUtils

Trace == ndJsonDeserialize(IOEnv.TRACE)

VARIABLES l, cands, open, skip
vars == <<l, cands, open, skip>>
\* open: function id -> [argv, now, reply, answered] of invoked, not yet responded operations.  The driver writes the
\* history after the run, so every `inv` line already carries the reply its operation eventually got.

Init == l = 1 /\ cands = {[st |-> EmptyState, done |-> {}]} /\ open = <<>> /\ skip = FALSE

\* linearize operation id in configuration c: only with a model outcome whose reply pattern matches the logged reply;
\* an operation that never got a reply (its client died) may take effect with any outcome
LinOne(c, id) ==
  LET op == open[id] IN
  IF op.answered
  THEN LET o == Exec(c.st, op.now, op.argv, op.reply) IN
       {[st |-> o[i].s, done |-> c.done \cup {id}] : i \in {j \in 1..Len(o) : ReplyMatch(o[j].r, op.reply)}}
  ELSE LET o == Exec(c.st, op.now, op.argv, NoHint) IN {[st |-> o[i].s, done |-> c.done \cup {id}] : i \in 1..Len(o)}

Ext(C) == UNION { UNION {LinOne(c, id) : id \in (DOMAIN open) \ c.done} : c \in C }
RECURSIVE Close(_)
Close(C) == LET N == Ext(C) IN IF N \subseteq C THEN C ELSE Close(C \cup N)

Step ==
  /\ l <= Len(Trace)
  /\ l' = l + 1
  /\ LET e == Trace[l] IN
     IF e.ev = "reset" THEN cands' = {[st |-> EmptyState, done |-> {}]} /\ open' = <<>> /\ skip' = FALSE
     ELSE IF skip THEN UNCHANGED <<cands, open, skip>>
     ELSE IF e.ev = "setup" THEN   \* sequential prelude: applied, not checked
          /\ cands' = UNION {LET o == Exec(c.st, e.now, e.argv, NoHint) IN {[st |-> o[i].s, done |-> c.done] : i \in 1..Len(o)} : c \in cands}
          /\ UNCHANGED <<open, skip>>
     ELSE IF e.ev = "inv" THEN
          /\ open' = [x \in (DOMAIN open) \cup {e.id} |-> IF x = e.id THEN [argv |-> e.argv, now |-> e.now, reply |-> e.reply, answered |-> e.answered] ELSE open[x]]
          /\ UNCHANGED <<cands, skip>>
     ELSE \* res
          LET all == Close(cands)
              ok == {c \in all : e.id \in c.done}
          IN IF ok # {} THEN
                  /\ cands' = {[st |-> c.st, done |-> c.done \ {e.id}] : c \in ok}
                  /\ open' = [x \in (DOMAIN open) \ {e.id} |-> open[x]]
                  /\ skip' = FALSE
             ELSE /\ PrintT("NONLIN " \o ToJson([line |-> l, h |-> e.h, id |-> e.id, argv |-> open[e.id].argv, got |-> e.reply,
                                                 ncands |-> Cardinality(cands), nopen |-> Cardinality(DOMAIN open)]))
                  /\ skip' = TRUE /\ UNCHANGED <<cands, open>>

Spec == Init /\ [][Step]_vars
Accepted == TLCGet("stats").diameter - 1 = Len(Trace)
=============================================================================
