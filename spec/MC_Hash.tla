------------------------------- MODULE MC_Hash -------------------------------
(* Bounded instance for C10: hash commands over one hash and one string key. *)
EXTENDS MCBase

hk == <<104>>  sk == <<115>>
ff == <<102>>  fg == <<103>>  fe == <<>>          \* fields "f", "g", ""
B(i) == IntToBytes(i)
CONSTANT Fields
HVals == {<<>>, <<97>>, <<49>>, BigStr(Int64Max)}

FieldsQuick == {ff, fg}
FieldsThorough == {ff, fg, fe}
HashSetup == << <<L_set, sk, <<97>>>> >>

HashCmds ==
       {<<L_hset, hk, f, v>> : f \in Fields \ {fg}, v \in HVals}
  \cup {<<L_hset, hk, fg, v>> : v \in HVals \ {BigStr(Int64Max)}}   \* g takes the float increments: keep it exactly representable
  \cup {<<L_hset, hk, ff, <<97>>, fg, <<>>>>, <<L_hset, hk, ff, <<97>>, ff, <<49>>>>, <<L_hset, hk, ff>>, <<L_hset, hk, ff, <<97>>, fg>>, <<L_hset, sk, ff, <<97>>>>}
  \cup {<<L_hsetnx, hk, f, <<97>>>> : f \in Fields} \cup {<<L_hsetnx, sk, ff, <<97>>>>}
  \cup {<<L_hget, hk, f>> : f \in Fields \cup {<<120>>}} \cup {<<L_hget, sk, ff>>, <<L_hget, hk>>}
  \cup {<<L_hmget, hk, ff, fg, <<120>>>>, <<L_hmget, hk, ff, ff>>, <<L_hmget, sk, ff>>}
  \cup {<<c, k>> : c \in {L_hgetall, L_hkeys, L_hvals, L_hlen}, k \in {hk, sk}}
  \cup {<<c, hk, f>> : c \in {L_hexists, L_hstrlen}, f \in Fields \cup {<<120>>}} \cup {<<L_hexists, sk, ff>>, <<L_hstrlen, sk, ff>>}
  \cup {<<L_hdel, hk, f>> : f \in Fields \cup {<<120>>}} \cup {<<L_hdel, hk, ff, fg>>, <<L_hdel, hk, ff, ff>>, <<L_hdel, sk, ff>>, <<L_hdel, hk>>}
  \cup {<<L_hincrby, hk, ff, n>> : n \in {<<49>>, <<45, 49>>, <<97>>, BigStr(Int64Max), BigStr(Int64Min)}} \cup {<<L_hincrby, sk, ff, <<49>>>>, <<L_hincrby, hk, ff>>}
  \cup {<<L_hincrbyfloat, hk, fg, n>> : n \in {<<49, 46, 53>>, <<45, 48, 46, 53>>, <<97>>, L_inf, L_minus_inf, L_nan}} \cup {<<L_hincrbyfloat, sk, ff, <<49>>>>}
  \* (non-finite increments are never a number to store: rejected whether or not the field exists - seed C10-r3)
  \cup {<<L_hrandfield, hk>>, <<L_hrandfield, sk>>, <<L_hrandfield, hk, <<97>>>>}
  \cup {<<L_hrandfield, hk, B(n)>> : n \in {-2, -1, 0, 1, 2, 3}}
  \cup {<<L_hrandfield, hk, B(n), L_withvalues>> : n \in {-2, 1, 2}} \cup {<<L_hrandfield, hk, B(1), <<120>>>>}
  \cup {<<L_exists, hk>>, <<L_type, hk>>, <<L_del, hk>>}

\* values stay small: one byte, or one of the seeded values, or the few results of the modelled increments
HashBound(s) == \A k \in DOMAIN s.db : s.db[k].t = "hash" =>
                  \A f \in DOMAIN s.db[k].v : Len(s.db[k].v[f]) <= 1 \/ s.db[k].v[f] \in HVals \cup {<<45, 49>>, <<49, 46, 53>>, <<50, 46, 53>>, <<48, 46, 53>>, <<45, 48, 46, 53>>}
=============================================================================
