SPECIFICATION Spec
CONSTANTS
  Cmds <- StringCmds
  SetupCmds <- StringSetup
  Bound <- StringBound
  T0 = 1000
  Quick = TRUE
VIEW View
ACTION_CONSTRAINT Emit
INVARIANT TypeOK
PROPERTY ErrorsChangeNothing
CHECK_DEADLOCK FALSE
