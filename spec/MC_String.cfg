SPECIFICATION Spec
CONSTANTS
  Cmds <- StringCmds
  InitSt <- StringInit
  Bound <- StringBound
  T0 = 1000
VIEW View
CONSTRAINT Constraint
ACTION_CONSTRAINT Emit
INVARIANT TypeOK
PROPERTY ErrorsChangeNothing
CHECK_DEADLOCK FALSE
