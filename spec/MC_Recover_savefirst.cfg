SPECIFICATION Spec
CONSTANTS
  MaxIdx = 4
  MaxTerm = 2
  MaxAppend = 2
  MaxCuts = 0
  MaxDamage = 0
  W_EntiAlways = FALSE
  MaxReady = 3
  InstallSaveFirst = TRUE
  SnapshotMustBeInWal = TRUE
  MaxCrash = 1
CHECK_DEADLOCK FALSE
