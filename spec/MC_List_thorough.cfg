SPECIFICATION Spec
CONSTANTS
  Cmds <- ListCmds
  SetupCmds <- ListSetup
  Bound <- ListBound
  T0 = 1000
  MaxLen1 = 4
  MaxLen2 = 2
VIEW View
ACTION_CONSTRAINT Emit
INVARIANT TypeOK
PROPERTY ErrorsChangeNothing
CHECK_DEADLOCK FALSE
