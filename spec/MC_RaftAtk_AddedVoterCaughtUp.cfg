CONSTANTS
  Server = {1, 2, 3}
  Campaigners = {1, 2}
  MaxTerm = 2
  MaxProposals = 1
  MaxCrashes = 0
  MaxDrops = 0
  MaxDups = 0
  MaxHeartbeats = 1
  MaxLog = 4
  MaxNet = 3
  MaxEnts = 0
  LossySend = TRUE
  SimDepth = 0
  Script <- NoScript
  W_CommitAnyTerm = FALSE
  W_VoteIgnoreVoted = FALSE
  W_VoteIgnoreLog = FALSE
  W_NoPersistVote = FALSE
  W_AppendAlwaysTruncates = FALSE
  W_HeartbeatCommitUnbounded = FALSE
  W_QuorumMinusOne = FALSE
  W_KeepMatchOnReset = FALSE
  PreVote = FALSE
  W_PreVoteRespCountsAsVote = FALSE
  ConfChange = TRUE
  InitVoters = {1, 2}
  AddVoters = {3}
  RemoveVoters = {}
  MaxConfChanges = 1
  MaxConfRefusals = 0
  W_ConfChangeNoPendingCheck = FALSE
  W_AddedVoterCaughtUp = TRUE
INIT Init
NEXT Next
CONSTRAINT NetBound
VIEW view
INVARIANT EmitAttack
