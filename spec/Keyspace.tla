------------------------------ MODULE Keyspace ------------------------------
(***************************************************************************)
(* The sequential reference keyspace: dispatch by lower-cased command name *)
(* (server/db_manager.go:102 ExecCommand, memdb/command.go CmdTable) and   *)
(* the expiry rule applied before every command.                           *)
(***************************************************************************)
EXTENDS KsStream

Dispatch(s, now, a, h) ==
  LET n == Lower(a[1]) IN
  CASE n = L_set -> CmdSet(s, now, a)          [] n = L_get -> CmdGet(s, now, a)
    [] n = L_getrange -> CmdGetRange(s, now, a) [] n = L_setrange -> CmdSetRange(s, now, a)
    [] n = L_strlen -> CmdStrLen(s, now, a)    [] n = L_append -> CmdAppend(s, now, a)
    [] n = L_mset -> CmdMSet(s, now, a)        [] n = L_mget -> CmdMGet(s, now, a)
    [] n = L_setnx -> CmdSetNx(s, now, a)      [] n = L_setex -> CmdSetEx(s, now, a)
    [] n = L_incr -> CmdIncr(s, now, a)        [] n = L_decr -> CmdDecr(s, now, a)
    [] n = L_incrby -> CmdIncrBy(s, now, a)    [] n = L_decrby -> CmdDecrBy(s, now, a)
    [] n = L_incrbyfloat -> CmdIncrByFloat(s, now, a)
    [] n = L_del -> CmdDel(s, now, a)          [] n = L_exists -> CmdExists(s, now, a)
    [] n = L_type -> CmdType(s, now, a)        [] n = L_rename -> CmdRename(s, now, a)
    [] n = L_keys -> CmdKeys(s, now, a)        [] n = L_ping -> CmdPing(s, now, a)
    [] n = L_expire -> CmdExpire(s, now, a)    [] n = L_persist -> CmdPersist(s, now, a)
    [] n = L_ttl -> CmdTtl(s, now, a)
    [] n = L_lpush -> CmdPush(s, now, a, "l", FALSE)  [] n = L_rpush -> CmdPush(s, now, a, "r", FALSE)
    [] n = L_lpushx -> CmdPush(s, now, a, "l", TRUE)  [] n = L_rpushx -> CmdPush(s, now, a, "r", TRUE)
    [] n = L_lpop -> CmdPop(s, now, a, "l")    [] n = L_rpop -> CmdPop(s, now, a, "r")
    [] n = L_llen -> CmdLLen(s, now, a)        [] n = L_lindex -> CmdLIndex(s, now, a)
    [] n = L_lrange -> CmdLRange(s, now, a)    [] n = L_lset -> CmdLSet(s, now, a)
    [] n = L_lrem -> CmdLRem(s, now, a)        [] n = L_ltrim -> CmdLTrim(s, now, a)
    [] n = L_lpos -> CmdLPos(s, now, a)        [] n = L_lmove -> CmdLMove(s, now, a)
    [] n = L_blpop -> CmdBPop(s, now, a, "l")  [] n = L_brpop -> CmdBPop(s, now, a, "r")
    [] n = L_hset -> CmdHSet(s, now, a)        [] n = L_hsetnx -> CmdHSetNx(s, now, a)
    [] n = L_hget -> CmdHGet(s, now, a)        [] n = L_hmget -> CmdHMGet(s, now, a)
    [] n = L_hgetall -> CmdHGetAll(s, now, a)  [] n = L_hkeys -> CmdHKeys(s, now, a)
    [] n = L_hvals -> CmdHVals(s, now, a)      [] n = L_hlen -> CmdHLen(s, now, a)
    [] n = L_hexists -> CmdHExists(s, now, a)  [] n = L_hstrlen -> CmdHStrLen(s, now, a)
    [] n = L_hdel -> CmdHDel(s, now, a)        [] n = L_hincrby -> CmdHIncrBy(s, now, a)
    [] n = L_hincrbyfloat -> CmdHIncrByFloat(s, now, a)
    [] n = L_hrandfield -> CmdHRandField(s, now, a, h)
    [] n = L_sadd -> CmdSAdd(s, now, a)        [] n = L_srem -> CmdSRem(s, now, a)
    [] n = L_sismember -> CmdSIsMember(s, now, a) [] n = L_scard -> CmdSCard(s, now, a)
    [] n = L_smembers -> CmdSMembers(s, now, a) [] n = L_smove -> CmdSMove(s, now, a)
    [] n = L_spop -> CmdSPop(s, now, a, h)     [] n = L_srandmember -> CmdSRandMember(s, now, a, h)
    [] n = L_sunion -> CmdSAlg(s, now, a, "union", FALSE)  [] n = L_sinter -> CmdSAlg(s, now, a, "inter", FALSE)
    [] n = L_sdiff -> CmdSAlg(s, now, a, "diff", FALSE)
    [] n = L_sunionstore -> CmdSAlg(s, now, a, "union", TRUE) [] n = L_sinterstore -> CmdSAlg(s, now, a, "inter", TRUE)
    [] n = L_sdiffstore -> CmdSAlg(s, now, a, "diff", TRUE)
    [] n = L_zadd -> CmdZAdd(s, now, a)        [] n = L_zrem -> CmdZRem(s, now, a)
    [] n = L_zrange -> CmdZRange(s, now, a)    [] n = L_zrank -> CmdZRank(s, now, a)
    [] n = L_xadd -> CmdXAdd(s, now, a, h)     [] n = L_xrange -> CmdXRange(s, now, a)
    [] OTHER -> One(RErr, s, "unknown_command")

\* Keys whose deadline window contains `now` and that the command can observe:
\* any argument naming such a key; every such key for KEYS.
Observed(s, now, a) ==
  IF Lower(a[1]) = L_keys THEN Maybe(s, now) ELSE Maybe(s, now) \cap {a[i] : i \in 2..Len(a)}

(* Exec: all legal outcomes of command a at second `now` from state s0. *)
Exec(s0, now, a, h) ==
  IF a = <<>> THEN One(RErr, s0, "empty_command")
  ELSE LET s1   == Purge(s0, now)
           subs == SetToSeq(SUBSET Observed(s1, now, a))
       IN Flat([i \in 1..Len(subs) |-> Dispatch(DelKeys(s1, subs[i]), now, a, h)])
=============================================================================
