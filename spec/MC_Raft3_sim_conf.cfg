CONSTANTS
  Server = {1, 2, 3}
  Campaigners = {1, 2, 3}
  MaxTerm = 4
  MaxProposals = 3
  MaxCrashes = 2
  MaxDrops = 2
  MaxDups = 1
  MaxHeartbeats = 2
  MaxLog = 8
  MaxNet = 8
  MaxEnts = 0
  LossySend = FALSE
  SimDepth = 40
  Script <- NoScript
  W_CommitAnyTerm = FALSE
  W_VoteIgnoreVoted = FALSE
  W_VoteIgnoreLog = FALSE
  W_NoPersistVote = FALSE
  W_AppendAlwaysTruncates = FALSE
  W_HeartbeatCommitUnbounded = FALSE
  W_QuorumMinusOne = FALSE
  W_KeepMatchOnReset = FALSE
  PreVote = FALSE
  W_PreVoteRespCountsAsVote = FALSE
  ConfChange = TRUE
  InitVoters = {1, 2}
  AddVoters = {3}
  RemoveVoters = {1, 2}
  MaxConfChanges = 2
  MaxConfRefusals = 1
  W_ConfChangeNoPendingCheck = FALSE
  W_AddedVoterCaughtUp = FALSE
INIT Init
NEXT Next
CONSTRAINT NetBound
ACTION_CONSTRAINT CrashAfterConfChange
INVARIANTS ElectionSafety LogMatching StateMachineSafety LeaderCompleteness CommitWithinLog PersistedMatchesVolatile MatchSound EmitSim
