SPECIFICATION Spec
CONSTANTS
  MaxFiles = 3
  EmitOn = TRUE
ACTION_CONSTRAINT Emit
INVARIANTS SnapFallback BrokenOnlyDamaged
