------------------------------- MODULE TraceKs -------------------------------
(***************************************************************************)
(* B2: validation of recorded executions of the real server against the   *)
(* reference keyspace.  One ndjson line per event:                         *)
(*   {"ev":"reset","p":n}                      start of program n          *)
(*   {"ev":"cmd","p":n,"now":sec,"argv":[[..]],"reply":{k,v,e,a}}          *)
(*   {"ev":"setup",...} same fields; reply not checked (prelude)           *)
(* The state is the SET of model states compatible with the replies seen   *)
(* so far (ambiguity sets, random commands, expiry windows), so validation *)
(* is one deterministic pass; a command whose reply matches no outcome of  *)
(* any candidate prints a MISMATCH record and the rest of that program is  *)
(* skipped (the model can no longer follow the implementation).            *)
(***************************************************************************)
EXTENDS KsMatch, Json, IOUtils

Trace == ndJsonDeserialize(IOEnv.TRACE)

VARIABLES l, cands, skip, seen
vars == <<l, cands, skip, seen>>

Init == l = 1 /\ cands = {EmptyState} /\ skip = FALSE /\ seen = {}

\* a command observed to straddle a second boundary (now2 # now, real-clock drivers) may be attributed to either second
HasNow2(e) == "now2" \in DOMAIN e /\ e.now2 # e.now
OutsOf(s, e) == Exec(s, e.now, e.argv, e.reply) \o (IF HasNow2(e) THEN Exec(s, e.now2, e.argv, e.reply) ELSE <<>>)
\* matching outcomes of candidate s, as [s |-> next state, b |-> branch label]
Good(s, e) == LET o == OutsOf(s, e) IN {[s |-> o[i].s, b |-> o[i].b] : i \in {j \in 1..Len(o) : ReplyMatch(o[j].r, e.reply)}}

Step ==
  /\ l <= Len(Trace)
  /\ l' = l + 1
  /\ LET e == Trace[l] IN
     IF e.ev = "reset" THEN cands' = {EmptyState} /\ skip' = FALSE /\ seen' = seen
     ELSE IF skip THEN UNCHANGED <<cands, skip, seen>>
     ELSE IF e.ev = "setup" THEN   \* prelude command: apply the model's effect, the reply is not checked here
          /\ cands' = UNION {LET o == OutsOf(s, e) IN {o[i].s : i \in 1..Len(o)} : s \in cands}
          /\ UNCHANGED <<skip, seen>>
     ELSE LET good == UNION {Good(s, e) : s \in cands}
              labs == {g.b : g \in good} IN
          IF good # {} THEN /\ cands' = {g.s : g \in good} /\ skip' = FALSE
                            /\ seen' = seen \cup labs
                            /\ (labs \subseteq seen \/ PrintT("LABELS " \o ToJson(labs \ seen)))
          ELSE /\ LET s0 == CHOOSE s \in cands : TRUE
                      o == OutsOf(s0, e)
                  IN PrintT("MISMATCH " \o ToJson([line |-> l, p |-> e.p, argv |-> e.argv, got |-> e.reply, ncands |-> Cardinality(cands),
                                                exp |-> [i \in 1..Len(o) |-> [r |-> o[i].r, b |-> o[i].b]]]))
               /\ skip' = TRUE /\ cands' = cands /\ seen' = seen

Spec == Init /\ [][Step]_vars
Accepted == TLCGet("stats").diameter - 1 = Len(Trace)
=============================================================================
