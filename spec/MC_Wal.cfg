\* Default instance of MC_Wal (manual runs: bin/tlc -deadlock -config spec/MC_Wal.cfg spec/MC_Wal.tla).
\* checks/C16.py generates its instances (q, a, n, d, c, k, fc, fk and the must-fail xz, xt, xc, xk) from the same constants.
SPECIFICATION Spec
CONSTANTS
  SectorWords = 64
  SegWords = 256
  MetaWords = 3
  EntSizes <- EntSizesQ
  MaxOps = 2
  MaxEnts = 2
  MaxLost = 6
  WithSnap = TRUE
  WithRewrite = TRUE
  WithAppend = FALSE
  WithCutCrash = FALSE
  StaleTmpAsBuilt = TRUE
  WithCorrupt = FALSE
  TypeInCrc = FALSE
  AppSizes <- AppSizesQ
  ZeroToEndOn = TRUE
  TornShift = 1
  EmitOn = FALSE
CONSTRAINT Bound
ACTION_CONSTRAINT Emit
INVARIANTS TypeOK RecoveredIsPrefix TornTailRepairable AppendAfterRecoveryIsClean EntriesContiguous
