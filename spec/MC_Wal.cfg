SPECIFICATION Spec
CONSTANTS
  SectorWords = 64
  SegWords = 256
  MetaWords = 3
  EntSizes <- EntSizesQ
  MaxOps = 2
  MaxEnts = 2
  MaxLost = 6
  WithSnap = TRUE
  WithRewrite = TRUE
  WithAppend = FALSE
  AppSizes <- AppSizesQ
  ZeroToEndOn = TRUE
  TornShift = 1
  EmitOn = FALSE
CONSTRAINT Bound
ACTION_CONSTRAINT Emit
INVARIANTS TypeOK RecoveredIsPrefix TornTailRepairable AppendAfterRecoveryIsClean EntriesContiguous
