------------------------------ MODULE MC_Sched ------------------------------
(* Sched.tla instantiated with the programmes OBSERVED on the real code (harness/cmd/sched observe); lib/sched.py   *)
(* writes the file named by the environment variable SCHED_IN:                                                      *)
(*   {"nstripes": n, "maxpre": p, "maxpre3": q, "tuples": [[prog, ...], ...]}    prog = [{"op","kind","pos"}, ...]   *)
EXTENDS Integers, Sequences, FiniteSets, TLC, Json, IOUtils

Input == JsonDeserialize(IOEnv.SCHED_IN)
Tuples == Input.tuples
MaxPre == Input.maxpre
MaxPre3 == Input.maxpre3
NStripes == Input.nstripes

ASSUME PrintT("INPUT " \o ToJson([tuples |-> Len(Tuples)]))

VARIABLES tup, pc, wm, rd, cur, pre, hist, done
INSTANCE Sched
=============================================================================
