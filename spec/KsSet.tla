-------------------------------- MODULE KsSet --------------------------------
(***************************************************************************)
(* Set commands from the Redis command reference.  A set value is a        *)
(* NON-EMPTY set of byte strings (the empty string is a legal member).     *)
(* Code under test: /repo/memdb/sets.go, /repo/memdb/sets_struct.go.       *)
(***************************************************************************)
EXTENDS KsHash

SetOf(s, k) == IF Has(s, k) THEN Val(s, k) ELSE {}
PutSet(s, k, S) == IF S = {} THEN DelKeys(s, {k}) ELSE PutKeep(s, k, SetV(S))
\* STORE forms replace the destination (any type) and clear its deadline
StoreSet(s, k, S) == IF S = {} THEN DelKeys(s, {k}) ELSE PutClear(s, k, SetV(S))
Args(a, i) == {a[j] : j \in i..Len(a)}

CmdSAdd(s, now, a) ==
  IF Len(a) < 3 THEN One(RErr, s, "sadd.arity")
  ELSE IF WrongFor(s, a[2], "set") THEN One(RWrong, s, "sadd.wrongtype")
  ELSE LET S0 == SetOf(s, a[2]) S1 == S0 \cup Args(a, 3) IN
       One(RInt(Cardinality(S1) - Cardinality(S0)), PutSet(s, a[2], S1),
           IF ~Has(s, a[2]) THEN "sadd.new" ELSE IF S1 = S0 THEN "sadd.dup" ELSE "sadd.added")

CmdSRem(s, now, a) ==
  IF Len(a) < 3 THEN One(RErr, s, "srem.arity")
  ELSE IF WrongFor(s, a[2], "set") THEN One(RWrong, s, "srem.wrongtype")
  ELSE LET S0 == SetOf(s, a[2]) S1 == S0 \ Args(a, 3) IN
       One(RInt(Cardinality(S0) - Cardinality(S1)), IF Has(s, a[2]) THEN PutSet(s, a[2], S1) ELSE s,
           IF ~Has(s, a[2]) THEN "srem.missing" ELSE IF S1 = S0 THEN "srem.none" ELSE IF S1 = {} THEN "srem.emptied" ELSE "srem.some")

CmdSIsMember(s, now, a) ==
  IF Len(a) # 3 THEN One(RErr, s, "sismember.arity")
  ELSE IF WrongFor(s, a[2], "set") THEN One(RWrong, s, "sismember.wrongtype")
  ELSE One(RInt(IF a[3] \in SetOf(s, a[2]) THEN 1 ELSE 0), s, IF a[3] \in SetOf(s, a[2]) THEN "sismember.yes" ELSE "sismember.no")

CmdSCard(s, now, a) ==
  IF Len(a) # 2 THEN One(RErr, s, "scard.arity")
  ELSE IF WrongFor(s, a[2], "set") THEN One(RWrong, s, "scard.wrongtype")
  ELSE One(RInt(Cardinality(SetOf(s, a[2]))), s, IF Has(s, a[2]) THEN "scard.present" ELSE "scard.missing")

CmdSMembers(s, now, a) ==
  IF Len(a) # 2 THEN One(RErr, s, "smembers.arity")
  ELSE IF WrongFor(s, a[2], "set") THEN One(RWrong, s, "smembers.wrongtype")
  ELSE One(RUStrs(SortBytes(SetOf(s, a[2]))), s, IF Has(s, a[2]) THEN "smembers.present" ELSE "smembers.missing")

CmdSMove(s, now, a) ==
  IF Len(a) # 4 THEN One(RErr, s, "smove.arity")
  ELSE LET src == a[2] dst == a[3] m == a[4] IN
    IF WrongFor(s, src, "set") THEN One(RWrong, s, "smove.wrongtype")
    ELSE IF WrongFor(s, dst, "set") THEN
         (IF m \in SetOf(s, src) THEN One(RWrong, s, "smove.wrongtype_dst")
          ELSE Two(One(RWrong, s, "smove.wrongtype_dst.nomember"), One(RInt(0), s, "smove.wrongtype_dst.nomember.zero")))
    ELSE IF ~(m \in SetOf(s, src)) THEN One(RInt(0), s, IF Has(s, src) THEN "smove.nomember" ELSE "smove.missing")
    ELSE IF src = dst THEN One(RInt(1), s, "smove.same")
    ELSE LET s1 == PutSet(s, src, SetOf(s, src) \ {m})
         IN One(RInt(1), PutSet(s1, dst, SetOf(s1, dst) \cup {m}),
                "smove.moved" \o (IF SetOf(s, src) = {m} THEN ".emptied_src" ELSE "") \o (IF Has(s, dst) THEN "" ELSE ".new_dst"))

\* random commands: see the note at HRANDFIELD in KsHash.tla
CmdSPop(s, now, a, h) ==
  IF Len(a) < 2 \/ Len(a) > 3 THEN One(RErr, s, "spop.arity")
  ELSE IF WrongFor(s, a[2], "set") THEN
       \* wrong-type key AND invalid count: the reference does not fix the error precedence
       (IF Len(a) = 3 /\ (~ParseSmall(a[3]).ok \/ ParseSmall(a[3]).n < 0)
        THEN Two(One(RWrong, s, "spop.wrongtype"), One(RErr, s, "spop.wrongtype.badcount"))
        ELSE One(RWrong, s, "spop.wrongtype"))
  ELSE LET S == SetOf(s, a[2]) k == a[2] IN
    IF Len(a) = 2 THEN
      (IF S = {} THEN One(RNil, s, "spop.missing")
       ELSE LET ms == SortBytes(S) lbl == "spop.one" \o (IF Cardinality(S) = 1 THEN ".emptied" ELSE "") IN
            IF h.k = "nohint" THEN [i \in 1..Len(ms) |-> Out(RStr(ms[i]), PutSet(s, k, S \ {ms[i]}), lbl)]
            ELSE IF h.k = "str" /\ h.v \in S THEN One(RStr(h.v), PutSet(s, k, S \ {h.v}), lbl)
            ELSE One(RStr(ms[1]), PutSet(s, k, S \ {ms[1]}), lbl))
    ELSE LET p == ParseSmall(a[3]) IN
      IF ~p.ok \/ p.n < 0 THEN One(RErr, s, "spop.badcount")
      ELSE IF S = {} THEN One(RArr(<<>>), s, "spop.count.missing")
      ELSE LET n == Min2(p.n, Cardinality(S))
               lbl == "spop.count" \o (IF n = Cardinality(S) THEN ".emptied" ELSE IF n = 0 THEN ".zero" ELSE "")
               subs == SetToSeq(kSubset(n, S))
               hs == IF AllStr(h) THEN StrsOf(h) ELSE <<>>
               legal == AllStr(h) /\ Len(hs) = n /\ Distinct(hs) /\ RangeOf(hs) \subseteq S
           IN IF h.k = "nohint" THEN [i \in 1..Len(subs) |-> Out(RUStrs(SortBytes(subs[i])), PutSet(s, k, S \ subs[i]), lbl)]
              ELSE IF legal THEN One(RUStrs(hs), PutSet(s, k, S \ RangeOf(hs)), lbl)
              ELSE One(RUStrs(SortBytes(subs[1])), PutSet(s, k, S \ subs[1]), lbl)

CmdSRandMember(s, now, a, h) ==
  IF Len(a) < 2 \/ Len(a) > 3 THEN One(RErr, s, "srandmember.arity")
  ELSE IF WrongFor(s, a[2], "set") THEN
       \* wrong-type key AND non-integer count: the reference does not fix the error precedence
       (IF Len(a) = 3 /\ ~ParseSmall(a[3]).ok
        THEN Two(One(RWrong, s, "srandmember.wrongtype"), One(RErr, s, "srandmember.wrongtype.notint"))
        ELSE One(RWrong, s, "srandmember.wrongtype"))
  ELSE LET S == SetOf(s, a[2]) ms == SortBytes(S) IN
    IF Len(a) = 2 THEN
      (IF S = {} THEN One(RNil, s, "srandmember.missing")
       ELSE IF h.k = "nohint" THEN [i \in 1..Len(ms) |-> Out(RStr(ms[i]), s, "srandmember.one")]
       ELSE IF h.k = "str" /\ h.v \in S THEN One(RStr(h.v), s, "srandmember.one")
       ELSE One(RStr(ms[1]), s, "srandmember.one"))
    ELSE LET p == ParseSmall(a[3]) IN
      IF ~p.ok THEN One(RErr, s, "srandmember.notint")
      ELSE IF S = {} THEN One(RArr(<<>>), s, "srandmember.count.missing")
      ELSE LET n == IF p.n >= 0 THEN Min2(p.n, Cardinality(S)) ELSE 0 - p.n
               lbl == IF p.n >= 0 THEN "srandmember.count_pos" ELSE "srandmember.count_neg"
               allq == IF p.n >= 0 THEN LET ss == SetToSeq(kSubset(n, S)) IN [i \in 1..Len(ss) |-> SortBytes(ss[i])]
                       ELSE SetToSeq([1..n -> S])
               hs == IF AllStr(h) THEN StrsOf(h) ELSE <<>>
               legal == AllStr(h) /\ Len(hs) = n /\ RangeOf(hs) \subseteq S /\ (p.n < 0 \/ Distinct(hs))
           IN IF h.k = "nohint" THEN [i \in 1..Len(allq) |-> Out(RUStrs(allq[i]), s, lbl)]
              ELSE IF legal THEN One(RUStrs(hs), s, lbl) ELSE One(RUStrs(allq[1]), s, lbl)

\* ---- SUNION / SINTER / SDIFF key [key ...]  and  S*STORE destination key [key ...] ----
RECURSIVE FoldSets(_, _, _)
FoldSets(op, acc, rest) ==
  IF rest = <<>> THEN acc
  ELSE FoldSets(op, IF op = "union" THEN acc \cup Head(rest) ELSE IF op = "inter" THEN acc \cap Head(rest) ELSE acc \ Head(rest), Tail(rest))

CmdSAlg(s, now, a, op, store) ==
  LET nm == "s" \o op \o (IF store THEN "store" ELSE "")
      first == IF store THEN 3 ELSE 2 IN
  IF Len(a) < first THEN One(RErr, s, nm \o ".arity")
  ELSE IF \E i \in first..Len(a) : WrongFor(s, a[i], "set") THEN One(RWrong, s, nm \o ".wrongtype")
  ELSE LET ops == [i \in 1..(Len(a) - first + 1) |-> SetOf(s, a[i + first - 1])]
           res == FoldSets(op, ops[1], Tail(ops))
           anyMissing == \E i \in first..Len(a) : ~Has(s, a[i])
           lbl == nm \o (IF anyMissing THEN ".missing_operand" ELSE "") \o (IF res = {} THEN ".empty" ELSE ".nonempty")
       IN IF store THEN
            LET done == One(RInt(Cardinality(res)), StoreSet(s, a[2], res),
                            lbl \o (IF Has(s, a[2]) THEN (IF HasT(s, a[2], "set") THEN ".replace" ELSE ".replace_othertype") ELSE ".fresh"))
            IN \* destination of another type: overwritten (command reference) or WRONGTYPE + unchanged (DESIGN.md 2.4)
               IF WrongFor(s, a[2], "set") THEN Two(done, One(RWrong, s, lbl \o ".replace_othertype.wrongtype")) ELSE done
          ELSE One(RUStrs(SortBytes(res)), s, lbl)
=============================================================================
