CONSTANTS
  Server = {1, 2, 3, 4, 5}
  Campaigners = {1, 3, 5}
  MaxTerm = 4
  MaxProposals = 1
  MaxCrashes = 0
  MaxDrops = 0
  MaxDups = 0
  MaxHeartbeats = 0
  MaxLog = 3
  MaxNet = 8
  MaxEnts = 0
  LossySend = TRUE
  SimDepth = 0
  Script <- KeepMatchScript
  W_CommitAnyTerm = FALSE
  W_VoteIgnoreVoted = FALSE
  W_VoteIgnoreLog = FALSE
  W_NoPersistVote = FALSE
  W_AppendAlwaysTruncates = FALSE
  W_HeartbeatCommitUnbounded = FALSE
  W_QuorumMinusOne = FALSE
  W_KeepMatchOnReset = TRUE
  PreVote = FALSE
  W_PreVoteRespCountsAsVote = FALSE
  ConfChange = FALSE
  InitVoters = {1, 2, 3, 4, 5}
  AddVoters = {}
  RemoveVoters = {}
  MaxConfChanges = 0
  MaxConfRefusals = 0
  W_ConfChangeNoPendingCheck = FALSE
  W_AddedVoterCaughtUp = FALSE
INIT Init
NEXT Next
CONSTRAINT NetBound
VIEW view
ACTION_CONSTRAINT Scripted
INVARIANT EmitAttack
