SPECIFICATION Spec
CONSTANTS
  n1 = n1
  n2 = n2
  n3 = n3
  Nodes <- N1
  NW = 3
  WKeys <- KeysMix3
  WKinds <- KindsMix3
  WVia <- Via111
  SnapCount = 1
  CatchUp = 1
  MaxCrashes = 2
  SnapshotRestoresStateMachine = TRUE
  SnapshotSerialisesAllTypes = TRUE
INVARIANTS TypeOK StateMachineCorrect Durability SnapshotNeverKills AckedStaysDurable
PROPERTY AckAfterDurable
ACTION_CONSTRAINT POR
