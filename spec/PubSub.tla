-------------------------------- MODULE PubSub --------------------------------
(***************************************************************************)
(* C19: Pub/Sub.  Sequential meaning:                                      *)
(*   subs  : channel -> set of connections currently subscribed            *)
(*   inbox : <<connection, channel>> -> sequence of messages of that       *)
(*           channel written to the connection and not yet read by its     *)
(*           client (order is promised per channel: "a message published   *)
(*           to a channel is delivered ... in publish order"; messages of  *)
(*           different channels may overtake each other)                   *)
(*   SUBSCRIBE c chs   adds c to every channel; replies the confirmation   *)
(*   PUBLISH ch m      appends <<ch, m>> to the inbox of EVERY connection  *)
(*                     subscribed at that instant, atomically, and replies *)
(*                     their number                                        *)
(*   CLOSE c           the client closes connection c: it leaves every     *)
(*                     channel and its unread messages are discarded       *)
(* A `recv` event of connection c must be the head of inbox[c]: this one   *)
(* rule gives exactly-once, per-connection publish order, integrity and    *)
(* "no other connection".  Code under test: memdb/pubsub.go,               *)
(* memdb/pubsub_struct.go, server/db_manager.go (Handle).                  *)
(***************************************************************************)
EXTENDS Integers, Sequences, FiniteSets, TLC

PInit == [subs |-> <<>>, inbox |-> <<>>, zomb |-> <<>>]
\* zomb : channel -> connections that were closed by their client while subscribed; over TCP the server learns of a close
\* only when a later write fails, so such a connection may still be COUNTED by later publishes (never delivered to)

SubsOf(s, ch) == IF ch \in DOMAIN s.subs THEN s.subs[ch] ELSE {}
InboxOf(s, c) == IF c \in DOMAIN s.inbox THEN s.inbox[c] ELSE <<>>
FPutP(f, k, v) == [x \in (DOMAIN f) \cup {k} |-> IF x = k THEN v ELSE f[x]]

RECURSIVE SubAll(_, _, _)
SubAll(s, c, chs) == IF chs = <<>> THEN s
                     ELSE SubAll([subs |-> FPutP(s.subs, Head(chs), SubsOf(s, Head(chs)) \cup {c}), inbox |-> s.inbox, zomb |-> s.zomb], c, Tail(chs))

\* an operation is [kind, c, chs, ch, msg]; result [s |-> next state, n |-> integer reply (publish) or number of channels (subscribe)]
PSubscribe(s, c, chs) == [s |-> SubAll(s, c, chs), n |-> Len(chs)]
PPublish(s, ch, msg) ==
  LET R == {<<c, ch>> : c \in SubsOf(s, ch)} IN
  [s |-> [subs |-> s.subs, zomb |-> s.zomb, inbox |-> [x \in (DOMAIN s.inbox) \cup R |-> IF x \in R THEN Append(InboxOf(s, x), msg) ELSE s.inbox[x]]],
   n |-> Cardinality(R)]
ZombOf(s, ch) == IF ch \in DOMAIN s.zomb THEN s.zomb[ch] ELSE {}
PClose(s, c) == [s |-> [subs |-> [ch \in DOMAIN s.subs |-> s.subs[ch] \ {c}],
                        zomb |-> [ch \in DOMAIN s.subs |-> ZombOf(s, ch) \cup (s.subs[ch] \cap {c})],
                        inbox |-> [x \in {y \in DOMAIN s.inbox : y[1] # c} |-> s.inbox[x]]], n |-> 0]
\* the client read one push of channel ch from connection c
PRecvOK(s, c, ch, msg) == InboxOf(s, <<c, ch>>) # <<>> /\ Head(InboxOf(s, <<c, ch>>)) = msg
PRecv(s, c, ch) == [subs |-> s.subs, zomb |-> s.zomb, inbox |-> [s.inbox EXCEPT ![<<c, ch>>] = Tail(@)]]
=============================================================================
