------------------------------ MODULE EtcdRaft ------------------------------
(***************************************************************************)
(* etcd/raft (copied-in tree /repo/etcd/raft) at raft.RawNode granularity. *)
(*                                                                         *)
(* One action = one API call on one node PLUS the Ready cycle that the     *)
(* harness (raftsim) runs after it: persist HardState and unstable         *)
(* entries, hand committed entries to the application (applied = commit),  *)
(* Advance (where the leader acknowledges its own entries).  Messages      *)
(* produced by the action go straight to the network bag `net`; "handled,  *)
(* persisted, crashed before sending" is Action; Drop(each message);       *)
(* Crash, so no separate outbox is needed (deviation from DESIGN C15,      *)
(* equivalent in behaviours).                                              *)
(*                                                                         *)
(* What is transcribed (file:line of /repo/etcd/raft):                     *)
(*   Campaign            rawnode.go Campaign -> raft.go hup/campaign       *)
(*                        778-853, becomeCandidate 709-720,                *)
(*                        becomePreCandidate 722-736 (PreVote = TRUE)      *)
(*   Propose             raft.go stepLeader MsgProp 1028-1086,             *)
(*                        appendEntry 638-656, bcastAppend 518-525         *)
(*   Heartbeat           raft.go tickHeartbeat 671-698, bcastHeartbeat,    *)
(*                        sendHeartbeat 498-514                            *)
(*   Deliver*            raft.go Step 865-1005 (term prologue incl. the    *)
(*                        MsgPreVote / MsgPreVoteResp exceptions 882-899   *)
(*                        and the lower-term replies 901-937, vote and     *)
(*                        pre-vote granting 948-996), poll 855-863,        *)
(*                        stepLeader MsgAppResp 1115-1297,                 *)
(*                        MsgHeartbeatResp 1298-1308, stepCandidate        *)
(*                        1390-1433 (myVoteRespType filter 1394-1399,      *)
(*                        pre-vote won -> campaign(campaignElection)       *)
(*                        1418-1419), stepFollower 1435-1487,              *)
(*                        handleAppendEntries 1489-1525, handleHeartbeat;  *)
(*                        log.go maybeAppend 88-108, findConflict,         *)
(*                        findConflictByTerm, isUpToDate, maybeCommit;     *)
(*                        tracker/progress.go MaybeUpdate, MaybeDecrTo,    *)
(*                        BecomeProbe/Replicate, IsPaused;                 *)
(*                        quorum/majority.go CommittedIndex, VoteResult    *)
(*   ProposeConfChange   rawnode.go ProposeConfChange 93-99 -> raft.go     *)
(*                        stepLeader MsgProp 1044-1080 (pendingConfIndex / *)
(*                        alreadyPending refusal: the entry is replaced by *)
(*                        an empty normal one), becomeLeader 758-763,      *)
(*                        reset 633                                        *)
(*   applying a conf     raftsim ready() -> rawnode.go ApplyConfChange     *)
(*   change               104-107 -> raft.go applyConfChange 1637-1657,    *)
(*                        switchToConfig 1665-1717 (a leader that removed  *)
(*                        itself stays leader, without Progress;           *)
(*                        maybeCommit / bcastAppend or probes under the    *)
(*                        new configuration); confchange/confchange.go     *)
(*                        Simple 132-149, apply 154-178, makeVoter         *)
(*                        182-193, remove 235-248, initProgress 251-277;   *)
(*                        tracker/tracker.go Committed 177-179, TallyVotes *)
(*                        267-288; quorum/majority.go CommittedIndex,      *)
(*                        VoteResult over the node's OWN configuration;    *)
(*                        promotable 1632-1635 (hup 784-787); the refusal  *)
(*                        of responses from unknown peers rawnode.go Step  *)
(*                        110-119; stepLeader 1109-1113                    *)
(*   Ready cycle         rawnode.go Ready/Advance, raft.go advance         *)
(*                        546-597, node.go MustSync 592-599                *)
(*   Crash / Restart     the harness' disk (synced vs unsynced HardState), *)
(*                        raft.go newRaft 318-370 (configuration restored  *)
(*                        from Storage.InitialState 323, 346-353: the      *)
(*                        genesis one in raftsim, then every committed     *)
(*                        conf change is applied again), loadState         *)
(*                        1719-1726                                        *)
(*                                                                         *)
(* Scope: no snapshots, no CheckQuorum / ReadIndex / leader transfer, no   *)
(* joint configurations, learners or auto-leave in THIS module; those are  *)
(* exercised on the real code by raftsim's random scheduler and judged by  *)
(* RaftObs.tla.  SIMPLE membership changes ARE modelled (CONSTANT          *)
(* ConfChange = TRUE; FALSE = the voter set is Server for ever, exactly    *)
(* the module without them): one voter added or removed per change         *)
(* (raftpb.ConfChange, or a ConfChangeV2 with one change and the automatic *)
(* transition), proposed on a leader (ProposeConfChange), kept in the log  *)
(* as an entry of its own kind (field c), and applied by every node when   *)
(* the entry is committed - inside the Ready cycle of the action that      *)
(* commits it, as raftsim does.  Every node has its own current            *)
(* configuration cfg[i]; it counts votes and acknowledgements over THAT    *)
(* set, sends to THAT set, and does not campaign when it is not in it.     *)
(* The instances MC_Raft3_conf*.cfg check it (three nodes, InitVoters of   *)
(* them voters at the start), raftsim replays / trace-validates it.        *)
(* PreVote (Config.PreVote, with CheckQuorum off, i.e. no   *)
(* leader lease) IS modelled: CONSTANT PreVote = TRUE gives the two-phase  *)
(* election (role "P" = StatePreCandidate, messages "PreVote" and          *)
(* "PreVoteResp"), PreVote = FALSE the plain one; the instances            *)
(* MC_Raft3_prevote*.cfg check it and raftsim replays / trace-validates    *)
(* it with raft.Config.PreVote = true.                                     *)
(* MaxInflightMsgs is large (never full);                                  *)
(* MaxSizePerMsg is unlimited (MaxEnts = 0) or one entry per MsgApp        *)
(* (MaxEnts = 1, i.e. Config.MaxSizePerMsg = 0); proposal forwarding is    *)
(* disabled in the harness.                                                *)
(*                                                                         *)
(* W_* constants weaken exactly one rule each (all FALSE = the faithful    *)
(* specification).  With one of them TRUE, TLC finds a schedule violating  *)
(* the safety invariants; that schedule is replayed on the real RawNodes:  *)
(* correct code refuses the weakened step, code with that rule broken      *)
(* follows the schedule and RaftObs reports the violation on the real      *)
(* trace (DESIGN 2.2 B3, spec-guided witness construction).                *)
(***************************************************************************)
EXTENDS Integers, Sequences, FiniteSets, TLC

CONSTANTS Server,            \* 1..N, N >= 2
          Campaigners,       \* nodes whose Campaign() is explored (Server in the faithful instances; a subset only to guide attack searches)
          MaxTerm, MaxProposals, MaxCrashes, MaxDrops, MaxDups, MaxHeartbeats, MaxLog, MaxNet,
          MaxEnts,           \* 0 = unlimited entries per MsgApp, k > 0 = at most k
          LossySend,         \* TRUE: an action may lose any subset of the messages it produces at send time (= action followed by
                             \* Drop of those messages, without the intermediate states; used only to make attack searches cheap)
          W_CommitAnyTerm,          \* log.go maybeCommit without the term test
          W_VoteIgnoreVoted,        \* raft.go Step: canVote always true
          W_VoteIgnoreLog,          \* raft.go Step: isUpToDate not consulted
          W_NoPersistVote,          \* HardState.Vote not persisted
          W_AppendAlwaysTruncates,  \* log.go maybeAppend: truncate+append even without conflict
          W_HeartbeatCommitUnbounded, \* raft.go sendHeartbeat: commit not capped by Match
          W_QuorumMinusOne,         \* quorum/majority.go: q = n/2 instead of n/2+1
          W_KeepMatchOnReset,       \* raft.go reset 618-633: the Progress of every peer is recycled with its Match kept (instead of
                                    \* a fresh Progress with Match = 0): what a node learned as leader of an earlier term survives
                                    \* its stepping down and counts again when it is re-elected
          PreVote,                  \* raft.Config.PreVote (BOOLEAN): two-phase election; FALSE = exactly the module without it
          W_PreVoteRespCountsAsVote,\* raft.go stepCandidate 1394-1399/1413: the per-state filter `case myVoteRespType` removed, i.e.
                                    \* a (pre-)candidate tallies MsgVoteResp and MsgPreVoteResp alike
          ConfChange,               \* BOOLEAN: simple membership changes (one voter added / removed at a time) are part of the model;
                                    \* FALSE = exactly the module without them (every node's configuration is Server for ever)
          InitVoters,               \* the genesis configuration every node boots with (raftsim: disk.boot; Server when ~ConfChange)
          AddVoters, RemoveVoters,  \* the changes ProposeConfChange explores: ConfChangeAddNode j for j \in AddVoters,
                                    \* ConfChangeRemoveNode j for j \in RemoveVoters (written j and -j below)
          MaxConfChanges,           \* conf changes accepted by a leader (appended as conf-change entries)
          MaxConfRefusals,          \* conf changes a leader refuses because another one may be unapplied (appended as empty entries)
          W_ConfChangeNoPendingCheck, \* raft.go stepLeader MsgProp 1060-1075: the `alreadyPending` refusal removed, i.e. a conf change
                                    \* is appended although an earlier one may still be unapplied
          W_AddedVoterCaughtUp      \* confchange/confchange.go initProgress 266-267: the Progress of a newly added voter starts
                                    \* with Match = LastIndex (instead of 0), i.e. it counts as having acknowledged the leader's log

ASSUME Cardinality(Server) >= 2
ASSUME PreVote \in BOOLEAN
ASSUME ConfChange \in BOOLEAN /\ InitVoters \subseteq Server /\ InitVoters # {}
ASSUME ~ConfChange => InitVoters = Server
ASSUME AddVoters \subseteq Server /\ RemoveVoters \subseteq Server
ConfChanges == AddVoters \cup {0 - j : j \in RemoveVoters}

VARIABLES role,     \* "F" follower, "P" pre-candidate (PreVote only), "C" candidate, "L" leader, "D" down (crashed)
          term, vote, lead, log, commit, applied,
          hs,       \* persisted HardState [term, vote, commit] (last written)
          sc,       \* commit value of the last SYNCED HardState write (MustSync)
          votes,    \* (pre-)candidate: j -> "n" none, "y" granted, "r" rejected (tracker.Votes; reset by every becomeX)
          pr,       \* leader: j -> [match, next, state, probesent]
          cfg,      \* the node's current configuration: the set of voters (tracker.Config.Voters[0]; = the ids that have a Progress).
                    \* Switched when a committed conf-change entry is APPLIED (rawnode.go ApplyConfChange 104-107), never before
          pci,      \* leader: raft.pendingConfIndex (0 elsewhere: reset 633)
          net,      \* bag of messages: message -> count
          nprop, ncrash, ndrop, ndup, nhb, nconf, nref,   \* budgets
          elected,  \* history: set of <<term, id>>
          gc,       \* history: global committed prefix
          gct,      \* history: gct[k] = term in which gc[k] became committed (term of the first node whose commit covered k)
          lcok,     \* history: every leader elected in term T held every entry committed in a term < T
          act       \* the action that produced this state (output only; not in VIEW)

nodeVars == <<role, term, vote, lead, log, commit, applied, hs, sc, votes, pr, cfg, pci>>
vars == <<role, term, vote, lead, log, commit, applied, hs, sc, votes, pr, cfg, pci, net, nprop, ncrash, ndrop, ndup, nhb, nconf, nref, elected, gc, gct, lcok, act>>
view == <<role, term, vote, lead, log, commit, applied, hs, sc, votes, pr, cfg, pci, net, nprop, ncrash, ndrop, ndup, nhb, nconf, nref, elected, gc, gct, lcok>>

N == Cardinality(Server)
(* quorum/majority.go: q = len(c)/2 + 1 over the voters of the configuration the node currently uses *)
QuorumOf(V) == IF W_QuorumMinusOne THEN Cardinality(V) \div 2 ELSE Cardinality(V) \div 2 + 1
Max(S) == CHOOSE x \in S : \A y \in S : y <= x
Min(S) == CHOOSE x \in S : \A y \in S : y >= x
Max2(a, b) == IF a > b THEN a ELSE b
Min2(a, b) == IF a < b THEN a ELSE b

Probe == "StateProbe"
Replicate == "StateReplicate"
NoPrE == [match |-> 0, next |-> 1, state |-> Probe, probesent |-> FALSE]   \* also the value kept for ids without a Progress
NoPr == [j \in Server |-> NoPrE]
NoVotes == [j \in Server |-> "n"]

(* ------------------------------ the log ------------------------------- *)
TermAt(lg, x) == IF x = 0 \/ x > Len(lg) THEN 0 ELSE lg[x].t          \* log.go term(): 0 outside [0,last]
LastTerm(lg) == TermAt(lg, Len(lg))
IsUpToDate(lg, ix, lt) == lt > LastTerm(lg) \/ (lt = LastTerm(lg) /\ ix >= Len(lg))
(* log.go findConflictByTerm: largest x <= index with term(x) <= t; input above last index returned as is *)
FindConflictByTerm(lg, index, t) ==
    IF index > Len(lg) THEN index ELSE Max({x \in 0..index : TermAt(lg, x) <= t})
(* log.go findConflict: first index of es (appended after ix) that does not match; 0 if all contained *)
FindConflict(lg, ix, es) ==
    LET bad == {k \in 1..Len(es) : TermAt(lg, ix + k) # es[k].t}
    IN IF bad = {} THEN 0 ELSE ix + Min(bad)
Entries(lg, next) ==
    LET hi == IF MaxEnts = 0 THEN Len(lg) ELSE Min2(Len(lg), next + MaxEnts - 1)
    IN SubSeq(lg, next, hi)

(* ------------------------------ messages ------------------------------ *)
Msg(ty, fr, to, tm, ix, lt, cm, rj, ht, es) ==
    [ty |-> ty, fr |-> fr, to |-> to, tm |-> tm, ix |-> ix, lt |-> lt, cm |-> cm, rj |-> rj, ht |-> ht, es |-> es]

BagAdd(b, m) == IF m \in DOMAIN b THEN [b EXCEPT ![m] = @ + 1] ELSE b @@ (m :> 1)
BagDel(b, m) == IF b[m] = 1 THEN [x \in DOMAIN b \ {m} |-> b[x]] ELSE [b EXCEPT ![m] = @ - 1]
RECURSIVE BagAddAll(_, _)
BagAddAll(b, ms) == IF ms = <<>> THEN b ELSE BagAddAll(BagAdd(b, Head(ms)), Tail(ms))
NetSize(b) == IF DOMAIN b = {} THEN 0 ELSE LET RECURSIVE Sum(_)
                                                 Sum(S) == IF S = {} THEN 0 ELSE LET x == CHOOSE x \in S : TRUE IN b[x] + Sum(S \ {x})
                                             IN Sum(DOMAIN b)

SelectIdx(ms, S) == LET RECURSIVE Sel(_)
                        Sel(k) == IF k > Len(ms) THEN <<>> ELSE (IF k \in S THEN <<ms[k]>> ELSE <<>>) \o Sel(k + 1)
                    IN Sel(1)
(* put the messages ms produced by an action on the network (all of them unless LossySend) and record the action *)
SendSome(base, ms, a) ==
    \E S \in (IF LossySend THEN SUBSET (1..Len(ms)) ELSE {1..Len(ms)}) :
        /\ net' = BagAddAll(base, SelectIdx(ms, S))
        /\ act' = a @@ [lost |-> SelectIdx(ms, (1..Len(ms)) \ S)]

(* ------------------------------ progress ------------------------------ *)
IsPaused(p) == p.state = Probe /\ p.probesent      \* Replicate: inflights never full (window 256)

(* raft.go maybeSendAppend; returns the new progress of j and the messages (0 or 1) *)
MaybeSendApp(i, lg, cmt, tm, p, j, sendIfEmpty) ==
    IF IsPaused(p) THEN [p |-> p, m |-> <<>>]
    ELSE LET prev == p.next - 1
             ents == Entries(lg, p.next)
         IN IF ents = <<>> /\ ~sendIfEmpty THEN [p |-> p, m |-> <<>>]
            ELSE [m |-> <<Msg("App", i, j, tm, prev, TermAt(lg, prev), cmt, FALSE, 0, ents)>>,
                  p |-> IF ents = <<>> THEN p
                        ELSE IF p.state = Replicate THEN [p EXCEPT !.next = prev + Len(ents) + 1]
                        ELSE [p EXCEPT !.probesent = TRUE]]

RECURSIVE LoopSend(_, _, _, _, _, _)
LoopSend(i, lg, cmt, tm, p, j) ==      \* for r.maybeSendAppend(m.From, false) {}
    LET r == MaybeSendApp(i, lg, cmt, tm, p, j, FALSE)
    IN IF r.m = <<>> THEN [p |-> p, m |-> <<>>]
       ELSE LET r2 == LoopSend(i, lg, cmt, tm, r.p, j) IN [p |-> r2.p, m |-> r.m \o r2.m]

RECURSIVE Concat(_, _)
Concat(f, S) == IF S = {} THEN <<>> ELSE LET x == Min(S) IN f[x] \o Concat(f, S \ {x})

(* raft.go bcastAppend: sendAppend (sendIfEmpty) to every peer that has a Progress (tracker.Visit, in id order), i.e. to *)
(* the voters V of the sender's configuration; returns new progress map and messages                                     *)
Bcast(i, lg, cmt, tm, P, V) ==
    LET R == [j \in V \ {i} |-> MaybeSendApp(i, lg, cmt, tm, P[j], j, TRUE)]
    IN [P |-> [j \in Server |-> IF j \in V \ {i} THEN R[j].p ELSE P[j]],
        m |-> Concat([j \in V \ {i} |-> R[j].m], V \ {i})]

(* switchToConfig 1704-1709: maybeSendAppend(id, false) to every peer of the configuration *)
SendPending(i, lg, cmt, tm, P, V) ==
    LET R == [j \in V \ {i} |-> MaybeSendApp(i, lg, cmt, tm, P[j], j, FALSE)]
    IN [P |-> [j \in Server |-> IF j \in V \ {i} THEN R[j].p ELSE P[j]],
        m |-> Concat([j \in V \ {i} |-> R[j].m], V \ {i})]

(* quorum/majority.go CommittedIndex over Match of the voters V (tracker.Committed: r.prs.Voters, the leader's OWN *)
(* current configuration, which need not contain the leader)                                                        *)
Mci(P, V) == Max({x \in {P[j].match : j \in V} \cup {0} : Cardinality({j \in V : P[j].match >= x}) >= QuorumOf(V)})
MaybeCommit(lg, cmt, tm, P, V) ==
    LET mci == Mci(P, V) IN IF mci > cmt /\ (W_CommitAnyTerm \/ TermAt(lg, mci) = tm) THEN mci ELSE cmt

(* stepLeader MsgAppResp, not rejected; j = i is the leader's own acknowledgement from advance().     *)
(* Returns [P, c, m].                                                                                   *)
AckOK(i, j, idx, lg, cmt, tm, P, V) ==
    IF j \notin V THEN [P |-> P, c |-> cmt, m |-> <<>>]      \* stepLeader 1109-1113: no Progress for m.From (a leader that removed itself)
    ELSE
    LET p0 == P[j]
        oldPaused == IsPaused(p0)
        updated == p0.match < idx
        p1 == [ (IF updated THEN [p0 EXCEPT !.match = idx, !.probesent = FALSE] ELSE p0) EXCEPT !.next = Max2(p0.next, idx + 1)]
    IN IF ~updated THEN [P |-> [P EXCEPT ![j] = p1], c |-> cmt, m |-> <<>>]
       ELSE LET p2 == IF p1.state = Probe THEN [p1 EXCEPT !.state = Replicate, !.next = p1.match + 1, !.probesent = FALSE] ELSE p1
                P2 == [P EXCEPT ![j] = p2]
                c2 == MaybeCommit(lg, cmt, tm, P2, V)
                r1 == IF c2 > cmt THEN Bcast(i, lg, c2, tm, P2, V)
                      ELSE IF oldPaused /\ j # i
                           THEN LET s == MaybeSendApp(i, lg, c2, tm, P2[j], j, TRUE) IN [P |-> [P2 EXCEPT ![j] = s.p], m |-> s.m]
                           ELSE [P |-> P2, m |-> <<>>]
                r2 == IF j = i THEN [p |-> r1.P[j], m |-> <<>>] ELSE LoopSend(i, lg, c2, tm, r1.P[j], j)
            IN [P |-> [r1.P EXCEPT ![j] = r2.p], c |-> c2, m |-> r1.m \o r2.m]

(* ------------------------- configuration changes ----------------------- *)
(* An entry is [t, p, c]: c = 0 a normal entry (EntryNormal), c = j > 0 EntryConfChange{ConfChangeAddNode, j},      *)
(* c = -j EntryConfChange{ConfChangeRemoveNode, j}.                                                                   *)
(* confchange.go Simple 132-149 / apply 154-178 for one change: makeVoter 182-193 (a voter that is already there      *)
(* stays), remove 235-248 (an absent id: nothing); "removed all voters" 174-176 is an error: applyConfChange panics    *)
(* before it switches (raft.go 1651-1654), raftsim's applyCC treats that as "the application rejects the change" and   *)
(* the configuration stays.                                                                                            *)
CCRejected(V, c) == c < 0 /\ V \ {-c} = {}
ApplyCC(V, c) == IF c = 0 \/ CCRejected(V, c) THEN V ELSE IF c > 0 THEN V \cup {c} ELSE V \ {-c}
RECURSIVE ConfFold(_, _, _, _)
ConfFold(V, lg, lo, hi) == IF lo > hi THEN V ELSE ConfFold(ApplyCC(V, lg[lo].c), lg, lo + 1, hi)
(* the configuration of a node that is not leader after its commit (= applied) index moved to c: the Ready cycle hands *)
(* the newly committed entries to the application, which calls ApplyConfChange for each conf change; switchToConfig   *)
(* 1690-1694 does nothing more on a non-leader                                                                         *)
FV(i, lg, c) == ConfFold(cfg[i], lg, commit[i] + 1, c)
(* after a restart: newRaft 346-353 restores the ConfState of Storage.InitialState - raftsim's disk answers with the   *)
(* genesis configuration while there is no snapshot (sim.go disk.InitialState) - and Config.Applied = 0, so the first  *)
(* Ready re-applies every committed entry                                                                              *)
ConfAt(lg, c) == ConfFold(InitVoters, lg, 1, c)

(* The leader's Ready cycle after its commit index moved from `done` to a.c (a = [P, c, m] as returned by AckOK):      *)
(* every conf change in the newly committed entries is applied in index order (raftsim ready(): ApplyConfChange ->     *)
(* applyConfChange 1637-1657 -> switchToConfig 1665-1717).  On the leader: a new voter gets Progress{Match 0, Next =    *)
(* LastIndex, StateProbe} (confchange.go initProgress 251-277; LastIndex = raftLog.lastIndex() at apply time, 1641),   *)
(* a removed one loses it; if the leader itself is gone it just carries on as leader without Progress (1677-1688);     *)
(* otherwise maybeCommit under the NEW configuration and bcastAppend (1696-1700), or else maybeSendAppend(id, false)   *)
(* to every peer (1701-1710).  What that commits is applied by the next round of the same Ready loop.                  *)
RECURSIVE LeaderApplyFrom(_, _, _, _, _, _, _, _)
LeaderApplyFrom(i, lg, tm, k, cmt, P, V, ms) ==
    IF k > cmt THEN [P |-> P, c |-> cmt, m |-> ms, V |-> V]
    ELSE LET c == lg[k].c
         IN IF c = 0 \/ CCRejected(V, c) THEN LeaderApplyFrom(i, lg, tm, k + 1, cmt, P, V, ms)
            ELSE LET V2 == ApplyCC(V, c)
                     P2 == [j \in Server |->
                              IF j \in V2 \ V THEN [match |-> IF W_AddedVoterCaughtUp THEN Len(lg) ELSE 0,
                                                   next |-> Len(lg),
                                                   state |-> Probe, probesent |-> FALSE]
                              ELSE IF j \in V \ V2 THEN NoPrE ELSE P[j]]
                 IN IF i \notin V2 THEN LeaderApplyFrom(i, lg, tm, k + 1, cmt, P2, V2, ms)
                    ELSE LET c2 == MaybeCommit(lg, cmt, tm, P2, V2)
                             b == IF c2 > cmt THEN Bcast(i, lg, c2, tm, P2, V2) ELSE SendPending(i, lg, cmt, tm, P2, V2)
                         IN LeaderApplyFrom(i, lg, tm, k + 1, c2, b.P, V2, ms \o b.m)
LeaderApply(i, lg, tm, a) == LeaderApplyFrom(i, lg, tm, commit[i] + 1, a.c, a.P, cfg[i], a.m)

(* ------------------------- committing a step --------------------------- *)
(* All per-node effects of an action on node i, including the Ready cycle: *)
(* HardState persisted (synced iff MustSync: entries written or term/vote  *)
(* changed), applied = commit.                                             *)
Update(i, r, t, v, ld, lg, c, vts, P, wrote, V, pc) ==
    /\ role' = [role EXCEPT ![i] = r]
    /\ term' = [term EXCEPT ![i] = t]
    /\ vote' = [vote EXCEPT ![i] = v]
    /\ lead' = [lead EXCEPT ![i] = ld]
    /\ log' = [log EXCEPT ![i] = lg]
    /\ commit' = [commit EXCEPT ![i] = c]
    /\ applied' = [applied EXCEPT ![i] = c]
    /\ hs' = [hs EXCEPT ![i] = [term |-> t, vote |-> IF W_NoPersistVote THEN 0 ELSE v, commit |-> c]]
    \* a leader writes only its own entries (proposal, empty entry of becomeLeader): they are synced by the first Ready, with the
    \* commit index as it was; what its own acknowledgement in advance() commits (a quorum of one) is a later, commit-only write
    /\ sc' = [sc EXCEPT ![i] = IF wrote \/ t # term[i] \/ v # vote[i] THEN (IF r = "L" THEN commit[i] ELSE c) ELSE @]
    /\ votes' = [votes EXCEPT ![i] = vts]
    /\ pr' = [pr EXCEPT ![i] = IF r = "L" THEN P
                               ELSE IF W_KeepMatchOnReset /\ r # "D" THEN [j \in Server |-> [NoPrE EXCEPT !.match = pr[i][j].match]]
                               ELSE NoPr]
    /\ cfg' = [cfg EXCEPT ![i] = V]
    /\ pci' = [pci EXCEPT ![i] = IF r = "L" THEN pc ELSE 0]
    /\ gc' = IF c > Len(gc) THEN SubSeq(lg, 1, c) ELSE gc
    /\ gct' = IF c > Len(gc) THEN gct \o [k \in 1..(c - Len(gc)) |-> t] ELSE gct
    /\ Len(lg) <= MaxLog

Hist(i, r, t, lg) ==
    /\ elected' = IF r = "L" /\ role[i] # "L" THEN elected \cup {<<t, i>>} ELSE elected
    /\ lcok' = IF r = "L" /\ role[i] # "L"
             THEN lcok /\ \A k \in 1..Len(gc) : gct[k] < t => (k <= Len(lg) /\ lg[k] = gc[k])
             ELSE lcok

Budgets == UNCHANGED <<nprop, ncrash, ndrop, ndup, nhb, nconf, nref>>

Up(i) == role[i] # "D"

(* ------------------------------ actions ------------------------------- *)
Init ==
    /\ role = [i \in Server |-> "F"]
    /\ term = [i \in Server |-> 0]
    /\ vote = [i \in Server |-> 0]
    /\ lead = [i \in Server |-> 0]
    /\ log = [i \in Server |-> <<>>]
    /\ commit = [i \in Server |-> 0]
    /\ applied = [i \in Server |-> 0]
    /\ hs = [i \in Server |-> [term |-> 0, vote |-> 0, commit |-> 0]]
    /\ sc = [i \in Server |-> 0]
    /\ votes = [i \in Server |-> NoVotes]
    /\ pr = [i \in Server |-> NoPr]
    /\ cfg = [i \in Server |-> InitVoters]
    /\ pci = [i \in Server |-> 0]
    /\ net = <<>>
    /\ nprop = 0 /\ ncrash = 0 /\ ndrop = 0 /\ ndup = 0 /\ nhb = 0 /\ nconf = 0 /\ nref = 0
    /\ elected = {} /\ gc = <<>> /\ gct = <<>> /\ lcok = TRUE
    /\ act = [name |-> "Init"]

(* campaign 831-852: one request per other voter of the sender's configuration, in id order, carrying the sender's last index / last term *)
VoteReqs(i, ty, t) ==
    Concat([j \in cfg[i] \ {i} |-> <<Msg(ty, i, j, t, Len(log[i]), LastTerm(log[i]), 0, FALSE, 0, <<>>)>>], cfg[i] \ {i})

(* becomeLeader 738-776 (reset: a fresh Progress for every id of the configuration; pendingConfIndex = the last index   *)
(* BEFORE the empty entry, 758-763) + bcastAppend + the leader's own ack in advance() + the rest of the Ready cycle        *)
LeaderStart(i, t, lg0, cmt) ==
    LET lg == Append(lg0, [t |-> t, p |-> 0, c |-> 0])
        P0 == [j \in Server |-> IF j \notin cfg[i] THEN NoPrE
                                ELSE [match |-> IF j = i THEN Len(lg0) ELSE IF W_KeepMatchOnReset THEN pr[i][j].match ELSE 0, next |-> Len(lg0) + 1,
                                      state |-> IF j = i THEN Replicate ELSE Probe, probesent |-> FALSE]]
        b == Bcast(i, lg, cmt, t, P0, cfg[i])
        a == AckOK(i, i, Len(lg), lg, cmt, t, b.P, cfg[i])
        f == LeaderApply(i, lg, t, [P |-> a.P, c |-> a.c, m |-> b.m \o a.m])
    IN [lg |-> lg, P |-> f.P, c |-> f.c, m |-> f.m, V |-> f.V, pc |-> Len(lg0)]

(* RawNode.Campaign(): MsgHup -> Step 941-946 -> hup -> campaign(campaignElection), or, with PreVote,                 *)
(* campaign(campaignPreElection): becomePreCandidate 722-736 changes state ("P"), the vote tally (ResetVotes + own     *)
(* pre-vote by poll 821) and lead (None) but NOT Term and NOT Vote; the MsgPreVote requests carry Term + 1 (815).      *)
(* Nothing of the HardState changes, so nothing is persisted.  A pre-candidate or candidate may campaign again.        *)
(* hup 784-787: a node that is not promotable() 1632-1635 - it has no Progress, i.e. it is not a voter of its OWN      *)
(* current configuration - does not campaign (Campaign() returns nil and nothing happens).  (The other refusal of hup, *)
(* 788-795 "pending configuration changes to apply", needs applied < committed: never at this granularity.)            *)
(* A quorum of one (the node is the only voter of its configuration; reachable only by removals): the                  *)
(* `res == VoteWon` shortcut 821-830 - pre-candidate -> candidate of term + 1 -> leader inside the same call.          *)
Campaign(i) ==
    /\ i \in Campaigners /\ Up(i) /\ role[i] # "L" /\ term[i] < MaxTerm
    /\ i \in cfg[i]
    /\ IF cfg[i] = {i}
       THEN LET t == term[i] + 1
                s == LeaderStart(i, t, log[i], commit[i])
            IN /\ Update(i, "L", t, i, i, s.lg, s.c, NoVotes, s.P, TRUE, s.V, s.pc)
               /\ Hist(i, "L", t, s.lg)
               /\ SendSome(net, s.m, [name |-> "Campaign", i |-> i])
       ELSE IF PreVote
       THEN /\ Update(i, "P", term[i], vote[i], 0, log[i], commit[i], [NoVotes EXCEPT ![i] = "y"], NoPr, FALSE, cfg[i], 0)
            /\ Hist(i, "P", term[i], log[i])
            /\ SendSome(net, VoteReqs(i, "PreVote", term[i] + 1), [name |-> "Campaign", i |-> i])
       ELSE LET t == term[i] + 1
            IN /\ Update(i, "C", t, i, 0, log[i], commit[i], [NoVotes EXCEPT ![i] = "y"], NoPr, FALSE, cfg[i], 0)
               /\ Hist(i, "C", t, log[i])
               /\ SendSome(net, VoteReqs(i, "Vote", t), [name |-> "Campaign", i |-> i])
    /\ Budgets

(* stepLeader MsgProp 1028-1086 after the entry was chosen: appendEntry + bcastAppend, then the Ready cycle (entry        *)
(* persisted, the leader's own ack in advance(), whatever that commits applied).  A leader that removed itself from the   *)
(* configuration drops every proposal (1032-1037, ErrProposalDropped): guard i \in cfg[i].                               *)
AppendProposal(i, e, pc, a0) ==
    LET lg == Append(log[i], e)
        b == Bcast(i, lg, commit[i], term[i], pr[i], cfg[i])
        a == AckOK(i, i, Len(lg), lg, commit[i], term[i], b.P, cfg[i])
        f == LeaderApply(i, lg, term[i], [P |-> a.P, c |-> a.c, m |-> b.m \o a.m])
    IN /\ Update(i, "L", term[i], vote[i], lead[i], lg, f.c, votes[i], f.P, TRUE, f.V, pc)
       /\ Hist(i, "L", term[i], lg)
       /\ SendSome(net, f.m, a0)

(* RawNode.Propose on the leader *)
Propose(i, v) ==
    /\ role[i] = "L" /\ nprop < MaxProposals /\ i \in cfg[i]
    /\ AppendProposal(i, [t |-> term[i], p |-> v, c |-> 0], pci[i], [name |-> "Propose", i |-> i, v |-> v])
    /\ nprop' = nprop + 1
    /\ UNCHANGED <<ncrash, ndrop, ndup, nhb, nconf, nref>>

(* RawNode.ProposeConfChange(raftpb.ConfChange{Type, NodeID}) on the leader: rawnode.go 93-99 -> stepLeader MsgProp.   *)
(* 1060-1078: with `alreadyPending` (pendingConfIndex > applied: a conf change that may not have been applied yet) the  *)
(* entry is REPLACED by an empty normal entry (1073-1075) and appended all the same; otherwise pendingConfIndex = the   *)
(* index the entry gets.  (alreadyJoint / wantsLeaveJoint 1061-1071: no joint configurations and no empty changes in    *)
(* this module.)  The change is not validated here; what it does is decided when the entry is applied.                 *)
ProposeConfChange(i, ch, v) ==
    /\ ConfChange /\ role[i] = "L" /\ i \in cfg[i]
    /\ LET refused == ~W_ConfChangeNoPendingCheck /\ pci[i] > applied[i]
       IN /\ IF refused THEN nref < MaxConfRefusals ELSE nconf < MaxConfChanges
          /\ nconf' = IF refused THEN nconf ELSE nconf + 1
          /\ nref' = IF refused THEN nref + 1 ELSE nref
          /\ AppendProposal(i, IF refused THEN [t |-> term[i], p |-> 0, c |-> 0] ELSE [t |-> term[i], p |-> v, c |-> ch],
                            IF refused THEN pci[i] ELSE Len(log[i]) + 1,
                            [name |-> "ProposeConfChange", i |-> i, v |-> v, ch |-> ch])
    /\ UNCHANGED <<nprop, ncrash, ndrop, ndup, nhb>>

(* RawNode.Tick on the leader with HeartbeatTick = 1: MsgBeat -> bcastHeartbeat (to every id with a Progress) *)
Heartbeat(i) ==
    /\ role[i] = "L" /\ nhb < MaxHeartbeats
    /\ LET ms == Concat([j \in cfg[i] \ {i} |->
                    <<Msg("HB", i, j, term[i], 0, 0,
                          IF W_HeartbeatCommitUnbounded THEN commit[i] ELSE Min2(pr[i][j].match, commit[i]), FALSE, 0, <<>>)>>], cfg[i] \ {i})
       IN SendSome(net, ms, [name |-> "Heartbeat", i |-> i])
    /\ nhb' = nhb + 1
    /\ UNCHANGED <<nodeVars, nprop, ncrash, ndrop, ndup, nconf, nref, elected, gc, gct, lcok>>

(* Step prologue (raft.go 867-938): state of m.to after the term comparison, for m.tm >= term.                      *)
(* A higher term makes the receiver a follower of that term (882-899) EXCEPT for MsgPreVote ("never change our term   *)
(* in response to a PreVote", 883-884) and for a GRANTED MsgPreVoteResp (885-890: it carries the pre-candidate's      *)
(* future term); a REJECTED MsgPreVoteResp carries the rejector's term and falls into the default branch.             *)
Bump(m) == m.tm > term[m.to] /\ m.ty # "PreVote" /\ ~(m.ty = "PreVoteResp" /\ ~m.rj)
T0(m) == IF Bump(m) THEN m.tm ELSE term[m.to]
V0(m) == IF Bump(m) THEN 0 ELSE vote[m.to]
R0(m) == IF Bump(m) THEN "F" ELSE role[m.to]
L0(m) == IF Bump(m) THEN (IF m.ty \in {"App", "HB"} THEN m.fr ELSE 0) ELSE lead[m.to]

Receivable(m) == m \in DOMAIN net /\ Up(m.to)

Finish(m, ms) ==
    /\ SendSome(BagDel(net, m), ms, [name |-> "Deliver", m |-> m])
    /\ Budgets

(* a message from a lower term (raft.go 901-937) changes nothing at the receiver.  Without PreVote (and CheckQuorum) *)
(* it is ignored.  With PreVote a MsgApp / MsgHeartbeat of a deposed leader is answered by an (otherwise empty)       *)
(* MsgAppResp at the receiver's term (902-924), which makes that leader step down; a MsgPreVote is rejected with the  *)
(* receiver's term (925-931, whatever r.preVote says - without PreVote there are no such messages).                   *)
DeliverStale(m) ==
    /\ Receivable(m) /\ m.tm < term[m.to]
    /\ UNCHANGED <<nodeVars, elected, gc, gct, lcok>>
    /\ Finish(m, IF PreVote /\ m.ty \in {"App", "HB"}
                 THEN <<Msg("AppResp", m.to, m.fr, term[m.to], 0, 0, 0, FALSE, 0, <<>>)>>
                 ELSE IF m.ty = "PreVote"
                 THEN <<Msg("PreVoteResp", m.to, m.fr, term[m.to], 0, 0, 0, TRUE, 0, <<>>)>>
                 ELSE <<>>)

(* MsgVote and MsgPreVote are answered by Step itself, in every state (raft.go 948-996).  A MsgPreVote never       *)
(* changes the receiver (no term change in the prologue, "only record real votes" 987-991): R0/T0/V0/L0 are the       *)
(* current values.  canVote 950-954; a grant is answered with the term OF THE REQUEST (986: for a pre-vote that is    *)
(* the candidate's future term), a rejection with the receiver's term (995).                                         *)
DeliverVote(m) ==
    /\ Receivable(m) /\ m.ty \in {"Vote", "PreVote"} /\ m.tm >= term[m.to]
    /\ LET i == m.to
           pre == m.ty = "PreVote"
           canVote == W_VoteIgnoreVoted \/ V0(m) = m.fr \/ (V0(m) = 0 /\ L0(m) = 0) \/ (pre /\ m.tm > T0(m))
           grant == canVote /\ (W_VoteIgnoreLog \/ IsUpToDate(log[i], m.ix, m.lt))
       IN /\ Update(i, R0(m), T0(m), IF grant /\ ~pre THEN m.fr ELSE V0(m), L0(m), log[i], commit[i],
                    IF R0(m) = role[i] THEN votes[i] ELSE NoVotes, pr[i], FALSE, cfg[i], pci[i])
          /\ Hist(i, R0(m), T0(m), log[i])
          /\ Finish(m, <<Msg(IF pre THEN "PreVoteResp" ELSE "VoteResp", i, m.fr, IF grant THEN m.tm ELSE T0(m), 0, 0, 0, ~grant, 0, <<>>)>>)

(* MsgVoteResp / MsgPreVoteResp with m.tm >= term.  After the prologue only a candidate ("C") or pre-candidate ("P")  *)
(* looks at them (stepCandidate 1390-1433; stepFollower and stepLeader have no case for them), and only at the type   *)
(* that matches its state: `case myVoteRespType` 1394-1399, 1413 - a candidate may still receive MsgPreVoteResp of    *)
(* its own pre-candidacy, whose term (the future term it asked for) is now its term.  poll 855-863 records the first  *)
(* answer of each peer only (tracker.RecordVote).  VoteWon: a pre-candidate starts the real election                 *)
(* (campaign(campaignElection) 1418-1419: becomeCandidate 709-720 = term + 1, vote for itself, fresh tally; MsgVote   *)
(* to every peer), a candidate becomes leader.  VoteLost: follower of the CURRENT term (1424-1427, "m.Term > r.Term;  *)
(* reuse r.Term").  Note that a pre-candidate also counts a granted MsgPreVoteResp of an earlier pre-candidacy of its *)
(* own (same or future term): the library does not distinguish them either.                                          *)
DeliverVoteResp(m) ==
    /\ Receivable(m) /\ m.ty \in {"VoteResp", "PreVoteResp"} /\ m.tm >= term[m.to] /\ m.fr \in cfg[m.to]
    /\ LET i == m.to
           mine == \/ R0(m) = "C" /\ m.ty = "VoteResp"
                   \/ R0(m) = "P" /\ m.ty = "PreVoteResp"
                   \/ W_PreVoteRespCountsAsVote /\ R0(m) \in {"C", "P"}
       IN IF ~mine
          THEN \* ignored (after a possible step-down by the prologue)
               /\ Update(i, R0(m), T0(m), V0(m), L0(m), log[i], commit[i], IF R0(m) = role[i] THEN votes[i] ELSE NoVotes, pr[i], FALSE, cfg[i], pci[i])
               /\ Hist(i, R0(m), T0(m), log[i])
               /\ Finish(m, <<>>)
          ELSE \* R0(m) \in {"C", "P"}: the prologue changed nothing
               LET vts == IF votes[i][m.fr] = "n" THEN [votes[i] EXCEPT ![m.fr] = IF m.rj THEN "r" ELSE "y"] ELSE votes[i]
                   \* tracker.TallyVotes 267-288 -> quorum/majority.go VoteResult 178-207 over the voters of i's configuration
                   yes == Cardinality({j \in cfg[i] : vts[j] = "y"})
                   no == Cardinality({j \in cfg[i] : vts[j] = "r"})
                   Quorum == QuorumOf(cfg[i])
               IN IF yes >= Quorum /\ role[i] = "P"
                  THEN LET t == term[i] + 1
                       IN /\ Update(i, "C", t, i, 0, log[i], commit[i], [NoVotes EXCEPT ![i] = "y"], NoPr, FALSE, cfg[i], 0)
                          /\ Hist(i, "C", t, log[i])
                          /\ Finish(m, VoteReqs(i, "Vote", t))
                  ELSE IF yes >= Quorum
                  THEN LET s == LeaderStart(i, term[i], log[i], commit[i])
                       IN /\ Update(i, "L", term[i], vote[i], i, s.lg, s.c, NoVotes, s.P, TRUE, s.V, s.pc)
                          /\ Hist(i, "L", term[i], s.lg)
                          /\ Finish(m, s.m)
                  ELSE IF Cardinality(cfg[i]) - no < Quorum
                  THEN /\ Update(i, "F", term[i], vote[i], 0, log[i], commit[i], NoVotes, NoPr, FALSE, cfg[i], 0)
                       /\ Hist(i, "F", term[i], log[i])
                       /\ Finish(m, <<>>)
                  ELSE /\ Update(i, role[i], term[i], vote[i], lead[i], log[i], commit[i], vts, NoPr, FALSE, cfg[i], 0)
                       /\ Hist(i, role[i], term[i], log[i])
                       /\ Finish(m, <<>>)

(* MsgApp: stepCandidate/stepFollower -> handleAppendEntries; a leader of the same term ignores it *)
DeliverApp(m) ==
    /\ Receivable(m) /\ m.ty = "App" /\ m.tm >= term[m.to]
    /\ LET i == m.to
           lg == log[i]
       IN IF R0(m) = "L"
          THEN /\ UNCHANGED <<nodeVars, elected, gc, gct, lcok>>
               /\ Finish(m, <<>>)
          ELSE IF m.ix < commit[i]
          THEN /\ Update(i, "F", T0(m), V0(m), m.fr, lg, commit[i], NoVotes, NoPr, FALSE, cfg[i], 0)
               /\ Hist(i, "F", T0(m), lg)
               /\ Finish(m, <<Msg("AppResp", i, m.fr, T0(m), commit[i], 0, 0, FALSE, 0, <<>>)>>)
          ELSE IF TermAt(lg, m.ix) = m.lt
          THEN LET lastnew == m.ix + Len(m.es)
                   ci == FindConflict(lg, m.ix, m.es)
                   trunc == W_AppendAlwaysTruncates /\ m.es # <<>>
                   lg2 == IF trunc THEN SubSeq(lg, 1, m.ix) \o m.es
                          ELSE IF ci = 0 THEN lg
                          ELSE SubSeq(lg, 1, ci - 1) \o SubSeq(m.es, ci - m.ix, Len(m.es))
                   c2 == Max2(commit[i], Min2(m.cm, lastnew))
               IN /\ (ci = 0 \/ ci > commit[i])      \* otherwise the library panics; unreachable in the faithful spec
                  /\ Update(i, "F", T0(m), V0(m), m.fr, lg2, c2, NoVotes, NoPr, trunc \/ ci # 0, FV(i, lg2, c2), 0)
                  /\ Hist(i, "F", T0(m), lg2)
                  /\ Finish(m, <<Msg("AppResp", i, m.fr, T0(m), lastnew, 0, 0, FALSE, 0, <<>>)>>)
          ELSE LET hint == FindConflictByTerm(lg, Min2(m.ix, Len(lg)), m.lt)
               IN /\ Update(i, "F", T0(m), V0(m), m.fr, lg, commit[i], NoVotes, NoPr, FALSE, cfg[i], 0)
                  /\ Hist(i, "F", T0(m), lg)
                  /\ Finish(m, <<Msg("AppResp", i, m.fr, T0(m), m.ix, TermAt(lg, hint), 0, TRUE, hint, <<>>)>>)

DeliverAppResp(m) ==
    /\ Receivable(m) /\ m.ty = "AppResp" /\ m.tm >= term[m.to] /\ m.fr \in cfg[m.to]
    /\ LET i == m.to
           j == m.fr
           lg == log[i]
       IN IF R0(m) # "L"
          THEN /\ Update(i, R0(m), T0(m), V0(m), L0(m), lg, commit[i], IF R0(m) = role[i] THEN votes[i] ELSE NoVotes, NoPr, FALSE, cfg[i], 0)
               /\ Hist(i, R0(m), T0(m), lg)
               /\ Finish(m, <<>>)
          ELSE IF ~m.rj
          THEN LET a == LeaderApply(i, lg, term[i], AckOK(i, j, m.ix, lg, commit[i], term[i], pr[i], cfg[i]))
               IN /\ Update(i, "L", term[i], vote[i], lead[i], lg, a.c, votes[i], a.P, FALSE, a.V, pci[i])
                  /\ Hist(i, "L", term[i], lg)
                  /\ Finish(m, a.m)
          ELSE LET p0 == pr[i][j]
                   nextProbe == IF m.lt > 0 THEN FindConflictByTerm(lg, m.ht, m.lt) ELSE m.ht
                   decr == IF p0.state = Replicate THEN m.ix > p0.match ELSE p0.next - 1 = m.ix
                   p1 == IF p0.state = Replicate
                         THEN [p0 EXCEPT !.state = Probe, !.next = p0.match + 1, !.probesent = FALSE]   \* MaybeDecrTo + BecomeProbe
                         ELSE [p0 EXCEPT !.next = Max2(Min2(m.ix, nextProbe + 1), 1), !.probesent = FALSE]
                   s == MaybeSendApp(i, lg, commit[i], term[i], p1, j, TRUE)
               IN IF ~decr
                  THEN /\ UNCHANGED <<nodeVars, elected, gc, gct, lcok>>
                       /\ Finish(m, <<>>)
                  ELSE /\ Update(i, "L", term[i], vote[i], lead[i], lg, commit[i], votes[i], [pr[i] EXCEPT ![j] = s.p], FALSE, cfg[i], pci[i])
                       /\ Hist(i, "L", term[i], lg)
                       /\ Finish(m, s.m)

DeliverHB(m) ==
    /\ Receivable(m) /\ m.ty = "HB" /\ m.tm >= term[m.to]
    /\ LET i == m.to
       IN IF R0(m) = "L"
          THEN /\ UNCHANGED <<nodeVars, elected, gc, gct, lcok>>
               /\ Finish(m, <<>>)
          ELSE /\ m.cm <= Len(log[i])           \* otherwise the library panics; unreachable in the faithful spec
               /\ Update(i, "F", T0(m), V0(m), m.fr, log[i], Max2(commit[i], m.cm), NoVotes, NoPr, FALSE, FV(i, log[i], Max2(commit[i], m.cm)), 0)
               /\ Hist(i, "F", T0(m), log[i])
               /\ Finish(m, <<Msg("HBResp", i, m.fr, T0(m), 0, 0, 0, FALSE, 0, <<>>)>>)

DeliverHBResp(m) ==
    /\ Receivable(m) /\ m.ty = "HBResp" /\ m.tm >= term[m.to] /\ m.fr \in cfg[m.to]
    /\ LET i == m.to
           j == m.fr
       IN IF R0(m) # "L"
          THEN /\ Update(i, R0(m), T0(m), V0(m), L0(m), log[i], commit[i], IF R0(m) = role[i] THEN votes[i] ELSE NoVotes, NoPr, FALSE, cfg[i], 0)
               /\ Hist(i, R0(m), T0(m), log[i])
               /\ Finish(m, <<>>)
          ELSE LET p1 == [pr[i][j] EXCEPT !.probesent = FALSE]
                   s == IF p1.match < Len(log[i]) THEN MaybeSendApp(i, log[i], commit[i], term[i], p1, j, TRUE) ELSE [p |-> p1, m |-> <<>>]
               IN /\ Update(i, "L", term[i], vote[i], lead[i], log[i], commit[i], votes[i], [pr[i] EXCEPT ![j] = s.p], FALSE, cfg[i], pci[i])
                  /\ Hist(i, "L", term[i], log[i])
                  /\ Finish(m, s.m)

(* RawNode.Step 110-119: a RESPONSE message (IsResponseMsg, util.go 48-50) from an id that has no Progress in the       *)
(* receiver's configuration is refused (ErrStepPeerNotFound) before raft.Step sees it - not even its term is looked at. *)
DeliverUnknownPeer(m) ==
    /\ Receivable(m) /\ m.ty \in {"VoteResp", "PreVoteResp", "AppResp", "HBResp"} /\ m.tm >= term[m.to] /\ m.fr \notin cfg[m.to]
    /\ UNCHANGED <<nodeVars, elected, gc, gct, lcok>>
    /\ Finish(m, <<>>)

Drop(m) ==
    /\ m \in DOMAIN net /\ ndrop < MaxDrops
    /\ net' = BagDel(net, m)
    /\ ndrop' = ndrop + 1
    /\ UNCHANGED <<nodeVars, nprop, ncrash, ndup, nhb, nconf, nref, elected, gc, gct, lcok>>
    /\ act' = [name |-> "Drop", m |-> m]

Dup(m) ==
    /\ m \in DOMAIN net /\ ndup < MaxDups /\ net[m] = 1
    /\ net' = BagAdd(net, m)
    /\ ndup' = ndup + 1
    /\ UNCHANGED <<nodeVars, nprop, ncrash, ndrop, nhb, nconf, nref, elected, gc, gct, lcok>>
    /\ act' = [name |-> "Dup", m |-> m]

(* Crash: everything volatile is lost; the commit-only HardState written since the last synced write *)
(* survives (keep = 1) or not (keep = 0): node.go MustSync.                                            *)
CrashTo(i, c) ==
    /\ Up(i) /\ ncrash < MaxCrashes
    /\ sc[i] <= c /\ c <= hs[i].commit
    /\    /\ role' = [role EXCEPT ![i] = "D"]
          /\ term' = [term EXCEPT ![i] = hs[i].term]
          /\ vote' = [vote EXCEPT ![i] = hs[i].vote]
          /\ lead' = [lead EXCEPT ![i] = 0]
          /\ commit' = [commit EXCEPT ![i] = c]
          /\ applied' = [applied EXCEPT ![i] = 0]
          /\ hs' = [hs EXCEPT ![i].commit = c]
          /\ sc' = [sc EXCEPT ![i] = c]
          /\ votes' = [votes EXCEPT ![i] = NoVotes]
          /\ pr' = [pr EXCEPT ![i] = NoPr]
          /\ pci' = [pci EXCEPT ![i] = 0]
          \* what the restarted node will rebuild (see ConfAt); nothing looks at the configuration of a node that is down
          /\ cfg' = [cfg EXCEPT ![i] = ConfAt(log[i], c)]
    /\ ncrash' = ncrash + 1
    /\ UNCHANGED <<log, net, nprop, ndrop, ndup, nhb, nconf, nref, elected, gc, gct, lcok>>

Crash(i, keep) ==
    /\ (keep = 0 => sc[i] # hs[i].commit)
    /\ CrashTo(i, IF keep = 1 THEN hs[i].commit ELSE sc[i])
    /\ act' = [name |-> "Crash", i |-> i, keep |-> keep]

(* NewRawNode from storage (newRaft/loadState) + the Ready cycle applying the committed entries, conf changes included: *)
(* the configuration is the genesis one with every committed conf change applied again (set at the crash: ConfAt)       *)
Restart(i) ==
    /\ role[i] = "D"
    /\ role' = [role EXCEPT ![i] = "F"]
    /\ applied' = [applied EXCEPT ![i] = commit[i]]
    /\ UNCHANGED <<term, vote, lead, log, commit, hs, sc, votes, pr, cfg, pci, net, nprop, ncrash, ndrop, ndup, nhb, nconf, nref, elected, gc, gct, lcok>>
    /\ act' = [name |-> "Restart", i |-> i]

Next ==
    \/ \E i \in Server : Campaign(i) \/ Propose(i, nprop + 1) \/ Heartbeat(i) \/ Restart(i) \/ \E k \in {0, 1} : Crash(i, k)
    \/ \E i \in Server, ch \in ConfChanges : ProposeConfChange(i, ch, 100 + nconf + nref + 1)
    \/ \E m \in DOMAIN net : \/ DeliverStale(m) \/ DeliverVote(m) \/ DeliverVoteResp(m) \/ DeliverApp(m)
                             \/ DeliverAppResp(m) \/ DeliverHB(m) \/ DeliverHBResp(m) \/ DeliverUnknownPeer(m) \/ Drop(m) \/ Dup(m)

Spec == Init /\ [][Next]_vars

NetBound == NetSize(net) <= MaxNet

(* ------------------------------ properties ---------------------------- *)
ElectionSafety == \A x \in elected, y \in elected : x[1] = y[1] => x[2] = y[2]

LogMatching ==
    \A i \in Server, j \in Server :
        \A k \in 1..Min2(Len(log[i]), Len(log[j])) :
            log[i][k].t = log[j][k].t => SubSeq(log[i], 1, k) = SubSeq(log[j], 1, k)

(* every node's committed prefix is the global committed prefix: no two nodes differ at an index <= both *)
(* commits (StateMachineSafety) and nothing committed is ever rewritten or removed (gc is a history)      *)
StateMachineSafety ==
    \A i \in Server : commit[i] <= Len(log[i]) /\ commit[i] <= Len(gc) /\ SubSeq(log[i], 1, commit[i]) = SubSeq(gc, 1, commit[i])

LeaderCompleteness == lcok

CommitWithinLog == \A i \in Server : applied[i] <= commit[i] /\ commit[i] <= Len(log[i]) /\ sc[i] <= hs[i].commit

PersistedMatchesVolatile ==
    \A i \in Server : Up(i) => hs[i].term = term[i] /\ hs[i].commit = commit[i] /\ (~W_NoPersistVote => hs[i].vote = vote[i])

HardStateStep ==
    \A i \in Server :
        /\ hs'[i].term >= hs[i].term
        /\ (hs'[i].term = hs[i].term /\ hs[i].vote # 0 => hs'[i].vote = hs[i].vote)
        /\ (hs'[i].commit >= hs[i].commit \/ (role'[i] = "D" /\ role[i] # "D" /\ hs'[i].commit >= sc[i]))
HardStateMonotonic == [][HardStateStep]_vars

(* what a leader believes a follower of its own term holds (Progress.Match) is really there: the premise of commit counting *)
MatchSound ==
    \A i \in Server, j \in Server :
        (role[i] = "L" /\ j # i /\ term[j] = term[i]) =>
            /\ Len(log[j]) >= pr[i][j].match
            /\ SubSeq(log[j], 1, pr[i][j].match) = SubSeq(log[i], 1, pr[i][j].match)

Safety == ElectionSafety /\ LogMatching /\ StateMachineSafety /\ LeaderCompleteness
=============================================================================
