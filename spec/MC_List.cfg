SPECIFICATION Spec
CONSTANTS
  Cmds <- ListCmds
  SetupCmds <- ListSetup
  Bound <- ListBound
  T0 = 1000
  MaxLen1 = 3
  MaxLen2 = 1
VIEW View
ACTION_CONSTRAINT Emit
INVARIANT TypeOK
PROPERTY ErrorsChangeNothing
CHECK_DEADLOCK FALSE
