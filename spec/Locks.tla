------------------------------- MODULE Locks -------------------------------
(***************************************************************************)
(* C13 / C05: the lock stripes of memdb/dblock.go as Go sync.RWMutex       *)
(* objects, and processes that execute lock PROGRAMMES step by step.       *)
(*                                                                         *)
(* A programme is the sequence of lock operations one command performs,    *)
(* as recorded by the H1 hook (harness/cmd/lockobs) or written by hand:    *)
(*    [op |-> "acq" | "rel", kind |-> "R" | "W", pos |-> stripe]           *)
(* A composition ("combo") is a sequence of programme indexes; process p   *)
(* of the combo executes Progs[combo[p]].  The model checks every combo of *)
(* Combos for a reachable state in which some process is unfinished and    *)
(* no process can move: a deadlock.                                        *)
(*                                                                         *)
(* sync.RWMutex, as implemented by the Go runtime:                         *)
(*   Lock()    1. takes the writer mutex w (one writer at a time);         *)
(*             2. ANNOUNCES itself (readerCount -= max): from now on every *)
(*                new RLock blocks;                                        *)
(*             3. waits until the readers that were active have left.      *)
(*   RLock()   blocks iff a writer has announced itself or holds the lock. *)
(*   Unlock()  releases w and lets readers in; RUnlock() leaves.           *)
(* Hence two model steps for a write acquisition (Ann, Get) and the state  *)
(*   wm[s]    the process owning the writer mutex of stripe s (announced   *)
(*            or holding), 0 if none;                                      *)
(*   rd[s][p] number of read locks process p holds on stripe s             *)
(*            (sync.RWMutex is not reentrant: a second RLock of the same   *)
(*            goroutine is a new reader and blocks behind an announced     *)
(*            writer; a Lock of a stripe the goroutine already holds in    *)
(*            any mode never returns).                                     *)
(* A process that is slow between two lock calls is indistinguishable from *)
(* one that has not yet executed the atomic operation inside the call, so  *)
(* every model schedule is a schedule of the real code (the replay holds   *)
(* goroutines at the "want" hook to realise it).                           *)
(*                                                                         *)
(* Reduction (EagerRelease): a release is always enabled, disables nothing *)
(* and only enables steps of others, and in a deadlock state every         *)
(* unfinished process stands at an acquisition.  So every deadlock state   *)
(* is reachable by a schedule in which each process performs its releases  *)
(* immediately after the acquisition that precedes them (the real code     *)
(* does the same when nobody holds it back).  MC_LocksModel is checked in  *)
(* both modes.                                                             *)
(*                                                                         *)
(* hist carries the schedule (excluded from the VIEW, so the state graph   *)
(* stays a DAG over (combo, pc, locks)); a deadlock state prints           *)
(*   "DEADLOCK {combo, sched, pc, wm, rd}"  through the Report step (the   *)
(* first one each TLC worker meets for a combo).                           *)
(***************************************************************************)
EXTENDS Integers, Sequences, FiniteSets, TLC, Json

CONSTANTS Progs,        \* sequence of programmes
          Combos,       \* sequence of combos (each a sequence of indexes into Progs)
          NStripes,     \* stripes are 1..NStripes
          EagerRelease  \* TRUE: the releases that follow an acquisition are executed with it (reduction, see below)

VARIABLES combo,     \* the composition being run
          pc,        \* pc[p]: index of the next step of process p (Len+1 = finished)
          ann,       \* ann[p]: TRUE iff p has announced the write acquisition at pc[p] and waits for the readers to drain
          wm,        \* wm[s]: owner of the writer mutex of stripe s, 0 = free
          rd,        \* rd[s][p]: read locks held
          hist,      \* schedule so far: sequence of [p, i, a]  (a: "acq" read-acquire, "ann", "get", "rel")
          dead       \* TRUE after the deadlock state has been reported

vars == <<combo, pc, ann, wm, rd, hist, dead>>
View == <<combo, pc, ann, wm, rd, dead>>

Stripes == 1..NStripes
Procs == 1..Len(combo)
Prog(p) == Progs[combo[p]]
Unfinished(p) == pc[p] <= Len(Prog(p))
Cur(p) == Prog(p)[pc[p]]
Readers(s) == LET Sum[n \in 0..Len(combo)] == IF n = 0 THEN 0 ELSE Sum[n - 1] + rd[s][n] IN Sum[Len(combo)]

Init == /\ TLCSet(1, {})      \* per worker: the combos whose deadlock this worker has already printed
        /\ \E k \in 1..Len(Combos) : combo = Combos[k]
        /\ pc = [p \in Procs |-> 1]
        /\ ann = [p \in Procs |-> FALSE]
        /\ wm = [s \in Stripes |-> 0]
        /\ rd = [s \in Stripes |-> [p \in Procs |-> 0]]
        /\ hist = <<>>
        /\ dead = FALSE

\* ---- enabling conditions (what sync.RWMutex lets through) ----
CanRAcq(p) == Unfinished(p) /\ Cur(p).op = "acq" /\ Cur(p).kind = "R" /\ wm[Cur(p).pos] = 0
CanAnn(p)  == Unfinished(p) /\ Cur(p).op = "acq" /\ Cur(p).kind = "W" /\ ~ann[p] /\ wm[Cur(p).pos] = 0
CanGet(p)  == Unfinished(p) /\ Cur(p).op = "acq" /\ Cur(p).kind = "W" /\ ann[p] /\ Readers(Cur(p).pos) = 0
CanRel(p)  == Unfinished(p) /\ Cur(p).op = "rel"
CanStep(p) == CanRAcq(p) \/ CanAnn(p) \/ CanGet(p) \/ CanRel(p)

Log(p, a) == hist' = Append(hist, [p |-> p, i |-> pc[p], a |-> a])

\* lock state and pc of p after the consecutive release steps that start at index i of p's programme
RECURSIVE AfterRels(_, _, _, _)
AfterRels(p, i, w, r) ==
  IF EagerRelease /\ i <= Len(Prog(p)) /\ Prog(p)[i].op = "rel"
  THEN LET s == Prog(p)[i].pos IN
       IF Prog(p)[i].kind = "W"
       THEN AfterRels(p, i + 1, IF w[s] = p THEN [w EXCEPT ![s] = 0] ELSE w, r)
       ELSE AfterRels(p, i + 1, w, IF r[s][p] > 0 THEN [r EXCEPT ![s][p] = @ - 1] ELSE r)
  ELSE [pc |-> i, wm |-> w, rd |-> r]

RAcq(p) == /\ CanRAcq(p)
           /\ LET a == AfterRels(p, pc[p] + 1, wm, [rd EXCEPT ![Cur(p).pos][p] = @ + 1]) IN
              /\ rd' = a.rd /\ wm' = a.wm /\ pc' = [pc EXCEPT ![p] = a.pc]
           /\ Log(p, "acq")
           /\ UNCHANGED <<combo, ann, dead>>

Ann(p) == /\ CanAnn(p)
          /\ wm' = [wm EXCEPT ![Cur(p).pos] = p]
          /\ ann' = [ann EXCEPT ![p] = TRUE]
          /\ Log(p, "ann")
          /\ UNCHANGED <<combo, pc, rd, dead>>

Get(p) == /\ CanGet(p)
          /\ ann' = [ann EXCEPT ![p] = FALSE]
          /\ LET a == AfterRels(p, pc[p] + 1, wm, rd) IN
             /\ rd' = a.rd /\ wm' = a.wm /\ pc' = [pc EXCEPT ![p] = a.pc]
          /\ Log(p, "get")
          /\ UNCHANGED <<combo, dead>>

\* releasing something the process does not hold changes nothing (the real code would crash: that is C04's business)
Rel(p) == /\ CanRel(p)
          /\ LET s == Cur(p).pos IN
             IF Cur(p).kind = "W"
             THEN /\ wm' = (IF wm[s] = p THEN [wm EXCEPT ![s] = 0] ELSE wm)
                  /\ rd' = rd
             ELSE /\ rd' = (IF rd[s][p] > 0 THEN [rd EXCEPT ![s][p] = @ - 1] ELSE rd)
                  /\ wm' = wm
          /\ pc' = [pc EXCEPT ![p] = @ + 1]
          /\ Log(p, "rel")
          /\ UNCHANGED <<combo, ann, dead>>

Deadlocked == (\E p \in Procs : Unfinished(p)) /\ (\A p \in Procs : ~CanStep(p))

\* the deadlock state describes itself once: who is stuck where, who owns what, and one schedule leading here
Report == /\ Deadlocked /\ ~dead
          /\ dead' = TRUE
          /\ IF combo \in TLCGet(1) THEN TRUE     \* one witness per combo and worker is enough (a broken tree has thousands)
             ELSE /\ PrintT("DEADLOCK " \o ToJson([combo |-> combo, sched |-> hist, pc |-> pc, ann |-> ann, wm |-> wm, rd |-> rd]))
                  /\ TLCSet(1, TLCGet(1) \cup {combo})
          /\ UNCHANGED <<combo, pc, ann, wm, rd, hist>>

Next == (~dead /\ \E p \in Procs : RAcq(p) \/ Ann(p) \/ Get(p) \/ Rel(p)) \/ Report

Spec == Init /\ [][Next]_vars

\* for instances that want TLC to stop at the first deadlock with its own counterexample trace
NoDeadlock == ~Deadlocked

\* sanity of the lock state itself
TypeOK == /\ \A s \in Stripes : wm[s] \in 0..Len(combo)
          /\ \A s \in Stripes : \A p \in Procs : rd[s][p] >= 0
          /\ \A s \in Stripes : (wm[s] # 0 /\ ~(ann[wm[s]] /\ Unfinished(wm[s]) /\ Cur(wm[s]).pos = s)) => Readers(s) = 0
=============================================================================
