-------------------------------- MODULE Glob --------------------------------
(***************************************************************************)
(* The documented KEYS glob grammar (property C17; comment block of        *)
(* util.PattenMatch, /repo/util/util.go:14-22):                            *)
(*   ?  one byte      *  any run of bytes (incl. empty)                    *)
(*   [...] one byte from the set; a-b ranges; leading ^ negates            *)
(*   \x  the byte x literally (inside and outside classes)                 *)
(* A syntactically broken pattern (unterminated class, trailing backslash) *)
(* matches nothing.  Constructs the grammar does not settle are            *)
(* "U" (unspecified): only termination / no crash is required there.       *)
(* Match(p, s) \in {"T", "F", "U"}.                                        *)
(***************************************************************************)
EXTENDS Bytes

G_STAR == 42  G_Q == 63  G_LB == 91  G_RB == 93  G_HAT == 94  G_DASH == 45  G_BS == 92

\* Parse a class body starting at position i (just after '[' and an optional '^').
\* Result: [st |-> "ok" | "bad" | "unspec", S |-> set of bytes, nx |-> index after the closing ']']
RECURSIVE ClassParse(_, _, _, _)
ClassParse(p, i, S, first) ==
  IF i > Len(p) THEN [st |-> "bad", S |-> {}, nx |-> i]
  ELSE LET c == p[i] IN
    IF c = G_RB THEN (IF first THEN [st |-> "unspec", S |-> {}, nx |-> i] ELSE [st |-> "ok", S |-> S, nx |-> i + 1])
    ELSE IF c = G_DASH THEN [st |-> "unspec", S |-> {}, nx |-> i]
    ELSE IF c = G_HAT /\ ~first THEN [st |-> "unspec", S |-> {}, nx |-> i]
    ELSE IF c = G_LB THEN [st |-> "unspec", S |-> {}, nx |-> i]
    ELSE IF c = G_BS THEN
         (IF i + 1 > Len(p) THEN [st |-> "bad", S |-> {}, nx |-> i]
          ELSE IF i + 2 <= Len(p) /\ p[i + 2] = G_DASH THEN [st |-> "unspec", S |-> {}, nx |-> i]
          ELSE ClassParse(p, i + 2, S \cup {p[i + 1]}, FALSE))
    ELSE IF i + 1 <= Len(p) /\ p[i + 1] = G_DASH THEN
         (IF i + 2 > Len(p) THEN [st |-> "bad", S |-> {}, nx |-> i]
          ELSE IF p[i + 2] = G_RB \/ p[i + 2] = G_BS \/ p[i + 2] < c THEN [st |-> "unspec", S |-> {}, nx |-> i]
          ELSE ClassParse(p, i + 3, S \cup (c..p[i + 2]), FALSE))
    ELSE ClassParse(p, i + 1, S \cup {c}, FALSE)

\* Tokenise the whole pattern. Result [st, toks]
RECURSIVE Tokens(_, _, _)
Tokens(p, i, acc) ==
  IF i > Len(p) THEN [st |-> "ok", toks |-> acc]
  ELSE LET c == p[i] IN
    IF c = G_STAR THEN Tokens(p, i + 1, Append(acc, [t |-> "star", neg |-> FALSE, S |-> {}]))
    ELSE IF c = G_Q THEN Tokens(p, i + 1, Append(acc, [t |-> "any", neg |-> FALSE, S |-> {}]))
    ELSE IF c = G_BS THEN
         (IF i + 1 > Len(p) THEN [st |-> "bad", toks |-> <<>>]
          ELSE Tokens(p, i + 2, Append(acc, [t |-> "class", neg |-> FALSE, S |-> {p[i + 1]}])))
    ELSE IF c = G_LB THEN
         LET neg == i + 1 <= Len(p) /\ p[i + 1] = G_HAT
             cp  == ClassParse(p, IF neg THEN i + 2 ELSE i + 1, {}, TRUE)
         IN IF cp.st # "ok" THEN [st |-> cp.st, toks |-> <<>>]
            ELSE Tokens(p, cp.nx, Append(acc, [t |-> "class", neg |-> neg, S |-> cp.S]))
    ELSE Tokens(p, i + 1, Append(acc, [t |-> "class", neg |-> FALSE, S |-> {c}]))

RECURSIVE TokMatch(_, _)
TokMatch(toks, s) ==
  IF toks = <<>> THEN s = <<>>
  ELSE LET k == Head(toks) IN
    IF k.t = "star" THEN \E i \in 0..Len(s) : TokMatch(Tail(toks), SubSeq(s, i + 1, Len(s)))
    ELSE IF s = <<>> THEN FALSE
    ELSE IF k.t = "any" THEN TokMatch(Tail(toks), Tail(s))
    ELSE ((Head(s) \in k.S) # k.neg) /\ TokMatch(Tail(toks), Tail(s))

PatternStatus(p) == Tokens(p, 1, <<>>).st       \* "ok" | "bad" | "unspec"

Match(p, s) ==
  LET tk == Tokens(p, 1, <<>>) IN
  IF tk.st = "bad" THEN "F"
  ELSE IF tk.st = "unspec" THEN "U"
  ELSE IF TokMatch(tk.toks, s) THEN "T" ELSE "F"
=============================================================================
