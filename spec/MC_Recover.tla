----------------------------- MODULE MC_Recover -----------------------------
(* Bounded instances of Recover.tla: every sequence of at most MaxReady Ready structs (appends, commit-only updates, a new
   term with truncation of the uncommitted tail, a local snapshot, a leader snapshot), a process crash between any two
   durable steps (at most MaxCrash of them), recovery after each crash. *)
EXTENDS Recover
=============================================================================
