----------------------------- MODULE MC_Cluster -----------------------------
(* Model-checking instances of Cluster.tla (C08).  The .cfg files choose the workload and the as-built flags:       *)
(*   MC_Cluster_fixed.cfg    3 nodes, flags TRUE/TRUE: Durability, AckAfterDurable, SnapshotNeverKills must hold     *)
(*   MC_Cluster_one.cfg      1 node (quorum of one: Entries and CommittedEntries of one index in one Ready)          *)
(*   MC_Cluster_F1.cfg       as built, strings only: Durability fails (write, snapshot, all crash, all restart)      *)
(*   MC_Cluster_F2.cfg       as built, a list key: SnapshotNeverKills fails                                          *)
(*   MC_Cluster_F3.cfg       snapshots loaded but collections serialised as {}: Durability fails                     *)
(*   MC_Cluster_scen.cfg     emits one CRASHPT record per Crash transition (crash-point classes for B1)              *)
EXTENDS Cluster, Json

CONSTANTS n1, n2, n3
N3 == {n1, n2, n3}
N2 == {n1, n2}
N1 == {n1}

\* workloads (cfg files cannot contain tuples)
KeysStr3 == <<"a", "b", "a">>      KindsStr3 == <<"str", "str", "str">>
KeysMix3 == <<"a", "l", "l">>      KindsMix3 == <<"str", "list", "list">>
KeysCol3 == <<"a", "c", "c">>      KindsCol3 == <<"str", "coll", "coll">>
KeysStr4 == <<"a", "b", "a", "b">> KindsStr4 == <<"str", "str", "str", "str">>
Via111 == <<n1, n1, n1>>
Via121 == <<n1, n2, n1>>
Via1111 == <<n1, n1, n1, n1>>
Via1212 == <<n1, n2, n1, n2>>

\* crash-point classes: one record per Crash transition.  `snap` says whether the victim had already taken or
\* installed a snapshot (marker in its WAL), `inflight` whether an entry proposed through the victim was unacknowledged
Emit ==
  \A n \in Nodes :
    (up[n] /\ ~up'[n] /\ crashes' = crashes + 1) =>
       PrintT("CRASHPT " \o ToJson([pc |-> pc[n], gate |-> GateOf(pc[n]), snap |-> (wal[n].snaps # {}),
                                    applying |-> ~QEmpty(n), waiting |-> (waiting[n] # {}),
                                    down |-> Cardinality({m \in Nodes : ~up[m]}),
                                    unsaved |-> (rd[n].e2 > wal[n].ents)]))
=============================================================================
