----------------------------- MODULE MC_Cluster -----------------------------
(* Model-checking instances of Cluster.tla (C08).  The .cfg files choose the workload and the as-built flags:       *)
(* Flags TRUE/TRUE - Durability, AckAfterDurable, SnapshotNeverKills, StateMachineCorrect must hold:                 *)
(*   MC_Cluster_one.cfg      1 node, 3 writes (quorum of one: Entries and CommittedEntries of one index in ONE Ready) *)
(*   MC_Cluster_two.cfg      2 nodes, 3 writes, 3 crashes, all interleavings (modulo POR)                            *)
(*   MC_Cluster_three.cfg    3 nodes, 2 writes, 3 crashes, cycles serialised (Serial); reaches snapshot installation *)
(*   MC_Cluster_three_quick.cfg  the same with 2 crashes (quick tier)                                                *)
(*   MC_Cluster_sim.cfg      3 nodes, 3 writes, 3 crashes, NOT serialised: random simulation only (-simulate)        *)
(* As built - the counterexamples are the LEADS replayed on real clusters by checks/C08.py:                           *)
(*   MC_Cluster_F1.cfg       strings only: Durability fails (write, snapshot, crash, restart)                        *)
(*   MC_Cluster_F2.cfg       a list key: SnapshotNeverKills fails                                                    *)
(*   MC_Cluster_F3.cfg       snapshots loaded but collections serialised as {}: Durability fails                     *)
(*   MC_Cluster_scen.cfg     emits one CRASHPT record per Crash transition (crash-point classes for B1)              *)
EXTENDS Cluster, Json

CONSTANTS n1, n2, n3
N3 == {n1, n2, n3}
N2 == {n1, n2}
N1 == {n1}

\* workloads (cfg files cannot contain tuples)
KeysStr3 == <<"a", "b", "a">>      KindsStr3 == <<"str", "str", "str">>
KeysMix3 == <<"a", "l", "l">>      KindsMix3 == <<"str", "list", "list">>
KeysCol3 == <<"a", "c", "c">>      KindsCol3 == <<"str", "coll", "coll">>
KeysStr4 == <<"a", "b", "a", "b">> KindsStr4 == <<"str", "str", "str", "str">>
KeysMix2 == <<"a", "l">>           KindsMix2 == <<"str", "list">>
KeysStr2 == <<"a", "a">>           KindsStr2 == <<"str", "str">>
KeysCol2 == <<"a", "c">>           KindsCol2 == <<"str", "coll">>
Via12 == <<n1, n2>>
Via11 == <<n1, n1>>
Via111 == <<n1, n1, n1>>
Via121 == <<n1, n2, n1>>
Via1111 == <<n1, n1, n1, n1>>
Via1212 == <<n1, n2, n1, n2>>

\* crash-point classes for B1: one record per Crash transition.  `snap`: the victim has a snapshot marker in its WAL
\* (taken or installed); `down`: nodes already down; `unsaved`: the Ready being processed carries entries the WAL does
\* not hold yet; `waiting`: a client of this node is waiting for a reply.
Emit ==
  \A n \in Nodes :
    (up[n] /\ ~up'[n] /\ crashes' = crashes + 1) =>
       PrintT("CRASHPT " \o ToJson([pc |-> pc[n], gate |-> GateOf(pc[n]), snap |-> (wal[n].snaps # {}),
                                    waiting |-> (waiting[n] # {}) \/ (resCh[n] # {}),
                                    down |-> Cardinality({m \in Nodes : ~up[m]}),
                                    unsaved |-> (rd[n].e2 > wal[n].ents)]))

\* Partial-order reduction (ACTION_CONSTRAINT POR).  A step is URGENT when it only moves volatile state that no other
\* node reads and no invariant observes: AppendStor, Send, Advance, the no-snapshot branch of Trigger (they change
\* pc / rd / stor.last of their own node) and Apply (kv, applyQ, resCh of its own node; it can only enable Publish,
\* Trigger, PubSnap and Reply of the same node).  They commute with every step of every other node, and a Crash of
\* the node before or after them leads to the same state (Down resets exactly what they wrote).  While some node has
\* an urgent step, only the urgent step of ONE such node is explored.
UrgentPc(n) == up[n] /\ (pc[n] \in {"append", "send", "advance"}
                         \/ (pc[n] = "trigger" /\ appliedIndex[n] - snapshotIndex[n] <= SnapCount))
UrgentApply(n) == up[n] /\ ~QEmpty(n)
POR == LET U == {n \in Nodes : UrgentPc(n) \/ UrgentApply(n)} IN
       U = {} \/ LET n == CHOOSE x \in U : TRUE IN
                 up'[n] /\ IF UrgentApply(n) THEN applyQ'[n] # applyQ[n] /\ pc'[n] = pc[n] ELSE pc'[n] # pc[n]

\* Schedule restriction for the larger 3-node instances (ACTION_CONSTRAINT Serial): a node takes a Ready only while
\* every other node is between two cycles (or down).  Crashes stay possible at every stage of the running cycle.
\* Nodes influence each other only through what TakeReady reads (wal, stor, up of the others), so this drops the
\* executions in which two nodes BOTH take a Ready before either has saved; the unrestricted interleavings are
\* covered exhaustively by the 2-node and 1-node instances and by random simulation of the 3-node instance.
InCycle(n) == pc[n] \notin {"idle", "down"}
Serial == \A n \in Nodes : (pc[n] = "idle" /\ pc'[n] \notin {"idle", "down"}) => \A m \in Nodes \ {n} : ~InCycle(m)
PORSerial == POR /\ Serial
=============================================================================
