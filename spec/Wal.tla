------------------------------- MODULE Wal -------------------------------
(***************************************************************************)
(* C16 - the etcd WAL on-disk format under a sector-atomic crash model.    *)
(*                                                                         *)
(* Transcribes (file:line of /repo/etcd at the pinned commit):             *)
(*   server/storage/wal/encoder.go:62-108   frame = length word + padded   *)
(*                                          data, rolling CRC over Data    *)
(*   server/storage/wal/wal.go:100-234      Create: crc, metadata,         *)
(*                                          snapshot{0,0}, sync            *)
(*   server/storage/wal/wal.go:926-959      Save: entries, state, sync iff *)
(*                                          MustSync, cut when the FILE    *)
(*                                          offset (not the buffered one)  *)
(*                                          has passed SegmentSizeBytes    *)
(*   server/storage/wal/wal.go:716-798      cut: truncate, sync, new       *)
(*                                          segment head crc/meta/state    *)
(*   pkg/ioutil/pagewriter.go               bytes reach the OS only at     *)
(*                                          sync() (saves < 128 KB)        *)
(*   server/storage/wal/decoder.go:63-168   decodeRecord, isTornEntry      *)
(*   server/storage/wal/wal.go:443-563      ReadAll (write mode)           *)
(*   server/storage/wal/repair.go:30-106    Repair                         *)
(*   client/pkg/fileutil/fileutil.go:100    ZeroToEnd                      *)
(*                                                                         *)
(* A segment file is an array of 8-byte WORDS, pre-filled with 0, grouped  *)
(* into sectors of SectorWords (64 words = 512 bytes).  A record occupies  *)
(* len = 1 + ceil(bytes/8) words: the length word and the padded data.     *)
(* A stored word is the integer Enc(rid, j) = "word j of record rid"; 0 is *)
(* a zero word.  The rolling CRC is abstract: the chain value after a      *)
(* record is the id of the last record with non-empty Data, so a record    *)
(* validates iff all its words are intact AND the decoder's chain value is *)
(* the one the encoder had when it wrote the record (C16 coverage limit in *)
(* DESIGN section 7: real CRC arithmetic is exercised on real files only). *)
(*                                                                         *)
(* The image of the files is not a state variable: it is a function of     *)
(* (log, flushed, lost sectors, ...) recomputed inside the crash actions,  *)
(* which keeps states small; the reader operators work on explicit word    *)
(* arrays exactly as the code works on bytes.                              *)
(*                                                                         *)
(* Behaviours: a bounded sequence of Save / SaveSnapshot (with implicit    *)
(* cut), then ONE of                                                       *)
(*   Crash1(lost)   crash during the sync in progress: any subset of the   *)
(*                  sectors touched since the last completed sync reverts  *)
(*                  to its old (zero) content, the sector holding the      *)
(*                  synced boundary keeps its synced part; or crash after  *)
(*                  a call returned (buffered commit-only save, completed  *)
(*                  cut);                                                  *)
(*   CrashInCut     crash inside cut() between the sync of the new head in *)
(*                  the pipeline's .tmp file and its rename;               *)
(*   Corrupt        one word of a fully synced log damaged (length word /  *)
(*                  bit 0 of the type byte / any other byte);              *)
(* then recovery as a server does it (Open+ReadAll in write mode with      *)
(* ZeroToEnd; on ErrUnexpectedEOF Repair and ReadAll again), optionally    *)
(* one appended Save (cutting when the tail is past the segment size,      *)
(* which reuses the left-over .tmp) and a second crash and recovery.       *)
(*                                                                         *)
(* Properties (TLC invariants; see the end of the module):                 *)
(*   RecoveredIsPrefix, TornTailRepairable, AppendAfterRecoveryIsClean,    *)
(*   EntriesContiguous, CorruptionNeverAccepted, and the exact             *)
(*   characterisations of the two as-built defects                         *)
(*   FailuresOnlyFromStaleTmp / StaleTmpAlwaysFatal (C16-F02) and          *)
(*   CorruptAcceptedOnlyByTypeFlip (C16-F01).                              *)
(* Named as-built deviations: StaleTmpAsBuilt, TypeInCrc (and the          *)
(* sensitivity switches ZeroToEndOn, TornShift).                           *)
(*                                                                         *)
(* Not modelled: file-size metadata lost with the data (a lost sector      *)
(* beyond the preallocated size reads as zero, the file is not shortened); *)
(* Open at a snapshot other than {0,0} (file selection by name) - the      *)
(* latter is modelled at record granularity in Recover.tla (segs, enti,    *)
(* SegFor); sector sizes other than 512.                                   *)
(***************************************************************************)
EXTENDS Integers, Sequences, FiniteSets, TLC

CONSTANTS
  SectorWords,   \* 64 (512-byte sectors)
  SegWords,      \* wal.SegmentSizeBytes / 8
  MetaWords,     \* words of the metadata record (2 = nil metadata, no Data)
  EntSizes,      \* set of entry-record sizes in words (length word included)
  MaxOps,        \* writer operations before the first crash
  MaxEnts,       \* entries per Save
  MaxLost,       \* bound on the number of unsynced sectors (state-space guard)
  WithSnap,      \* SaveSnapshot is a writer operation
  WithRewrite,   \* Save may overwrite the last uncommitted entry in a new term
  WithAppend,    \* explore reopen + append + second crash
  AppSizes,      \* entry sizes used by the appended save
  WithCutCrash,  \* explore the crash inside cut() between the sync of the new head and its rename
  StaleTmpAsBuilt, \* TRUE = as built: the file pipeline reopens a left-over .tmp without truncating it
                 \* (file_pipeline.go:75) and ReadAll does not restore w.state (wal.go:443-562)
  WithCorrupt,   \* explore single-word corruption of a cleanly synced log
  TypeInCrc,     \* FALSE = as built: the CRC covers rec.Data only, the record type is unprotected
  ZeroToEndOn,   \* TRUE = as built (ReadAll in write mode zeroes the tail)
  TornShift      \* 1 = as built (isTornEntry chunks start after the length word)

\* corrupted words (Corrupt action): never equal to a stored word or to zero
BadData == -1   \* a byte of the record's type/crc/data/padding bytes other than bit 0 of the type changed
BadType == -2   \* bit 0 of the type byte changed (entryType 2 <-> stateType 3); lives in word 1 of the record
BadLen  == -3   \* the length word changed

K == 4096                       \* > any record length
Enc(rid, j) == rid * K + j + 1  \* word j (0 = length word) of record rid
RidOf(w) == (w - 1) \div K
PosOf(w) == (w - 1) % K

CrcWords   == 2    \* 08 04 10 <crc varint>            : 4..8 bytes
StateWords == 3    \* 08 03 10 <crc> 1a 06 <3 varints> : 13..17 bytes (values < 128)
Snap0Words == 3    \* snapshot{0,0} written by Create
SnapWords  == 4    \* snapshot with a one-voter ConfState
EmptyHS    == <<0, 0, 0>>

VARIABLES
  log,      \* every record the encoder produced, in order (rid = position)
  flushed,  \* number of log records handed to the OS (a prefix of log)
  durable,  \* number of log records covered by a completed fdatasync
  fsize,    \* file size in words of each segment
  foff,     \* file offset of the tail (what Seek(0,Current) returns in Save)
  woff,     \* encoder offset in the tail (file offset + buffered bytes)
  chain,    \* encoder chain (abstract rolling CRC)
  wstate,   \* w.state
  lastIdx, lastTerm, commit,   \* raft-side view used to generate legal saves
  phase,    \* "write" | "syncing" | "cuthead" | "opened" | "syncing2" | "cut2" | "done" | "failed" | "cdone" | "crejected"
  cutp,     \* the sync in progress belongs to a cut
  lastcut,  \* the last completed operation ended with a cut
  ops,      \* history of operations (scenario emitted to the replayer)
  crash1,   \* [lost, soff, tail] of the first crash
  rec1,     \* outcome of the first recovery
  app,      \* the appended save of epoch 2
  crash2, rec2,
  stale,    \* rids of the head records left in the pipeline's .tmp by a crash inside cut (<<>> = clean)
  cor       \* the corrupted word [seg, x, kind] ("none" before)

vars == <<log, flushed, durable, fsize, foff, woff, chain, wstate, lastIdx, lastTerm, commit,
          phase, cutp, lastcut, ops, crash1, rec1, app, crash2, rec2, stale, cor>>

Max(a, b) == IF a > b THEN a ELSE b
Min(a, b) == IF a < b THEN a ELSE b
TailSeg == Len(fsize)

Rec(t, len, idx, term, vote, cmt, prev, seg, off, op) ==
  [t |-> t, len |-> len, idx |-> idx, term |-> term, vote |-> vote, commit |-> cmt,
   prev |-> prev, seg |-> seg, off |-> off, op |-> op]

HasData(r) == r.t \in {"entry", "state", "snap"} \/ (r.t = "meta" /\ MetaWords > 2)
ChainAfter(r, rid) == IF HasData(r) THEN rid ELSE r.prev

---------------------------------------------------------------------------
(* Writer                                                                  *)

InitLog ==
  << Rec("crc",  CrcWords,   0, 0, 0, 0, 0, 1, 0, 0),
     Rec("meta", MetaWords,  0, 0, 0, 0, 0, 1, CrcWords, 0),
     Rec("snap", Snap0Words, 0, 0, 0, 0, IF MetaWords > 2 THEN 2 ELSE 0, 1, CrcWords + MetaWords, 0) >>

Init ==
  /\ log = InitLog
  /\ flushed = 3 /\ durable = 3
  /\ fsize = <<SegWords>>
  /\ foff = CrcWords + MetaWords + Snap0Words
  /\ woff = CrcWords + MetaWords + Snap0Words
  /\ chain = 3
  /\ wstate = EmptyHS
  /\ lastIdx = 0 /\ lastTerm = 0 /\ commit = 0
  /\ phase = "write" /\ cutp = FALSE /\ lastcut = FALSE
  /\ ops = <<>>
  /\ crash1 = [lost |-> {}, soff |-> 0, tail |-> 0, tsize |-> 0]
  /\ rec1 = [ok |-> FALSE]
  /\ app = <<>>
  /\ crash2 = [lost |-> {}]
  /\ rec2 = [ok |-> FALSE]
  /\ stale = <<>>
  /\ cor = [seg |-> 0, x |-> 0, kind |-> "none"]

\* all sequences over S of length 0..n
RECURSIVE SeqsUpTo(_, _)
SeqsUpTo(S, n) == IF n = 0 THEN {<<>>}
                  ELSE LET P == SeqsUpTo(S, n - 1) IN P \cup {Append(p, s) : p \in {q \in P : Len(q) = n - 1}, s \in S}

\* records produced by Save(st, entries of the given sizes starting at index first in term tm)
EncodeSave(sizes, first, tm, st, rid0, off0, c0, seg, opn) ==
  LET n == Len(sizes)
      EntOff[i \in 1..(n + 1)] == IF i = 1 THEN off0 ELSE EntOff[i - 1] + sizes[i - 1]
      ents == [i \in 1..n |-> Rec("entry", sizes[i], first + i - 1, tm, 0, 0,
                                   IF i = 1 THEN c0 ELSE rid0 + i - 1, seg, EntOff[i], opn)]
      cst == IF n = 0 THEN c0 ELSE rid0 + n
  IN IF st = EmptyHS THEN ents
     ELSE Append(ents, Rec("state", StateWords, 0, st[1], st[2], st[3], cst, seg, EntOff[n + 1], opn))

SumLen(rs) == LET S[i \in 0..Len(rs)] == IF i = 0 THEN 0 ELSE S[i - 1] + rs[i].len IN S[Len(rs)]

(* wal.go:926 Save *)
Save(hk, sizes, rw) ==
  LET n == Len(sizes)
      tm == IF hk \in {"term", "tc", "term0"} THEN lastTerm + 1 ELSE lastTerm
      first == IF rw THEN lastIdx ELSE lastIdx + 1
      newLast == IF n > 0 THEN first + n - 1 ELSE lastIdx
      st == CASE hk = "none" -> EmptyHS
               [] hk = "commit" -> <<wstate[1], wstate[2], newLast>>
               [] hk = "term" -> <<tm, 1, Min(commit, newLast)>>
               [] hk = "tc" -> <<tm, 1, newLast>>          \* new term and everything committed (one Ready)
               [] hk = "term0" -> <<tm, 0, Min(commit, newLast)>>   \* a new term learned without voting in it
               [] hk = "vote" -> <<wstate[1], 2, wstate[3]>>       \* the vote of the current term granted: NOTHING else changes
      mustSync == n # 0 \/ (st # EmptyHS /\ (st[1] # wstate[1] \/ st[2] # wstate[2]))
      recs == EncodeSave(sizes, first, tm, st, Len(log), woff, chain, TailSeg, Len(ops) + 1)
      total == SumLen(recs)
      docut == foff >= SegWords            \* wal.go:947-958: the FILE offset decides
  IN /\ phase = "write" /\ Len(ops) < MaxOps
     /\ ~(hk = "none" /\ n = 0)                 \* wal.go:931 short cut: nothing written
     /\ (hk = "none" => lastTerm >= 1)
     /\ (hk = "commit" => wstate # EmptyHS)
     /\ (rw => WithRewrite /\ hk = "term" /\ n >= 1 /\ lastIdx > commit /\ lastIdx >= 1)
     /\ (hk = "tc" => n >= 1)
     /\ (hk = "term0" => n = 0 /\ ~rw)
     /\ (hk = "vote" => n = 0 /\ ~rw /\ wstate # EmptyHS /\ wstate[2] = 0)
     /\ log' = log \o recs
     /\ woff' = woff + total
     /\ chain' = Len(log) + Len(recs)           \* every record of a save has Data
     /\ wstate' = (IF st = EmptyHS THEN wstate ELSE st)
     /\ lastIdx' = newLast /\ lastTerm' = tm
     /\ commit' = (IF st = EmptyHS THEN commit ELSE st[3])
     /\ ops' = Append(ops, [k |-> "save", hs |-> st, first |-> first, term |-> tm, ws |-> sizes,
                            sync |-> (mustSync \/ docut), cut |-> docut])
     /\ lastcut' = FALSE
     /\ IF docut \/ mustSync
        THEN /\ phase' = "syncing" /\ cutp' = docut /\ flushed' = Len(log')
        ELSE /\ phase' = "write" /\ UNCHANGED <<cutp, flushed>>       \* stays in the page-writer buffer
     /\ UNCHANGED <<durable, fsize, foff, crash1, rec1, app, crash2, rec2, stale, cor>>

(* wal.go:961 SaveSnapshot (always synced) *)
SaveSnap ==
  LET r == Rec("snap", SnapWords, commit, lastTerm, 0, 0, chain, TailSeg, woff, Len(ops) + 1)
  IN /\ WithSnap /\ phase = "write" /\ Len(ops) < MaxOps
     /\ commit >= 1
     /\ ~\E i \in 1..Len(log) : log[i].t = "snap" /\ log[i].idx = commit
     /\ log' = Append(log, r)
     /\ woff' = woff + SnapWords
     /\ chain' = Len(log) + 1
     /\ ops' = Append(ops, [k |-> "snap", hs |-> <<lastTerm, 0, commit>>, first |-> commit, term |-> lastTerm,
                            ws |-> <<>>, sync |-> TRUE, cut |-> FALSE])
     /\ phase' = "syncing" /\ cutp' = FALSE /\ flushed' = Len(log') /\ lastcut' = FALSE
     /\ UNCHANGED <<durable, fsize, foff, wstate, lastIdx, lastTerm, commit, crash1, rec1, app, crash2, rec2, stale, cor>>

\* head of a new segment written by cut(): crc(prev), metadata, state (only when w.state is not empty:
\* wal.go:916 saveState returns early for an empty state).  seg 0 stands for the pipeline's .tmp file.
HeadRecs(ns, c, st, rid0, opn) ==
  LET r1 == Rec("crc", CrcWords, 0, 0, 0, 0, c, ns, 0, opn)
      r2 == Rec("meta", MetaWords, 0, 0, 0, 0, c, ns, CrcWords, opn)
      c2 == IF MetaWords > 2 THEN rid0 + 2 ELSE c
      r3 == Rec("state", StateWords, 0, st[1], st[2], st[3], c2, ns, CrcWords + MetaWords, opn)
  IN IF st = EmptyHS THEN <<r1, r2>> ELSE <<r1, r2, r3>>

(* wal.go:800 sync completes.  For a cut (wal.go:716-798) this is the sync of the OLD segment; the new head
   is then written and synced into the pipeline's .tmp file and only afterwards renamed: phase "cuthead". *)
SyncDone ==
  /\ phase = "syncing"
  /\ durable' = flushed
  /\ foff' = woff
  /\ fsize' = [fsize EXCEPT ![TailSeg] = IF cutp THEN Max(foff, woff) ELSE Max(@, woff)]   \* cut: Truncate(foff), flush
  /\ phase' = (IF cutp THEN "cuthead" ELSE "write")
  /\ lastcut' = FALSE
  /\ UNCHANGED <<log, flushed, woff, chain, cutp, wstate, lastIdx, lastTerm, commit, ops, crash1, rec1, app, crash2, rec2, stale, cor>>

CutFinish ==
  /\ phase = "cuthead"
  /\ LET head == HeadRecs(TailSeg + 1, chain, wstate, Len(log), Len(ops))
     IN /\ log' = log \o head
        /\ flushed' = Len(log') /\ durable' = Len(log')
        /\ fsize' = Append(fsize, SegWords)
        /\ foff' = SumLen(head) /\ woff' = SumLen(head)
        /\ chain' = (IF wstate = EmptyHS THEN (IF MetaWords > 2 THEN Len(log) + 2 ELSE chain) ELSE Len(log'))
  /\ phase' = "write" /\ cutp' = FALSE /\ lastcut' = TRUE
  /\ UNCHANGED <<wstate, lastIdx, lastTerm, commit, ops, crash1, rec1, app, crash2, rec2, stale, cor>>

---------------------------------------------------------------------------
(* Disk images                                                             *)

Sector(x) == x \div SectorWords
Zeros(n) == [i \in 1..n |-> 0]

RECURSIVE CatWords(_, _, _, _)
\* words of records rids[i..] laid out back to back; a word at file offset x >= soff whose sector is in
\* lost reads as zero
CatWords(rids, i, lost, soff) ==
  IF i > Len(rids) THEN <<>>
  ELSE LET r == log[rids[i]]
       IN [j \in 1..r.len |-> IF (r.off + j - 1) >= soff /\ Sector(r.off + j - 1) \in lost THEN 0
                               ELSE Enc(rids[i], j - 1)] \o CatWords(rids, i + 1, lost, soff)

RidsOfSeg(s, upto) == SelectSeq([i \in 1..upto |-> i], LAMBDA i : log[i].seg = s)

\* TLC keeps [x \in S |-> e] lazy and re-evaluates e at every application; concatenation forces a tuple
Strict(f) == f \o <<>>

SegImg1(s, lost, soff, tsize) ==
  LET w == CatWords(RidsOfSeg(s, flushed), 1, IF s = TailSeg THEN lost ELSE {}, soff)
      size == IF s = TailSeg THEN tsize ELSE fsize[s]
  IN w \o Zeros(size - Len(w))

\* size of the tail file once the pending flush (if any) has reached the OS
TailSizeNow == Max(fsize[TailSeg], IF flushed = Len(log) THEN woff ELSE foff)

\* image after the first crash: file s as a word array (1-based TLA sequence; file offset x is element x+1)
RECURSIVE Img1Upto(_, _, _, _)
Img1Upto(n, lost, soff, tsize) ==
  IF n = 0 THEN <<>> ELSE Append(Img1Upto(n - 1, lost, soff, tsize), SegImg1(n, lost, soff, tsize))
Img1(lost, soff, tsize) == Img1Upto(TailSeg, lost, soff, tsize)

---------------------------------------------------------------------------
(* Reader (decoder.go)                                                     *)

\* isTornEntry (decoder.go:127): split data on sector boundaries; any all-zero chunk => torn.
\* data = file offsets o+1 .. o+n (words).  TornShift = 1 is the code (fileOff = lastValidOff + frameSizeBytes).
TornChunks(f, o, n) ==
  LET base == o + TornShift                \* file offset the chunking believes the data starts at
      \* chunk id of data word j (1..n): sector of its believed offset
      Ch(j) == Sector(base + j - 1)
  IN \E c \in {Ch(j) : j \in 1..n} : \A j \in 1..n : Ch(j) = c => f[o + j + 1] = 0

(* decodeRecord, decoder.go:63.  f: word array, o: offset of the length word, c: decoder chain,
   last: this is the only remaining reader (len(d.brs) = 1). *)
Decode(f, o, c, last) ==
  IF o >= Len(f) THEN [k |-> "eof"]                      \* readInt64 = io.EOF
  ELSE LET w == f[o + 1] IN
    IF w = 0 THEN [k |-> "eof"]                          \* zero length: preallocated space
    ELSE IF w < 0 \/ PosOf(w) # 0 THEN [k |-> "garbage"] \* not a length word (unreachable by crashes alone)
    ELSE LET rid == RidOf(w)
             r == log[rid]
             n == r.len - 1
             rem == Len(f) - o
         IN IF n > rem THEN [k |-> "big"]                \* decoder.go:85 max entry size limit exceeded
            ELSE IF n > rem - 1 THEN [k |-> "ueof"]      \* io.ReadFull short read
            ELSE LET flipped == n >= 1 /\ f[o + 2] = BadType     \* bit 0 of the type byte changed, Data intact
                     intact == \A j \in 1..n : \/ f[o + j + 1] = Enc(rid, j)
                                                \/ (j = 1 /\ flipped /\ ~TypeInCrc)
                     crcok == r.t = "crc" \/ r.prev = c  \* crcType skips validation (decoder.go:108)
                 IN IF intact /\ crcok THEN [k |-> "ok", rid |-> rid, next |-> o + r.len, flip |-> flipped]
                    ELSE IF last /\ TornChunks(f, o, n) THEN [k |-> "ueof"]
                    ELSE [k |-> "crc"]

(* ReadAll, wal.go:443, opened at snapshot {0,0}.  st = [fi, o, c, ents, hs, acc, err].
   ents: rids of entry records (after overwrite of superseded ones); hs: rid of the last state record;
   acc: every accepted record in order. *)
RECURSIVE RA(_, _)
RA(im, st) ==
  LET f == im[st.fi]
      last == st.fi = Len(im)
      d == Decode(f, st.o, st.c, last)
  IN CASE d.k = "eof" -> IF last THEN [st EXCEPT !.err = "eof"]
                         ELSE RA(im, [st EXCEPT !.fi = @ + 1, !.o = 0])
       [] d.k = "ok" ->
            LET r == log[d.rid]
                st1 == [st EXCEPT !.o = d.next, !.acc = Append(@, d.rid),
                                  !.c = IF r.t = "crc" THEN @ ELSE ChainAfter(r, d.rid)]
            IN CASE d.flip /\ r.t = "entry" ->        \* read as a state record: mustUnmarshalState(entry bytes)
                      RA(im, [st1 EXCEPT !.hs = -d.rid])
                 [] d.flip /\ r.t = "state" ->        \* read as an entry {Type: term, Term: vote, Index: commit}
                      IF r.commit = 0 THEN RA(im, st1)
                      ELSE IF r.commit - 1 > Len(st.ents) THEN [st EXCEPT !.err = "oob"]
                      ELSE RA(im, [st1 EXCEPT !.ents = Append(SubSeq(st.ents, 1, r.commit - 1), -d.rid)])
                 [] d.flip -> [st EXCEPT !.err = "badtype"]
                 [] r.t = "entry" ->
                      IF r.idx - 1 > Len(st.ents) THEN [st EXCEPT !.err = "oob"]     \* ErrSliceOutOfRange
                      ELSE RA(im, [st1 EXCEPT !.ents = Append(SubSeq(st.ents, 1, r.idx - 1), d.rid)])
                 [] r.t = "state" -> RA(im, [st1 EXCEPT !.hs = d.rid])
                 [] r.t = "crc" -> IF st.c # 0 /\ r.prev # st.c THEN [st EXCEPT !.err = "crcrec"]
                                   ELSE RA(im, [st1 EXCEPT !.c = r.prev])
                 [] OTHER -> RA(im, st1)
       [] OTHER -> [st EXCEPT !.err = d.k]

ReadAllW(im) == RA(im, [fi |-> 1, o |-> 0, c |-> 0, ents |-> <<>>, hs |-> 0, acc |-> <<>>, err |-> "none"])

(* Repair, repair.go:30: last file only, fresh decoder *)
RECURSIVE RepairScan(_, _, _)
RepairScan(f, o, c) ==
  LET d == Decode(f, o, c, TRUE)
  IN CASE d.k = "ok" -> LET r == log[d.rid] IN
                        IF r.t = "crc" THEN (IF c # 0 /\ r.prev # c THEN [ok |-> FALSE, cut |-> -1]
                                             ELSE RepairScan(f, d.next, r.prev))
                        ELSE RepairScan(f, d.next, ChainAfter(r, d.rid))
       [] d.k = "eof" -> [ok |-> TRUE, cut |-> -1]
       [] d.k = "ueof" -> [ok |-> TRUE, cut |-> o]
       [] OTHER -> [ok |-> FALSE, cut |-> -1]

Repair(im) ==
  LET n == Len(im)
      rs == RepairScan(im[n], 0, 0)
  IN [ok |-> rs.ok,
      im |-> IF rs.ok /\ rs.cut >= 0 THEN [im EXCEPT ![n] = SubSeq(@, 1, rs.cut)] ELSE im]

(* ZeroToEnd at the decoder's last offset (wal.go:530-535) *)
ZTE(im, a) ==
  IF ~ZeroToEndOn THEN im
  ELSE LET f == im[Len(im)] IN [im EXCEPT ![Len(im)] = SubSeq(f, 1, Min(a.o, Len(f))) \o Zeros(Len(f) - Min(a.o, Len(f)))]

(* Open+ReadAll in write mode; on ErrUnexpectedEOF: Repair, then again *)
Recover(im) ==
  LET a == ReadAllW(im) IN
  IF a.err = "eof" THEN [ok |-> TRUE, first |-> "ok", rep |-> FALSE, res |-> a, im |-> ZTE(im, a)]
  ELSE IF a.err = "ueof" THEN
       LET rp == Repair(im) IN
       IF ~rp.ok THEN [ok |-> FALSE, first |-> "ueof", rep |-> TRUE, res |-> a, im |-> im]
       ELSE LET b == ReadAllW(rp.im) IN
            IF b.err = "eof" THEN [ok |-> TRUE, first |-> "ueof", rep |-> TRUE, res |-> b, im |-> ZTE(rp.im, b)]
            ELSE [ok |-> FALSE, first |-> "ueof", rep |-> TRUE, res |-> b, im |-> rp.im]
  ELSE [ok |-> FALSE, first |-> a.err, rep |-> FALSE, res |-> a, im |-> im]

---------------------------------------------------------------------------
(* Crash and recovery actions                                              *)

\* sectors of the tail touched since the last completed sync
Touched == IF woff > foff /\ flushed = Len(log) THEN Sector(foff)..Sector(woff - 1) ELSE {}

Summary(r) == [ok |-> r.ok, first |-> r.first, rep |-> r.rep, acc |-> r.res.acc, ents |-> r.res.ents,
               hs |-> r.res.hs, o |-> r.res.o, c |-> r.res.c, err |-> r.res.err]

Crash1(lost) ==
  /\ \/ phase = "syncing"
     \/ phase = "write" /\ lost = {} /\ Len(ops) >= 1 /\ (flushed < Len(log) \/ lastcut)
  /\ LET r == Recover(Img1(lost, foff, TailSizeNow))
     IN /\ rec1' = Summary(r)
        /\ phase' = (IF r.ok THEN "opened" ELSE "failed")
  /\ crash1' = [lost |-> lost, soff |-> foff, tail |-> TailSeg, tsize |-> TailSizeNow]
  /\ UNCHANGED <<log, flushed, durable, fsize, foff, woff, chain, wstate, lastIdx, lastTerm, commit,
                 cutp, lastcut, ops, app, crash2, rec2, stale, cor>>

(* crash inside cut() after the new head reached the .tmp file and before the rename: readers do not see
   the .tmp (wal/util.go:80 checkWalNames), the old segments are complete and durable *)
CrashInCut ==
  /\ WithCutCrash /\ phase = "cuthead"
  /\ LET head == HeadRecs(0, chain, wstate, Len(log), Len(ops))
         r == Recover(Img1({}, foff, TailSizeNow))
     IN /\ log' = log \o head
        /\ stale' = [i \in 1..Len(head) |-> Len(log) + i]
        /\ rec1' = Summary(r)
        /\ phase' = (IF r.ok THEN "opened" ELSE "failed")
  /\ crash1' = [lost |-> {}, soff |-> foff, tail |-> TailSeg, tsize |-> TailSizeNow]
  /\ UNCHANGED <<flushed, durable, fsize, foff, woff, chain, wstate, lastIdx, lastTerm, commit,
                 cutp, lastcut, ops, app, crash2, rec2, cor>>

\* image after the first recovery (recomputed; Recover is deterministic)
ImgR1 == Recover(Img1(crash1.lost, crash1.soff, crash1.tsize)).im

HsVal(rid) == IF rid = 0 THEN EmptyHS
              ELSE IF rid < 0 THEN <<0, log[-rid].term, log[-rid].idx>>     \* an entry decoded as a hard state
              ELSE <<log[rid].term, log[rid].vote, log[rid].commit>>

(* epoch 2: the reopened WAL appends one save (wal.go:554 encoder at lastOffset chained with lastCRC;
   w.state is NOT restored by ReadAll, so MustSync compares against the empty state) *)
Append2(hk, sz) ==
  LET rl == IF rec1.ents = <<>> THEN 0 ELSE log[rec1.ents[Len(rec1.ents)]].idx
      rhs == HsVal(rec1.hs)
      rt == Max(rhs[1], IF rl = 0 THEN 0 ELSE log[rec1.ents[Len(rec1.ents)]].term)
      tm == IF hk = "term" THEN rt + 1 ELSE rt
      st == IF hk = "term" THEN <<tm, 1, rhs[3]>> ELSE EmptyHS
      recs == EncodeSave(<<sz>>, rl + 1, tm, st, Len(log), rec1.o, rec1.c, crash1.tail, Len(ops) + 1)
  IN /\ WithAppend /\ phase = "opened" /\ app = <<>>
     /\ (hk = "none" => rt >= 1)
     /\ rec1.o < SegWords                    \* no cut in the appended save (bound of the instance)
     /\ log' = log \o recs
     /\ app' = <<[k |-> "save", hs |-> st, first |-> rl + 1, term |-> tm, ws |-> <<sz>>, sync |-> TRUE, cut |-> FALSE,
                   nsave |-> Len(recs), nhead |-> 0]>>
     /\ phase' = "syncing2"
     /\ UNCHANGED <<flushed, durable, fsize, foff, woff, chain, wstate, lastIdx, lastTerm, commit, cutp, lastcut,
                    ops, crash1, rec1, crash2, rec2, stale, cor>>

(* the appended save when the recovered tail is already past the segment size: it cuts (wal.go:951-958).
   The new segment is the pipeline's next .tmp file - after a crash inside cut() that file still holds the
   head written before the crash, and the new head is written over it from offset 0. *)
Append2Cut(hk, sz) ==
  LET rl == IF rec1.ents = <<>> THEN 0 ELSE log[rec1.ents[Len(rec1.ents)]].idx
      rhs == HsVal(rec1.hs)
      rt == Max(rhs[1], IF rl = 0 THEN 0 ELSE log[rec1.ents[Len(rec1.ents)]].term)
      tm == IF hk = "term" THEN rt + 1 ELSE rt
      st == IF hk = "term" THEN <<tm, 1, rhs[3]>> ELSE EmptyHS
      recs == EncodeSave(<<sz>>, rl + 1, tm, st, Len(log), rec1.o, rec1.c, crash1.tail, Len(ops) + 1)
      c2 == Len(log) + Len(recs)
      ws == IF st # EmptyHS THEN st ELSE (IF StaleTmpAsBuilt THEN EmptyHS ELSE rhs)      \* w.state at the cut
      head == HeadRecs(crash1.tail + 1, c2, ws, Len(log) + Len(recs), Len(ops) + 1)
  IN /\ WithAppend /\ phase = "opened" /\ app = <<>>
     /\ (hk = "none" => rt >= 1)
     /\ rec1.o >= SegWords
     /\ log' = log \o recs \o head
     /\ app' = <<[k |-> "save", hs |-> st, first |-> rl + 1, term |-> tm, ws |-> <<sz>>, sync |-> TRUE, cut |-> TRUE,
                   nsave |-> Len(recs), nhead |-> Len(head)]>>
     /\ phase' = "cut2"
     /\ UNCHANGED <<flushed, durable, fsize, foff, woff, chain, wstate, lastIdx, lastTerm, commit, cutp, lastcut,
                    ops, crash1, rec1, crash2, rec2, stale, cor>>

\* records of the appended save, and of the head written by its cut, are the last ones of log
AppCount == IF app = <<>> THEN 0 ELSE app[1].nsave
HeadCount == IF app = <<>> THEN 0 ELSE app[1].nhead
AppRids == [i \in 1..AppCount |-> Len(log) - AppCount - HeadCount + i]
HeadRids2 == [i \in 1..HeadCount |-> Len(log) - HeadCount + i]
SumLenRids(rids) == SumLen([i \in 1..Len(rids) |-> log[rids[i]]])
AppEnd == rec1.o + SumLenRids(AppRids)
Touched2 == Sector(rec1.o)..Sector(AppEnd - 1)

Img2(lost2) ==
  LET base == ImgR1
      t == Len(base)
      old == base[t]
      size == Max(Len(old), AppEnd)
      nw == CatWords(AppRids, 1, lost2, rec1.o)   \* every appended word is beyond the synced offset rec1.o
  IN [base EXCEPT ![t] = Strict([x \in 1..size |->
        LET off == x - 1 IN
        IF off >= rec1.o /\ off < AppEnd /\ nw[off - rec1.o + 1] # 0 THEN nw[off - rec1.o + 1]
        ELSE IF x <= Len(old) THEN old[x] ELSE 0])]      \* a lost sector keeps its OLD content

Crash2(lost2) ==
  /\ phase = "syncing2"
  /\ LET r == Recover(Img2(lost2))
     IN /\ rec2' = Summary(r)
        /\ phase' = (IF r.ok THEN "done" ELSE "failed")
  /\ crash2' = [lost |-> lost2]
  /\ UNCHANGED <<log, flushed, durable, fsize, foff, woff, chain, wstate, lastIdx, lastTerm, commit,
                 cutp, lastcut, ops, crash1, rec1, app, stale, cor>>

(* image after the cutting append returned (everything synced: old tail, then the head before the rename) *)
Img2Cut ==
  LET base == ImgR1
      t == Len(base)
      old == base[t]
      tailfile == SubSeq(old, 1, Min(rec1.o, Len(old))) \o CatWords(AppRids, 1, {}, 0)     \* Truncate(off), flush
      stalew == IF stale = <<>> \/ ~StaleTmpAsBuilt THEN <<>> ELSE CatWords(stale, 1, {}, 0)
      headw == CatWords(HeadRids2, 1, {}, 0)
      rest == IF Len(stalew) > Len(headw) THEN SubSeq(stalew, Len(headw) + 1, Len(stalew)) ELSE <<>>
      newfile == headw \o rest \o Zeros(SegWords - Len(headw) - Len(rest))
  IN Append([base EXCEPT ![t] = tailfile], newfile)

Crash2Cut ==
  /\ phase = "cut2"
  /\ LET r == Recover(Img2Cut)
     IN /\ rec2' = Summary(r)
        /\ phase' = (IF r.ok THEN "done" ELSE "failed")
  /\ crash2' = [lost |-> {}]
  /\ UNCHANGED <<log, flushed, durable, fsize, foff, woff, chain, wstate, lastIdx, lastTerm, commit,
                 cutp, lastcut, ops, crash1, rec1, app, stale, cor>>

(* single-word corruption of a log whose every record is synced (classified by where it lands) *)
SegEnd(s) == SumLenRids(RidsOfSeg(s, flushed))
\* candidate positions: for every record its length word, word 1 (type, crc), a middle and the last word; plus
\* the first zero word of the tail
Candidates(s) ==
  UNION {LET r == log[i] IN {r.off, r.off + 1, r.off + (r.len \div 2), r.off + r.len - 1} : i \in {j \in 1..flushed : log[j].seg = s}}
  \cup (IF s = TailSeg /\ SegEnd(s) < TailSizeNow THEN {SegEnd(s)} ELSE {})

Corrupt(s, x, kind) ==
  /\ WithCorrupt /\ phase = "write" /\ Len(ops) >= 1 /\ flushed = Len(log) /\ durable = flushed
  /\ LET im0 == Img1({}, foff, TailSizeNow)
         w == im0[s][x + 1]
         okkind == CASE kind = "len" -> w = 0 \/ PosOf(w) = 0
                     [] kind = "type" -> w # 0 /\ PosOf(w) = 1 /\ log[RidOf(w)].t \in {"entry", "state"}
                     [] kind = "data" -> w # 0 /\ PosOf(w) >= 1
         bad == CASE kind = "len" -> BadLen [] kind = "type" -> BadType [] kind = "data" -> BadData
         r == Recover([im0 EXCEPT ![s][x + 1] = bad])
     IN /\ okkind
        /\ rec1' = Summary(r)
        /\ phase' = (IF r.ok THEN "cdone" ELSE "crejected")
  /\ cor' = [seg |-> s, x |-> x, kind |-> kind]
  /\ UNCHANGED <<log, flushed, durable, fsize, foff, woff, chain, wstate, lastIdx, lastTerm, commit,
                 cutp, lastcut, ops, crash1, app, crash2, rec2, stale>>

SaveChoices ==
  {<<hk, sizes, rw>> : hk \in {"none", "commit", "term", "tc", "term0", "vote"}, sizes \in SeqsUpTo(EntSizes, MaxEnts), rw \in BOOLEAN}

Next ==
  \/ \E ch \in SaveChoices : Save(ch[1], ch[2], ch[3])
  \/ SaveSnap
  \/ SyncDone
  \/ CutFinish
  \/ CrashInCut
  \/ phase \in {"write", "syncing"} /\ \E lost \in SUBSET Touched : Crash1(lost)
  \/ \E hk \in {"none", "term"}, sz \in AppSizes : Append2(hk, sz) \/ Append2Cut(hk, sz)
  \/ Crash2Cut
  \/ WithCorrupt /\ phase = "write" /\ \E s \in 1..TailSeg : \E x \in Candidates(s), kind \in {"len", "type", "data"} : Corrupt(s, x, kind)
  \/ phase = "syncing2" /\ \E lost2 \in SUBSET Touched2 : Crash2(lost2)

Spec == Init /\ [][Next]_vars

\* state-space guard: never more than MaxLost unsynced sectors
Bound == Cardinality(Touched) <= MaxLost

---------------------------------------------------------------------------
(* The contract and the properties                                         *)

\* fold of a sequence of record ids, written independently of RA: what a correct reader returns
RECURSIVE Replay(_, _)
Replay(h, k) ==
  IF k = 0 THEN [ents |-> <<>>, hs |-> EmptyHS]
  ELSE LET p == Replay(h, k - 1)
           r == log[h[k]]
       IN CASE r.t = "entry" -> [p EXCEPT !.ents = Append(SubSeq(@, 1, r.idx - 1), h[k])]
            [] r.t = "state" -> [p EXCEPT !.hs = <<r.term, r.vote, r.commit>>]
            [] OTHER -> p

Hist1 == [i \in 1..flushed |-> i]
\* what a recovered result must look like: an accepted-record list that is a prefix of the history,
\* not shorter than the durable part, and entries / hard state equal to the fold of that prefix
PrefixOK(s, h, dur) ==
  /\ Len(s.acc) >= dur /\ Len(s.acc) <= Len(h)
  /\ s.acc = SubSeq(h, 1, Len(s.acc))
  /\ s.ents = Replay(h, Len(s.acc)).ents
  /\ HsVal(s.hs) = Replay(h, Len(s.acc)).hs

Recovered1 == phase \in {"opened", "syncing2", "cut2", "done"} \/ (phase = "failed" /\ app # <<>>)

(* every save whose sync completed is returned, in order, unmodified; possibly followed by whole later
   records; never anything that was not written *)
RecoveredIsPrefix == Recovered1 => PrefixOK(rec1, Hist1, durable)

(* a torn tail is repairable: recovery (ReadAll, and after ErrUnexpectedEOF Repair + ReadAll) succeeds *)
TornTailRepairable == phase # "failed"

Hist2 == rec1.acc \o AppRids \o HeadRids2
(* a second crash after reopen + append never resurrects pre-crash garbage; when the append cut, it returned
   after two syncs, so everything is durable *)
AppendAfterRecoveryIsClean ==
  phase = "done" => PrefixOK(rec2, Hist2, IF app[1].cut THEN Len(Hist2) ELSE Len(rec1.acc))

(* as built, recovery fails in exactly one situation (known finding C16-F02): a .tmp left by a crash inside
   cut() is reused and its old head is longer than the new one *)
StaleLonger == /\ app # <<>> /\ app[1].cut /\ stale # <<>> /\ StaleTmpAsBuilt
               /\ SumLenRids(stale) > SumLenRids(HeadRids2)
FailuresOnlyFromStaleTmp == phase = "failed" => StaleLonger
StaleTmpAlwaysFatal == (phase = "done" /\ app # <<>> /\ app[1].cut) => ~StaleLonger

(* corrupted bytes are never returned as valid: whatever recovery returns is the fold of SOME prefix *)
CorruptOK(s) == \E k \in 0..flushed : s.ents = Replay(Hist1, k).ents /\ HsVal(s.hs) = Replay(Hist1, k).hs
CorruptionNeverAccepted == phase = "cdone" => CorruptOK(rec1)
(* as built it is violated in exactly one way (known finding C16-F01): the unprotected type byte *)
CorruptAcceptedOnlyByTypeFlip == (phase = "cdone" /\ ~CorruptOK(rec1)) => (cor.kind = "type" /\ ~TypeInCrc)

(* the reader's fold never reorders: indexes of returned entries are 1..n *)
EntriesContiguous ==
  Recovered1 => \A i \in 1..Len(rec1.ents) : log[rec1.ents[i]].idx = i

TypeOK ==
  /\ flushed \in 0..Len(log) /\ durable \in 0..flushed
  /\ foff <= woff
  /\ phase \in {"write", "syncing", "cuthead", "opened", "syncing2", "cut2", "done", "failed", "cdone", "crejected"}

=============================================================================
