--------------------------- MODULE TraceEtcdRaft ---------------------------
(***************************************************************************)
(* B2: validates traces recorded from real raft.RawNodes (raftsim random   *)
(* -nodes -1 -msgs: 3 voters, no membership change, no compaction, no      *)
(* CheckQuorum; profiles n3-spec* without PreVote -> TraceEtcdRaft.cfg /   *)
(* _one.cfg, profiles n3-spec-prevote* with raft.Config.PreVote = true ->  *)
(* TraceEtcdRaft_prevote.cfg / _prevote_one.cfg, which set PreVote = TRUE; *)
(* profiles n3-spec-conf* with SIMPLE membership changes - one voter added *)
(* or removed per raftpb.ConfChange / single-change ConfChangeV2, no joint *)
(* configuration, no learners - -> TraceEtcdRaft_conf.cfg (all three nodes *)
(* voters at the start) / _conf12_prevote_one.cfg (voters {1,2} at the     *)
(* start, PreVote, one entry per MsgApp), which set ConfChange = TRUE)     *)
(* against EtcdRaft.tla.  Every trace line must be                         *)
(* explained by the corresponding action of the specification, and after   *)
(* it the logged projection of every node and the logged bag of in-flight  *)
(* messages must equal the specification state.  (The B2 profiles of       *)
(* raftsim lose messages only by explicit drop events, not by partitions.) *)
(* A rejection on the unchanged tree is a specification bug.               *)
(***************************************************************************)
EXTENDS EtcdRaft, Json, IOUtils

Trace == ndJsonDeserialize(IOEnv.TRACE)
NLines == Len(Trace)

VARIABLE l
tvars == <<vars, l>>

ToEnts(es) == [k \in 1..Len(es) |-> [t |-> es[k].t, p |-> es[k].p, c |-> es[k].c]]
SeqSet(q) == {q[k] : k \in 1..Len(q)}
ToMsg(d) == Msg(d.ty, d.fr, d.to, d.tm, d.ix, d.lt, d.cm, d.rj, d.ht, ToEnts(d.es))

RECURSIVE BagOf(_, _)
BagOf(ms, k) == IF k > Len(ms) THEN <<>> ELSE BagAdd(BagOf(ms, k + 1), ToMsg(ms[k]))

(* the logged projection of line k equals the primed specification state *)
NodeOK(nd, i) ==
    /\ (role'[i] = "D") = ~nd.up
    /\ role'[i] = nd.role
    /\ term'[i] = nd.term /\ vote'[i] = nd.vote /\ lead'[i] = nd.lead
    /\ commit'[i] = nd.commit /\ applied'[i] = nd.applied
    /\ hs'[i] = [term |-> nd.hs.term, vote |-> nd.hs.vote, commit |-> nd.hs.commit]
    /\ sc'[i] = nd.hss.commit
    /\ log'[i] = [x \in 1..Len(nd.log) |-> [t |-> nd.log[x].t, p |-> nd.log[x].p, c |-> nd.log[x].c]]
    \* the node's own configuration (Status().Config): exactly the specification's voters, nothing joint, no learners
    /\ (nd.up => /\ cfg'[i] = SeqSet(nd.conf.v)
                 /\ Len(nd.conf.vo) = 0 /\ Len(nd.conf.l) = 0 /\ Len(nd.conf.ln) = 0)
    \* the leader's Progress map: one Progress per voter of its configuration, and each as specified
    /\ (nd.role = "L" =>
          /\ {nd.pr[k].id : k \in 1..Len(nd.pr)} = cfg'[i]
          /\ \A k \in 1..Len(nd.pr) : LET q == nd.pr[k] IN
                pr'[i][q.id] = [match |-> q.match, next |-> q.next, state |-> q.state, probesent |-> q.probesent])

StateOK(k) ==
    /\ \A i \in Server : NodeOK(Trace[k].n[i], i)
    /\ net' = BagOf(Trace[k].msgs, 1)

Stutter == UNCHANGED vars

TraceInit == Init /\ l = 0 /\ TLCSet(1, 0)

TraceNext ==
    /\ l < NLines
    /\ l' = l + 1
    /\ TLCSet(1, l + 1)
    /\ LET e == Trace[l + 1]
           i == e.node
       IN /\ CASE e.ev = "reset" ->
                     /\ role' = [x \in Server |-> "F"] /\ term' = [x \in Server |-> 0] /\ vote' = [x \in Server |-> 0]
                     /\ lead' = [x \in Server |-> 0] /\ log' = [x \in Server |-> <<>>] /\ commit' = [x \in Server |-> 0]
                     /\ applied' = [x \in Server |-> 0] /\ hs' = [x \in Server |-> [term |-> 0, vote |-> 0, commit |-> 0]]
                     /\ sc' = [x \in Server |-> 0] /\ votes' = [x \in Server |-> NoVotes] /\ pr' = [x \in Server |-> NoPr]
                     /\ cfg' = [x \in Server |-> InitVoters] /\ pci' = [x \in Server |-> 0]
                     /\ net' = <<>> /\ elected' = {} /\ gc' = <<>> /\ gct' = <<>> /\ lcok' = TRUE
                     /\ Budgets /\ act' = [name |-> "Reset"]
               \* Campaign() of a node that is not a voter of its own configuration returns nil and does nothing (hup: promotable)
               [] e.ev = "campaign" -> IF e.ok /\ role[i] \notin {"L", "D"} /\ i \in cfg[i] THEN Campaign(i) ELSE Stutter
               [] e.ev = "tick" -> IF e.ok /\ role[i] = "L" THEN Heartbeat(i) ELSE Stutter
               [] e.ev = "propose" -> IF e.ok THEN Propose(i, e.arg.p) ELSE Stutter
               \* arg.cc.ops = <<<<ConfChangeType, node id>>>>: 0 = ConfChangeAddNode, 1 = ConfChangeRemoveNode
               [] e.ev = "confchange" ->
                     IF e.ok THEN LET op == e.arg.cc.ops[1] IN ProposeConfChange(i, IF op[1] = 0 THEN op[2] ELSE 0 - op[2], e.arg.p)
                     ELSE Stutter
               [] e.ev = "deliver" ->
                     IF ~e.ok THEN Stutter
                     ELSE LET m == ToMsg(e.arg.m) IN
                          IF role[m.to] = "D"
                          THEN /\ m \in DOMAIN net /\ net' = BagDel(net, m)
                               /\ UNCHANGED <<nodeVars, nprop, ncrash, ndrop, ndup, nhb, nconf, nref, elected, gc, gct, lcok>>
                               /\ act' = [name |-> "DeliverToDown"]
                          ELSE \/ DeliverStale(m) \/ DeliverVote(m) \/ DeliverVoteResp(m) \/ DeliverApp(m)
                               \/ DeliverAppResp(m) \/ DeliverHB(m) \/ DeliverHBResp(m) \/ DeliverUnknownPeer(m)
               [] e.ev = "drop" -> IF e.ok THEN Drop(ToMsg(e.arg.m)) ELSE Stutter
               [] e.ev = "dup" -> IF e.ok THEN LET m == ToMsg(e.arg.m) IN
                                        /\ m \in DOMAIN net /\ net' = BagAdd(net, m) /\ ndup' = ndup + 1
                                        /\ UNCHANGED <<nodeVars, nprop, ncrash, ndrop, nhb, nconf, nref, elected, gc, gct, lcok>>
                                        /\ act' = [name |-> "Dup"]
                                  ELSE Stutter
               [] e.ev = "crash" -> IF e.ok THEN CrashTo(i, Trace[l + 1].n[i].hs.commit) /\ act' = [name |-> "Crash"] ELSE Stutter
               [] e.ev = "restart" -> IF e.ok THEN Restart(i) ELSE Stutter
               [] e.ev \in {"partition", "heal", "cut"} -> Stutter
          /\ StateOK(l + 1)

TraceSpec == TraceInit /\ [][TraceNext]_tvars

TracePost == /\ PrintT("TRACE-VALIDATION " \o ToJson([lines |-> NLines, matched |-> TLCGet(1)]))
             /\ TLCGet(1) = NLines
=============================================================================
