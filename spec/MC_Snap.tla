---------------------------- MODULE MC_Snap ----------------------------
EXTENDS Snap, Json
CONSTANTS EmitOn
Emit == IF EmitOn /\ result = -1 /\ result' >= 0
        THEN PrintT(ToJson([files |-> files', usewal |-> usewal', result |-> result', broken |-> broken']))
        ELSE TRUE
=============================================================================
