SPECIFICATION Spec
VIEW View
INVARIANT TypeOK
CHECK_DEADLOCK FALSE
CONSTANT EagerRelease = TRUE
