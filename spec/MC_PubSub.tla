------------------------------ MODULE MC_PubSub ------------------------------
(* Model-level check of C19 on PubSub.tla: with a history of what was published to whom, every inbox holds exactly the
   messages published to its channel while its connection was subscribed, once each, in publish order. *)
EXTENDS PubSub

CONSTANTS Conns, Chans, MaxMsgs
VARIABLES s, nmsg, hist, lastN
\* hist[<<c, ch>>] : messages published to ch while c was subscribed and open (in order), minus those already read
vars == <<s, nmsg, hist, lastN>>

\* the zombie bookkeeping (TCP count leniency of the trace checker) is irrelevant to the model-level properties
Z(st) == [st EXCEPT !.zomb = <<>>]
Init == s = PInit /\ nmsg = 0 /\ hist = [x \in Conns \X Chans |-> <<>>] /\ lastN = -1

Sub(c, ch) == s' = PSubscribe(s, c, <<ch>>).s /\ UNCHANGED <<nmsg, hist>> /\ lastN' = -1
Pub(ch) == /\ nmsg < MaxMsgs
           /\ LET r == PPublish(s, ch, nmsg + 1) IN s' = r.s /\ lastN' = r.n
           /\ nmsg' = nmsg + 1
           /\ hist' = [x \in Conns \X Chans |-> IF x[2] = ch /\ x[1] \in SubsOf(s, ch) THEN Append(hist[x], nmsg + 1) ELSE hist[x]]
Recv(c, ch) == /\ InboxOf(s, <<c, ch>>) # <<>>
               /\ s' = PRecv(s, c, ch) /\ hist' = [hist EXCEPT ![<<c, ch>>] = Tail(@)] /\ UNCHANGED nmsg /\ lastN' = -1
CloseC(c) == s' = Z(PClose(s, c).s) /\ hist' = [x \in Conns \X Chans |-> IF x[1] = c THEN <<>> ELSE hist[x]] /\ UNCHANGED nmsg /\ lastN' = -1

Next == \/ \E c \in Conns, ch \in Chans : Sub(c, ch) \/ Recv(c, ch)
        \/ \E ch \in Chans : Pub(ch)
        \/ \E c \in Conns : CloseC(c)
Spec == Init /\ [][Next]_vars

ExactlyOnceInOrderToSubscribers == \A x \in Conns \X Chans : InboxOf(s, x) = hist[x]
CountIsFanout == [][nmsg' = nmsg + 1 => lastN' = Cardinality({c \in Conns : \E ch2 \in Chans : Len(hist'[<<c, ch2>>]) = Len(hist[<<c, ch2>>]) + 1})]_vars
=============================================================================
