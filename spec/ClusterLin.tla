------------------------------ MODULE ClusterLin ------------------------------
(***************************************************************************)
(* C07 on the model: the cluster layer above Raft.  Consensus is ASSUMED   *)
(* (one agreed, append-only log: that is C15); what is modelled is what    *)
(* RedisGO builds on it (server/db_manager.go HandleCluster,               *)
(* server/server.go handleClusterCommits, raftexample/raft.go publish):    *)
(*  - a connection on node n registers a callback for a fresh id, hands    *)
(*    the proposal to the node's pump and waits                            *)
(*  - a proposal may be lost before it reaches the log (no leader, crash)  *)
(*  - every node applies the log in order to its own keyspace; when it     *)
(*    applies an entry whose id it has a callback for, it sends the result *)
(*    to that connection                                                   *)
(*  - crash loses keyspace and callbacks; restart re-applies from the      *)
(*    beginning of the (durable) log                                       *)
(* The keyspace is one counter with commands INC (deterministic) and, when *)
(* AllowRandom, RND (a command whose effect depends on local randomness or *)
(* the local clock, like SPOP, XADD * or EXPIRE at apply time).            *)
(***************************************************************************)
EXTENDS Integers, Sequences, FiniteSets, TLC

CONSTANTS Nodes, Clients, MaxOps, AllowRandom, MaxCrashes

VARIABLES log,      \* agreed sequence of [id, cmd]
          pend,     \* proposals accepted from connections, not yet in the log: set of [id, cmd, node]
          cb,       \* cb[n]: ids this node has a waiting connection for
          applied,  \* applied[n]: number of log entries applied by n
          kv,       \* kv[n]: the counter on node n
          up, nextId, crashes,
          hist      \* history: sequence of [ev: "inv"|"res", id, cmd, val]
vars == <<log, pend, cb, applied, kv, up, nextId, crashes, hist>>

Cmds == IF AllowRandom THEN {"INC", "RND"} ELSE {"INC"}

Init == /\ log = <<>> /\ pend = {} /\ cb = [n \in Nodes |-> {}] /\ applied = [n \in Nodes |-> 0]
        /\ kv = [n \in Nodes |-> 0] /\ up = [n \in Nodes |-> TRUE] /\ nextId = 1 /\ crashes = 0 /\ hist = <<>>

Send(n, c) == /\ up[n] /\ nextId <= MaxOps
              /\ pend' = pend \cup {[id |-> nextId, cmd |-> c, node |-> n]}
              /\ cb' = [cb EXCEPT ![n] = @ \cup {nextId}]
              /\ hist' = Append(hist, [ev |-> "inv", id |-> nextId, cmd |-> c, val |-> 0])
              /\ nextId' = nextId + 1
              /\ UNCHANGED <<log, applied, kv, up, crashes>>
Lose(p) == pend' = pend \ {p} /\ UNCHANGED <<log, cb, applied, kv, up, nextId, crashes, hist>>
Commit(p) == /\ \E q \in Nodes : up[q]      \* some quorum member is up (abstracted)
             /\ log' = Append(log, [id |-> p.id, cmd |-> p.cmd]) /\ pend' = pend \ {p}
             /\ UNCHANGED <<cb, applied, kv, up, nextId, crashes, hist>>
\* effect of a command on a node: RND adds a locally chosen value
Apply(n) == /\ up[n] /\ applied[n] < Len(log)
            /\ LET e == log[applied[n] + 1] IN
               \E d \in (IF e.cmd = "INC" THEN {1} ELSE {1, 2}) :
                 /\ kv' = [kv EXCEPT ![n] = @ + d]
                 /\ applied' = [applied EXCEPT ![n] = @ + 1]
                 /\ IF e.id \in cb[n]
                    THEN /\ cb' = [cb EXCEPT ![n] = @ \ {e.id}]
                         /\ hist' = Append(hist, [ev |-> "res", id |-> e.id, cmd |-> e.cmd, val |-> kv[n] + d])
                    ELSE UNCHANGED <<cb, hist>>
            /\ UNCHANGED <<log, pend, up, nextId, crashes>>
Crash(n) == /\ up[n] /\ crashes < MaxCrashes
            /\ up' = [up EXCEPT ![n] = FALSE] /\ cb' = [cb EXCEPT ![n] = {}] /\ kv' = [kv EXCEPT ![n] = 0]
            /\ applied' = [applied EXCEPT ![n] = 0] /\ crashes' = crashes + 1
            /\ pend' = {p \in pend : p.node # n}
            /\ UNCHANGED <<log, nextId, hist>>
Restart(n) == ~up[n] /\ up' = [up EXCEPT ![n] = TRUE] /\ UNCHANGED <<log, pend, cb, applied, kv, nextId, crashes, hist>>

Next == \/ \E n \in Nodes, c \in Cmds : Send(n, c)
        \/ \E p \in pend : Lose(p) \/ Commit(p)
        \/ \E n \in Nodes : Apply(n) \/ Crash(n) \/ Restart(n)
Spec == Init /\ [][Next]_vars

\* ---- C07 ----
\* nodes that have applied the same log prefix hold identical keyspaces
ReplicaAgreement == \A a, b \in Nodes : (up[a] /\ up[b] /\ applied[a] = applied[b]) => kv[a] = kv[b]
\* an acknowledged command is in the log exactly once
AckedExactlyOnce == \A i \in 1..Len(hist) : hist[i].ev = "res" => Cardinality({j \in 1..Len(log) : log[j].id = hist[i].id}) = 1
\* each client receives the reply to its own command: the value is the counter after applying the log up to that command
\* (with deterministic commands: position in the log)
OwnReply == \A i \in 1..Len(hist) : (hist[i].ev = "res" /\ ~AllowRandom) =>
               \E j \in 1..Len(log) : log[j].id = hist[i].id /\ hist[i].val = j
\* real-time order: if op a was answered before op b was invoked, a precedes b in the log
RealTime == \A i, j \in 1..Len(hist) : (i < j /\ hist[i].ev = "res" /\ hist[j].ev = "inv") =>
               \A x, y \in 1..Len(log) : (log[x].id = hist[i].id /\ log[y].id = hist[j].id) => x < y
=============================================================================
