SPECIFICATION VecSpec
CONSTANTS
  Mode = "exact"
  MaxLen = 0
  Slice = 0
  NSlices = 1
  Deep = FALSE
  Streams <- NoStreams
CHECK_DEADLOCK FALSE
