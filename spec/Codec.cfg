SPECIFICATION Spec
CONSTANTS
  MaxArgs = 2
  MaxLen = 2
  Slice = 0
  NSlices = 1
CHECK_DEADLOCK FALSE
