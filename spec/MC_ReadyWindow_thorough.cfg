SPECIFICATION Spec
CONSTANTS
  MaxTerm = 3
  MaxBatch = 2
  WithSnap = TRUE
  Alias = FALSE
  Families <- AllFamilies3
INVARIANTS TypeOK NoPanic CommittedIsLeaders AppliedIsLeaders AckIsDurable AckedNotLost Quiescent
PROPERTIES ReadyImmutable
VIEW View
CHECK_DEADLOCK FALSE
