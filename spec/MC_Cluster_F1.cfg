SPECIFICATION Spec
CONSTANTS
  n1 = n1
  n2 = n2
  n3 = n3
  Nodes <- N3
  NW = 3
  WKeys <- KeysStr3
  WKinds <- KindsStr3
  WVia <- Via121
  SnapCount = 1
  CatchUp = 0
  MaxCrashes = 3
  SnapshotRestoresStateMachine = FALSE
  SnapshotSerialisesAllTypes = TRUE
INVARIANTS TypeOK Durability
