SPECIFICATION Spec
CONSTANTS
  Cmds <- StreamCmds
  SetupCmds <- StreamSetup
  Bound <- StreamBound
  T0 = 1000
  Grid <- GridQuick
  MaxEntries = 2
VIEW View
ACTION_CONSTRAINT Emit
INVARIANT TypeOK
PROPERTY ErrorsChangeNothing
CHECK_DEADLOCK FALSE
