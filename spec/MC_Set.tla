-------------------------------- MODULE MC_Set --------------------------------
(* Bounded instance for C11: set commands over sets s1 s2, a destination d and a string key. *)
EXTENDS MCBase

s1 == <<115, 49>>  s2 == <<115, 50>>  dk == <<100>>  sk == <<115>>  nk == <<110>>   \* nk never exists
ma == <<97>>  mb == <<98>>  me == <<>>
B(i) == IntToBytes(i)
CONSTANT Members
SKeys == {s1, s2}

MembersQuick == {ma, mb}
MembersThorough == {ma, mb, me}
SetSetup == << <<L_set, sk, <<97>>>> >>

Operands == { <<s1>>, <<s1, s2>>, <<s2, s1>>, <<s1, s2, nk>>, <<nk>>, <<nk, s1>>, <<s1, sk>>, <<s1, s1>> }

SetCmds ==
       {<<L_sadd, k, m>> : k \in SKeys, m \in Members} \cup {<<L_sadd, s1, ma, mb>>, <<L_sadd, s1, ma, ma>>, <<L_sadd, sk, ma>>, <<L_sadd, s1>>}
  \cup {<<L_srem, k, m>> : k \in SKeys, m \in Members} \cup {<<L_srem, s1, ma, mb>>, <<L_srem, sk, ma>>, <<L_srem, nk, ma>>}
  \cup {<<L_sismember, s1, m>> : m \in Members} \cup {<<L_sismember, sk, ma>>, <<L_sismember, nk, ma>>}
  \cup {<<c, k>> : c \in {L_scard, L_smembers}, k \in {s1, sk, nk}}
  \cup {<<L_smove, a, b, m>> : a \in SKeys, b \in SKeys, m \in Members}
  \cup {<<L_smove, s1, sk, ma>>, <<L_smove, sk, s1, ma>>, <<L_smove, nk, sk, ma>>, <<L_smove, s1, dk, ma>>, <<L_smove, s1, s2>>}
  \cup {<<c, k>> : c \in {L_spop, L_srandmember}, k \in {s1, sk, nk}}
  \cup {<<L_spop, s1, B(n)>> : n \in {0, 1, 2, 5, -1}} \cup {<<L_spop, s1, ma>>, <<L_spop, nk, B(1)>>}
  \cup {<<L_srandmember, s1, B(n)>> : n \in {-2, -1, 0, 1, 2, 5}} \cup {<<L_srandmember, s1, ma>>, <<L_srandmember, nk, B(1)>>}
  \cup {<<c>> \o o : c \in {L_sunion, L_sinter, L_sdiff}, o \in Operands} \cup {<<L_sunion>>}
  \cup {<<c, d>> \o o : c \in {L_sunionstore, L_sinterstore, L_sdiffstore}, d \in {dk, s1}, o \in Operands}
  \cup {<<c, sk, s1>> : c \in {L_sunionstore, L_sinterstore, L_sdiffstore}} \cup {<<L_sunionstore, dk>>}
  \cup {<<L_exists, s1>>, <<L_type, dk>>, <<L_del, s1>>, <<L_smembers, dk>>, <<L_expire, dk, B(100)>>}

SetBound(s) == TRUE
=============================================================================
