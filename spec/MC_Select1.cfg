SPECIFICATION Spec
CONSTANTS
  NDb = 1
  Conns = {1, 2}
  T0 = 1000
VIEW View
ACTION_CONSTRAINT Emit
INVARIANT SelInRange
PROPERTY Isolation
PROPERTY SelectionIsPrivate
PROPERTY RejectKeeps
CHECK_DEADLOCK FALSE
