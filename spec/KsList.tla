------------------------------- MODULE KsList -------------------------------
(***************************************************************************)
(* List commands from the Redis command reference.  A list value is a      *)
(* NON-EMPTY sequence of byte strings; an emptied list ceases to exist.    *)
(* Code under test: /repo/memdb/list.go, /repo/memdb/list_struct.go.       *)
(***************************************************************************)
EXTENDS KsKeys

\* store list q under k (keeping a deadline), or remove k when q is empty
PutList(s, k, q) == IF q = <<>> THEN DelKeys(s, {k}) ELSE PutKeep(s, k, ListV(q))
ListOf(s, k) == IF Has(s, k) THEN Val(s, k) ELSE <<>>
WrongFor(s, k, t) == Has(s, k) /\ ~HasT(s, k, t)

CmdPush(s, now, a, side, xform) ==
  LET nm == (IF side = "l" THEN "lpush" ELSE "rpush") \o (IF xform THEN "x" ELSE "") IN
  IF Len(a) < 3 THEN One(RErr, s, nm \o ".arity")
  ELSE LET k == a[2] vs == SubSeq(a, 3, Len(a)) IN
    IF WrongFor(s, k, "list") THEN One(RWrong, s, nm \o ".wrongtype")
    ELSE IF xform /\ ~Has(s, k) THEN One(RInt(0), s, nm \o ".missing")
    ELSE LET q == IF side = "l" THEN Rev(vs) \o ListOf(s, k) ELSE ListOf(s, k) \o vs
         IN One(RInt(Len(q)), PutList(s, k, q), nm \o (IF Has(s, k) THEN ".present" ELSE ".new") \o (IF Len(vs) > 1 THEN ".multi" ELSE ""))

CmdPop(s, now, a, side) ==
  LET nm == IF side = "l" THEN "lpop" ELSE "rpop" IN
  IF Len(a) < 2 \/ Len(a) > 3 THEN One(RErr, s, nm \o ".arity")
  ELSE LET k == a[2]
           hasCount == Len(a) = 3
           p == IF hasCount THEN ParseSmall(a[3]) ELSE [ok |-> TRUE, corner |-> FALSE, n |-> 1]
  IN IF ~p.ok \/ p.n < 0 THEN One(RErr, s, nm \o ".badcount")
     ELSE IF WrongFor(s, k, "list") THEN One(RWrong, s, nm \o ".wrongtype")
     ELSE IF ~Has(s, k) THEN One(RNil, s, nm \o ".missing")
     ELSE LET q == Val(s, k)
              n == Min2(p.n, Len(q))
              popped == IF side = "l" THEN Take(q, n) ELSE Rev(SubSeq(q, Len(q) - n + 1, Len(q)))
              rest   == IF side = "l" THEN Drop(q, n) ELSE Take(q, Len(q) - n)
              lbl    == nm \o (IF hasCount THEN ".count" ELSE ".one") \o (IF rest = <<>> THEN ".emptied" ELSE "")
          IN WithCorner(p.corner,
                        One(IF hasCount THEN RStrs(popped) ELSE RStr(popped[1]), PutList(s, k, rest), lbl),
                        s, nm \o ".corner")

CmdLLen(s, now, a) ==
  IF Len(a) # 2 THEN One(RErr, s, "llen.arity")
  ELSE IF WrongFor(s, a[2], "list") THEN One(RWrong, s, "llen.wrongtype")
  ELSE One(RInt(Len(ListOf(s, a[2]))), s, IF Has(s, a[2]) THEN "llen.present" ELSE "llen.missing")

CmdLIndex(s, now, a) ==
  IF Len(a) # 3 THEN One(RErr, s, "lindex.arity")
  ELSE LET p == ParseSmall(a[3]) IN
    IF ~p.ok THEN One(RErr, s, "lindex.notint")
    ELSE IF WrongFor(s, a[2], "list") THEN One(RWrong, s, "lindex.wrongtype")
    ELSE LET q == ListOf(s, a[2])
             i == IF p.n < 0 THEN Len(q) + p.n ELSE p.n
         IN WithCorner(p.corner,
              IF i < 0 \/ i >= Len(q) THEN One(RNil, s, IF Has(s, a[2]) THEN "lindex.outofrange" ELSE "lindex.missing")
              ELSE One(RStr(q[i + 1]), s, IF p.n < 0 THEN "lindex.negative" ELSE "lindex.inside"),
              s, "lindex.corner")

\* the window [st..en] (0-based, inclusive) as LRANGE / LTRIM normalise it; <<>> when empty
RangeWindow(n, st0, en0) ==
  LET st1 == IF st0 < 0 THEN n + st0 ELSE st0
      en1 == IF en0 < 0 THEN n + en0 ELSE en0
      st2 == IF st1 < 0 THEN 0 ELSE st1
      en2 == IF en1 >= n THEN n - 1 ELSE en1
  IN IF st2 > en2 \/ st2 >= n THEN <<>> ELSE <<st2, en2>>

CmdLRange(s, now, a) ==
  IF Len(a) # 4 THEN One(RErr, s, "lrange.arity")
  ELSE LET p1 == ParseSmall(a[3]) p2 == ParseSmall(a[4]) IN
    IF ~p1.ok \/ ~p2.ok THEN One(RErr, s, "lrange.notint")
    ELSE IF WrongFor(s, a[2], "list") THEN One(RWrong, s, "lrange.wrongtype")
    ELSE LET q == ListOf(s, a[2])
             w == RangeWindow(Len(q), p1.n, p2.n)
         IN WithCorner(p1.corner \/ p2.corner,
              IF w = <<>> THEN One(RArr(<<>>), s, IF Has(s, a[2]) THEN "lrange.empty_window" ELSE "lrange.missing")
              ELSE One(RStrs(SubSeq(q, w[1] + 1, w[2] + 1)), s,
                       IF p1.n < 0 \/ p2.n < 0 THEN "lrange.negative_idx" ELSE IF p2.n >= Len(q) THEN "lrange.clamped_end" ELSE "lrange.inside"),
              s, "lrange.corner")

CmdLSet(s, now, a) ==
  IF Len(a) # 4 THEN One(RErr, s, "lset.arity")
  ELSE LET p == ParseSmall(a[3]) IN
    IF ~p.ok THEN One(RErr, s, "lset.notint")
    ELSE IF WrongFor(s, a[2], "list") THEN One(RWrong, s, "lset.wrongtype")
    ELSE IF ~Has(s, a[2]) THEN One(RErr, s, "lset.missing")
    ELSE LET q == Val(s, a[2])
             i == IF p.n < 0 THEN Len(q) + p.n ELSE p.n
         IN IF i < 0 \/ i >= Len(q) THEN One(RErr, s, "lset.outofrange")
            ELSE WithCorner(p.corner, One(ROK, PutList(s, a[2], [q EXCEPT ![i + 1] = a[4]]), IF p.n < 0 THEN "lset.negative" ELSE "lset.inside"), s, "lset.corner")

RECURSIVE RemFirst(_, _, _)
RemFirst(q, v, n) == IF q = <<>> \/ n = 0 THEN q
                     ELSE IF Head(q) = v THEN RemFirst(Tail(q), v, n - 1)
                     ELSE <<Head(q)>> \o RemFirst(Tail(q), v, n)

CmdLRem(s, now, a) ==
  IF Len(a) # 4 THEN One(RErr, s, "lrem.arity")
  ELSE LET p == ParseSmall(a[3]) IN
    IF ~p.ok THEN One(RErr, s, "lrem.notint")
    ELSE IF WrongFor(s, a[2], "list") THEN One(RWrong, s, "lrem.wrongtype")
    ELSE IF ~Has(s, a[2]) THEN One(RInt(0), s, "lrem.missing")
    ELSE LET q == Val(s, a[2])
             v == a[4]
             r == IF p.n > 0 THEN RemFirst(q, v, p.n)
                  ELSE IF p.n < 0 THEN Rev(RemFirst(Rev(q), v, 0 - p.n))
                  ELSE SelectSeq(q, LAMBDA x : x # v)
             removed == Len(q) - Len(r)
             total == Len(SelectSeq(q, LAMBDA x : x = v))
             lbl == IF removed = 0 THEN "lrem.nomatch"
                    ELSE (IF p.n > 0 THEN "lrem.count_pos" ELSE IF p.n < 0 THEN "lrem.count_neg" ELSE "lrem.count_zero")
                         \o (IF removed < total THEN ".partial" ELSE ".all") \o (IF r = <<>> THEN ".emptied" ELSE "")
         IN WithCorner(p.corner, One(RInt(removed), PutList(s, a[2], r), lbl), s, "lrem.corner")

CmdLTrim(s, now, a) ==
  IF Len(a) # 4 THEN One(RErr, s, "ltrim.arity")
  ELSE LET p1 == ParseSmall(a[3]) p2 == ParseSmall(a[4]) IN
    IF ~p1.ok \/ ~p2.ok THEN One(RErr, s, "ltrim.notint")
    ELSE IF WrongFor(s, a[2], "list") THEN One(RWrong, s, "ltrim.wrongtype")
    ELSE IF ~Has(s, a[2]) THEN One(ROK, s, "ltrim.missing")
    ELSE LET q == Val(s, a[2])
             w == RangeWindow(Len(q), p1.n, p2.n)
             r == IF w = <<>> THEN <<>> ELSE SubSeq(q, w[1] + 1, w[2] + 1)
         IN WithCorner(p1.corner \/ p2.corner,
              One(ROK, PutList(s, a[2], r), IF r = <<>> THEN "ltrim.emptied" ELSE IF r = q THEN "ltrim.noop" ELSE "ltrim.cut"),
              s, "ltrim.corner")

\* ---- LPOS key element [RANK r] [COUNT c] [MAXLEN m] ----
RECURSIVE LPosOpts(_, _, _)
LPosOpts(a, i, acc) ==
  IF i > Len(a) THEN acc
  ELSE IF i + 1 > Len(a) THEN [acc EXCEPT !.ok = FALSE]
  ELSE LET w == Lower(a[i]) p == ParseSmall(a[i + 1]) IN
    IF ~p.ok THEN [acc EXCEPT !.ok = FALSE]
    ELSE IF w = L_rank THEN (IF p.n = 0 THEN [acc EXCEPT !.ok = FALSE] ELSE LPosOpts(a, i + 2, [acc EXCEPT !.rank = p.n, !.corner = acc.corner \/ p.corner]))
    ELSE IF w = L_count THEN (IF p.n < 0 THEN [acc EXCEPT !.ok = FALSE] ELSE LPosOpts(a, i + 2, [acc EXCEPT !.count = p.n, !.corner = acc.corner \/ p.corner]))
    ELSE IF w = L_maxlen THEN (IF p.n < 0 THEN [acc EXCEPT !.ok = FALSE] ELSE LPosOpts(a, i + 2, [acc EXCEPT !.maxlen = p.n, !.corner = acc.corner \/ p.corner]))
    ELSE [acc EXCEPT !.ok = FALSE]

CmdLPos(s, now, a) ==
  IF Len(a) < 3 THEN One(RErr, s, "lpos.arity")
  ELSE LET o == LPosOpts(a, 4, [ok |-> TRUE, rank |-> 1, count |-> -1, maxlen |-> 0, corner |-> FALSE]) IN
    IF ~o.ok THEN One(RErr, s, "lpos.syntax")
    ELSE IF WrongFor(s, a[2], "list") THEN One(RWrong, s, "lpos.wrongtype")
    ELSE IF ~Has(s, a[2]) THEN One(IF o.count >= 0 THEN RArr(<<>>) ELSE RNil, s, "lpos.missing")
    ELSE LET q == Val(s, a[2])
             n == Len(q)
             lim == IF o.maxlen = 0 THEN n ELSE Min2(o.maxlen, n)
             scan == IF o.rank > 0 THEN [i \in 1..lim |-> i] ELSE [i \in 1..lim |-> n + 1 - i]
             hits == SelectSeq(scan, LAMBDA i : q[i] = a[3])
             skip == (IF o.rank > 0 THEN o.rank ELSE 0 - o.rank) - 1
             after == IF skip >= Len(hits) THEN <<>> ELSE Drop(hits, skip)
             want == IF o.count < 0 THEN 1 ELSE IF o.count = 0 THEN Len(after) ELSE Min2(o.count, Len(after))
             res == Take(after, want)
             lbl == "lpos" \o (IF o.rank < 0 THEN ".rank_neg" ELSE IF o.rank > 1 THEN ".rank_pos" ELSE "")
                      \o (IF o.count >= 0 THEN ".count" ELSE "") \o (IF o.maxlen > 0 THEN ".maxlen" ELSE "")
                      \o (IF res = <<>> THEN ".nomatch" ELSE ".found")
         IN WithCorner(o.corner,
              IF o.count >= 0 THEN One(RArr([i \in 1..Len(res) |-> RInt(res[i] - 1)]), s, lbl)
              ELSE IF res = <<>> THEN One(RNil, s, lbl) ELSE One(RInt(res[1] - 1), s, lbl),
              s, "lpos.corner")

\* ---- LMOVE source destination LEFT|RIGHT LEFT|RIGHT ----
CmdLMove(s, now, a) ==
  IF Len(a) # 5 THEN One(RErr, s, "lmove.arity")
  ELSE LET wf == Lower(a[4]) wt == Lower(a[5]) src == a[2] dst == a[3] IN
    IF ~(wf \in {L_left, L_right}) \/ ~(wt \in {L_left, L_right}) THEN One(RErr, s, "lmove.syntax")
    ELSE IF WrongFor(s, src, "list") THEN One(RWrong, s, "lmove.wrongtype")
    ELSE IF ~Has(s, src) THEN One(RNil, s, "lmove.missing")   \* "If source does not exist, the value nil is returned and no operation is performed"
    ELSE IF WrongFor(s, dst, "list") THEN One(RWrong, s, "lmove.wrongtype")
    ELSE LET q == Val(s, src)
             e == IF wf = L_left THEN q[1] ELSE q[Len(q)]
             rest == IF wf = L_left THEN Tail(q) ELSE Take(q, Len(q) - 1)
             s1 == IF src = dst THEN s ELSE PutList(s, src, rest)
             d0 == IF src = dst THEN rest ELSE ListOf(s1, dst)
             d1 == IF wt = L_left THEN <<e>> \o d0 ELSE d0 \o <<e>>
         IN One(RStr(e), PutList(s1, dst, d1),
                "lmove" \o (IF src = dst THEN ".rotate" ELSE IF Has(s, dst) THEN ".existing_dst" ELSE ".new_dst")
                        \o (IF rest = <<>> /\ src # dst THEN ".emptied_src" ELSE ""))

\* ---- BLPOP / BRPOP key [key ...] timeout ----
\* Sequential meaning of a blocking pop that has RETURNED: either it popped from the first key (in argument order)
\* holding a non-empty list, or - reply nil - every key was missing/empty at its linearization point (it timed out).
\* Promptness (how long it may take) is checked on the real clock by harness/cmd/blockpop.
RECURSIVE FirstNonEmpty(_, _, _)
FirstNonEmpty(s, a, i) == IF i >= Len(a) THEN 0 ELSE IF HasT(s, a[i], "list") THEN i ELSE FirstNonEmpty(s, a, i + 1)
CmdBPop(s, now, a, side) ==
  LET nm == IF side = "l" THEN "blpop" ELSE "brpop" IN
  IF Len(a) < 3 THEN One(RErr, s, nm \o ".arity")
  ELSE LET p == ParseDec(a[Len(a)]) IN
    IF ~p.ok THEN One(RErr, s, nm \o ".badtimeout")
    ELSE IF p.neg THEN Two(One(RErr, s, nm \o ".negative_timeout"), One(RNil, s, nm \o ".negative_timeout.nil"))
    ELSE LET i == FirstNonEmpty(s, a, 2)
             wrong == \E j \in 2..(Len(a) - 1) : WrongFor(s, a[j], "list") /\ (i = 0 \/ j < i) IN
         IF i = 0 THEN (IF wrong THEN Two(One(RWrong, s, nm \o ".wrongtype"), One(RNil, s, nm \o ".wrongtype_ignored.timeout")) ELSE One(RNil, s, nm \o ".timeout"))
         ELSE LET q == Val(s, a[i])
                  e == IF side = "l" THEN q[1] ELSE q[Len(q)]
                  rest == IF side = "l" THEN Tail(q) ELSE Take(q, Len(q) - 1)
                  done == One(RArr(<<RStr(a[i]), RStr(e)>>), PutList(s, a[i], rest), nm \o ".popped" \o (IF i > 2 THEN ".later_key" ELSE "") \o (IF rest = <<>> THEN ".emptied" ELSE ""))
              IN IF wrong THEN Two(done, One(RWrong, s, nm \o ".wrongtype")) ELSE done
=============================================================================
