-------------------------------- MODULE Select --------------------------------
(***************************************************************************)
(* C20: numbered databases and per-connection selection.                   *)
(* State: dbs (one keyspace per database index 0..NDb-1) and sel (the      *)
(* database each connection has selected, initially 0).  SELECT accepts    *)
(* exactly the decimal indexes 0..NDb-1 with exactly one argument; every   *)
(* other command of connection c acts on dbs[sel[c]] only (Keyspace.Exec). *)
(* Code under test: server/db_manager.go (Manager.Handle, Select,          *)
(* ExecCommand), one Manager shared by all connection goroutines           *)
(* (server/server.go:57,114-122).                                          *)
(***************************************************************************)
EXTENDS KsMatch, Json

CONSTANTS NDb, Conns, T0

VARIABLES dbs, sel, out
vars == <<dbs, sel, out>>
View == <<dbs, sel>>

kk == <<107>>
B(i) == IntToBytes(i)
\* numerically large arguments that are congruent to a valid index modulo 2^32 / 2^31 / 2^16 / 2^8 (integer truncation),
\* and the int64 extremes: all out of range
BigArgs == { <<<<52,50,57,52,57,54,55,50,57,54>>>>, <<<<52,50,57,52,57,54,55,50,57,55>>>>, <<<<45,52,50,57,52,57,54,55,50,57,53>>>>,
             <<<<50,49,52,55,52,56,51,54,52,56>>>>, <<<<54,53,53,51,54>>>>, <<<<50,53,54>>>>, <<BigStr(Int64Max)>>, <<BigStr(Int64Min)>>,
             <<<<49,56,52,52,54,55,52,52,48,55,51,55,48,57,53,53,49,54,49,54>>>> }
SelectArgs == { <<B(0)>>, <<B(1)>>, <<B(NDb - 1)>>, <<B(NDb)>>, <<B(-1)>>, <<<<97>>>>, <<<<>>>>, <<B(0), B(1)>>, <<>>, <<<<48, 49>>>>, <<<<43, 49>>>> } \cup BigArgs
DataCmds == { <<L_set, kk, <<97>>>>, <<L_set, kk, <<98>>>>, <<L_get, kk>>, <<L_del, kk>>, <<L_keys, L_star>>, <<L_exists, kk>>, <<L_append, kk, <<120>>>> }

\* SELECT: exactly one argument that is a plain decimal index of a configured database
SelectOutcome(c, args) ==
  IF Len(args) # 1 THEN [r |-> RErr, sel |-> sel, b |-> "select.arity"]
  ELSE LET p == ParseSmall(args[1]) IN
       IF ~p.ok THEN [r |-> RErr, sel |-> sel, b |-> "select.notint"]
       ELSE IF p.n < 0 \/ p.n >= NDb THEN [r |-> RErr, sel |-> sel, b |-> "select.outofrange"]
       ELSE [r |-> ROK, sel |-> [sel EXCEPT ![c] = p.n], b |-> IF p.corner THEN "select.ok.corner" ELSE "select.ok"]

Init == /\ dbs = [i \in 0..(NDb - 1) |-> EmptyState]
        /\ sel = [c \in Conns |-> 0]
        /\ out = [conn |-> 0, c |-> <<>>, r |-> RNil, b |-> "init"]

DoSelect(c, args) ==
  LET o == SelectOutcome(c, args) IN
  \* lexical corner cases ("01", "+1"): accepted with the numeric reading, or rejected (DESIGN.md 2.4)
  \/ (sel' = o.sel /\ dbs' = dbs /\ out' = [conn |-> c, c |-> <<L_select>> \o args, r |-> o.r, b |-> o.b])
  \/ (o.b = "select.ok.corner" /\ sel' = sel /\ dbs' = dbs /\ out' = [conn |-> c, c |-> <<L_select>> \o args, r |-> RErr, b |-> "select.corner_rejected"])

DoData(c, cmd) ==
  LET o == Exec(dbs[sel[c]], T0, cmd, NoHint) IN
  \E i \in 1..Len(o) : /\ dbs' = [dbs EXCEPT ![sel[c]] = o[i].s]
                       /\ sel' = sel
                       /\ out' = [conn |-> c, c |-> cmd, r |-> o[i].r, b |-> o[i].b]

\* keep the graph small: string values of length <= 2
Bounded == \A i \in 0..(NDb - 1) : \A k \in DOMAIN dbs[i].db : Len(dbs[i].db[k].v) <= 2

Next == Bounded /\ \E c \in Conns : (\E a \in SelectArgs : DoSelect(c, a)) \/ (\E cmd \in DataCmds : DoData(c, cmd))
Spec == Init /\ [][Next]_vars

\* ---- the property, on the model ----
Actor == out'.conn
\* a command touches only the database its connection has selected
Isolation == [][\A i \in 0..(NDb - 1) : i # sel[Actor] => dbs'[i] = dbs[i]]_vars
\* a connection's selection is changed only by its own SELECT
SelectionIsPrivate == [][\A c \in Conns : c # Actor => sel'[c] = sel[c]]_vars
\* a rejected SELECT keeps the selection
RejectKeeps == [][(Lower(out'.c[1]) = L_select /\ IsErr(out'.r)) => sel' = sel]_vars
SelInRange == \A c \in Conns : sel[c] \in 0..(NDb - 1)

DbJ(s) == LET ks == SortBytes(DOMAIN s.db) IN [i \in 1..Len(ks) |-> [k |-> ks[i], v |-> s.db[ks[i]].v]]
StateJ(d, s) == [dbs |-> [i \in 1..NDb |-> DbJ(d[i - 1])], sel |-> [c \in 1..Cardinality(Conns) |-> s[c]]]
Emit == PrintT("EDGE " \o ToJson([s |-> StateJ(dbs, sel), conn |-> out'.conn, c |-> out'.c, r |-> out'.r, b |-> out'.b, t |-> StateJ(dbs', sel')]))
ASSUME PrintT("INIT " \o ToJson(StateJ([i \in 0..(NDb - 1) |-> EmptyState], [c \in Conns |-> 0])))
=============================================================================
