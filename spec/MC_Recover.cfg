SPECIFICATION Spec
CONSTANTS
  MaxIdx = 4
  MaxTerm = 2
  MaxAppend = 2
  MaxCuts = 0
  MaxDamage = 0
  W_EntiAlways = FALSE
  MaxReady = 3
  InstallSaveFirst = FALSE
  SnapshotMustBeInWal = TRUE
  MaxCrash = 1
INVARIANT TypeOK
INVARIANT Acceptable
INVARIANT NothingLost
INVARIANT NothingInvented
CHECK_DEADLOCK FALSE
