SPECIFICATION Spec
CONSTANTS
  n1 = n1
  n2 = n2
  n3 = n3
  Nodes <- N3
  NW = 3
  WKeys <- KeysMix3
  WKinds <- KindsMix3
  WVia <- Via121
  SnapCount = 1
  CatchUp = 0
  MaxCrashes = 3
  SnapshotRestoresStateMachine = TRUE
  SnapshotSerialisesAllTypes = TRUE
INVARIANTS TypeOK StateMachineCorrect Durability SnapshotNeverKills AckedStaysDurable
PROPERTY AckAfterDurable
ACTION_CONSTRAINT POR
