SPECIFICATION Spec
