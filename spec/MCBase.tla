------------------------------- MODULE MCBase -------------------------------
(***************************************************************************)
(* B1: bounded model-checking instances of the reference keyspace and      *)
(* emission of their transition tables.  An instance supplies             *)
(*   Cmds    finite set of argument vectors                                *)
(*   SetupCmds commands building the initial keyspace from the empty one  *)
(*   Bound(s) state constraint keeping the graph finite                    *)
(* Every generated transition is printed as one JSON record                *)
(*   {s, c, r, b, t} = source state, command, reply pattern, branch label, *)
(*   target state - the walker (harness/cmd/tour) replays each one on the  *)
(* real code.  `out` is output-only and hidden by the VIEW.                *)
(***************************************************************************)
EXTENDS KsMatch, Json

CONSTANTS Cmds, SetupCmds, T0, Bound(_)

VARIABLES st, out
vars == <<st, out>>
View == st

ValJ(v) ==
  CASE v.t = "hash"   -> LET fs == HFields(v.v) IN [i \in 1..Len(fs) |-> <<fs[i], v.v[fs[i]]>>]
    [] v.t = "set"    -> SortBytes(v.v)
    [] v.t = "zset"   -> LET ms == ZSorted(v.v, DOMAIN v.v) IN [i \in 1..Len(ms) |-> <<ms[i], ScStr(v.v[ms[i]])>>]
    [] v.t = "stream" -> [i \in 1..Len(v.v) |-> <<IdStr(v.v[i].id), v.v[i].f>>]
    [] OTHER          -> v.v
StJ(s) == LET ks == SortBytes(DOMAIN s.db) IN
  [i \in 1..Len(ks) |-> [k |-> ks[i], t |-> s.db[ks[i]].t, v |-> ValJ(s.db[ks[i]]),
                          lo |-> IF HasExp(s, ks[i]) THEN s.exp[ks[i]].lo - T0 ELSE -1,
                          hi |-> IF HasExp(s, ks[i]) THEN s.exp[ks[i]].hi - T0 ELSE -1]]

\* the initial keyspace is built from the empty one by the instance's setup commands (also replayed by the walker)
RECURSIVE ApplyAll(_, _)
ApplyAll(s, cs) == IF cs = <<>> THEN s ELSE ApplyAll(Exec(s, T0, Head(cs), NoHint)[1].s, Tail(cs))
InitSt == ApplyAll(EmptyState, SetupCmds)
ASSUME PrintT("SETUP " \o ToJson([c |-> SetupCmds]))
ASSUME PrintT("INIT " \o ToJson(StJ(InitSt)))
ASSUME PrintT("CMDS " \o ToJson([c |-> SetToSeq(Cmds)]))
NoBound(s) == FALSE      \* cfg override Bound <- NoBound: print SETUP/INIT/CMDS only (used by C04 to harvest valid commands)

Init == st = InitSt /\ out = [c |-> <<>>, r |-> RNil, b |-> "init"]

\* states outside the bound are generated (their incoming edges are emitted and replayed) but not expanded
Next == Bound(st) /\ \E c \in Cmds :
          LET o == Exec(st, T0, c, NoHint) IN
          \E i \in 1..Len(o) : st' = o[i].s /\ out' = [c |-> c, r |-> o[i].r, b |-> o[i].b]

Spec == Init /\ [][Next]_vars

Emit == PrintT("EDGE " \o ToJson([s |-> StJ(st), c |-> out'.c, r |-> out'.r, b |-> out'.b, t |-> StJ(st')]))

\* ---- properties of the reference model itself (the property statements, checked on the model) ----
NoEmptyAggregates ==
  \A k \in DOMAIN st.db :
    LET v == st.db[k] IN
      /\ (v.t = "list" => v.v # <<>>)
      /\ (v.t = "hash" => DOMAIN v.v # {})
      /\ (v.t = "set" => v.v # {})
      /\ (v.t = "zset" => DOMAIN v.v # {})
DeadlinesOnlyOnLiveKeys == DOMAIN st.exp \subseteq DOMAIN st.db
StreamsIncreasing ==
  \A k \in DOMAIN st.db : st.db[k].t = "stream" =>
    \A i \in 1..(Len(st.db[k].v) - 1) : IdLess(st.db[k].v[i].id, st.db[k].v[i + 1].id)
TypeOK == NoEmptyAggregates /\ DeadlinesOnlyOnLiveKeys /\ StreamsIncreasing

\* an error reply changes nothing; WRONGTYPE in particular
ErrorsChangeNothing == [][IsErr(out'.r) => st' = st]_vars
=============================================================================
