---------------------------- MODULE MC_Wal ----------------------------
(* Model-checking instance of Wal.tla + scenario emission for the replayer (binding B1).
   One JSON line per terminal state: the operation sequence, the crash, the lost sectors, the
   optional appended save and second crash, and the outcome the model predicts. *)
EXTENDS Wal, Json

CONSTANTS EmitOn

(* entry-record sizes in words (length word included).  With the 8-word head of Create (crc 2, metadata 3,
   snapshot 3) and the 3-word state record that ends a save: 5 stays inside a sector; 53 makes the save end
   exactly on the first sector boundary (8+53+3 = 64); 70 straddles one boundary; 140 spans more than two
   sectors and, twice, pushes the file offset past SegWords = 256 so that the next save cuts. *)
EntSizesQ == {5, 53, 70, 140}
EntSizes3 == {5, 53, 140}
EntSizesD == {5, 53, 140}
EntSizes2 == {5, 140}
(* nil metadata (2-word record, no Data: the chain value stays 0 through the head) and 1 KB segments:
   head = 7 words, 54 ends on the boundary (7+54+3), 120 passes SegWords = 128 *)
EntSizesN == {4, 54, 120}
EntSizes2N == {54, 120}
EntSizes1N == {120}
AppSizesQ == {5, 64}

LastIdxOf(s) == IF s.ents = <<>> THEN 0
                ELSE LET e == s.ents[Len(s.ents)] IN IF e < 0 THEN log[-e].commit ELSE log[e].idx
Pred(s) == [ok |-> s.ok, first |-> s.first, rep |-> s.rep, nacc |-> Len(s.acc), nents |-> Len(s.ents),
            lastidx |-> LastIdxOf(s), hs |-> HsVal(s.hs), off |-> s.o, err |-> s.err]

Scen1 == [seg |-> SegWords, meta |-> MetaWords, ops |-> ops', lost |-> crash1'.lost, soff |-> crash1'.soff,
          tail |-> crash1'.tail, app |-> <<>>, lost2 |-> {}, p1 |-> Pred(rec1'), p2 |-> Pred(rec1'), two |-> FALSE,
          dur |-> durable, cutcrash |-> (phase = "cuthead"), close2 |-> FALSE, cor |-> cor', nonprefix |-> FALSE]
Scen3 == [seg |-> SegWords, meta |-> MetaWords, ops |-> ops', lost |-> {}, soff |-> 0,
          tail |-> TailSeg, app |-> <<>>, lost2 |-> {}, p1 |-> Pred(rec1'), p2 |-> Pred(rec1'), two |-> FALSE,
          dur |-> durable, cutcrash |-> FALSE, close2 |-> FALSE, cor |-> cor', nonprefix |-> (rec1'.ok /\ ~CorruptOK(rec1'))]
Scen2 == [seg |-> SegWords, meta |-> MetaWords, ops |-> ops', lost |-> crash1'.lost, soff |-> crash1'.soff,
          tail |-> crash1'.tail, app |-> app', lost2 |-> crash2'.lost, p1 |-> Pred(rec1'), p2 |-> Pred(rec2'), two |-> TRUE,
          dur |-> durable, cutcrash |-> (stale # <<>>), close2 |-> (phase = "cut2"), cor |-> cor', nonprefix |-> FALSE]

Emit ==
  IF ~EmitOn THEN TRUE
  ELSE IF phase' \in {"cdone", "crejected"} /\ phase = "write" THEN PrintT(ToJson(Scen3))
  ELSE IF phase \in {"write", "syncing", "cuthead"} /\ phase' \in {"opened", "failed"} THEN PrintT(ToJson(Scen1))
  ELSE IF phase \in {"syncing2", "cut2"} /\ phase' \in {"done", "failed"} THEN PrintT(ToJson(Scen2))
  ELSE TRUE
=============================================================================
