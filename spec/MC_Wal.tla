---------------------------- MODULE MC_Wal ----------------------------
(* Model-checking instance of Wal.tla + scenario emission for the replayer (binding B1).
   One JSON line per terminal state: the operation sequence, the crash, the lost sectors, the
   optional appended save and second crash, and the outcome the model predicts. *)
EXTENDS Wal, Json

CONSTANTS EmitOn

EntSizesQ == {5, 53, 70, 140}
AppSizesQ == {5, 64}

LastIdxOf(s) == IF s.ents = <<>> THEN 0 ELSE log[s.ents[Len(s.ents)]].idx
Pred(s) == [ok |-> s.ok, first |-> s.first, rep |-> s.rep, nacc |-> Len(s.acc), nents |-> Len(s.ents),
            lastidx |-> LastIdxOf(s), hs |-> HsVal(s.hs), off |-> s.o, err |-> s.err]

Scen1 == [seg |-> SegWords, meta |-> MetaWords, ops |-> ops', lost |-> crash1'.lost, soff |-> crash1'.soff,
          tail |-> crash1'.tail, app |-> <<>>, lost2 |-> {}, p1 |-> Pred(rec1'), p2 |-> Pred(rec1'), two |-> FALSE,
          dur |-> durable]
Scen2 == [seg |-> SegWords, meta |-> MetaWords, ops |-> ops', lost |-> crash1'.lost, soff |-> crash1'.soff,
          tail |-> crash1'.tail, app |-> app', lost2 |-> crash2'.lost, p1 |-> Pred(rec1'), p2 |-> Pred(rec2'), two |-> TRUE,
          dur |-> durable]

Emit ==
  IF ~EmitOn THEN TRUE
  ELSE IF phase \in {"write", "syncing"} /\ phase' \in {"opened", "failed"} THEN PrintT(ToJson(Scen1))
  ELSE IF phase = "syncing2" /\ phase' \in {"done", "failed"} THEN PrintT(ToJson(Scen2))
  ELSE TRUE
=============================================================================
