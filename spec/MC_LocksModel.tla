--------------------------- MODULE MC_LocksModel ---------------------------
(***************************************************************************)
(* Locks.tla on HAND-WRITTEN programmes: the model must accept the         *)
(* intended discipline of memdb/dblock.go and must find the deadlock of    *)
(* every typical break of it - otherwise "no deadlock among the observed   *)
(* programmes" (MC_Locks) would be vacuous.                                *)
(*                                                                         *)
(* Every single, pair and triple of the programmes below is composed (and  *)
(* the quadruple that needs two pending writers).  lib/locks.py compares   *)
(* the set of combos that print DEADLOCK with the upward closure of        *)
(* ExpectMinimal (a deadlocked combo stays deadlocked when processes are   *)
(* added): equality is required, both ways.                                *)
(***************************************************************************)
EXTENDS Integers, Sequences, SequencesExt, FiniteSets, TLC, Json

W(s) == [op |-> "acq", kind |-> "W", pos |-> s]
R(s) == [op |-> "acq", kind |-> "R", pos |-> s]
w(s) == [op |-> "rel", kind |-> "W", pos |-> s]
r(s) == [op |-> "rel", kind |-> "R", pos |-> s]

Named == <<
  \* ---- the discipline: sorted, de-duplicated, nothing that locks inside a locked region ----
  [n |-> "W1",     s |-> <<W(1), w(1)>>],                                   \* single-key writer (SET, INCR, LPUSH ...)
  [n |-> "R2",     s |-> <<R(2), r(2)>>],                                   \* single-key reader (GET ...)
  [n |-> "LM12",   s |-> <<W(1), W(2), w(1), w(2)>>],                       \* LockMulti {1,2}  (MSET, RENAME, LMOVE, SMOVE)
  [n |-> "LM23",   s |-> <<W(2), W(3), w(2), w(3)>>],
  [n |-> "LM13",   s |-> <<W(1), W(3), w(1), w(3)>>],
  [n |-> "LM123",  s |-> <<W(1), W(2), W(3), w(1), w(2), w(3)>>],
  [n |-> "RM12",   s |-> <<R(1), R(2), r(1), r(2)>>],                       \* RLockMulti {1,2} (SUNION ...)
  [n |-> "RM123",  s |-> <<R(1), R(2), R(3), r(1), r(2), r(3)>>],
  [n |-> "TTL_LM", s |-> <<W(2), w(2), W(1), W(2), w(1), w(2)>>],           \* CheckTTL(key on 2) BEFORE LockMulti {1,2}
  [n |-> "STORE",  s |-> <<R(2), R(3), r(2), r(3), W(1), w(1)>>],           \* S*STORE: read sources, release, then lock the destination
  [n |-> "SEQ321", s |-> <<W(3), w(3), W(2), w(2), W(1), w(1)>>],           \* DEL c b a: one key at a time, any order
  \* ---- breaks ----
  [n |-> "DESC21", s |-> <<W(2), W(1), w(2), w(1)>>],                       \* LockMulti in descending / argument order
  [n |-> "RDESC21",s |-> <<R(2), R(1), r(2), r(1)>>],                       \* RLockMulti in descending order
  [n |-> "REACQ",  s |-> <<W(1), W(2), W(2), w(2), w(1), w(2)>>],           \* CheckTTL(key on 2) INSIDE LockMulti {1,2}
  [n |-> "UPGR",   s |-> <<R(1), W(1), w(1), r(1)>>],                       \* read lock then write lock of the same stripe
  [n |-> "RR1",    s |-> <<R(1), R(1), r(1), r(1)>>],                       \* the same stripe read-locked twice (no de-duplication)
  [n |-> "HOLDSRC",s |-> <<R(2), R(3), W(1), w(1), r(2), r(3)>>]            \* S*STORE locking the destination while holding the sources
>>

Progs == [i \in 1..Len(Named) |-> Named[i].s]
N == Len(Named)
Idx(name) == CHOOSE i \in 1..N : Named[i].n = name

\* all singles and pairs (the same programme may run twice), the triples over the programmes that matter for
\* three-party deadlocks, and the quadruple with a pending writer on each of two stripes
Core == {Idx(x) : x \in {"HOLDSRC", "LM23", "RM12", "RM123", "SEQ321", "DESC21", "W1"}}
Sorted(c) == \A a \in 1..Len(c) - 1 : c[a] <= c[a + 1]
ComboSet == {<<i>> : i \in 1..N}
            \cup {<<i, j>> : i \in 1..N, j \in 1..N}
            \cup {<<i, j, k>> : i \in Core, j \in Core, k \in Core}
            \cup {<<Idx("W1"), Idx("RM12"), Idx("SEQ321"), Idx("RDESC21")>>}
Combos == SetToSeq({c \in ComboSet : Sorted(c)})
NStripes == 3

(* Minimal deadlocking combos (by name), each with its reason:                                                    *)
ExpectMinimal == {
  {"REACQ"},              \* alone: asks for a stripe it holds
  {"UPGR"},               \* alone: its own read lock keeps its write request waiting
  {"DESC21", "LM12"},     \* classic lock-order inversion
  {"DESC21", "LM123"},
  {"DESC21", "TTL_LM"},
  {"DESC21", "RM12"},     \* reader holds 1 and wants 2, writer holds 2 and wants 1
  {"DESC21", "RM123"},
  {"RDESC21", "LM12"},
  {"RDESC21", "LM123"},
  {"RDESC21", "TTL_LM"},
  {"RR1", "W1"},          \* writer preference: the writer announced between the two RLock calls blocks the second one
  {"RR1", "LM12"}, {"RR1", "LM13"}, {"RR1", "LM123"}, {"RR1", "TTL_LM"}, {"RR1", "DESC21"}, {"RR1", "STORE"},
  {"RR1", "SEQ321"}, {"RR1", "HOLDSRC"},
  {"HOLDSRC", "LM12"},    \* holds R2 R3, wants W1; LM12 holds W1, wants W2
  {"HOLDSRC", "LM13"}, {"HOLDSRC", "LM123"}, {"HOLDSRC", "TTL_LM"},
  {"HOLDSRC", "RM12", "SEQ321"},   \* needs a pending writer: RM12 holds R1 and waits behind SEQ321's announced W2, which waits for HOLDSRC's R2
  {"HOLDSRC", "RM123", "SEQ321"},
  {"HOLDSRC", "RM12", "LM23"}, {"HOLDSRC", "RM123", "LM23"},
  {"RDESC21", "RM12", "W1", "SEQ321"}   \* opposite read orders deadlock only with a writer pending on each stripe
}

ASSUME PrintT("EXPECT " \o ToJson([names |-> [i \in 1..N |-> Named[i].n], minimal |-> ExpectMinimal]))

CONSTANT EagerRelease
VARIABLES combo, pc, ann, wm, rd, hist, dead
INSTANCE Locks
=============================================================================
