INIT Init
NEXT Next
POSTCONDITION Post
