----------------------------- MODULE MC_GlobAtoms -----------------------------
(***************************************************************************)
(* C17, beyond the exhaustive length bound: patterns COMPOSED of two and    *)
(* three (thorough: four) atoms - a literal, ?, *, a byte set, a negated     *)
(* set, a range, an escape, an escaped ] inside a set ... - so that what    *)
(* one construct leaves behind meets every other construct (two sets in a   *)
(* row, a set after an escape, a star between sets) at pattern lengths of   *)
(* up to 15 bytes. Same row format as MC_Glob; same subjects.               *)
(***************************************************************************)
EXTENDS Glob, Json, SequencesExt

CONSTANTS NAtoms, Slice, NSlices

Atoms == { <<97>>, <<98>>, <<63>>, <<42>>, <<91,97,93>>, <<91,94,97,93>>, <<91,97,98,93>>, <<91,97,45,98,93>>, <<91,94,97,45,98,93>>,
           <<92,97>>, <<92,42>>, <<91,92,93,93>>, <<45>>, <<93>>, <<91,98,93>>, <<91,94,98,93>> }
SubjAlpha == {97, 98, 45, 93, 92}
Subjects == SetToSeq(UNION {[1..n -> SubjAlpha] : n \in 0..3})
Cat(t) == Flat(t)
Patterns == UNION {{Cat(t) : t \in [1..n -> Atoms]} : n \in 2..NAtoms}
Mine(p) == (SeqSum(p) + Len(p)) % NSlices = Slice

Row(p) == [p |-> p, st |-> PatternStatus(p), r |-> [i \in 1..Len(Subjects) |-> Match(p, Subjects[i])]]

ASSUME PrintT("SUBJECTS " \o ToJson([s |-> Subjects]))
ASSUME \A p \in Patterns : Mine(p) => PrintT("ROW " \o ToJson(Row(p)))

VARIABLE dummy
Init == dummy = 0
Next == UNCHANGED dummy
Spec == Init /\ [][Next]_dummy
=============================================================================
