SPECIFICATION Spec
CONSTANTS
  SectorWords = 64
  SegWords = 256
  MetaWords = 3
  MaxOps = 1
  MaxEnts = 2
  MaxLost = 6
  WithSnap = TRUE
  WithRewrite = TRUE
  WithAppend = TRUE
  ZeroToEndOn = TRUE
  TornShift = 1
  EmitOn = FALSE
  EntSizes <- EntSizesQ
  AppSizes <- AppSizesQ
CONSTRAINT Bound
ACTION_CONSTRAINT Emit
INVARIANTS TypeOK RecoveredIsPrefix TornTailRepairable AppendAfterRecoveryIsClean EntriesContiguous
