SPECIFICATION Spec
CONSTANTS
  MaxIdx = 4
  MaxTerm = 1
  MaxAppend = 4
  MaxCuts = 2
  MaxDamage = 1
  W_EntiAlways = FALSE
  MaxReady = 4
  InstallSaveFirst = FALSE
  SnapshotMustBeInWal = TRUE
  MaxCrash = 1
INVARIANT TypeOK
INVARIANT Acceptable
INVARIANT NothingLost
INVARIANT NothingInvented
CHECK_DEADLOCK FALSE
