SPECIFICATION Spec
CONSTANTS
  Cmds <- HashCmds
  SetupCmds <- HashSetup
  Bound <- HashBound
  T0 = 1000
  Fields <- FieldsThorough
VIEW View
ACTION_CONSTRAINT Emit
INVARIANT TypeOK
PROPERTY ErrorsChangeNothing
CHECK_DEADLOCK FALSE
