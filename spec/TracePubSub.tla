------------------------------ MODULE TracePubSub ------------------------------
(***************************************************************************)
(* Linearizability of recorded Pub/Sub histories against PubSub.tla.       *)
(* Lines (real-time order, global ticket):                                 *)
(*  {"ev":"reset","h":n}                                                   *)
(*  {"ev":"inv","h","id","kind":"sub"|"pub"|"close","c":conn,"chs":[..],  *)
(*   "ch":..,"msg":..,"n":reply,"answered":b}   (reply attached post hoc)  *)
(*  {"ev":"res","h","id"}                                                  *)
(*  {"ev":"recv","h","c":conn,"ch":..,"msg":..}   client read one push     *)
(*  {"ev":"quiet","h"}    every connection drained: all inboxes are empty  *)
(* Same scheme as TraceLin.tla: set of configurations [s, done];           *)
(* operations are linearized just in time, at `res`, `recv` and `quiet`.   *)
(***************************************************************************)
EXTENDS PubSub, Json, IOUtils

Trace == ndJsonDeserialize(IOEnv.TRACE)

VARIABLES l, cands, open, skip, tcp
vars == <<l, cands, open, skip, tcp>>
Init == l = 1 /\ cands = {[s |-> PInit, done |-> {}]} /\ open = <<>> /\ skip = FALSE /\ tcp = FALSE

Apply(s, op) == CASE op.kind = "sub" -> PSubscribe(s, op.c, op.chs)
                  [] op.kind = "pub" -> PPublish(s, op.ch, op.msg)
                  [] OTHER -> PClose(s, op.c)
\* PUBLISH count: the number of subscribers at the linearization point; a subscriber whose close overlaps the publish in
\* real time (op.closing) may or may not be counted (half-closed connections are not observable synchronously)
CountOK(c, op, r) == LET lenient == Cardinality(SubsOf(c.s, op.ch) \cap {op.closing[i] : i \in 1..Len(op.closing)}) IN
                     r.n - lenient <= op.n /\ op.n <= r.n + (IF tcp THEN Cardinality(ZombOf(c.s, op.ch)) ELSE 0)
LinOne(c, id) == LET op == open[id] r == Apply(c.s, op) IN
                 IF op.answered /\ op.kind = "pub" /\ ~CountOK(c, op, r) THEN {} ELSE {[s |-> r.s, done |-> c.done \cup {id}]}
Ext(C) == UNION { UNION {LinOne(c, id) : id \in (DOMAIN open) \ c.done} : c \in C }
RECURSIVE Close(_)
Close(C) == LET N == Ext(C) IN IF N \subseteq C THEN C ELSE Close(C \cup N)

Fail(e, what) == PrintT("PSFAIL " \o ToJson([line |-> l, h |-> e.h, what |-> what, ev |-> e, ncands |-> Cardinality(cands)]))

Step ==
  /\ l <= Len(Trace)
  /\ l' = l + 1
  /\ (Trace[l].ev = "reset" \/ tcp' = tcp)
  /\ LET e == Trace[l] IN
     IF e.ev = "reset" THEN cands' = {[s |-> PInit, done |-> {}]} /\ open' = <<>> /\ skip' = FALSE /\ tcp' = (e.n = 1)
     ELSE IF skip THEN UNCHANGED <<cands, open, skip>>
     ELSE IF e.ev = "inv" THEN
          /\ open' = [x \in (DOMAIN open) \cup {e.id} |-> IF x = e.id THEN e ELSE open[x]]
          /\ UNCHANGED <<cands, skip>>
     ELSE IF e.ev = "res" THEN
          LET ok == {c \in Close(cands) : e.id \in c.done} IN
          IF ok # {} THEN /\ cands' = {[s |-> c.s, done |-> c.done \ {e.id}] : c \in ok}
                          /\ open' = [x \in (DOMAIN open) \ {e.id} |-> open[x]] /\ skip' = FALSE
          ELSE Fail(e, "no linearization explains the reply of this operation (PUBLISH count)") /\ skip' = TRUE /\ UNCHANGED <<cands, open>>
     ELSE IF e.ev = "recv" THEN
          LET ok == {c \in Close(cands) : PRecvOK(c.s, e.c, e.ch, e.msg)} IN
          IF ok # {} THEN cands' = {[s |-> PRecv(c.s, e.c, e.ch), done |-> c.done] : c \in ok} /\ UNCHANGED <<open, skip>>
          ELSE Fail(e, "connection received a push that is not the next message published to it (duplicate, out of order, wrong connection or corrupted)")
               /\ skip' = TRUE /\ UNCHANGED <<cands, open>>
     ELSE \* quiet: nothing may remain undelivered
          LET ok == {c \in cands : \A x \in DOMAIN c.s.inbox : c.s.inbox[x] = <<>>} IN
          IF ok # {} THEN cands' = ok /\ UNCHANGED <<open, skip>>
          ELSE Fail(e, "a published message was never delivered to a connection that was subscribed when it was published") /\ skip' = TRUE /\ UNCHANGED <<cands, open>>

Spec == Init /\ [][Step]_vars
Accepted == TLCGet("stats").diameter - 1 = Len(Trace)
=============================================================================
