------------------------------- MODULE KsZset -------------------------------
(***************************************************************************)
(* Sorted-set commands ZADD / ZREM / ZRANGE (by index, REV, WITHSCORES) /  *)
(* ZRANK from the Redis command reference.  A zset value is a function     *)
(* member -> score with NON-EMPTY domain.  A score is                      *)
(*   [inf |-> -1 | 0 | 1, x |-> exact decimal]  (x ignored when inf # 0).  *)
(* Order among equal scores is left open (DESIGN.md 2.4): ZRANGE replies   *)
(* are "zwin" patterns, ZRANK replies integer ranges.                      *)
(* Code under test: /repo/memdb/sorted_set.go, sorted_set_struct.go,       *)
(* btree.go.                                                               *)
(***************************************************************************)
EXTENDS KsSet

DecZero == [neg |-> FALSE, d |-> <<0>>, sc |-> 0]
ScFin(x) == [inf |-> 0, x |-> [neg |-> x.neg, d |-> x.d, sc |-> x.sc]]
ScInf(sg) == [inf |-> sg, x |-> DecZero]
ScLess(p, q) == IF p.inf # q.inf THEN p.inf < q.inf ELSE (p.inf = 0 /\ DecLess(p.x, q.x))
ScEq(p, q) == p.inf = q.inf /\ (p.inf # 0 \/ DecEq(p.x, q.x))
ScStr(p) == IF p.inf = 1 THEN L_inf ELSE IF p.inf = -1 THEN L_minus_inf ELSE DecStr(p.x)
ScNorm(p) == IF p.inf # 0 THEN p ELSE [inf |-> 0, x |-> DecTrim(p.x)]

\* [ok, corner, nan, s]
ParseScore(b) ==
  LET lw == Lower(b) IN
  IF lw = L_inf \/ lw = L_plus_inf THEN [ok |-> TRUE, corner |-> FALSE, s |-> ScInf(1)]
  ELSE IF lw = L_minus_inf THEN [ok |-> TRUE, corner |-> FALSE, s |-> ScInf(-1)]
  ELSE LET p == ParseDec(b) IN
       IF ~p.ok THEN [ok |-> FALSE, corner |-> FALSE, s |-> ScInf(0)]
       ELSE [ok |-> TRUE, corner |-> p.corner, s |-> ScNorm(ScFin(p))]

\* p + q ; "nan" when inf + -inf
ScAdd(p, q) == IF p.inf # 0 /\ q.inf # 0 /\ p.inf # q.inf THEN [nan |-> TRUE, s |-> p]
               ELSE IF p.inf # 0 THEN [nan |-> FALSE, s |-> p]
               ELSE IF q.inf # 0 THEN [nan |-> FALSE, s |-> q]
               ELSE [nan |-> FALSE, s |-> ScNorm([inf |-> 0, x |-> DecAdd(p.x, q.x)])]

ZOf(s, k) == IF Has(s, k) THEN Val(s, k) ELSE <<>>
PutZ(s, k, f) == IF DOMAIN f = {} THEN DelKeys(s, {k}) ELSE PutKeep(s, k, ZsetV(f))

\* members in ascending (score, then bytes) order - the canonical order used by patterns
RECURSIVE ZSorted(_, _)
ZSorted(f, D) ==
  IF D = {} THEN <<>>
  ELSE LET m == CHOOSE x \in D : \A y \in D : y = x \/ ScLess(f[x], f[y]) \/ (ScEq(f[x], f[y]) /\ BLess(x, y))
       IN <<m>> \o ZSorted(f, D \ {m})

\* ---- ZADD key [NX|XX] [GT|LT] [CH] [INCR] score member [score member ...] ----
RECURSIVE ZOpts(_, _, _)
ZOpts(a, i, acc) ==
  IF i > Len(a) THEN [acc EXCEPT !.first = i]
  ELSE LET w == Lower(a[i]) IN
    IF w = L_nx THEN ZOpts(a, i + 1, [acc EXCEPT !.nx = TRUE])
    ELSE IF w = L_xx THEN ZOpts(a, i + 1, [acc EXCEPT !.xx = TRUE])
    ELSE IF w = L_gt THEN ZOpts(a, i + 1, [acc EXCEPT !.gt = TRUE])
    ELSE IF w = L_lt THEN ZOpts(a, i + 1, [acc EXCEPT !.lt = TRUE])
    ELSE IF w = L_ch THEN ZOpts(a, i + 1, [acc EXCEPT !.ch = TRUE])
    ELSE IF w = L_incr THEN ZOpts(a, i + 1, [acc EXCEPT !.incr = TRUE])
    ELSE [acc EXCEPT !.first = i]

\* apply pairs left to right; acc = [f, added, changed, last (score of last processed), vetoed, nan]
RECURSIVE ZApply(_, _, _, _)
ZApply(a, i, o, acc) ==
  IF i > Len(a) \/ acc.nan THEN acc
  ELSE LET sc == ParseScore(a[i]).s
           m == a[i + 1]
           ex == m \in DOMAIN acc.f
           old == IF ex THEN acc.f[m] ELSE ScInf(0)
           sum == IF o.incr /\ ex THEN ScAdd(old, sc) ELSE [nan |-> FALSE, s |-> sc]
           new == sum.s
           veto == (o.nx /\ ex) \/ (o.xx /\ ~ex) \/ (ex /\ o.gt /\ ~ScLess(old, new)) \/ (ex /\ o.lt /\ ~ScLess(new, old))
       IN IF sum.nan THEN [acc EXCEPT !.nan = TRUE]
          ELSE IF veto THEN ZApply(a, i + 2, o, [acc EXCEPT !.vetoed = TRUE])
          ELSE ZApply(a, i + 2, o, [f |-> FPut(acc.f, m, new),
                                     added |-> acc.added + (IF ex THEN 0 ELSE 1),
                                     changed |-> acc.changed + (IF ex /\ ~ScEq(old, new) THEN 1 ELSE 0),
                                     last |-> new, vetoed |-> FALSE, nan |-> FALSE])

\* Wrong-type key AND invalid argument: the command reference does not fix the error precedence,
\* so either error is allowed (real Redis parses options and scores before it looks the key up).
ErrAltWrong(s, k, b) ==
  IF WrongFor(s, k, "zset") THEN Two(One(RErr, s, b), One(RWrong, s, b \o ".wrongtype_alt")) ELSE One(RErr, s, b)

CmdZAdd(s, now, a) ==
  IF Len(a) < 4 THEN One(RErr, s, "zadd.arity")
  ELSE LET o == ZOpts(a, 3, [nx |-> FALSE, xx |-> FALSE, gt |-> FALSE, lt |-> FALSE, ch |-> FALSE, incr |-> FALSE, first |-> 3])
           np == Len(a) - o.first + 1
           k == a[2]
  IN IF np < 2 \/ np % 2 # 0 THEN ErrAltWrong(s, k, "zadd.syntax.pairs")
     ELSE IF (o.nx /\ o.xx) \/ (o.gt /\ o.lt) \/ (o.nx /\ (o.gt \/ o.lt)) THEN ErrAltWrong(s, k, "zadd.syntax.options")
     ELSE IF o.incr /\ np # 2 THEN ErrAltWrong(s, k, "zadd.syntax.incr_pairs")
     ELSE IF WrongFor(s, k, "zset") THEN
          (IF \E j \in 0..((np \div 2) - 1) : ~ParseScore(a[o.first + 2 * j]).ok
           THEN Two(One(RWrong, s, "zadd.wrongtype"), One(RErr, s, "zadd.wrongtype.badscore_alt"))
           ELSE One(RWrong, s, "zadd.wrongtype"))
     ELSE IF \E j \in 0..((np \div 2) - 1) : ~ParseScore(a[o.first + 2 * j]).ok THEN One(RErr, s, "zadd.badscore")
     ELSE LET r == ZApply(a, o.first, o, [f |-> ZOf(s, k), added |-> 0, changed |-> 0, last |-> ScInf(0), vetoed |-> FALSE, nan |-> FALSE])
              corner == \E j \in 0..((np \div 2) - 1) : ParseScore(a[o.first + 2 * j]).corner
              optcase == \E j \in 3..(o.first - 1) : a[j] # Lower(a[j])
              lbl == "zadd" \o (IF o.nx THEN ".nx" ELSE "") \o (IF o.xx THEN ".xx" ELSE "") \o (IF o.gt THEN ".gt" ELSE "")
                       \o (IF o.lt THEN ".lt" ELSE "") \o (IF o.ch THEN ".ch" ELSE "") \o (IF o.incr THEN ".incr" ELSE "")
                       \o (IF optcase THEN ".optcase" ELSE "")
          IN IF r.nan THEN One(RErr, s, lbl \o ".nan")
             ELSE WithCorner(corner,
                    IF o.incr THEN (IF r.vetoed THEN One(RNil, s, lbl \o ".vetoed")
                                    ELSE One(RStr(ScStr(r.last)), PutZ(s, k, r.f), lbl \o (IF r.added = 1 THEN ".new" ELSE ".existing")))
                    ELSE One(RInt(IF o.ch THEN r.added + r.changed ELSE r.added),
                             IF DOMAIN r.f = {} THEN s ELSE PutZ(s, k, r.f),
                             lbl \o (IF r.added > 0 THEN ".added" ELSE "") \o (IF r.changed > 0 THEN ".changed" ELSE "")
                                 \o (IF r.added = 0 /\ r.changed = 0 THEN ".noop" ELSE "")),
                    s, "zadd.corner")

CmdZRem(s, now, a) ==
  IF Len(a) < 3 THEN One(RErr, s, "zrem.arity")
  ELSE IF WrongFor(s, a[2], "zset") THEN One(RWrong, s, "zrem.wrongtype")
  ELSE LET f == ZOf(s, a[2])
           D == Args(a, 3) \cap DOMAIN f
           f1 == FDel(f, D)
       IN One(RInt(Cardinality(D)), IF Has(s, a[2]) THEN PutZ(s, a[2], f1) ELSE s,
              IF ~Has(s, a[2]) THEN "zrem.missing" ELSE IF D = {} THEN "zrem.none" ELSE IF DOMAIN f1 = {} THEN "zrem.emptied" ELSE "zrem.some")

\* positions (0-based) a member may occupy: lo..hi = (#strictly smaller) .. (#smaller-or-equal - 1)
ZLo(f, m) == Cardinality({x \in DOMAIN f : ScLess(f[x], f[m])})
ZHi(f, m) == Cardinality({x \in DOMAIN f : ~ScLess(f[m], f[x])}) - 1

CmdZRank(s, now, a) ==
  IF Len(a) # 3 THEN One(RErr, s, "zrank.arity")
  ELSE IF WrongFor(s, a[2], "zset") THEN One(RWrong, s, "zrank.wrongtype")
  ELSE LET f == ZOf(s, a[2]) IN
       IF ~(a[3] \in DOMAIN f) THEN One(RNil, s, IF Has(s, a[2]) THEN "zrank.nomember" ELSE "zrank.missing")
       ELSE One(RIntIn(ZLo(f, a[3]), ZHi(f, a[3])), s, IF ZLo(f, a[3]) = ZHi(f, a[3]) THEN "zrank.unique" ELSE "zrank.tied")

\* ---- ZRANGE key start stop [REV] [WITHSCORES] (index form only; other forms are outside C12) ----
RECURSIVE ZROpts(_, _, _)
ZROpts(a, i, acc) ==
  IF i > Len(a) THEN acc
  ELSE LET w == Lower(a[i]) IN
    IF w = L_rev THEN ZROpts(a, i + 1, [acc EXCEPT !.rev = TRUE])
    ELSE IF w = L_withscores THEN ZROpts(a, i + 1, [acc EXCEPT !.ws = TRUE])
    ELSE [acc EXCEPT !.other = TRUE]

\* pattern: a[1] members ascending, a[2] their score strings, a[3] first ascending position (0-based),
\* a[4] count, a[5] rev flag, a[6] withscores flag
RZWin(ms, f, stA, cnt, rev, ws) ==
  Rp("zwin", <<>>, "", << RStrs(ms), RStrs([i \in 1..Len(ms) |-> ScStr(f[ms[i]])]), RInt(stA), RInt(cnt),
                         RInt(IF rev THEN 1 ELSE 0), RInt(IF ws THEN 1 ELSE 0) >>)

CmdZRange(s, now, a) ==
  IF Len(a) < 4 THEN One(RErr, s, "zrange.arity")
  ELSE LET o == ZROpts(a, 5, [rev |-> FALSE, ws |-> FALSE, other |-> FALSE]) IN
    IF o.other THEN One(RAny, s, "zrange.unmodelled_option")
    ELSE LET p1 == ParseSmall(a[3]) p2 == ParseSmall(a[4]) IN
      IF ~p1.ok \/ ~p2.ok THEN ErrAltWrong(s, a[2], "zrange.notint")
      ELSE IF WrongFor(s, a[2], "zset") THEN One(RWrong, s, "zrange.wrongtype")
      ELSE LET f == ZOf(s, a[2])
               n == Cardinality(DOMAIN f)
               w == RangeWindow(n, p1.n, p2.n)
               lbl == "zrange" \o (IF o.rev THEN ".rev" ELSE "") \o (IF o.ws THEN ".withscores" ELSE "")
           IN WithCorner(p1.corner \/ p2.corner,
                IF w = <<>> THEN One(RArr(<<>>), s, lbl \o (IF Has(s, a[2]) THEN ".empty_window" ELSE ".missing"))
                ELSE LET cnt == w[2] - w[1] + 1
                         stA == IF o.rev THEN n - w[1] - cnt ELSE w[1]
                         ties == \E x, y \in DOMAIN f : x # y /\ ScEq(f[x], f[y])
                     IN One(RZWin(ZSorted(f, DOMAIN f), f, stA, cnt, o.rev, o.ws), s,
                            lbl \o (IF p1.n < 0 \/ p2.n < 0 THEN ".negative_idx" ELSE IF cnt = n THEN ".all" ELSE ".window") \o (IF ties THEN ".ties" ELSE "")),
                s, "zrange.corner")
=============================================================================
