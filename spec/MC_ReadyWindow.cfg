SPECIFICATION Spec
CONSTANTS
  MaxTerm = 2
  MaxBatch = 2
  Alias = FALSE
  Families <- TwoLeaders
INVARIANTS TypeOK NoPanic CommittedIsLeaders AppliedIsLeaders AckIsDurable AckedNotLost Quiescent
PROPERTIES ReadyImmutable
VIEW View
ACTION_CONSTRAINT Emit
CHECK_DEADLOCK FALSE
