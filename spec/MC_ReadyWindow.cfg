SPECIFICATION Spec
CONSTANTS
  MaxTerm = 2
  MaxBatch = 2
  WithSnap = TRUE
  Alias = FALSE
  Families <- QuickTwo
INVARIANTS TypeOK NoPanic CommittedIsLeaders AppliedIsLeaders AckIsDurable AckedNotLost Quiescent
PROPERTIES ReadyImmutable
VIEW View
ACTION_CONSTRAINT Emit
CHECK_DEADLOCK FALSE
