SPECIFICATION Spec
CONSTANTS
  Cmds <- ZOptsCmds
  SetupCmds <- ZsetSetup
  Bound <- ZOptsBound
  T0 = 1000
  DeepN = 5
VIEW View
ACTION_CONSTRAINT Emit
INVARIANT TypeOK
PROPERTY ErrorsChangeNothing
CHECK_DEADLOCK FALSE
