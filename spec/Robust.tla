-------------------------------- MODULE Robust --------------------------------
(***************************************************************************)
(* C04: the input space of the robustness check and the server-life        *)
(* monitor.                                                                *)
(*                                                                         *)
(* Input space (every element is executed on the real server):             *)
(*   Enum  = every registered command name (taken from the real CmdTable   *)
(*           at check time) in three letter cases x every argument vector  *)
(*           of length 0..MaxArgs over Tokens                              *)
(*   Mut   = for every valid command instance of every MC_* instance       *)
(*           (their Cmds sets), every single-point mutation Mutations(c)   *)
(* The walker (harness/cmd/robust) enumerates Enum from the TOKENS line     *)
(* and builds Mut with its own implementation of Mutations, which is       *)
(* cross-checked against this definition on the SAMPLE commands printed    *)
(* below (TLC evaluates Mutations, the tool must produce the same sets).   *)
(*                                                                         *)
(* Monitor (evaluated after every input on the real server):               *)
(*   Alive        the executor returned without panic                      *)
(*   Answered     within the bound (timeout + slack for blocking pops)     *)
(*   NoLockHeld   every lock stripe is free at quiescence                  *)
(*   Responsive   probes on the same key, on other keys and a PING still   *)
(*                answer                                                   *)
(***************************************************************************)
EXTENDS Bytes, Json, SequencesExt

T(s) == s   \* tokens are written as byte sequences below

Tokens == <<
  <<>>,                                            \* ""
  <<115,116,114>>, <<108,115,116>>, <<104,115,104>>, <<115,116>>, <<122,115>>, <<120,115>>,   \* str lst hsh st zs xs (one key per type)
  <<110,111,107,101,121>>,                         \* nokey
  <<48>>, <<49>>, <<45,49>>, <<50>>, <<51>>,       \* 0 1 -1 2 3
  BigStr(Int64Max), BigStr(Int64Min), <<57,50,50,51,51,55,50,48,51,54,56,53,52,55,55,53,56,48,56>>,  \* 2^63-1, -2^63, 2^63
  <<49,46,53>>, <<97>>, <<42>>, <<91>>, <<63>>, <<92>>,   \* 1.5 a * [ ? \
  L_nx, L_xx, L_ex, L_px, L_get, L_keepttl, L_withscores, L_rank, L_count, L_maxlen, L_minid, L_left, L_right, L_limit,
  L_ch, L_incr, L_rev, L_nomkstream, L_withvalues,
  L_dash, L_plus, <<53,45,49>>, L_tilde, L_eq, L_star \o <<120>>, <<13,10>>, <<105,110,102>>, <<110,97,110>>,   \* - + 5-1 ~ = *x CRLF inf nan
  <<13>>, <<10>>, <<120,13,13,10,10,43,79,75>>     \* bare CR, bare LF, "x\r\r\n\n+OK" (a line break left behind when only CR LF pairs are stripped)
>>

RangeSeq(q) == {q[i] : i \in 1..Len(q)}
IsIntArg(a) == Len(a) >= 1 /\ LET d == IF a[1] = 45 THEN Tail(a) ELSE a IN Len(d) >= 1 /\ \A i \in 1..Len(d) : d[i] \in 48..57

\* single-point mutations of a command (argv): truncate at each position, delete / duplicate each argument,
\* swap neighbours, replace each argument (not the name) by each token
Mutations(c) ==
       {SubSeq(c, 1, n) : n \in 1..(Len(c) - 1)}
  \cup {SubSeq(c, 1, i - 1) \o SubSeq(c, i + 1, Len(c)) : i \in 2..Len(c)}
  \cup {SubSeq(c, 1, i) \o SubSeq(c, i, Len(c)) : i \in 2..Len(c)}
  \cup {[c EXCEPT ![i] = c[i + 1], ![i + 1] = c[i]] : i \in 2..(Len(c) - 1)}
  \cup {[c EXCEPT ![i] = t] : i \in 2..Len(c), t \in RangeSeq(Tokens)}
  \cup {[i \in 1..Len(c) |-> IF i >= 2 /\ IsIntArg(c[i]) THEN t ELSE c[i]] : t \in RangeSeq(Tokens)}   \* all integer arguments at once

\* The bounded instances use their own key names (l1, h, s1, z, x, k ...); every valid command is mutated twice: as it is,
\* and with its first key replaced by the key of the same family in the fixed initial state of the driver
\* (str lst hsh st zs xs), so that the mutants meet a value of the expected type.
FamilyKey(k) == IF Len(k) = 0 THEN <<115,116,114>>
                ELSE CASE k[1] = 108 -> <<108,115,116>> [] k[1] = 104 -> <<104,115,104>> [] k[1] = 115 -> <<115,116>>
                       [] k[1] = 122 -> <<122,115>>     [] k[1] = 120 -> <<120,115>>     [] OTHER -> <<115,116,114>>
Rekey(c) == IF Len(c) >= 2 THEN [c EXCEPT ![2] = FamilyKey(c[2])] ELSE c

Samples == { <<L_set, <<107>>, <<118>>, L_px, <<49>>>>, <<L_zadd, <<122>>, L_ch, <<49>>, <<97>>>>, <<L_lpos, <<108>>, <<97>>, L_rank, <<49>>>>,
             <<L_getrange, <<107>>, <<48>>, <<49>>>>, <<L_del, <<107>>>> }

ASSUME PrintT("TOKENS " \o ToJson([t |-> Tokens]))
ASSUME \A c \in Samples : PrintT("MUTSAMPLE " \o ToJson([c |-> c, m |-> SetToSeq(Mutations(c))]))
ASSUME \A c \in Samples : PrintT("MUTSAMPLE " \o ToJson([c |-> Rekey(c), m |-> SetToSeq(Mutations(Rekey(c)))]))

VARIABLE dummy
Init == dummy = 0
Next == UNCHANGED dummy
Spec == Init /\ [][Next]_dummy
=============================================================================
