SPECIFICATION VecSpec
CONSTANTS
  Mode = "len"
  MaxLen = 0
  Slice = 0
  NSlices = 1
  Deep = FALSE
  Streams <- NoStreams
CHECK_DEADLOCK FALSE
