CONSTANTS
  Server = {1, 2, 3}
  Campaigners = {1, 2, 3}
  MaxTerm = 1000000
  MaxProposals = 1000000
  MaxCrashes = 1000000
  MaxDrops = 1000000
  MaxDups = 1000000
  MaxHeartbeats = 1000000
  MaxLog = 1000000
  MaxNet = 1000000
  MaxEnts = 1
  LossySend = FALSE
  W_CommitAnyTerm = FALSE
  W_VoteIgnoreVoted = FALSE
  W_VoteIgnoreLog = FALSE
  W_NoPersistVote = FALSE
  W_AppendAlwaysTruncates = FALSE
  W_HeartbeatCommitUnbounded = FALSE
  W_QuorumMinusOne = FALSE
  W_KeepMatchOnReset = FALSE
  PreVote = TRUE
  W_PreVoteRespCountsAsVote = FALSE
  ConfChange = FALSE
  InitVoters = {1, 2, 3}
  AddVoters = {}
  RemoveVoters = {}
  MaxConfChanges = 1000000
  MaxConfRefusals = 1000000
  W_ConfChangeNoPendingCheck = FALSE
  W_AddedVoterCaughtUp = FALSE
INIT TraceInit
NEXT TraceNext
POSTCONDITION TracePost
INVARIANTS ElectionSafety LogMatching StateMachineSafety LeaderCompleteness
