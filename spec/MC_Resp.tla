------------------------------- MODULE MC_Resp -------------------------------
(***************************************************************************)
(* C02 instances of RespParser.tla.  One module, selected by Mode:         *)
(*                                                                         *)
(*  "mc"     model check the chunked parser state machine (Spec) against   *)
(*           the reference decoder on MCStreams: ChunkingIndependence,     *)
(*           OutIsPrefix, NothingAfterStop.                                *)
(*  "exact"  Exactness: DecodeAll(Enc(a1) \o .. \o Enc(ak)) = <<a1..ak>>   *)
(*           for all argv's over an alphabet with CR LF NUL $ * and the    *)
(*           empty string (ASSUME; no vectors printed).                    *)
(*  "wf" "all" "mut" "len"   test-vector emission (binding B1): TLC prints *)
(*           one line  VEC {k,s,c,t,w}  per stream: class label, stream,   *)
(*           DecodeAll(stream).cmds / .term / .why.  harness/cmd/respcheck *)
(*           replays every vector on the real resp.ParseStream under many  *)
(*           read schedules.  Sliced over NSlices independent TLC runs.    *)
(*    wf   well-formed pipelines (exactness asserted on each as well)      *)
(*    all  ALL byte strings over Alpha up to MaxLen                        *)
(*    mut  every single-point mutation of a set of well-formed streams     *)
(*    len  declared lengths -2 -1 0 1 2 2^31 2^63-1 2^63 2^64-1..2^64+2    *)
(*         10^20 in both headers                                             *)
(***************************************************************************)
EXTENDS RespParser, Json

CONSTANTS Mode, MaxLen, Slice, NSlices, Deep

Alpha == {R_STAR, R_DOLLAR, 49, 50, R_MINUS, 97, R_CR, R_LF}          \* * $ 1 2 - a CR LF
MutAlpha == Alpha \cup {48, R_PLUS, R_COLON, 0}                        \* ... 0 + : NUL
Vals == {<<>>, <<97>>, CRLF, <<R_DOLLAR, 49>>, <<R_STAR>>, <<0>>, <<97, 98>>}   \* "" a CRLF $1 * NUL ab

Strings(A, n) == UNION {[1..m -> A] : m \in 0..n}
Argvs(n) == UNION {[1..m -> Vals] : m \in 1..n}

RECURSIVE Hash(_)
Hash(s) == IF s = <<>> THEN 7 ELSE (Hash(Tail(s)) * 31 + Head(s)) % 65521
Mine(s) == Hash(s) % NSlices = Slice

Vec(label, s) == LET d == DecodeAll(s) IN [k |-> label, s |-> s, c |-> d.cmds, t |-> d.term, w |-> d.why]
Emit(label, s) == PrintT("VEC " \o ToJson(Vec(label, s)))

Exact(p) == DecodeAll(EncAll(p)) = [cmds |-> p, term |-> "eof", why |-> "eof"]

(* ------------------------------- mutations ------------------------------ *)
Del(s, i) == SubSeq(s, 1, i - 1) \o SubSeq(s, i + 1, Len(s))
Rep(s, i, b) == [s EXCEPT ![i] = b]
Ins(s, i, b) == SubSeq(s, 1, i) \o <<b>> \o SubSeq(s, i + 1, Len(s))
Mut(s) == {Del(s, i) : i \in 1..Len(s)}
          \cup {Rep(s, i, b) : i \in 1..Len(s), b \in MutAlpha}
          \cup {Ins(s, i, b) : i \in 0..Len(s), b \in MutAlpha}

A_a == <<97>>
A_ab == <<97, 98>>
MutBasesQuick == {
  Enc(<<A_a>>), Enc(<<A_ab, <<>>>>), Enc(<<CRLF, <<R_DOLLAR, 49>>>>), Enc(<<<<R_STAR>>, <<0>>, A_ab>>),
  Enc(<<A_a>>) \o Enc(<<A_ab>>), Enc(<<<<>>>>) \o Enc(<<A_a, A_a>>),
  Enc(<<[i \in 1..10 |-> 97]>>),                                   \* a two-digit bulk length
  Enc([i \in 1..10 |-> A_a]) }                                       \* a two-digit array length
MutBases == IF Deep THEN MutBasesQuick \cup {Enc(a) : a \in Argvs(3)} \cup {Enc(a) \o Enc(b) : a, b \in Argvs(1)}
            ELSE MutBasesQuick

(* --------------------------- declared lengths --------------------------- *)
DeclLens == { <<45,50>>, <<45,49>>, <<48>>, <<49>>, <<50>>,
              <<50,49,52,55,52,56,51,54,52,56>>,                                   \* 2^31
              <<57,50,50,51,51,55,50,48,51,54,56,53,52,55,55,53,56,48,55>>,        \* 2^63-1
              <<57,50,50,51,51,55,50,48,51,54,56,53,52,55,55,53,56,48,56>>,        \* 2^63
              <<45,57,50,50,51,51,55,50,48,51,54,56,53,52,55,55,53,56,48,56>>,     \* -2^63
              \* lengths that do not fit 64 bits and are congruent to -1, 0, 1, 2 modulo 2^64: a length read without an overflow
              \* check would turn them into a null, an empty, a 1- or a 2-byte item that the rest of the stream then satisfies
              <<49,56,52,52,54,55,52,52,48,55,51,55,48,57,53,53,49,54,49,53>>,     \* 2^64-1
              <<49,56,52,52,54,55,52,52,48,55,51,55,48,57,53,53,49,54,49,54>>,     \* 2^64
              <<49,56,52,52,54,55,52,52,48,55,51,55,48,57,53,53,49,54,49,55>>,     \* 2^64+1
              <<49,56,52,52,54,55,52,52,48,55,51,55,48,57,53,53,49,54,49,56>>,     \* 2^64+2
              <<49,48,48,48,48,48,48,48,48,48,48,48,48,48,48,48,48,48,48,48,48>> } \* 10^20
Good == Enc(<<A_a>>)
ArrH(l) == <<R_STAR>> \o l \o CRLF
BulkH(l) == <<R_DOLLAR>> \o l \o CRLF
LenStreams(l) == {
  ArrH(l), BulkH(l),
  ArrH(l) \o EncBulk(A_a), ArrH(l) \o EncBulk(A_a) \o EncBulk(A_a),
  BulkH(l) \o A_a \o CRLF, BulkH(l) \o A_ab \o CRLF, BulkH(l) \o CRLF,
  ArrH(<<49>>) \o BulkH(l) \o A_a \o CRLF, ArrH(<<49>>) \o BulkH(l) \o A_ab \o CRLF, ArrH(<<49>>) \o BulkH(l) \o CRLF,
  ArrH(<<50>>) \o EncBulk(A_a) \o BulkH(l) \o A_a \o CRLF,
  Good \o ArrH(l) \o EncBulk(A_a) \o Good,
  Good \o ArrH(<<49>>) \o BulkH(l) \o A_a \o CRLF \o Good,
  Good \o BulkH(l) \o A_a \o CRLF \o Good }

(* ------------------------------ vector modes ---------------------------- *)
\* (i) well-formed pipelines; exactness is asserted on every one of them
PairArgs == IF Deep THEN 3 ELSE 2
TripleArgs == IF Deep THEN 2 ELSE 1
WfOne(p) == Exact(p) /\ Emit("wf", EncAll(p))
ASSUME Mode = "wf" =>
  /\ \A a \in Argvs(3) : Mine(Enc(a)) => WfOne(<<a>>)
  /\ \A a \in Argvs(PairArgs) : Mine(Enc(a)) => \A b \in Argvs(PairArgs) : WfOne(<<a, b>>)
  /\ \A a \in Argvs(TripleArgs) : Mine(Enc(a)) => \A b, c \in Argvs(TripleArgs) : WfOne(<<a, b, c>>)

\* (ii) all byte strings over Alpha up to MaxLen.  Strings of length >= 3 are sliced by their first two
\* symbols (64 prefixes dealt round-robin to the slices); the 73 shorter ones go to slice 0.
AlphaSeq == <<R_STAR, R_DOLLAR, 49, 50, R_MINUS, 97, R_CR, R_LF>>
ASSUME Mode = "all" =>
  /\ Slice = 0 => \A n \in 0..(IF MaxLen < 2 THEN MaxLen ELSE 2) : \A s \in [1..n -> Alpha] : Emit("all", s)
  /\ \A i, j \in 1..8 : ((i - 1) * 8 + (j - 1)) % NSlices = Slice =>
        \A n \in 1..(MaxLen - 2) : \A s \in [1..n -> Alpha] : Emit("all", <<AlphaSeq[i], AlphaSeq[j]>> \o s)

\* (iii) single-point mutations
ASSUME Mode = "mut" => \A base \in MutBases : Mine(base) => \A s \in Mut(base) : Emit("mut", s)

\* (iv) declared lengths
ASSUME Mode = "len" => \A l \in DeclLens : \A s \in LenStreams(l) : Emit("len", s)

(* ------------------------------- exactness ------------------------------ *)
ExAlpha == {R_CR, R_LF, 0, R_DOLLAR, R_STAR, 97, 49}
ExVals == Strings(ExAlpha, 2)                        \* 57 argument values, among them "" CRLF LFCR "$1" "*1"
ExArgvs == UNION {[1..m -> ExVals] : m \in 1..2}
ASSUME Mode = "exact" =>
  /\ \A a \in ExArgvs : Exact(<<a>>)
  /\ \A a, b \in [1..1 -> ExVals] : Exact(<<a, b>>)
  /\ \A a, b, c \in Argvs(1) : Exact(<<a, b, c>>)
  \* a stream cut anywhere delivers a prefix of the commands and never "eof" inside an item
  /\ \A a \in Argvs(2) : LET s == Enc(<<CRLF>>) \o Enc(a) IN
       \A n \in 0..(Len(s) - 1) : LET d == DecodeAll(SubSeq(s, 1, n)) IN
          /\ PrefixOf(d.cmds, <<<<CRLF>>, a>>)
          /\ d.term = (IF n = 0 \/ n = Len(Enc(<<CRLF>>)) THEN "eof" ELSE "incomplete")

(* ------------------------- state-machine instance ----------------------- *)
MCStreams ==
  Strings(Alpha, MaxLen)
  \cup {Enc(a) : a \in Argvs(2)}
  \cup {Enc(a) \o Enc(b) : a, b \in Argvs(1)}
  \cup UNION {Mut(b) : b \in (IF Deep THEN {Enc(<<A_a>>), Enc(<<CRLF, <<>>>>), Enc(<<A_a>>) \o Enc(<<<<R_STAR>>>>)} ELSE {Enc(<<A_a>>)})}
  \cup UNION {LenStreams(l) : l \in DeclLens}

\* vector modes do not explore the state machine
VecInit == /\ stream = <<>> /\ expect = 0 /\ wire = <<>> /\ buf = <<>> /\ ps = 0 /\ out = <<>> /\ st = "vec"
VecNext == UNCHANGED vars
VecSpec == VecInit /\ [][VecNext]_vars
NoStreams == {}
=============================================================================
