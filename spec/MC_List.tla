------------------------------- MODULE MC_List -------------------------------
(* Bounded instance for C09: list commands over two lists and one string key. *)
EXTENDS MCBase

l1 == <<108, 49>>  l2 == <<108, 50>>  sk == <<115>>
ea == <<97>>  eb == <<98>>
B(i) == IntToBytes(i)
CONSTANT MaxLen1, MaxLen2
Elems == {ea, eb}
LKeys == {l1, l2, sk}
Idx == {-4, -2, -1, 0, 1, 2, 5}
Sides == {L_left, L_right}

ListSetup == << <<L_set, sk, ea>> >>

ListCmds ==
       {<<c, k, e>> : c \in {L_lpush, L_rpush}, k \in LKeys, e \in Elems}
  \cup {<<L_lpush, l1, ea, eb>>, <<L_rpush, l1, ea, eb>>, <<L_lpush, l1>>}
  \cup {<<c, k, ea>> : c \in {L_lpushx, L_rpushx}, k \in LKeys}
  \cup {<<c, k>> : c \in {L_lpop, L_rpop, L_llen}, k \in LKeys}
  \cup {<<c, l1, B(n)>> : c \in {L_lpop, L_rpop}, n \in {0, 1, 2, 5, -1}} \cup {<<L_lpop, l1, ea>>, <<L_lpop, sk, B(1)>>, <<L_lpop, l2, B(0)>>}
  \cup {<<L_lindex, l1, B(i)>> : i \in -4..3} \cup {<<L_lindex, sk, B(0)>>, <<L_lindex, l1, ea>>, <<L_lindex, l2, B(0)>>}
  \cup {<<L_lrange, l1, B(i), B(j)>> : i \in Idx, j \in Idx} \cup {<<L_lrange, sk, B(0), B(-1)>>, <<L_lrange, l2, B(0), B(-1)>>, <<L_lrange, l1, ea, B(0)>>}
  \cup {<<L_lset, l1, B(i), eb>> : i \in {-4, -1, 0, 2, 3}} \cup {<<L_lset, l2, B(0), ea>>, <<L_lset, sk, B(0), ea>>, <<L_lset, l1, ea, ea>>}
  \cup {<<L_lrem, l1, B(c), e>> : c \in {-2, -1, 0, 1, 2}, e \in Elems} \cup {<<L_lrem, sk, B(0), ea>>, <<L_lrem, l2, B(0), ea>>, <<L_lrem, l1, ea, ea>>}
  \cup {<<L_ltrim, l1, B(i), B(j)>> : i \in {-3, -1, 0, 1, 3}, j \in {-3, -1, 0, 1, 3}} \cup {<<L_ltrim, sk, B(0), B(0)>>, <<L_ltrim, l2, B(1), B(0)>>}
  \cup {<<L_lpos, l1, e>> : e \in Elems}
  \cup {<<L_lpos, l1, ea, L_rank, B(r)>> : r \in {1, 2, -1, -2, 0}}
  \cup {<<L_lpos, l1, ea, L_count, B(c)>> : c \in {0, 1, 2, -1}}
  \cup {<<L_lpos, l1, ea, L_maxlen, B(m)>> : m \in {0, 1, 2, -1}}
  \cup {<<L_lpos, l1, ea, L_rank, B(r), L_count, B(c)>> : r \in {2, -1, -2}, c \in {0, 1, 2}}
  \cup {<<L_lpos, l1, ea, L_rank, B(r), L_maxlen, B(m)>> : r \in {1, -1, 2}, m \in {1, 2}}
  \cup {<<L_lpos, l1, ea, L_count, B(c), L_maxlen, B(m)>> : c \in {0, 2}, m \in {1, 2}}
  \cup {<<L_lpos, l1, ea, L_rank, B(-1), L_count, B(0), L_maxlen, B(2)>>, <<L_lpos, l1, ea, L_rank>>, <<L_lpos, sk, ea>>, <<L_lpos, l2, ea, L_count, B(0)>>,
        <<L_lpos, l1, ea, <<82, 65, 78, 75>>, B(1)>>}
  \cup {<<L_lmove, a, b, w1, w2>> : a \in {l1, l2}, b \in {l1, l2}, w1 \in Sides, w2 \in Sides}
  \cup {<<L_lmove, l1, sk, L_left, L_left>>, <<L_lmove, sk, l1, L_left, L_left>>, <<L_lmove, l1, l2, L_left, ea>>, <<L_lmove, l1, l2, <<76, 69, 70, 84>>, <<82, 105, 103, 104, 116>>>>}
  \cup {<<L_exists, l1>>, <<L_type, l1>>, <<L_del, l1>>, <<L_expire, l1, B(100)>>, <<L_ttl, l1>>}

ListBound(s) == \A k \in DOMAIN s.db : s.db[k].t = "list" => Len(s.db[k].v) <= (IF k = l1 THEN MaxLen1 ELSE MaxLen2)
=============================================================================
