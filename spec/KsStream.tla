------------------------------ MODULE KsStream ------------------------------
(***************************************************************************)
(* XADD / XRANGE from the Redis command reference.  A stream value is      *)
(* [t |-> "stream", v |-> sequence of entries, last |-> last generated id] *)
(* where an entry is [id |-> [ms, seq] (big naturals), f |-> <<f1,v1,..>>].*)
(* A stream may be empty but present (after trimming); `last` survives.    *)
(* Code under test: /repo/memdb/stream.go, stream_struct.go.               *)
(***************************************************************************)
EXTENDS KsZset

IdOf(ms, seq) == [ms |-> ms, seq |-> seq]
IdLess(x, y) == BigLess(x.ms, y.ms) \/ (x.ms = y.ms /\ BigLess(x.seq, y.seq))
IdLeq(x, y) == x = y \/ IdLess(x, y)
IdStr(x) == BigStr(x.ms) \o L_dash \o BigStr(x.seq)
IdZero == IdOf(BigZero, BigZero)
BigOne == BigOfInt(1)
SeqMax == [neg |-> FALSE, d |-> <<1,8,4,4,6,7,4,4,0,7,3,7,0,9,5,5,1,6,1,5>>]

ParseNat(b) == LET p == ParseBig(b) IN
  IF p.ok /\ ~p.n.neg /\ ~(Len(b) >= 1 /\ (b[1] = 43 \/ b[1] = 45)) THEN [ok |-> TRUE, corner |-> p.corner, n |-> p.n]
  ELSE [ok |-> FALSE, corner |-> FALSE, n |-> BigZero]

\* kind: "full" ms-seq | "ms" bare ms | "msstar" ms-* | "bad"
ParseId(b) ==
  LET dp == PosOf(b, 45) IN
  IF dp = 0 THEN LET p == ParseNat(b) IN
       IF p.ok THEN [kind |-> "ms", corner |-> p.corner, id |-> IdOf(p.n, BigZero)] ELSE [kind |-> "bad", corner |-> FALSE, id |-> IdZero]
  ELSE LET p1 == ParseNat(SubSeq(b, 1, dp - 1))
           rest == SubSeq(b, dp + 1, Len(b)) IN
       IF ~p1.ok THEN [kind |-> "bad", corner |-> FALSE, id |-> IdZero]
       ELSE IF rest = L_star THEN [kind |-> "msstar", corner |-> p1.corner, id |-> IdOf(p1.n, BigZero)]
       ELSE LET p2 == ParseNat(rest) IN
            IF p2.ok THEN [kind |-> "full", corner |-> p1.corner \/ p2.corner, id |-> IdOf(p1.n, p2.n)]
            ELSE [kind |-> "bad", corner |-> FALSE, id |-> IdZero]

StreamEntries(s, k) == IF Has(s, k) THEN s.db[k].v ELSE <<>>
StreamLast(s, k) == IF Has(s, k) THEN s.db[k].last ELSE IdZero
PutStream(s, k, es, last) == PutKeep(s, k, StreamV(es, last))

\* ---- option parsing: [NOMKSTREAM] [MAXLEN|MINID [=|~] threshold [LIMIT count]] ----
XOpts0 == [ok |-> TRUE, nomk |-> FALSE, trim |-> "none", approx |-> FALSE, th |-> <<>>, limit |-> FALSE, next |-> 3]
RECURSIVE XOpts(_, _, _)
XOpts(a, i, acc) ==
  IF i > Len(a) THEN [acc EXCEPT !.ok = FALSE]
  ELSE LET w == Lower(a[i]) IN
    IF w = L_nomkstream THEN XOpts(a, i + 1, [acc EXCEPT !.nomk = TRUE])
    ELSE IF w = L_maxlen \/ w = L_minid THEN
      (IF acc.trim # "none" \/ i + 1 > Len(a) THEN [acc EXCEPT !.ok = FALSE]
       ELSE LET mod == a[i + 1] = L_tilde \/ a[i + 1] = L_eq
                ti == IF mod THEN i + 2 ELSE i + 1
            IN IF ti > Len(a) THEN [acc EXCEPT !.ok = FALSE]
               ELSE XOpts(a, ti + 1, [acc EXCEPT !.trim = (IF w = L_maxlen THEN "maxlen" ELSE "minid"),
                                                  !.approx = (a[i + 1] = L_tilde), !.th = a[ti]]))
    ELSE IF w = L_limit THEN
      (IF acc.trim = "none" \/ i + 1 > Len(a) \/ ~ParseSmall(a[i + 1]).ok THEN [acc EXCEPT !.ok = FALSE]
       ELSE XOpts(a, i + 2, [acc EXCEPT !.limit = TRUE]))
    ELSE [acc EXCEPT !.next = i]

TrimMax(es, n) == IF Len(es) > n THEN SubSeq(es, Len(es) - n + 1, Len(es)) ELSE es
TrimMin(es, id) == SelectSeq(es, LAMBDA e : ~IdLess(e.id, id))

CmdXAdd(s, now, a, h) ==
  IF Len(a) < 5 THEN One(RErr, s, "xadd.arity")
  ELSE LET o == XOpts(a, 3, XOpts0) k == a[2] IN
    IF ~o.ok \/ (o.limit /\ ~o.approx) THEN One(RErr, s, "xadd.syntax")
    ELSE LET nf == Len(a) - o.next                 \* number of field/value arguments
             idarg == a[o.next]
             auto == idarg = L_star
             pid == IF auto THEN [kind |-> "auto", corner |-> FALSE, id |-> IdZero] ELSE ParseId(idarg)
             thMax == ParseSmall(o.th)
             thMin == ParseId(o.th)
    IN IF nf < 2 \/ nf % 2 # 0 THEN One(RErr, s, "xadd.fields.odd")
       ELSE IF o.trim = "maxlen" /\ (~thMax.ok \/ thMax.n < 0) THEN One(RErr, s, "xadd.maxlen.bad")
       ELSE IF o.trim = "minid" /\ ~(thMin.kind \in {"full", "ms"}) THEN One(RErr, s, "xadd.minid.bad")
       ELSE IF pid.kind = "bad" THEN One(RErr, s, "xadd.id.bad")
       ELSE IF WrongFor(s, k, "stream") THEN One(RWrong, s, "xadd.wrongtype")
       ELSE IF o.nomk /\ ~Has(s, k) THEN One(RNil, s, "xadd.nomkstream.missing")
       ELSE LET last == StreamLast(s, k)
                es == StreamEntries(s, k)
                \* the id this XADD generates, or "none" when it must be rejected
                hid == IF h.k = "str" THEN ParseId(h.v) ELSE [kind |-> "bad", corner |-> FALSE, id |-> IdZero]
                newid ==
                  CASE pid.kind = "full"   -> pid.id
                    [] pid.kind = "ms"     -> pid.id
                    [] pid.kind = "msstar" -> IF pid.id.ms = last.ms THEN IdOf(last.ms, BigAdd(last.seq, BigOne)) ELSE IdOf(pid.id.ms, BigZero)
                    [] OTHER               -> IF hid.kind = "full" THEN hid.id ELSE IdOf(last.ms, BigAdd(last.seq, BigOne))
                \* the sequence part is a signed 64-bit number: after <ms>-9223372036854775807 there is no next id in that
                \* millisecond. An automatic id then either fails (as built: "exhausted the last possible ID") or, when the
                \* millisecond itself is not the last one, moves to <ms+1>-0 (what Redis does); a partial <ms>-* id fails.
                needsNext == (pid.kind = "msstar" /\ pid.id.ms = last.ms) \/ (pid.kind = "auto" /\ hid.kind # "full")
                exhausted == needsNext /\ last.seq = Int64Max
                hidOK == pid.kind # "auto" \/ hid.kind # "full" \/ (InInt64(hid.id.ms) /\ InInt64(hid.id.seq))
                okid == IdLess(last, newid) /\ ~exhausted /\ hidOK
                fields == SubSeq(a, o.next + 1, Len(a))
                es1 == Append(es, [id |-> newid, f |-> fields])
                exact == IF o.trim = "maxlen" THEN TrimMax(es1, thMax.n) ELSE IF o.trim = "minid" THEN TrimMin(es1, thMin.id) ELSE es1
                \* '~' may keep more than the exact trim: any suffix between exact and untrimmed
                keeps == IF o.approx /\ o.trim # "none" THEN [j \in 1..(Len(es1) - Len(exact) + 1) |-> SubSeq(es1, j, Len(es1))]
                         ELSE << exact >>
                lbl == "xadd" \o (IF o.nomk THEN ".nomkstream" ELSE "")
                         \o (IF auto THEN ".id.auto" ELSE IF pid.kind = "msstar" THEN ".id.partial" ELSE IF pid.kind = "ms" THEN ".id.bare_ms" ELSE ".id.explicit")
                         \o (IF Has(s, k) THEN "" ELSE ".newkey")
                         \o (IF o.trim = "none" THEN "" ELSE "." \o o.trim \o (IF o.approx THEN ".approx" ELSE "") \o (IF Len(exact) < Len(es1) THEN ".trim" ELSE ".noop"))
            IN IF exhausted THEN One(RErr, s, "xadd.id.exhausted")
               ELSE IF ~okid THEN One(RErr, s, IF newid = last THEN "xadd.id.eq" ELSE "xadd.id.lt")
               ELSE LET outs == [j \in 1..Len(keeps) |-> Out(RStr(IdStr(newid)), PutStream(s, k, keeps[j], newid), lbl)]
                    IN IF pid.kind = "ms" \/ pid.corner THEN AltErr(outs, s, lbl \o ".err_alt") ELSE outs

\* ---- XRANGE key start end [COUNT n] ----
ParseBound(b, isEnd) ==
  IF b = L_dash THEN [ok |-> TRUE, id |-> IdZero, corner |-> FALSE]
  \* "+" is the greatest id there can be; both parts of an id are signed 64-bit numbers here (ParseNat), so that is
  \* Int64Max-Int64Max: a stream whose last entry carries that id returns it for XRANGE + +
  ELSE IF b = L_plus THEN [ok |-> TRUE, id |-> IdOf(Int64Max, Int64Max), corner |-> FALSE]
  ELSE LET p == ParseId(b) IN
       IF p.kind = "full" THEN [ok |-> TRUE, id |-> p.id, corner |-> p.corner]
       ELSE IF p.kind = "ms" THEN [ok |-> TRUE, id |-> IdOf(p.id.ms, IF isEnd THEN SeqMax ELSE BigZero), corner |-> p.corner]
       ELSE [ok |-> FALSE, id |-> IdZero, corner |-> FALSE]

EntryReply(e) == RArr(<< RStr(IdStr(e.id)), RStrs(e.f) >>)

CmdXRange(s, now, a) ==
  IF Len(a) # 4 /\ Len(a) # 6 THEN One(RErr, s, "xrange.arity")
  ELSE IF Len(a) = 6 /\ Lower(a[5]) # L_count THEN One(RErr, s, "xrange.syntax")
  ELSE LET lo == ParseBound(a[3], FALSE)
           hi == ParseBound(a[4], TRUE)
           cnt == IF Len(a) = 6 THEN ParseSmall(a[6]) ELSE [ok |-> TRUE, corner |-> FALSE, n |-> 1000000000]
  IN IF (Len(a[3]) >= 1 /\ a[3][1] = 40) \/ (Len(a[4]) >= 1 /\ a[4][1] = 40) THEN One(RAny, s, "xrange.unmodelled_exclusive")
     ELSE IF ~lo.ok \/ ~hi.ok THEN One(RErr, s, "xrange.badid")
     ELSE IF ~cnt.ok THEN One(RErr, s, "xrange.badcount")
     ELSE IF WrongFor(s, a[2], "stream") THEN One(RWrong, s, "xrange.wrongtype")
     ELSE LET es == StreamEntries(s, a[2])
              sel == SelectSeq(es, LAMBDA e : IdLeq(lo.id, e.id) /\ IdLeq(e.id, hi.id))
              res == IF cnt.n <= 0 THEN <<>> ELSE Take(sel, cnt.n)
              lbl == "xrange" \o (IF ~Has(s, a[2]) THEN ".missing" ELSE IF res = <<>> THEN ".empty" ELSE IF Len(res) = Len(es) THEN ".all" ELSE ".window")
                       \o (IF Len(a) = 6 THEN ".count" ELSE "")
          IN WithCorner(lo.corner \/ hi.corner \/ cnt.corner,
                        One(RArr([i \in 1..Len(res) |-> EntryReply(res[i])]), s, lbl), s, "xrange.corner")
=============================================================================
