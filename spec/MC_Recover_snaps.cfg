SPECIFICATION Spec
CONSTANTS
  MaxIdx = 4
  MaxTerm = 1
  MaxAppend = 4
  MaxReady = 4
  InstallSaveFirst = FALSE
  SnapshotMustBeInWal = TRUE
  MaxCrash = 1
INVARIANT TypeOK
INVARIANT Acceptable
INVARIANT NothingLost
INVARIANT NothingInvented
CHECK_DEADLOCK FALSE
