------------------------------ MODULE MC_Locks ------------------------------
(***************************************************************************)
(* B3 for C13: Locks.tla instantiated with the lock programmes OBSERVED on *)
(* the real code (harness/cmd/lockobs, hook H1) - the "as-observed"        *)
(* instance.  lib/locks.py writes the file named by the environment        *)
(* variable LOCKS:                                                         *)
(*   { "nstripes": n,                                                      *)
(*     "progs":  [ [ {"op":"acq"|"rel","kind":"R"|"W","pos":1..n}, ... ], ... ],  *)
(*     "combos": [ [i], [i,j], [i,j,k], ... ] }     indexes into progs     *)
(* progs holds the distinct SEGMENTS of the observed programmes (a segment *)
(* runs from "holds nothing" to "holds nothing"; a deadlock of whole       *)
(* programmes is a deadlock of one segment of each unfinished process, and *)
(* vice versa, so all pairs and triples of segments cover all pairs and    *)
(* triples of commands) and, as a cross-check, sampled whole programmes.   *)
(* Every deadlock state prints "DEADLOCK {combo, sched, ...}"; the sched   *)
(* is replayed on the real code by `lockobs replay`.                       *)
(***************************************************************************)
EXTENDS Integers, Sequences, FiniteSets, TLC, Json, IOUtils

Input == JsonDeserialize(IOEnv.LOCKS)
Progs == Input.progs
Combos == Input.combos
NStripes == Input.nstripes

ASSUME PrintT("INPUT " \o ToJson([progs |-> Len(Progs), combos |-> Len(Combos), nstripes |-> NStripes]))

CONSTANT EagerRelease
VARIABLES combo, pc, ann, wm, rd, hist, dead
INSTANCE Locks
=============================================================================
