------------------------------- MODULE KsKeys -------------------------------
(***************************************************************************)
(* Generic key commands: DEL EXISTS TYPE RENAME KEYS PING EXPIRE PERSIST   *)
(* TTL.  Code under test: /repo/memdb/keys.go, /repo/memdb/db.go (TTL).    *)
(***************************************************************************)
EXTENDS KsString, Glob

CmdDel(s, now, a) ==
  IF Len(a) < 2 THEN One(RErr, s, "del.arity")
  ELSE LET K == {a[i] : i \in 2..Len(a)} \cap DOMAIN s.db IN
       One(RInt(Cardinality(K)), DelKeys(s, K), IF K = {} THEN "del.none" ELSE IF Len(a) > 2 THEN "del.multi" ELSE "del.one")

CmdExists(s, now, a) ==
  IF Len(a) < 2 THEN One(RErr, s, "exists.arity")
  ELSE One(RInt(Cardinality({i \in 2..Len(a) : Has(s, a[i])})), s, IF Len(a) > 2 THEN "exists.multi" ELSE "exists.one")

TypeName(v) == CASE v.t = "string" -> L_string [] v.t = "list" -> L_list [] v.t = "hash" -> L_hash
                 [] v.t = "set" -> L_set [] v.t = "zset" -> L_zset [] v.t = "stream" -> L_stream

CmdType(s, now, a) ==
  IF Len(a) # 2 THEN One(RErr, s, "type.arity")
  ELSE IF ~Has(s, a[2]) THEN One(RStr(L_none), s, "type.none")
  ELSE One(RStr(TypeName(s.db[a[2]])), s, "type." \o s.db[a[2]].t)

CmdRename(s, now, a) ==
  IF Len(a) # 3 THEN One(RErr, s, "rename.arity")
  ELSE LET src == a[2] dst == a[3] IN
    IF ~Has(s, src) THEN One(RErr, s, "rename.missing")
    ELSE IF src = dst THEN One(ROK, s, "rename.same")
    ELSE LET s1 == DelKeys(s, {src, dst})
             s2 == PutClear(s1, dst, s.db[src])
             s3 == IF HasExp(s, src) THEN SetExp(s2, dst, s.exp[src].lo, s.exp[src].hi) ELSE s2
         IN One(ROK, s3, (IF Has(s, dst) THEN "rename.replace" ELSE "rename.fresh") \o (IF HasExp(s, src) THEN ".ttl" ELSE ""))

CmdKeys(s, now, a) ==
  IF Len(a) # 2 THEN One(RErr, s, "keys.arity")
  ELSE IF PatternStatus(a[2]) = "unspec" THEN One(RAny, s, "keys.unspecified_pattern")
  ELSE One(RUStrs(SortBytes({k \in DOMAIN s.db : Match(a[2], k) = "T"})), s,
           IF PatternStatus(a[2]) = "bad" THEN "keys.broken_pattern" ELSE "keys.ok")

CmdPing(s, now, a) ==
  IF Len(a) > 2 THEN One(RErr, s, "ping.arity")
  ELSE IF Len(a) = 1 THEN One(RStr(L_PONG), s, "ping.pong") ELSE One(RStr(a[2]), s, "ping.echo")

\* ---- EXPIRE key seconds [NX|XX|GT|LT] ----
RECURSIVE ExpFlags(_, _, _)
ExpFlags(a, i, acc) ==
  IF i > Len(a) THEN acc
  ELSE LET w == Lower(a[i]) IN
    IF w = L_nx THEN ExpFlags(a, i + 1, [acc EXCEPT !.nx = TRUE])
    ELSE IF w = L_xx THEN ExpFlags(a, i + 1, [acc EXCEPT !.xx = TRUE])
    ELSE IF w = L_gt THEN ExpFlags(a, i + 1, [acc EXCEPT !.gt = TRUE])
    ELSE IF w = L_lt THEN ExpFlags(a, i + 1, [acc EXCEPT !.lt = TRUE])
    ELSE [acc EXCEPT !.ok = FALSE]

CmdExpire(s, now, a) ==
  IF Len(a) < 3 THEN One(RErr, s, "expire.arity")
  ELSE LET f == ExpFlags(a, 4, [ok |-> TRUE, nx |-> FALSE, xx |-> FALSE, gt |-> FALSE, lt |-> FALSE])
           p == ParseSmall(a[3])
           k == a[2]
  IN IF ~p.ok THEN One(RErr, s, "expire.notint")
     ELSE IF ~f.ok \/ (f.nx /\ (f.xx \/ f.gt \/ f.lt)) \/ (f.gt /\ f.lt) THEN One(RErr, s, "expire.syntax")
     ELSE IF ~Has(s, k) THEN One(RInt(0), s, "expire.missing")
     ELSE LET newd == now + Clamp8(IF p.n < 0 - 100000000 THEN 0 - 100000000 ELSE p.n)
              has  == HasExp(s, k)
              cur  == IF has THEN s.exp[k] ELSE [lo |-> 0, hi |-> 0]
              \* each condition: "yes" | "no" | "maybe" (tie within the one-second granularity)
              cNX == IF ~f.nx THEN "yes" ELSE IF has THEN "no" ELSE "yes"
              cXX == IF ~f.xx THEN "yes" ELSE IF has THEN "yes" ELSE "no"
              cGT == IF ~f.gt THEN "yes" ELSE IF ~has THEN "no" ELSE IF newd > cur.hi THEN "yes" ELSE IF newd < cur.lo THEN "no" ELSE "maybe"
              cLT == IF ~f.lt THEN "yes" ELSE IF ~has THEN "yes" ELSE IF newd < cur.lo THEN "yes" ELSE IF newd > cur.hi THEN "no" ELSE "maybe"
              conds == {cNX, cXX, cGT, cLT}
              lbl == "expire" \o (IF f.nx THEN ".nx" ELSE "") \o (IF f.xx THEN ".xx" ELSE "") \o (IF f.gt THEN ".gt" ELSE "") \o (IF f.lt THEN ".lt" ELSE "")
                       \o (IF has THEN ".hasttl" ELSE ".nottl")
              doit == IF p.n <= 0 THEN One(RInt(1), DelKeys(s, {k}), lbl \o ".nonpositive")
                      ELSE One(RInt(1), SetExp(s, k, newd, newd), lbl \o ".set")
              veto == One(RInt(0), s, lbl \o (IF p.n <= 0 THEN ".nonpositive" ELSE "") \o ".vetoed")   \* a vetoed EXPIRE changes nothing, whatever the time
          IN WithCorner(p.corner,
                        IF "no" \in conds THEN veto ELSE IF "maybe" \in conds THEN Two(doit, veto) ELSE doit,
                        s, "expire.corner")

CmdPersist(s, now, a) ==
  IF Len(a) # 2 THEN One(RErr, s, "persist.arity")
  ELSE IF Has(s, a[2]) /\ HasExp(s, a[2]) THEN One(RInt(1), ClearExp(s, a[2]), "persist.cleared")
  ELSE One(RInt(0), s, IF Has(s, a[2]) THEN "persist.nottl" ELSE "persist.missing")

CmdTtl(s, now, a) ==
  IF Len(a) # 2 THEN One(RErr, s, "ttl.arity")
  ELSE IF ~Has(s, a[2]) THEN One(RInt(-2), s, "ttl.missing")
  ELSE IF ~HasExp(s, a[2]) THEN One(RInt(-1), s, "ttl.nottl")
  ELSE LET e == s.exp[a[2]] IN One(RIntIn(Max2(0, e.lo - now - 1), e.hi - now + 1), s, "ttl.remaining")
=============================================================================
