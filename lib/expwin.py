"""Expiry-window phase of C04 (and a hang monitor for C06): every command against keys whose deadline second has passed
while the purge timer has not fired yet, and against keys whose timer is firing at that very moment.

RedisGO arms the purge timer with the time-to-live counted from the instant the deadline was set, while the deadline
itself is a whole unix second: a deadline set at S+0.7 with a TTL of 1 s passes at S+1.0 and the timer fires at S+1.7.
In between the key is "expired but present": every executor's lazy-expiry path (CheckTTL, which takes the key's write
lock itself) runs there, from whatever locking context the executor is in. The phase is run on the real server binary
over TCP: one connection per command, all fired inside the window (variant A) or at the instant the timers fire
(variant B); the verdicts are C04's - the command answers, a later write on the same key answers, another connection
answers, the process lives."""
import socket, threading, time
import server

TYPES = {
    "string": [["SET", "{k}", "10"]],
    "list": [["RPUSH", "{k}", "a", "b", "c"]],
    "hash": [["HSET", "{k}", "f", "1", "g", "x"]],
    "set": [["SADD", "{k}", "a", "b", "c"]],
    "zset": [["ZADD", "{k}", "1", "a", "2", "b"]],
    "stream": [["XADD", "{k}", "1-1", "f", "v"]],
}

# commands per type; {k} = expiring key of that type, {k2} = a second expiring key of that type, {d} = a key without deadline
CMDS = {
    "string": [["GET", "{k}"], ["SET", "{k}", "v"], ["SET", "{k}", "v", "XX"], ["SET", "{k}", "v", "NX"], ["SET", "{k}", "v", "GET"], ["SET", "{k}", "v", "KEEPTTL"],
               ["SET", "{k}", "v", "EX", "10"], ["SETNX", "{k}", "v"], ["SETEX", "{k}", "10", "v"], ["MSET", "{k}", "v", "{k2}", "v"], ["MGET", "{k}", "{k2}"],
               ["APPEND", "{k}", "x"], ["STRLEN", "{k}"], ["GETRANGE", "{k}", "0", "-1"], ["SETRANGE", "{k}", "0", "x"], ["INCR", "{k}"], ["DECR", "{k}"],
               ["INCRBY", "{k}", "2"], ["DECRBY", "{k}", "2"], ["INCRBYFLOAT", "{k}", "1.5"], ["DEL", "{k}"], ["DEL", "{k}", "{k2}"], ["EXISTS", "{k}"],
               ["EXISTS", "{k}", "{k2}", "{k}"], ["TYPE", "{k}"], ["RENAME", "{k}", "{k2}"], ["RENAME", "{k}", "{d}"], ["RENAME", "{d}", "{k}"], ["RENAME", "{k}", "{k}"],
               ["KEYS", "*"], ["EXPIRE", "{k}", "10"], ["EXPIRE", "{k}", "10", "NX"], ["EXPIRE", "{k}", "10", "XX"], ["EXPIRE", "{k}", "10", "GT"],
               ["EXPIRE", "{k}", "10", "LT"], ["EXPIRE", "{k}", "0"], ["PERSIST", "{k}"], ["TTL", "{k}"]],
    "list": [["LPUSH", "{k}", "x"], ["RPUSH", "{k}", "x"], ["LPUSHX", "{k}", "x"], ["RPUSHX", "{k}", "x"], ["LPOP", "{k}"], ["RPOP", "{k}"], ["LPOP", "{k}", "2"],
             ["LLEN", "{k}"], ["LINDEX", "{k}", "0"], ["LRANGE", "{k}", "0", "-1"], ["LSET", "{k}", "0", "x"], ["LREM", "{k}", "0", "a"], ["LTRIM", "{k}", "0", "0"],
             ["LPOS", "{k}", "a"], ["LMOVE", "{k}", "{k2}", "LEFT", "RIGHT"], ["LMOVE", "{k}", "{k}", "LEFT", "RIGHT"], ["LMOVE", "{k}", "{d}", "LEFT", "RIGHT"],
             ["LMOVE", "{d}", "{k}", "LEFT", "RIGHT"], ["BLPOP", "{k}", "1"], ["BRPOP", "{k}", "1"], ["BLPOP", "{k2}", "{k}", "1"], ["DEL", "{k}"], ["EXISTS", "{k}"],
             ["TYPE", "{k}"], ["TTL", "{k}"], ["PERSIST", "{k}"], ["EXPIRE", "{k}", "10"], ["RENAME", "{k}", "{k2}"], ["GET", "{k}"], ["SET", "{k}", "v"], ["SADD", "{k}", "a"]],
    "hash": [["HSET", "{k}", "h", "v"], ["HSETNX", "{k}", "h", "v"], ["HGET", "{k}", "f"], ["HMGET", "{k}", "f", "g"], ["HGETALL", "{k}"], ["HKEYS", "{k}"], ["HVALS", "{k}"],
             ["HLEN", "{k}"], ["HEXISTS", "{k}", "f"], ["HSTRLEN", "{k}", "f"], ["HDEL", "{k}", "f"], ["HDEL", "{k}", "f", "g"], ["HINCRBY", "{k}", "f", "1"],
             ["HINCRBYFLOAT", "{k}", "f", "1.5"], ["HRANDFIELD", "{k}"], ["HRANDFIELD", "{k}", "2", "WITHVALUES"], ["DEL", "{k}"], ["TYPE", "{k}"], ["TTL", "{k}"],
             ["RENAME", "{k}", "{k2}"], ["LPUSH", "{k}", "x"], ["INCR", "{k}"]],
    "set": [["SADD", "{k}", "x"], ["SREM", "{k}", "a"], ["SREM", "{k}", "a", "b", "c"], ["SISMEMBER", "{k}", "a"], ["SCARD", "{k}"], ["SMEMBERS", "{k}"],
            ["SMOVE", "{k}", "{k2}", "a"], ["SMOVE", "{k}", "{d}", "a"], ["SMOVE", "{d}", "{k}", "q"], ["SMOVE", "{k}", "{k}", "a"], ["SPOP", "{k}"], ["SPOP", "{k}", "5"],
            ["SRANDMEMBER", "{k}"], ["SRANDMEMBER", "{k}", "-3"], ["SUNION", "{k}", "{k2}"], ["SINTER", "{k}", "{k2}"], ["SDIFF", "{k}", "{k2}"], ["SUNIONSTORE", "{k2}", "{k}"],
            ["SUNIONSTORE", "{k}", "{k}", "{k2}"], ["SINTERSTORE", "{d}", "{k}", "{k2}"], ["SDIFFSTORE", "{d}", "{k}", "{k2}"], ["SDIFFSTORE", "{k}", "{d}"],
            ["DEL", "{k}"], ["TYPE", "{k}"], ["TTL", "{k}"], ["RENAME", "{k}", "{k2}"], ["GET", "{k}"], ["HSET", "{k}", "f", "v"]],
    "zset": [["ZADD", "{k}", "3", "c"], ["ZADD", "{k}", "XX", "CH", "5", "a"], ["ZADD", "{k}", "NX", "5", "z"], ["ZADD", "{k}", "INCR", "1", "a"], ["ZREM", "{k}", "a"],
             ["ZREM", "{k}", "a", "b"], ["ZRANGE", "{k}", "0", "-1"], ["ZRANGE", "{k}", "0", "-1", "WITHSCORES"], ["ZRANGE", "{k}", "0", "-1", "REV"], ["ZRANK", "{k}", "a"],
             ["DEL", "{k}"], ["TYPE", "{k}"], ["TTL", "{k}"], ["RENAME", "{k}", "{k2}"], ["GET", "{k}"], ["SADD", "{k}", "x"]],
    "stream": [["XADD", "{k}", "5-1", "f", "v"], ["XADD", "{k}", "*", "f", "v"], ["XADD", "{k}", "MAXLEN", "1", "6-1", "f", "v"], ["XADD", "{k}", "NOMKSTREAM", "7-1", "f", "v"],
               ["XADD", "{k}", "MINID", "2-0", "8-1", "f", "v"], ["XRANGE", "{k}", "-", "+"], ["XRANGE", "{k}", "1", "2"], ["DEL", "{k}"], ["TYPE", "{k}"], ["TTL", "{k}"],
               ["RENAME", "{k}", "{k2}"], ["GET", "{k}"], ["LPUSH", "{k}", "x"]],
}
BLOCKING = {"BLPOP", "BRPOP"}


def cases():
    out = []
    for typ, cmds in CMDS.items():
        for c in cmds:
            i = len(out)
            names = {"k": "e%da" % i, "k2": "e%db" % i, "d": "e%dd" % i}
            argv = [a.format(**names) for a in c]
            out.append({"i": i, "type": typ, "argv": argv, "keys": names})
    return out


def _sleep_until(t):
    d = t - time.time()
    if d > 0:
        time.sleep(d)


def run_variant(variant, seed=1):
    """variant 'window': commands fired 60 ms after the deadline second has begun (timers fire ~0.6 s later);
    'timer': commands fired at the instant the purge timers fire. Returns (anomalies, stats)."""
    cs = cases()
    srv = server.Server()
    anomalies = []
    stats = {"variant": variant, "commands": len(cs), "answered": 0, "blocking_nil": 0}
    try:
        setup = srv.client(timeout=10.0)
        for c in cs:
            for key in ("k", "k2", "d"):
                for s in TYPES[c["type"]]:
                    setup.cmd(*[a.format(k=c["keys"][key]) for a in s])
        conns = []
        for c in cs:
            conns.append(srv.client(timeout=10.0))
        other = srv.client(timeout=10.0)
        # set the deadlines at S+0.62 .. S+0.70: deadline second S+1, timers at S+1.62 .. S+1.70
        now = time.time()
        S = int(now) + (1 if now - int(now) > 0.5 else 0)
        _sleep_until(S + 0.62)
        t_set0 = time.time()
        pipe = b"".join(server.encode(["EXPIRE", c["keys"][key], "1"]) for c in cs for key in ("k", "k2"))
        setup.send_raw(pipe)
        for _ in range(2 * len(cs)):
            setup.read_reply(timeout=10.0)
        t_set1 = time.time()
        if int(t_set0) != int(t_set1):
            return None, dict(stats, inconclusive="deadlines straddle a second boundary (machine too slow)")
        S = int(t_set0)
        fire = S + 1.06 if variant == "window" else t_set0 + 1.0 - 0.004
        results = [None] * len(cs)

        def one(i):
            c, conn = cs[i], conns[i]
            try:
                _sleep_until(fire)
                t0 = time.time()
                r = conn.cmd(*c["argv"], timeout=8.0)
                results[i] = ("ok", r, time.time() - t0)
            except (socket.timeout, TimeoutError):
                results[i] = ("timeout", None, 8.0)
            except Exception as e:
                results[i] = ("error", repr(e), 0)

        th = [threading.Thread(target=one, args=(i,)) for i in range(len(cs))]
        for t in th:
            t.start()
        for t in th:
            t.join(timeout=30)
        stats["fired_at_fraction"] = round(fire - int(fire), 3)
        time.sleep(0.1)
        if not srv.alive():
            anomalies.append({"kind": "process-death", "argv": None, "detail": srv.tail(1500), "variant": variant})
            return anomalies, stats
        for i, c in enumerate(cs):
            kind, r, dt = results[i] or ("timeout", None, 30)
            name = c["argv"][0].upper()
            if kind == "ok":
                stats["answered"] += 1
                if dt > (2.5 if name in BLOCKING else 1.5):
                    stats["slow_replies"] = stats.get("slow_replies", 0) + 1     # latency under load is not a verdict; only a missing reply is
            elif kind == "timeout":
                anomalies.append({"kind": "hang", "argv": c["argv"], "type": c["type"], "detail": "no reply within 8 s", "variant": variant})
            else:
                anomalies.append({"kind": "connection-lost", "argv": c["argv"], "type": c["type"], "detail": str(r), "variant": variant})
        # the other connection and a later write on every key concerned
        try:
            if other.cmd("PING", timeout=8.0)[0] != "+":
                anomalies.append({"kind": "other-connection", "argv": None, "detail": "PING on another connection not answered with PONG", "variant": variant})
        except Exception:
            anomalies.append({"kind": "other-connection", "argv": None, "detail": "another connection no longer answers PING", "variant": variant})
        probe = srv.client(timeout=8.0)
        wedged = []
        for c in cs:
            for key in ("k", "k2", "d"):
                try:
                    probe.cmd("DEL", c["keys"][key], timeout=4.0)
                except Exception:
                    wedged.append((c, key))
                    try:
                        probe.close()
                    except Exception:
                        pass
                    probe = srv.client(timeout=8.0)
                    if len(wedged) > 6:
                        break
            if len(wedged) > 6:
                break
        for c, key in wedged:
            anomalies.append({"kind": "wedged-key", "argv": c["argv"], "type": c["type"], "variant": variant,
                              "detail": "DEL %s on a fresh connection after the command: no reply within 4 s (lock stripe left held)" % c["keys"][key]})
        return anomalies, stats
    finally:
        srv.stop()


def busy_expiry(seed=1, nkeys=48, readers=8):
    """C06 under load: keys of several types get a one-second deadline while reader connections hammer exactly those keys
    (and their lock stripes) across the deadline. One full second after the deadline second has ended every key must be
    invisible to every command, however busy its stripe was at the instant its purge timer fired."""
    import random
    rnd = random.Random(seed)
    srv = server.Server()
    problems, stats = [], {"keys": nkeys, "readers": readers, "reads": 0}
    try:
        c = srv.client(timeout=10.0)
        keys = []
        for i in range(nkeys):
            typ = ("string", "zset", "list", "hash")[i % 4]
            k = "busy%d" % i
            if typ == "string":
                c.cmd("SET", k, "v%d" % i)
            elif typ == "zset":
                c.cmd("ZADD", k, *[x for j in range(200) for x in (str(j), "m%d" % j)])
            elif typ == "list":
                c.cmd("RPUSH", k, *["e%d" % j for j in range(200)])
            else:
                c.cmd("HSET", k, *[x for j in range(100) for x in ("f%d" % j, "v%d" % j)])
            keys.append((k, typ))
        now = time.time()
        S = int(now) + 1
        _sleep_until(S + 0.45)
        t0 = time.time()
        c.send_raw(b"".join(server.encode(["EXPIRE", k, "1"]) for k, _ in keys))
        for _ in keys:
            c.read_reply(timeout=10.0)
        if int(time.time()) != int(t0):
            return None, dict(stats, inconclusive="deadlines straddle a second boundary")
        S = int(t0)
        stop = threading.Event()
        counts = [0] * readers

        def reader(i):
            r = random.Random(seed * 31 + i)
            try:
                rc = srv.client(timeout=10.0)
                while not stop.is_set():
                    k, typ = keys[r.randrange(len(keys))]
                    cmd = {"string": ["GET", k], "zset": ["ZRANGE", k, "0", "-1"], "list": ["LRANGE", k, "0", "-1"], "hash": ["HGETALL", k]}[typ]
                    rc.cmd(*cmd, timeout=10.0)
                    counts[i] += 1
                rc.close()
            except Exception:
                pass

        ts = [threading.Thread(target=reader, args=(i,)) for i in range(readers)]
        for t in ts:
            t.start()
        _sleep_until(S + 2.0 + 0.35)       # deadline second S+1 has ended at S+2: certainly gone from S+2 on
        stop.set()
        for t in ts:
            t.join(timeout=20)
        stats["reads"] = sum(counts)
        if not srv.alive():
            return [{"kind": "process-death", "key": None, "detail": srv.tail(1200)}], stats
        for k, typ in keys:
            ex = c.cmd("EXISTS", k, timeout=10.0)
            rd = c.cmd(*{"string": ["GET", k], "zset": ["ZRANGE", k, "0", "-1"], "list": ["LLEN", k], "hash": ["HLEN", k]}[typ], timeout=10.0)
            gone = rd in (("$", None), ("*", []), (":", 0))
            if ex != (":", 0) or not gone:
                problems.append({"kind": "visible-after-deadline", "key": k, "type": typ,
                                 "detail": "deadline second %d, probed at %.2f: EXISTS -> %r, read -> %s" % (S + 1, time.time() - S, ex, repr(rd)[:80])})
        return problems, stats
    finally:
        srv.stop()


def blocking_pop_hygiene():
    """BLPOP / BRPOP naming keys that are missing, empty-then-deleted, or hold another type, alone and mixed with a real list:
    the command answers (nil at its timeout, an element, or an error) within its timeout plus slack, and afterwards a write
    on every key it named still completes - on the real binary over TCP (C13: multi-key BLPOP never deadlocks; C09)."""
    srv = server.Server()
    problems, stats = [], {"cases": 0}
    try:
        c = srv.client(timeout=10.0)
        for s in (["SET", "bp-str", "v"], ["HSET", "bp-hsh", "f", "v"], ["SADD", "bp-set", "a"], ["ZADD", "bp-zs", "1", "a"], ["XADD", "bp-xs", "1-1", "f", "v"],
                  ["RPUSH", "bp-lst", "x", "y", "z", "w"]):
            c.cmd(*s)
        cases = []
        for cmd in ("BLPOP", "BRPOP"):
            for k in ("bp-str", "bp-hsh", "bp-set", "bp-zs", "bp-xs", "bp-missing"):
                cases.append([cmd, k, "1"])
                cases.append([cmd, "bp-missing2", k, "1"])
                cases.append([cmd, k, "bp-lst", "1"])
        results = [None] * len(cases)

        def one(i):
            try:
                cc = srv.client(timeout=10.0)
                t0 = time.time()
                r = cc.cmd(*cases[i], timeout=25.0)
                results[i] = ("ok", r, time.time() - t0)
                cc.close()
            except Exception as e:
                results[i] = ("timeout", repr(e), 10.0)

        th = [threading.Thread(target=one, args=(i,)) for i in range(len(cases))]
        for t in th:
            t.start()
        for t in th:
            t.join(timeout=40)
        stats["cases"] = len(cases)
        for i, cs in enumerate(cases):
            kind, r, dt = results[i] or ("timeout", None, 40)
            if kind != "ok":
                problems.append({"kind": "hang", "argv": cs, "detail": "%s with a 1 s timeout did not answer within 25 s" % " ".join(cs)})
        if not srv.alive():
            problems.append({"kind": "process-death", "argv": None, "detail": srv.tail(1200)})
            return problems, stats
        probe = srv.client(timeout=10.0)
        for k in ("bp-str", "bp-hsh", "bp-set", "bp-zs", "bp-xs", "bp-missing", "bp-missing2", "bp-lst"):
            try:
                probe.cmd("DEL", k, timeout=5.0)
            except Exception:
                problems.append({"kind": "wedged-key", "argv": ["DEL", k], "detail": "DEL %s after the blocking pops: no reply within 5 s (lock stripe left held)" % k})
                probe.close()
                probe = srv.client(timeout=10.0)
        return problems, stats
    finally:
        srv.stop()
