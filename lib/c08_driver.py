"""C08 scenario driver: crash / restart scenarios on REAL cluster node processes (lib/cluster.py), the oracle of
acknowledged writes, read-back through every node's own port, classification of what went wrong, and the
normalisation of hook traces for spec/TraceCluster.tla.

A scenario is a plain dict (JSON-able, it is the replay artefact):
  id, cls (scenario class = branch label when nothing more specific is measured), nodes (1|3), snapcount (0 = never),
  catchup, kinds (value types of the workload), nwrites, big (bytes of padding per value), entry (index of the node the
  client talks to), victims: [{"node": i, "gate": "<event>#<n>" | "kill", "delay": s}], mode, then: "victims"|"all",
  order (restart order: list of node indices), seed.
Result: dict(outcome = ok | violation | inconclusive, violations=[(sig, what)], facts..., traces=[(src, events)]).
"""
import json, os, random, re, shutil, socket, struct, threading, time
import common, server, cluster

KINDS = ["string", "list", "hash", "set", "zset", "stream"]
GATE_EVENTS = ["ready", "walsave", "append", "send", "publish", "advance", "snapshot_start", "snapshot_done",
               "propose", "apply", "reply"]
CMD_TIMEOUT = 4.0


# ------------------------------------------------------------------------------------------------ oracle

class Oracle:
    """What the client knows: every write it issued, in issue order, and whether a reply arrived."""

    def __init__(self, seed, kinds, big=0):
        self.rng = random.Random(seed)
        self.kinds = kinds
        self.big = big
        self.writes = []      # dict(i, kind, key, argv, tok, status, via)
        self.n = 0

    def next_write(self, kind=None):
        i = self.n
        self.n += 1
        kind = kind or self.kinds[i % len(self.kinds)]
        tok = "t%d" % i
        pad = ("x" * self.big) if self.big else ""
        if kind == "string":
            key = "s%d" % (i % 7 if self.rng.random() < 0.4 else i)     # some keys are overwritten
            argv = ["SET", key, tok + pad]
        elif kind == "list":
            key = "l%d" % (i % 2)
            argv = ["RPUSH", key, tok + pad]
        elif kind == "hash":
            key = "h%d" % (i % 2)
            argv = ["HSET", key, "f" + tok, tok + pad]
        elif kind == "set":
            key = "e%d" % (i % 2)
            argv = ["SADD", key, tok + pad]
        elif kind == "zset":
            key = "z%d" % (i % 2)
            argv = ["ZADD", key, str(i), tok]
        else:
            key = "x%d" % (i % 2)
            argv = ["XADD", key, "%d-1" % (i + 1), "f", tok + pad]
        w = {"i": i, "kind": kind, "key": key, "argv": argv, "tok": tok if kind == "zset" else tok + pad, "status": "unsent", "via": None}
        self.writes.append(w)
        return w

    def acked(self):
        return [w for w in self.writes if w["status"] == "acked"]

    def keys(self):
        ks = {}
        for w in self.writes:
            if w["status"] in ("acked", "unacked"):
                ks.setdefault(w["key"], []).append(w)
        return ks


def _bulk(v):
    return v[1].decode("latin1") if v[0] in ("$", "+") and v[1] is not None else None


def read_key(c, kind, key):
    """Observed value of a key through one node: canonical python value, or ('error', text)."""
    if kind == "string":
        r = c.cmd("GET", key, timeout=CMD_TIMEOUT)
        if r[0] == "-":
            return ("error", r[1].decode("latin1", "replace"))
        return _bulk(r)
    cmdv = {"list": ["LRANGE", key, "0", "-1"], "hash": ["HGETALL", key], "set": ["SMEMBERS", key],
            "zset": ["ZRANGE", key, "0", "-1", "WITHSCORES"], "stream": ["XRANGE", key, "-", "+"]}[kind]
    r = c.cmd(*cmdv, timeout=CMD_TIMEOUT)
    if r[0] == "-":
        return ("error", r[1].decode("latin1", "replace"))
    items = r[1] or []
    if kind == "list" or kind == "set":
        return [_bulk(x) for x in items]
    if kind == "hash" or kind == "zset":
        flat = [_bulk(x) for x in items]
        return list(zip(flat[0::2], flat[1::2]))
    out = []
    for ent in items:          # stream: [[id, [f, v, ...]], ...]
        try:
            fid = _bulk(ent[1][0])
            fv = [_bulk(x) for x in (ent[1][1][1] or [])]
            out.append((fid, tuple(fv)))
        except Exception:
            out.append(("?", ()))
    return out


def judge_key(kind, ws, obs):
    """ws: writes to this key in issue order (acked / unacked). Returns list of (write, problem) for acknowledged writes
    that the observed value does not reflect. An unacknowledged write may or may not be visible."""
    acked = [w for w in ws if w["status"] == "acked"]
    if not acked:
        return []
    if isinstance(obs, tuple) and len(obs) == 2 and obs[0] == "error":
        return [(acked[-1], "read answered an error: %s" % obs[1][:60])]
    unacked = [w["tok"] for w in ws if w["status"] == "unacked"]
    bad = []
    if kind == "string":
        last = acked[-1]
        # unacknowledged writes may land at any later time (a proposal can sit in a node until a leader exists)
        allowed = {last["tok"]} | set(unacked)
        if obs not in allowed:
            bad.append((last, "GET returned %s, acknowledged value %s" % (_short(obs), _short(last["tok"]))))
    elif kind in ("list", "set"):
        obs = obs or []
        pos = -1
        for w in acked:
            if w["tok"] not in obs:
                bad.append((w, "element %s missing" % _short(w["tok"])))
            elif kind == "list":
                p = obs.index(w["tok"])
                if obs.count(w["tok"]) > 1:
                    bad.append((w, "element %s present %d times" % (_short(w["tok"]), obs.count(w["tok"]))))
                if p < pos:
                    bad.append((w, "element %s out of order" % _short(w["tok"])))
                pos = max(pos, p)
    elif kind == "hash":
        d = dict(obs or [])
        for w in acked:
            if w["argv"][2] not in d:
                bad.append((w, "field %s missing" % _short(w["argv"][2])))
            elif d.get(w["argv"][2]) != w["tok"]:
                bad.append((w, "field %s holds %s" % (_short(w["argv"][2]), _short(d.get(w["argv"][2])))))
    elif kind == "zset":
        d = dict(obs or [])
        for w in acked:
            if w["tok"] not in d:
                bad.append((w, "member %s missing" % w["tok"]))
            else:
                try:
                    if float(d[w["tok"]]) != float(w["argv"][2]):
                        bad.append((w, "member %s has score %s, acknowledged %s" % (w["tok"], d[w["tok"]], w["argv"][2])))
                except Exception:
                    bad.append((w, "member %s has unreadable score %r" % (w["tok"], d[w["tok"]])))
    else:
        ids = {x[0]: x[1] for x in (obs or [])}
        for w in acked:
            fid = w["argv"][2]
            if fid not in ids:
                bad.append((w, "entry %s missing" % fid))
            elif ids[fid] != ("f", w["tok"]):
                bad.append((w, "entry %s holds %s" % (fid, _short(str(ids[fid])))))
    return bad


def _short(x):
    x = "nil" if x is None else str(x)
    return x if len(x) <= 24 else x[:12] + "..(%d)" % len(x)


# ------------------------------------------------------------------------------------------------ traces

def normalise(events, src):
    """Hook events (all-string fields) -> uniformly typed records for spec/TraceCluster.tla."""
    out = [{"ev": "reset", "seq": 0, "id": "", "a": 0, "b": 0, "c": 0, "d": 0, "f": False, "src": src}]
    for e in events:
        ev = e.get("ev")
        a = b = c = dd = 0
        f = False

        def g(k):
            try:
                return int(e.get(k, "0") or 0)
            except ValueError:
                return -1
        if ev == "ready":
            a, b, f = g("entries"), g("committed"), e.get("snap") == "true"
            c, dd = max(0, g("term")), max(0, g("vote"))          # 0 when the Ready carries no hard state (or an older hook)
        elif ev == "recovered":
            a, b, c, dd = g("commit"), g("entries"), max(0, g("term")), max(0, g("vote"))
        elif ev == "walsave":
            a, b = g("entries"), g("last")
        elif ev == "append":
            b = g("last")
        elif ev == "send":
            a = g("msgs")
        elif ev == "publish":
            a = g("applied")
        elif ev == "snapshot_start":
            a = g("applied")
        elif ev == "snapshot_done":
            a, b = g("applied"), g("compact")
        elif ev == "advance":
            a = g("snapshot_index")
        try:
            seq = int(e.get("seq"))
        except Exception:
            seq = -1
        out.append({"ev": str(ev), "seq": seq, "id": str(e.get("id", "")), "a": a, "b": b, "c": c, "d": dd, "f": f, "src": src})
    return out


def incarnations(events):
    """Split one node's events at process restarts (seq starts again at 1)."""
    incs = []
    for e in events:
        if str(e.get("seq")) == "1" or not incs:
            incs.append([])
        incs[-1].append(e)
    return incs


def inc_facts(inc):
    """Measured facts about one incarnation of a node, from its hook trace."""
    f = {"start_snap": 0, "installed": False, "applied_ids": set(), "snap_done": 0, "snap_start": 0, "events": len(inc),
         "last_ev": inc[-1].get("ev") if inc else None}
    first_adv = True
    snap_before_adv = False
    for e in inc:
        ev = e.get("ev")
        if ev == "ready" and e.get("snap") == "true":
            f["installed"] = True
        elif ev == "snapshot_done":
            f["snap_done"] += 1
            if first_adv:
                snap_before_adv = True
        elif ev == "snapshot_start":
            f["snap_start"] += 1
        elif ev == "advance" and first_adv:
            first_adv = False
            if not snap_before_adv and not f["installed"]:
                try:
                    f["start_snap"] = int(e.get("snapshot_index", "0"))
                except ValueError:
                    pass
        elif ev == "apply":
            f["applied_ids"].add(e.get("id"))
    return f


# ------------------------------------------------------------------------------------------------ WAL surgery

def wal_frames(path):
    """Frame offsets of an etcd WAL segment: [(offset, data_len, pad)] up to the first zero length field."""
    data = open(path, "rb").read()
    off = 0
    frames = []
    while off + 8 <= len(data):
        (lf,) = struct.unpack("<q", data[off:off + 8])
        if lf == 0:
            break
        rec = lf & 0x00FFFFFFFFFFFFFF
        pad = 0
        if lf < 0:
            pad = (lf >> 56) & 0x7
        if off + 8 + rec + pad > len(data) or rec <= 0:
            break
        frames.append((off, rec, pad))
        off += 8 + rec + pad
    return frames, off


def tear_wal_tail(waldir):
    """Emulate a power loss during the last big WAL write: the sectors of the last multi-sector record after its first
    sector boundary (and everything behind it) never reached the disk (read as zero, the file is preallocated).
    Returns a description or None when no record spans a sector boundary near the tail."""
    segs = sorted(f for f in os.listdir(waldir) if f.endswith(".wal"))
    if not segs:
        return None
    path = os.path.join(waldir, segs[-1])
    frames, end = wal_frames(path)
    for off, rec, pad in reversed(frames[-6:]):
        first = off + 8
        last = off + 8 + rec + pad
        boundary = (first // 512 + 1) * 512
        if boundary < last - 8 and rec > 600:
            with open(path, "r+b") as fh:
                fh.seek(boundary)
                fh.write(b"\0" * (end - boundary))
            return {"segment": segs[-1], "record_offset": off, "record_bytes": rec, "zeroed_from": boundary, "zeroed_to": end}
    return None


# ------------------------------------------------------------------------------------------------ cluster helpers

def death_cause(cl, nd):
    """Why did a node process end on its own? (exit code, first panic / fatal line, stack mentions)"""
    rc = nd.p.returncode if nd.p is not None else None
    tail = cl.tail(nd, 6000)
    m = re.search(r"^(panic: .*|fatal error: .*|.*raftexample: .*|.*\bFATAL\b.*|.*\bpanic\b.*)$", tail, re.M)
    line = m.group(1).strip() if m else ""
    if not line:
        lines = [x for x in tail.splitlines() if x.strip()]
        line = lines[-1].strip() if lines else ""
    at_snapshot = ("maybeTriggerSnapshot" in tail) or ("GetSnapshot" in tail)
    return {"rc": rc, "line": line[:200], "at_snapshot": at_snapshot, "list_cycle": "memdb.ListNode" in tail}


def norm_line(line):
    line = re.sub(r"^\d{4}/\d\d/\d\d \d\d:\d\d:\d\d ", "", line)
    line = re.sub(r"0x[0-9a-f]+", "0x", line)
    line = re.sub(r"\d+", "N", line)
    return line[:80]


class Runner:
    def __init__(self, sc, log=None):
        self.sc = sc
        self.rng = random.Random(sc["seed"])
        self.cl = None
        self.killed = set()       # node ids killed by the driver
        self.gated = {}           # node id -> gate armed at its current start
        self.res = {"id": sc["id"], "cls": sc["cls"], "outcome": "ok", "violations": [], "facts": {}, "traces": [],
                    "scenario": sc}
        self.t0 = time.time()
        self.conn = None
        self.conn_node = None

    # -- plumbing
    def note(self, k, v):
        self.res["facts"][k] = v

    def inconclusive(self, why, code=""):
        self.res["outcome"] = "inconclusive"
        self.res["why"] = why
        self.res["why_code"] = code
        return self.res

    def violation(self, branch, kind, detail, what, extra=None):
        sig = {"branch": branch, "kind": kind, "detail": detail}
        self.res["outcome"] = "violation"
        self.res["violations"].append({"sig": sig, "what": what, "extra": extra or {}})

    def wait_serving(self, nodes, timeout):
        """Every listed node answers a command (through Raft). Returns (ok, dead_nodes)."""
        deadline = time.time() + timeout
        pending = list(nodes)
        while pending and time.time() < deadline:
            nd = pending[0]
            if not nd.alive():
                return False, [n for n in nodes if not n.alive()]
            try:
                c = nd.client(timeout=3.0)
                try:
                    r = c.cmd("PING")
                finally:
                    c.close()
                if r[0] in ("+", "$"):
                    pending.pop(0)
                    continue
            except Exception:
                pass
            time.sleep(0.15)
        return (not pending), [n for n in nodes if not n.alive()]

    def client_for(self, nd):
        if self.conn is not None and self.conn_node is nd:
            return self.conn
        self.drop_conn()
        self.conn = nd.client(timeout=CMD_TIMEOUT)
        self.conn_node = nd
        return self.conn

    def drop_conn(self):
        if self.conn is not None:
            self.conn.close()
        self.conn = None
        self.conn_node = None

    def do_write(self, orc, nd, pipeline_ping=False, kind=None):
        """Issue the next write through node nd. acked = a non-error reply arrived."""
        w = orc.next_write(kind)
        w["via"] = nd.id
        try:
            c = self.client_for(nd)
            w["ts"] = time.time_ns()
            if pipeline_ping:
                c.send_raw(server.encode(w["argv"]) + server.encode(["PING"]))
            else:
                c.send_raw(server.encode(w["argv"]))
            w["status"] = "unacked"
            r = c.read_reply(CMD_TIMEOUT)
            w["tr"] = time.time_ns()
            if r[0] == "-":
                w["status"] = "error"
                w["err"] = r[1].decode("latin1", "replace")[:80]
            else:
                w["status"] = "acked"
                w["t_ack"] = time.time() - self.t0
            if pipeline_ping:
                try:
                    c.read_reply(CMD_TIMEOUT)
                except Exception:
                    self.drop_conn()
        except Exception as ex:
            if w["status"] == "unsent":
                w["status"] = "unacked" if self.conn is not None else "unsent"
            w["exc"] = type(ex).__name__
            self.drop_conn()
        return w

    def live_entry(self, prefer):
        nodes = self.cl.nodes
        order = [prefer] + [i for i in range(len(nodes)) if i != prefer]
        for i in order:
            if nodes[i].alive():
                return nodes[i]
        return None

    # -- the scenario
    def run(self):
        try:
            return self._run()
        except Exception as ex:   # driver trouble is never a verdict
            import traceback
            self.res["outcome"] = "inconclusive"
            self.res["why"] = "driver exception: %s" % traceback.format_exc()[-600:]
            return self.res
        finally:
            self.drop_conn()
            if self.cl is not None:
                try:
                    for nd in self.cl.nodes:
                        self.res["traces"].append(("%s/n%d" % (self.sc["id"], nd.id), self.cl.events(nd)))
                except Exception:
                    pass
                self.cl.shutdown()
                if not os.environ.get("VERIF_KEEP"):
                    shutil.rmtree(self.cl.dir, ignore_errors=True)

    def _run(self):
        sc = self.sc
        n = sc["nodes"]
        snap = sc.get("snapcount") or None
        self.cl = cl = cluster.Cluster(n, snapcount=snap, catchup=sc.get("catchup"), wal_segment=sc.get("wal_segment", 1 << 20))
        gates = {v["node"]: v for v in sc.get("victims", [])}
        late = sc.get("mode") in ("lag",)
        for i, nd in enumerate(cl.nodes):
            v = gates.get(i)
            g = v["gate"] if v and v["gate"] != "kill" and not v.get("arm_late") else None
            cl.start_node(nd, crash_at=g)
            if g:
                self.gated[nd.id] = g
        ok, dead = self.wait_serving([nd for nd in cl.nodes if nd.id not in self.gated], 60)
        if not ok:
            early = [nd for nd in dead if nd.id not in self.gated]
            if early:
                c = death_cause(cl, early[0])
                if c["rc"] not in (-9, None):
                    return self.node_died(early[0], c, "boot")
            return self.inconclusive("cluster did not serve within 60 s after boot")
        self.note("boot_s", round(time.time() - self.t0, 1))
        orc = Oracle(sc["seed"], sc["kinds"], sc.get("big", 0))
        self.orc = orc
        mode = sc.get("mode", "gate")
        if mode == "noquorum":
            r = self.phase_noquorum(orc)
        elif mode == "lag":
            r = self.phase_lag(orc)
        else:
            r = self.phase_load(orc)
        if r is not None:
            return r
        return self.recover_and_check(orc)

    # workload until every victim is down (gate fired / killed) or the budget is used
    def phase_load(self, orc):
        sc = self.sc
        cl = self.cl
        victims = sc.get("victims", [])
        vnodes = [cl.nodes[v["node"]] for v in victims]
        timers = []
        for v in victims:
            if v["gate"] == "kill":
                nd = cl.nodes[v["node"]]
                t = threading.Timer(v.get("delay", 0.3), self.kill, args=(nd,))
                t.daemon = True
                timers.append(t)
        entry = sc.get("entry", 0)
        nmax = sc["nwrites"]
        tmax = time.time() + sc.get("load_s", 12)
        for t in timers:
            t.start()
        acked_before_crash = 0
        acked_after = 0
        pipelined = sc.get("pipelined", False)
        while orc.n < nmax and time.time() < tmax:
            nd = self.live_entry(entry)
            if nd is None:
                break
            all_down = bool(victims) and not any(x.alive() for x in vnodes)
            w = self.do_write(orc, nd, pipeline_ping=pipelined)
            if w["status"] == "acked":
                if all_down:
                    acked_after += 1
                else:
                    acked_before_crash += 1
            else:
                time.sleep(0.05)
            if all_down and (acked_after >= sc.get("min_after", 3) or not self.quorum_alive()):
                break      # a few more acknowledged writes after the last victim went down, then recover
        for t in timers:
            t.cancel()
        self.note("acked_before_last_crash", acked_before_crash)
        self.note("victims_down_under_load", [nd.id for nd in vnodes if not nd.alive()])
        missed = [nd for nd in vnodes if nd.alive()]
        if missed:       # the gate was not reached within the workload: plain kill -9 now (still a crash + restart)
            self.note("gate_missed", [nd.id for nd in missed])
        # a node that went down without being a victim died on its own
        for nd in cl.nodes:
            if not nd.alive() and nd.id not in self.killed and nd.id not in self.gated:
                return self.node_died(nd, death_cause(cl, nd), "load")
        for nd in cl.nodes:
            if not nd.alive() and nd.id in self.gated and nd.p.returncode != -9:
                return self.node_died(nd, death_cause(cl, nd), "load")
        return None

    def quorum_alive(self):
        return 2 * sum(1 for nd in self.cl.nodes if nd.alive()) > len(self.cl.nodes)

    def kill(self, nd):
        self.killed.add(nd.id)
        self.cl.kill(nd)

    def node_died(self, nd, cause, phase):
        """A node process ended by itself (not at a crash gate, not killed by the driver)."""
        sc = self.sc
        if "address already in use" in cause["line"] or "bind:" in cause["line"]:
            return self.inconclusive("port collision with another process on this machine: " + cause["line"][-80:])
        if cause["at_snapshot"]:
            branch = "snapshot.list_value" if cause["list_cycle"] else "snapshot.other"
        else:
            branch = sc["cls"] + "." + phase
        types = "+".join(sorted(set(w["kind"] for w in getattr(self, "orc", Oracle(0, ["string"])).writes if w["status"] in ("acked", "unacked")))) or "none"
        detail = types if cause["at_snapshot"] else norm_line(cause["line"])
        self.violation(branch, "node-died", detail,
                       "node %d died by itself during %s (exit code %s): %s" % (nd.id, phase, cause["rc"], cause["line"]),
                       {"cause": cause})
        self.note("died_at_snapshot", cause["at_snapshot"])
        return self.res

    def phase_noquorum(self, orc):
        """Acknowledgement without a quorum? Two of three nodes are killed, one more write is sent to the survivor."""
        cl = self.cl
        z = cl.nodes[self.sc.get("entry", 0)]
        for _ in range(self.sc["nwrites"]):
            self.do_write(orc, z)
        others = [nd for nd in cl.nodes if nd is not z]
        for nd in others:
            self.kill(nd)
        time.sleep(0.2)
        self.drop_conn()
        w = self.do_write(orc, z, kind=self.rng.choice(["string", "string", "hash"]))
        self.note("ack_without_quorum", w["status"] == "acked")
        w["noquorum"] = True
        self.kill(z)
        # the other two come back first and move on; then the survivor rejoins
        for nd in others:
            cl.start_node(nd)
        ok, dead = self.wait_serving(others, max(40.0, 6.0 * self.res["facts"].get("boot_s", 5.0)))
        if not ok:
            return self.unavailable(dead, "others after restart")
        for _ in range(3):
            self.do_write(orc, others[0])
        cl.start_node(z)
        return None

    def phase_lag(self, orc):
        """One node is down while the others write past the snapshot threshold and compact; it then catches up."""
        cl = self.cl
        lag = cl.nodes[self.sc["victims"][0]["node"]]
        entry = self.live_entry(self.sc.get("entry", 0))
        for _ in range(3):
            self.do_write(orc, entry)
        self.kill(lag)
        entry = self.live_entry(self.sc.get("entry", 0))
        tmax = time.time() + 20
        while orc.n < self.sc["nwrites"] and time.time() < tmax:
            self.do_write(orc, entry)
        for nd in cl.nodes:
            if nd is not lag and not nd.alive():
                return self.node_died(nd, death_cause(cl, nd), "load")
        return None

    def unavailable(self, dead, when):
        cl = self.cl
        own = [nd for nd in dead if nd.p.returncode != -9 or nd.id not in self.killed]
        if own:
            c = death_cause(cl, own[0])
            if c["at_snapshot"]:
                return self.node_died(own[0], c, "restart")
            if "address already in use" in c["line"] or "bind:" in c["line"]:
                return self.inconclusive("port collision with another process on this machine: " + c["line"][-80:])
            self.violation(self.sc["cls"], "unavailable", norm_line(c["line"]),
                           "node %d does not come back (%s): exit code %s: %s" % (own[0].id, when, c["rc"], c["line"]), {"cause": c})
            return self.res
        return self.inconclusive("not serving %s although every process is alive" % when, "unserved")

    def recover_and_check(self, orc):
        sc = self.sc
        cl = self.cl
        if sc.get("then", "victims") == "all":
            time.sleep(self.rng.random() * 0.05)
            for nd in cl.nodes:
                if nd.alive():
                    self.kill(nd)
        elif sc.get("then", "victims") == "victims":
            for v in sc.get("victims", []):
                if cl.nodes[v["node"]].alive() and sc.get("mode", "gate") == "gate":
                    self.kill(cl.nodes[v["node"]])
        for i in sc.get("then_kill", []):
            if i < len(cl.nodes) and cl.nodes[i].alive():
                self.kill(cl.nodes[i])
        if sc.get("tear"):
            for i in sc["tear"]:
                nd = cl.nodes[i]
                if nd.alive():
                    self.kill(nd)
                d = tear_wal_tail(os.path.join(nd.dir, "raftexample-%d" % nd.id))
                self.note("torn_%d" % nd.id, d)
                if d is None:
                    return self.inconclusive("no multi-sector record at the WAL tail to tear")
        down = [i for i, nd in enumerate(cl.nodes) if not nd.alive()]
        order = [i for i in sc.get("order", down) if i in down] + [i for i in down if i not in sc.get("order", down)]
        self.note("restarted", [cl.nodes[i].id for i in order])
        self.gated = {}
        for i in order:
            cl.start_node(cl.nodes[i])
            time.sleep(sc.get("restart_gap", 0.0))
        # allowance scaled by how long this cluster took to boot on this (possibly loaded) machine
        allow = max(40.0, 6.0 * self.res["facts"].get("boot_s", 5.0))
        ok, dead = self.wait_serving(cl.nodes, allow)
        if not ok and not dead:
            ok, dead = self.wait_serving(cl.nodes, allow)     # slow election under load: once more
        if not ok:
            if dead:
                return self.unavailable(dead, "after restart")
            return self.inconclusive("cluster did not serve within %.0f s after the restart although every process is alive" % (2 * allow), "unserved")
        self.note("recovered_s", round(time.time() - self.t0, 1))
        # read every acknowledged key through every node's own port
        keys = orc.keys()
        per_node_bad = {}
        for nd in cl.nodes:
            try:
                c = nd.client(timeout=CMD_TIMEOUT)
            except Exception:
                if not nd.alive():
                    return self.unavailable([nd], "during read-back")
                return self.inconclusive("connect failed during read-back")
            try:
                for key, ws in keys.items():
                    if not any(w["status"] == "acked" for w in ws):
                        continue
                    obs = None
                    for attempt in range(3):
                        try:
                            obs = read_key(c, ws[0]["kind"], key)
                            break
                        except Exception:
                            c.close()
                            if not nd.alive():
                                return self.unavailable([nd], "during read-back")
                            time.sleep(0.5)
                            c = nd.client(timeout=CMD_TIMEOUT)
                    else:
                        return self.inconclusive("read-back of %s on node %d timed out" % (key, nd.id))
                    for w, problem in judge_key(ws[0]["kind"], ws, obs):
                        per_node_bad.setdefault(nd.id, []).append((w, problem))
            finally:
                c.close()
        for nd in cl.nodes:
            if not nd.alive():
                return self.unavailable([nd], "during read-back")
        self.note("acked", len(orc.acked()))
        self.note("unacked", sum(1 for w in orc.writes if w["status"] == "unacked"))
        self.note("keys_read", sum(1 for ws in keys.values() if any(w["status"] == "acked" for w in ws)) * len(cl.nodes))
        if per_node_bad:
            self.classify_losses(per_node_bad)
        return self.res

    def ids_of_acked(self):
        """Proposal id of every acknowledged write: the hook events `propose id` and `reply id` of the node that received
        the command both carry the wall clock (same host), and both lie between the driver's send and its receipt of
        the reply.  The driver issues commands one at a time, so at most one proposal fits a window (the pipelined
        PING is proposed after the write: the earliest proposal wins)."""
        ids = {}
        per_node = {}
        for nd in self.cl.nodes:
            tab = {}
            for e in self.cl.events(nd):
                if e.get("ev") in ("propose", "reply") and e.get("id"):
                    tab.setdefault(e["id"], {})[e["ev"]] = int(e.get("t_ns", 0))
            per_node[nd.id] = tab
        for w in self.orc.writes:
            if w["status"] != "acked" or "ts" not in w:
                continue
            best = None
            for pid, t in per_node.get(w["via"], {}).items():
                if "propose" in t and "reply" in t and w["ts"] <= t["propose"] and t["reply"] <= w["tr"]:
                    if best is None or t["propose"] < best[0]:
                        best = (t["propose"], pid)
            if best:
                ids[w["i"]] = best[1]
        return ids

    def classify_losses(self, per_node_bad):
        sc = self.sc
        cl = self.cl
        ids = self.ids_of_acked()
        self.note("ids_matched", len(ids))
        for nid, bads in sorted(per_node_bad.items()):
            nd = cl.nodes[nid - 1]
            incs = incarnations(cl.events(nd))
            last = inc_facts(incs[-1]) if incs else {"start_snap": 0, "installed": False, "applied_ids": set()}
            groups = {}
            for w, p in bads:
                wid = ids.get(w["i"]) if ids else None
                reapplied = (wid in last["applied_ids"]) if wid else None
                if last["start_snap"] > 0 and reapplied is not True:
                    branch = "restart.after_snapshot"      # at or below the snapshot the node started from: never replayed
                elif last["installed"] and reapplied is not True:
                    branch = "catchup.by_snapshot"         # covered by the snapshot the node installed: never applied here
                elif reapplied is True:
                    branch = sc["cls"] + ".applied_but_wrong"
                else:
                    branch = sc["cls"]
                groups.setdefault(branch, []).append((w, p, reapplied))
            for branch, g in sorted(groups.items()):
                kinds = "+".join(sorted(set(w["kind"] for w, _, _ in g)))
                w0, p0, r0 = g[0]
                what = ("node %d after recovery: %d acknowledged write(s) not reflected, e.g. %s (%s; acknowledged %.2fs into the run); "
                        "the node's last start loaded snapshot index %d, installed a leader snapshot: %s, re-applied this write after its last start: %s" %
                        (nid, len(g), " ".join(_short(a) for a in w0["argv"]), p0, w0.get("t_ack", -1), last["start_snap"], last["installed"], r0))
                self.violation(branch, "lost-write", kinds, what,
                               {"node": nid, "lost": [{"argv": [_short(a) for a in w["argv"]], "problem": p, "reapplied": r} for w, p, r in g[:8]],
                                "start_snap": last["start_snap"], "installed": last["installed"], "incarnations": len(incs)})


def run_scenario(sc):
    return Runner(sc).run()
