"""Shared helpers for /verif checks (standard library only).

Verdict contract (DESIGN.md §2.3):
  exit 0  property held on everything explored (known findings printed as KNOWN-FINDING lines)
  exit 1  a real execution of the real code falsified the property: line
          `VIOLATION property=<id> replay=<path>` per distinct signature
  exit 2  infrastructure failure (build, TLC crash, timeout) - never a verdict
"""
import atexit, json, os, re, shutil, signal, subprocess, sys, tempfile, time

ROOT = os.path.dirname(os.path.dirname(os.path.abspath(__file__)))
REPO = os.environ.get("VERIF_REPO", "/repo")
SPEC = os.path.join(ROOT, "spec")
# evidence/ and replay/ go under OUT: /verif itself for registered runs against /repo; seed sweeps and self-tests
# against a scratch worktree (VERIF_REPO) set VERIF_OUT so that the committed evidence is not overwritten
OUT = os.environ.get("VERIF_OUT", ROOT)
TLA_CP = "/opt/veriftools/tla/tla2tools.jar:/opt/veriftools/tla/CommunityModules-deps.jar"

GOENV = {
    "GOFLAGS": "-mod=mod", "GOPROXY": "off", "GOSUMDB": "off", "GOTOOLCHAIN": "local",
    "GONOSUMCHECK": "1", "GONOSUMDB": "*",
}


def env(extra=None):
    e = dict(os.environ)
    e.update(GOENV)
    if extra:
        e.update({k: str(v) for k, v in extra.items()})
    return e


def seed():
    try:
        return int(os.environ.get("VERIF_SEED", "1"))
    except ValueError:
        return 1


_scratch_dirs = []


def scratch(prefix="verif-"):
    """Per-run scratch directory, removed at exit."""
    base = os.environ.get("VERIF_TMP") or tempfile.gettempdir()
    d = tempfile.mkdtemp(prefix=prefix, dir=base)
    _scratch_dirs.append(d)
    return d


def _cleanup():
    if os.environ.get("VERIF_KEEP"):
        return
    for d in _scratch_dirs:
        shutil.rmtree(d, ignore_errors=True)


atexit.register(_cleanup)


def die_infra(msg):
    print("INFRA-ERROR: " + msg, flush=True)
    sys.exit(2)


def ensure_gosum(module_dir):
    """Harness modules copy /repo's go.sum (plus etcd sums) so that no network lookup is attempted."""
    dst = os.path.join(module_dir, "go.sum")
    parts = []
    for p in [os.path.join(REPO, "go.sum"), os.path.join(REPO, "etcd", "go.sum"),
              os.path.join(ROOT, "lib", "extra.go.sum")]:
        if os.path.exists(p):
            parts.append(open(p).read())
    lines = sorted(set(l for part in parts for l in part.splitlines() if l.strip()))
    new = "\n".join(lines) + "\n"
    if not os.path.exists(dst) or open(dst).read() != new:
        open(dst, "w").write(new)


_module_copies = {}


def _module_for_repo(module_dir):
    """The harness go.mod files `replace` RedisGO/etcd with /repo paths. When VERIF_REPO points elsewhere
    (self-tests against a scratch worktree) build from a scratch copy of the module with rewritten paths."""
    if REPO == "/repo":
        return module_dir
    if module_dir in _module_copies:
        return _module_copies[module_dir]
    d = scratch("mod-")
    dst = os.path.join(d, os.path.basename(module_dir))
    shutil.copytree(module_dir, dst, ignore=shutil.ignore_patterns("go.sum"))
    gm = os.path.join(dst, "go.mod")
    txt = open(gm).read().replace("=> /repo", "=> " + REPO)
    open(gm, "w").write(txt)
    _module_copies[module_dir] = dst
    return dst


def _cover_flags():
    """VERIF_COVER=<dir> (bin/reach): build every harness tool and the server with statement coverage of the code under
    test and let them write GOCOVERDIR data there - which lines of the anchored files did the drivers reach?"""
    d = os.environ.get("VERIF_COVER")
    if not d:
        return []
    os.makedirs(d, exist_ok=True)
    os.environ["GOCOVERDIR"] = d
    return ["-cover", "-covermode=set", "-coverpkg=./...,github.com/innovationb1ue/RedisGO/...,go.etcd.io/etcd/raft/v3/...,go.etcd.io/etcd/server/v3/storage/wal/...,go.etcd.io/etcd/server/v3/etcdserver/api/snap/..."]


def go_build(module_dir, pkg, out, tags="verif", race=False, timeout=900):
    """Build package `pkg` of the Go module at module_dir (which `replace`s RedisGO => /repo) into `out`.
    Always rebuilds against /repo's current working tree (go's build cache keys on file content)."""
    module_dir = _module_for_repo(module_dir)
    ensure_gosum(module_dir)
    cmd = ["go", "build", "-o", out] + _cover_flags()
    if tags:
        cmd += ["-tags", tags]
    if race:
        cmd += ["-race"]
    cmd += [pkg]
    p = subprocess.run(cmd, cwd=module_dir, env=env(), stdout=subprocess.PIPE, stderr=subprocess.STDOUT,
                       text=True, timeout=timeout)
    if p.returncode != 0:
        die_infra("go build failed in %s (%s):\n%s" % (module_dir, pkg, p.stdout[-4000:]))
    return out


def go_build_repo(pkg_dir, out, tags="verif", race=False, timeout=900):
    """Build a main package inside /repo itself (e.g. the server binary)."""
    cmd = ["go", "build", "-o", out] + _cover_flags()
    if tags:
        cmd += ["-tags", tags]
    if race:
        cmd += ["-race"]
    cmd += ["."]
    p = subprocess.run(cmd, cwd=pkg_dir, env=env(), stdout=subprocess.PIPE, stderr=subprocess.STDOUT,
                       text=True, timeout=timeout)
    if p.returncode != 0:
        die_infra("go build failed in %s:\n%s" % (pkg_dir, p.stdout[-4000:]))
    return out


class TLCResult:
    def __init__(self):
        self.rc = None
        self.generated = 0
        self.distinct = 0
        self.depth = 0
        self.out = ""
        self.violated = None      # name of violated invariant / property, if any
        self.error = None         # evaluation / parse error text
        self.wall = 0.0
        self.timed_out = False


_RE_STATES = re.compile(r"(\d+) states generated, (\d+) distinct states found")
_RE_DEPTH = re.compile(r"depth of the complete state graph search is (\d+)")


def run_tlc(module, cfg=None, workdir=None, workers=8, heap="4g", extra_env=None, timeout=1800,
            args=(), stdout_path=None, jvm=(), deadlock=False, line_cb=None):
    """Run TLC on spec/<module>.tla (copied with all spec/*.tla into a scratch dir so TLC litter stays out of /verif).
    If stdout_path is given, TLC's stdout is streamed there (for edge tables); otherwise captured.
    line_cb(line) is called for every stdout line when given (streaming consumers)."""
    res = TLCResult()
    wd = workdir or scratch("tlc-")
    for f in os.listdir(SPEC):
        if f.endswith(".tla") or f.endswith(".cfg") or f.endswith(".json"):
            shutil.copy(os.path.join(SPEC, f), wd)
    meta = os.path.join(wd, "meta-%d" % int(time.time() * 1000))
    cmd = ["java", "-Xmx" + heap, "-Xss64m", "-XX:+UseParallelGC"] + list(jvm) + \
          ["-cp", TLA_CP, "tlc2.TLC", "-workers", str(workers), "-metadir", meta, "-noGenerateSpecTE"]
    if not deadlock:
        cmd += ["-deadlock"]   # -deadlock DISABLES deadlock checking
    cmd += list(args)
    cmd += ["-config", cfg or (module + ".cfg"), module + ".tla"]
    t0 = time.time()
    out_lines = []
    fh = open(stdout_path, "w") if stdout_path else None
    try:
        p = subprocess.Popen(cmd, cwd=wd, env=env(extra_env), stdout=subprocess.PIPE, stderr=subprocess.STDOUT,
                             text=True, bufsize=1 << 20, errors="replace")
        deadline = t0 + timeout
        for line in p.stdout:
            if line_cb is not None:
                if line_cb(line):
                    continue
            if fh is not None and line.startswith('"'):
                fh.write(line)
                continue
            out_lines.append(line)
            if len(out_lines) > 200000:
                del out_lines[:100000]
            if time.time() > deadline:
                p.kill()
                res.timed_out = True
                break
        p.wait()
        res.rc = p.returncode
    finally:
        if fh:
            fh.close()
    res.wall = time.time() - t0
    res.out = "".join(out_lines)
    m = None
    for m in _RE_STATES.finditer(res.out):
        pass
    if m:
        res.generated, res.distinct = int(m.group(1)), int(m.group(2))
    m = _RE_DEPTH.search(res.out)
    if m:
        res.depth = int(m.group(1))
    m = re.search(r"Invariant (\S+) is violated", res.out)
    if m:
        res.violated = m.group(1)
    m = re.search(r"Action property (\S+) is violated|Temporal properties were violated", res.out)
    if m and not res.violated:
        res.violated = m.group(1) or "temporal"
    if re.search(r"Error: (?!Invariant|Action property|Temporal)", res.out) and not res.violated:
        res.error = res.out[-3000:]
    shutil.rmtree(meta, ignore_errors=True)
    return res


def tlc_ok(res, what):
    """Model-level sanity: TLC must finish without error. A model-level invariant violation on our own MC
    instance is a bug in the machinery (exit 2), never a verdict about the code."""
    if res.timed_out:
        die_infra("TLC timed out: " + what)
    if res.violated:
        die_infra("TLC model check failed (%s violated) in %s:\n%s" % (res.violated, what, res.out[-3000:]))
    if res.error or res.rc not in (0,):
        die_infra("TLC error in %s (rc=%s):\n%s" % (what, res.rc, res.out[-3000:]))


# ---------------------------------------------------------------- known findings

def load_known(prop):
    path = os.path.join(ROOT, "known_findings.json")
    if not os.path.exists(path):
        return []
    out = []
    for e in json.load(open(path)):
        if e.get("property") == prop and e.get("status") == "known":
            out.append(e)
    return out


def match_known(known, sig):
    """sig: dict(branch=..., kind=..., detail=...). An entry matches when every key it gives matches
    (entry values are regexes anchored at both ends)."""
    for e in known:
        s = e.get("signature", {})
        ok = True
        for k, pat in s.items():
            if not re.fullmatch(pat, str(sig.get(k, ""))):
                ok = False
                break
        if ok:
            return e
    return None


class Verdict:
    """Collects violations / known findings for one property run and produces output + exit code."""

    def __init__(self, prop):
        self.prop = prop
        self.known = load_known(prop)
        self.violations = {}   # signature key -> (sig, replay path)
        self.known_hit = {}
        self.t0 = time.time()

    def report(self, sig, replay_obj, what=None):
        """Report a failing real execution. sig: dict(branch, kind, detail). replay_obj: JSON-able."""
        e = match_known(self.known, sig)
        key = "%s|%s|%s" % (sig.get("branch"), sig.get("kind"), sig.get("detail"))
        if e is not None:
            if e["id"] not in self.known_hit:
                self.known_hit[e["id"]] = e
                print("KNOWN-FINDING: property=%s %s (%s)" % (self.prop, e.get("what", ""), e["id"]), flush=True)
            return False
        if key in self.violations:
            return True
        d = os.path.join(OUT, "replay", self.prop)
        os.makedirs(d, exist_ok=True)
        path = os.path.join(d, "v%03d.json" % (len(self.violations) + 1))
        json.dump({"property": self.prop, "signature": sig, "what": what, "replay": replay_obj},
                  open(path, "w"), indent=1, default=str)
        self.violations[key] = (sig, path)
        print("VIOLATION property=%s replay=%s" % (self.prop, path), flush=True)
        print("  signature: %s" % json.dumps(sig), flush=True)
        if what:
            print("  what: %s" % str(what)[:600], flush=True)
        return True

    def finish(self, tier, level, coverage, assumptions=None):
        cov = dict(coverage)
        cov["known_findings_hit"] = sorted(self.known_hit)
        write_evidence(self.prop, tier, level, cov, assumptions or [], time.time() - self.t0, len(self.violations))
        # known findings that were expected but not hit are still printed (the file lists them; the check
        # prints a line per listed finding as the interface requires)
        for e in self.known:
            if e["id"] not in self.known_hit:
                print("KNOWN-FINDING: property=%s %s (%s; not exercised in this run)" % (self.prop, e.get("what", ""), e["id"]), flush=True)
        if self.violations:
            sys.exit(1)
        print("OK property=%s tier=%s wall=%.1fs" % (self.prop, tier, time.time() - self.t0), flush=True)
        sys.exit(0)


def write_evidence(prop, tier, level, coverage, assumptions, wall, violations):
    os.makedirs(os.path.join(OUT, "evidence"), exist_ok=True)
    path = os.path.join(OUT, "evidence", prop + ".json")
    ev = {"property_id": prop, "tier": tier, "seed": seed(), "level": level, "coverage": coverage,
          "assumptions": assumptions, "wall_s": round(wall, 2), "violations": violations}
    tmp = path + ".tmp"
    json.dump(ev, open(tmp, "w"), indent=1, default=str)
    os.replace(tmp, path)


def run(cmd, cwd=None, timeout=1800, extra_env=None, stdin=None, check=False):
    p = subprocess.run(cmd, cwd=cwd, env=env(extra_env), stdout=subprocess.PIPE, stderr=subprocess.STDOUT,
                       text=True, timeout=timeout, input=stdin, errors="replace")
    if check and p.returncode != 0:
        die_infra("command failed: %s\n%s" % (" ".join(cmd), p.stdout[-4000:]))
    return p


def tier_arg():
    t = sys.argv[1] if len(sys.argv) > 1 else os.environ.get("VERIF_TIER", "quick")
    if t not in ("quick", "thorough"):
        t = "quick"
    return t
