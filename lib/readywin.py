"""C15, Ready/Advance window: spec/ReadyWindow.tla checked by TLC and bound (B1) to a real raft.RawNode by `raftsim window`.

TLC enumerates the complete state graph of one follower's log pipeline (unstable over storage, the Ready the application
holds, save, Advance) under every order of appends / heartbeats of up to MaxTerm successive leaders, and prints every
transition; the walker replays every transition on a real RawNode after its shortest path, compares every Ready, Status and
the storage with the model, and then lets the leaders act on what the node really acknowledged.  Violations are decided on
the real node's outputs alone (see raftsim/window.go)."""
import json, os, re, shutil, subprocess, threading, time

import common

SAFETY_PANIC = re.compile(r"conflict with committed entry|is out of range|out of bound|invalid transition|missing log entry|"
                          r"corrupted, truncated, or lost")


def _prep(work, tag):
    wd = os.path.join(work, "rw-" + tag)
    os.makedirs(wd, exist_ok=True)
    for f in os.listdir(common.SPEC):
        if "ReadyWindow" in f:
            shutil.copy(os.path.join(common.SPEC, f), wd)
    return wd


def _tlc_cmd(wd, cfg, workers, heap):
    return ["java", "-Xmx" + heap, "-Xss64m", "-XX:+UseParallelGC", "-cp", common.TLA_CP, "tlc2.TLC", "-workers", str(workers),
            "-metadir", os.path.join(wd, "meta-" + cfg), "-noGenerateSpecTE", "-deadlock", "-config", cfg, "MC_ReadyWindow.tla"]


def graph_replay(sim_bin, work, tag, constants, walks, seed, tlc_workers=4, walk_workers=6, timeout=1500, heap="4g"):
    """One MC_ReadyWindow instance: TLC -> EDGE lines -> raftsim window. constants: dict(MaxTerm, Families)."""
    wd = _prep(work, tag)
    cfg = "inst-%s.cfg" % tag
    with open(os.path.join(wd, cfg), "w") as f:
        f.write("SPECIFICATION Spec\nCONSTANTS\n  MaxTerm = %d\n  MaxBatch = 2\n  WithSnap = TRUE\n  Alias = FALSE\n  Families <- %s\n"
                "INVARIANTS TypeOK NoPanic CommittedIsLeaders AppliedIsLeaders AckIsDurable AckedNotLost Quiescent\n"
                "PROPERTIES ReadyImmutable\nVIEW View\nACTION_CONSTRAINT Emit\nCHECK_DEADLOCK FALSE\n" % (constants["MaxTerm"], constants["Families"]))
    t0 = time.time()
    tlc = subprocess.Popen(_tlc_cmd(wd, cfg, tlc_workers, heap), cwd=wd, env=common.env(), stdout=subprocess.PIPE, stderr=subprocess.STDOUT)
    walker = subprocess.Popen([sim_bin, "window", "-workers", str(walk_workers), "-walks", str(walks), "-depth", "40", "-seed", str(seed)],
                              stdin=subprocess.PIPE, stdout=subprocess.PIPE, stderr=subprocess.PIPE)
    wout = []

    def drain():
        for line in walker.stdout:
            wout.append(line.decode("utf-8", "replace"))
    th = threading.Thread(target=drain)
    th.start()
    tlc_log = os.path.join(wd, "tlc-%s.log" % tag)
    with open(tlc_log, "wb") as lg:
        for line in tlc.stdout:
            if line.startswith(b'"EDGE'):
                try:
                    walker.stdin.write(line)
                except BrokenPipeError:
                    break
            else:
                lg.write(line)
            if time.time() - t0 > timeout:
                tlc.kill()
                walker.kill()
                common.die_infra("ReadyWindow instance %s timed out" % tag)
    tlc.wait()
    tlc_wall = time.time() - t0
    try:
        walker.stdin.close()
    except Exception:
        pass
    try:
        walker.wait(timeout=max(60, timeout - (time.time() - t0)))
    except subprocess.TimeoutExpired:
        walker.kill()
        common.die_infra("ReadyWindow walker %s timed out" % tag)
    th.join()
    logtxt = open(tlc_log, errors="replace").read()
    m = None
    for m in common._RE_STATES.finditer(logtxt):
        pass
    if tlc.returncode != 0 or not m or "Model checking completed. No error" not in logtxt:
        import re as _re
        err = _re.search(r"Error: .*(?:\n.*){0,6}", logtxt)
        common.die_infra("TLC failed on ReadyWindow instance %s (rc=%s): %s\n...\n%s" % (tag, tlc.returncode, err.group(0)[:800] if err else "", logtxt[-1500:]))
    if walker.returncode != 0:
        common.die_infra("raftsim window failed on %s (rc=%s): %s" % (tag, walker.returncode, walker.stderr.read().decode()[-2000:]))
    fails, summary = [], None
    for line in wout:
        if line.startswith("SUMMARY "):
            summary = json.loads(line[8:])
        elif line.strip():
            fails.append(json.loads(line))
    if summary is None:
        common.die_infra("raftsim window printed no summary for " + tag)
    if summary["edges"] != int(m.group(1)) - summary["initial_states"] or summary["unreachable_states"]:
        common.die_infra("ReadyWindow %s: walker saw %d edges / %d unreachable states, TLC generated %s states" % (
            tag, summary["edges"], summary["unreachable_states"], m.group(1)))
    return {"tag": tag, "fails": fails, "summary": summary, "wall": time.time() - t0,
            "tlc": {"generated": int(m.group(1)), "distinct": int(m.group(2)), "wall": tlc_wall}}


def model_only(work, tag, constants, workers=8, timeout=1500, expect_violation=False):
    """TLC on an instance without replay (invariants only). Returns (ok, generated, distinct, violated-name)."""
    wd = _prep(work, tag)
    cfg = "inst-%s.cfg" % tag
    with open(os.path.join(wd, cfg), "w") as f:
        f.write("SPECIFICATION Spec\nCONSTANTS\n  MaxTerm = %d\n  MaxBatch = 2\n  WithSnap = TRUE\n  Alias = %s\n  Families <- %s\n"
                "INVARIANTS TypeOK NoPanic CommittedIsLeaders AppliedIsLeaders AckIsDurable AckedNotLost Quiescent\n%s"
                "VIEW View\nCHECK_DEADLOCK FALSE\n" % (constants["MaxTerm"], "TRUE" if constants.get("Alias") else "FALSE", constants["Families"],
                                                       "" if constants.get("NoProps") else "PROPERTIES ReadyImmutable\n"))
    pr = subprocess.run(_tlc_cmd(wd, cfg, workers, "8g"), cwd=wd, env=common.env(), stdout=subprocess.PIPE, stderr=subprocess.STDOUT,
                        text=True, timeout=timeout)
    m = None
    for m in common._RE_STATES.finditer(pr.stdout):
        pass
    violated = None
    mv = re.search(r"Invariant (\w+) is violated|Action property (\w+) is violated", pr.stdout)
    if mv:
        violated = mv.group(1) or mv.group(2)
    ok = (pr.returncode == 0 and "Model checking completed. No error" in pr.stdout) if not expect_violation else violated is not None
    if not ok:
        common.die_infra("TLC on ReadyWindow instance %s: rc=%s violated=%s\n%s" % (tag, pr.returncode, violated, pr.stdout[-2500:]))
    return {"tag": tag, "generated": int(m.group(1)) if m else 0, "distinct": int(m.group(2)) if m else 0, "violated": violated}


def classify(fails):
    """-> (violations, divergences): a failure is a violation when the walker decided it on the real node's outputs, or when
    it is one of the library's own log-safety panics under a conforming leader and application."""
    viol, div = [], []
    for f in fails:
        if f.get("violation") or (f["kind"] == "panic" and SAFETY_PANIC.search(f["detail"])):
            viol.append(f)
        else:
            div.append(f)
    return viol, div


def run(sim_bin, work, tier, seed, pool):
    """Submit the tier's instances to `pool`; returns a function that collects the results."""
    quick = tier == "quick"
    if not quick:
        # the three-leader instances are large (333 k states, 10 M transitions each, a JVM plus a walker holding the graph):
        # two at a time, next to the rest of the thorough tier (all of them at once was killed by the kernel for memory)
        import concurrent.futures as _cf
        pool = _cf.ThreadPoolExecutor(max_workers=2)
    jobs = []
    if quick:
        jobs.append(pool.submit(graph_replay, sim_bin, work, "two", {"MaxTerm": 2, "Families": "QuickTwo"}, 3000, seed, 4, 6))
    else:
        # every transition of the two-leader families is replayed (2.05 M). The three-leader families (333-505 k states, 10-15 M
        # transitions each) are model-checked only: TLC keeps what PrintT printed in memory, and 10 M transition records
        # exhausted a 10 GB heap after 30 minutes
        jobs.append(pool.submit(graph_replay, sim_bin, work, "two", {"MaxTerm": 2, "Families": "TwoLeaders"}, 20000, seed, 4, 6, 3000, "8g"))
    mo = []
    if not quick:
        for k in (1, 2, 3, 4):
            mo.append(pool.submit(model_only, work, "three%d" % k, {"MaxTerm": 3, "Families": "Only%d" % k}, 6, 2400))
        mo.append(pool.submit(model_only, work, "all3", {"MaxTerm": 3, "Families": "AllFamilies3"}, 8, 3000))
    # self-test: the model with the defect "the outstanding Ready reads the array truncateAndAppend writes" must break the
    # clauses (vacuity guard for the invariants; the binding's own guard is seeded/C15-r5)
    st1 = pool.submit(model_only, work, "alias", {"MaxTerm": 2, "Families": "QuickTwo", "Alias": True}, 2, 600, True)
    st2 = pool.submit(model_only, work, "alias-inv", {"MaxTerm": 2, "Families": "QuickTwo", "Alias": True, "NoProps": True}, 2, 600, True)

    def collect():
        res = [j.result() for j in jobs]
        models = [j.result() for j in mo]
        s1, s2 = st1.result(), st2.result()
        fails = [dict(f, instance=r["tag"]) for r in res for f in r["fails"]]
        viol, div = classify(fails)
        br = {}
        for r in res:
            for k, v in r["summary"]["branches"].items():
                br[k] = br.get(k, 0) + v
        cov = {
            "spec": "ReadyWindow.tla (one follower: unstable over storage, Ready / save / Advance as separate steps; appends, heartbeats and snapshots of successive leaders in any order)",
            "instances": [{"instance": r["tag"], "states": r["tlc"]["distinct"], "transitions": r["tlc"]["generated"],
                           "transitions_replayed_on_real_rawnode": r["summary"]["replays"] - r["summary"]["walks"],
                           "random_walks": r["summary"]["walks"], "real_steps": r["summary"]["real_steps"], "wall_s": round(r["wall"], 1)} for r in res],
            "model_only_instances": models,
            "transitions_replayed": sum(r["summary"]["replays"] for r in res),
            "real_steps": sum(r["summary"]["real_steps"] for r in res),
            "branches_replayed": br,
            "violating_replays": sum(f["count"] for f in viol), "diverging_replays": sum(f["count"] for f in div),
            "selftest_alias_model": {"action_property_broken": s1["violated"], "invariant_broken_without_it": s2["violated"]},
        }
        return viol, div, cov
    return collect
