#!/usr/bin/env python3
"""Generates /verif/MANIFEST.json from the table below (single source of truth for check registration)."""
import json, os, subprocess

ROOT = os.path.dirname(os.path.dirname(os.path.abspath(__file__)))
props = [json.loads(l) for l in open(os.path.join(ROOT, "properties.jsonl"))]

KS_NOTE = ("Trusted: TLC, the transcription of the Redis command reference in spec/Ks*.tla (checked against the property's own "
           "statements as model invariants), the independent RESP decoder harness/respcodec, the verif-tagged structural dump "
           "(memdb/verif_inspect.go). B1 is exhaustive only within the instance bounds; B2 is sampled.")

CHECKS = {
    "C09": dict(cat="model_checking", ref="§C09", technique="TLA+ reference model (KsList.tla) checked by TLC; every transition of the bounded graph replayed on the real executors (B1) with structural dump comparison; random programmes trace-validated by TLC (B2)",
                text="TLC enumerates the bounded list keyspace (2 lists + a string key, elements {a,b}, all index/count/option arguments incl. beyond-either-end) and checks the model invariants; every one of its transitions is replayed on the real code through Manager.ExecCommand and reply + internal list structure (forward walk = backward walk = Len) are compared; seeded random programmes with binary payloads are validated line by line against the same spec by TLC.",
                note=KS_NOTE),
    "C10": dict(cat="model_checking", ref="§C10", technique="TLA+ reference model (KsHash.tla) + TLC; B1 edge tours on the real executors; B2 TLC trace validation of random programmes",
                text="Exhaustive replay of the bounded hash model's transitions (fields incl. the empty string in the thorough tier, values incl. empty/numeric/int64 extremes, all HRANDFIELD count forms with every legal random reply enumerated) plus TLC-validated random programmes.",
                note=KS_NOTE),
    "C11": dict(cat="model_checking", ref="§C11", technique="TLA+ reference model (KsSet.tla) + TLC; B1 edge tours; B2 TLC trace validation",
                text="Set algebra is defined with TLA+'s own union/intersection/difference; every transition of the bounded model (all operand tuples with missing, repeated and wrong-typed keys, STORE into fresh/existing/source/wrong-typed destinations, every legal SPOP/SRANDMEMBER outcome) is replayed on the real code; random programmes validated by TLC.",
                note=KS_NOTE),
    "C12": dict(cat="model_checking", ref="§C12", technique="TLA+ reference model (KsZset.tla) + TLC; B1 edge tours of an options/ties instance and a deep-tree instance with AVL/dict/len invariants evaluated on the implementation after every edge; B2 TLC trace validation",
                text="Two bounded instances: all ZADD option combinations x ties x rank windows (3 members), and trees of up to 5 (quick) / 7 (thorough) members covering rotations and rebalancing after deletions; after every replayed transition the real AVL tree must be a height-balanced BST whose len and member index agree with its contents.",
                note=KS_NOTE),
    "C18": dict(cat="model_checking", ref="§C18", technique="TLA+ reference model (KsStream.tla) + TLC; B1 edge tours; B2 TLC trace validation (auto IDs checked relationally)",
                text="Bounded stream model over an ID grid (explicit, partial ms-*, bare ms; MAXLEN/MINID with = and ~; NOMKSTREAM; every XRANGE bound pair) replayed exhaustively on the real code with comparison of the stored entries; random programmes validated by TLC.",
                note=KS_NOTE),
}

NA_REASON = "check not built yet in this round (see DESIGN.md for the plan); no claim is made"


def main():
    checks = []
    for p in props:
        pid = p["id"]
        if pid not in CHECKS:
            continue
        c = CHECKS[pid]
        checks.append({
            "property_id": pid,
            "quick_cmd": "bin/check %s quick" % pid,
            "thorough_cmd": "bin/check %s thorough" % pid,
            "evidence_file": "/verif/evidence/%s.json" % pid,
            "replay_cmd_template": "cat {path}",
            "engine": "tlc+harness",
            "level_claimed": {"category": c["cat"], "text": c["text"], "design_ref": c["ref"]},
            "level_note": c["note"],
            "technique": c["technique"],
        })
    commits = subprocess.check_output(["git", "-C", "/repo", "log", "--format=%h %s"], text=True).splitlines()
    hooks = [l.split()[0] for l in commits if "verif hook" in l]
    m = {
        "version": 1,
        "setup_cmd": "bin/setup",
        "hooks": {"guard": "verif", "enable": "go build -tags verif",
                  "baseline_off_cmd": "for m in . ./etcd ./etcd/api ./etcd/client/pkg ./etcd/client/v2 ./etcd/client/v3 ./etcd/pkg ./etcd/raft ./etcd/server; do (cd /repo/$m && go test -mod=mod -vet=off -count=1 -timeout 25m ./...); done",
                  "source_commits": hooks, "add_only": True},
        "engines": [{"name": "tlc+harness", "path": "/verif/bin/check", "serves_properties": sorted(CHECKS),
                     "kind_free_text": "TLA+ specifications in spec/ checked by TLC; Go conformance harnesses in harness/ (edge walker, trace generators), raftsim/, walsim/"}],
        "checks": checks,
        "not_applicable": [{"property_id": p["id"], "reason": NA_REASON} for p in props if p["id"] not in CHECKS],
        "notes": "Model-based verification with explicit TLA+ specifications (spec/), TLC, and conformance bindings. See DESIGN.md. Known findings and fixed defects: known_findings.json.",
    }
    json.dump(m, open(os.path.join(ROOT, "MANIFEST.json"), "w"), indent=1)
    print("manifest: %d checks, %d not_applicable" % (len(checks), len(m["not_applicable"])))


if __name__ == "__main__":
    main()
