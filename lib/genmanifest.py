#!/usr/bin/env python3
"""Generates /verif/MANIFEST.json from the table below (single source of truth for check registration)."""
import json, os, subprocess

ROOT = os.path.dirname(os.path.dirname(os.path.abspath(__file__)))
props = [json.loads(l) for l in open(os.path.join(ROOT, "properties.jsonl"))]

KS_NOTE = ("Trusted: TLC, the transcription of the Redis command reference in spec/Ks*.tla (checked against the property's own "
           "statements as model invariants), the independent RESP decoder harness/respcodec, the verif-tagged structural dump "
           "(memdb/verif_inspect.go). B1 is exhaustive only within the instance bounds; B2 is sampled.")

CHECKS = {
    "C02": dict(cat="model_checking", ref="§C02", technique="TLA+ RespParser.tla (reference decoder + chunked parser state machine; ChunkingIndependence, OutIsPrefix, NothingAfterStop, Exactness checked by TLC). B1 TLC-emitted test vectors replayed on resp.ParseStream under exhaustive and adversarial read schedules, with a crash-attributing child driver. TCP replay on the real binary with a liveness probe connection and byte-exact argument echo. B2 seeded random binary pipelines over TCP.",
                text="The chunked RESP parser state machine of spec/RespParser.tla is model checked by TLC against the reference decoder under every read schedule (chunking independence, nothing delivered after a stop, exact round trip of Enc over arguments containing CR, LF, NUL, $, * and the empty string). TLC prints every byte string over {*,$,1,2,-,a,CR,LF} up to length 5 (quick) / 7 (thorough), 1-3 command pipelines over 7 argument values, every single-point mutation of well-formed streams, and declared lengths up to 2^63. Each is replayed on the real resp.ParseStream under every split of streams up to 10 bytes, with adversarial and seeded splits for longer streams. Crashers, all declared-length vectors and a seeded sample are replayed on the real server binary over TCP with a second connection that must keep answering PING. Random binary pipelines (arguments up to 64 KB) are reply-matched over TCP.",
                note="Trusted: TLC; the classification of spec/RespParser.tla (malformed = bare LF, non-integer or < -1 length, bulk not followed by CRLF; well-formed non-commands and odd length spellings are 'unspec' and only require the commands before them, no crash, no hang); the independent RESP codec in lib/server.py. Exhaustive only within the stated alphabet and lengths. B2 replies are matched against a Python dictionary model, not by TLC. Process deaths of the in-process driver are verdicts only when reproduced on the real binary. Hang verdicts use a 2 s watchdog confirmed twice with doubled bounds."),
    "C16": dict(cat="fault_enumeration", ref="§C16", technique="TLA+ model (Wal.tla, Snap.tla) model-checked by TLC for RecoveredIsPrefix, TornTailRepairable, AppendAfterRecoveryIsClean, CorruptionNeverAccepted, SnapFallback with must-fail sensitivity instances; B1 scenario emission and replay on real files (walsim); B2 TLC trace validation (TraceWal.tla); bounded-exhaustive byte corruption on real files",
                text="Every terminal state of bounded TLC instances of an explicit TLA+ model of the WAL (word/sector layout, Save/SaveSnapshot/cut with the page-writer and MustSync rules, every subset of unsynced sectors lost, a crash inside cut(), single-word corruption, recovery by ReadAll+Repair, reopen+append+second crash) is replayed on real files through the real wal package and judged by the prefix contract computed from what was handed to Save. In addition every byte offset of every file of closed WAL images and of 1-3-file snapshot sets is XOR-ed with 0x01/0x80/0xFF and read by all readers; snapshot files are also truncated at every length and hit with every lost-sector subset; seeded random crash scenarios with 0-40 KB payloads are validated by TLC against TraceWal.tla.",
                note="Trusted: TLC; the harness's independent frame/protobuf/CRC parser and its Go contract (cross-checked by TraceWal.tla with planted rejections); the sector-atomic crash materialisation (complete the save, then revert sectors; file size kept; ZeroToEnd and Repair durable). The CRC is abstract in the model. Exhaustive only within instance bounds. Known findings C16-F01 and C16-F02 are reproduced every run; one ambiguity (stale superseded entry when opening at a snapshot) is counted, not flagged.",
                replay="env PYTHONPATH=/verif/lib python3 /verif/checks/C16.py replay {path}"),
    "C07": dict(cat="model_checking", ref="§C07", technique="TLA+ model of the cluster layer above the agreed log (ClusterLin.tla: ReplicaAgreement, AckedExactlyOnce, OwnReply, RealTime checked by TLC); histories of concurrent TCP clients on real multi-process clusters under kill/restart/pause schedules checked for linearizability by TLC (TraceLin.tla) with per-node read-back",
                text="Real 3-node (thorough: also 5-node) clusters of the real binary are driven by concurrent clients on all nodes while nodes are killed, restarted and paused; the complete invocation/response history, ending with a read-back of every key through every node's own port, must be linearizable against the keyspace spec (unanswered commands may or may not take effect), and no node may die by itself. Replica agreement for commands depending on local randomness or clock is probed separately (recorded findings).",
                note="Trusted: TLC, TraceLin/Keyspace specs, process-level fault injection on one host (no network shim). Consensus itself is C15's subject. Inconclusive scenarios (cluster not ready) are skipped and counted."),
    "C14": dict(cat="model_checking", ref="§C14", technique="TLA+ codec model (Codec.tla: faithful codec = identity, old space-joined codec corrupts the expected classes) with every enumerated argument vector pushed through the real cluster path; the keyspace transition tables and random programmes replayed through the real cluster handler + proposal JSON + apply loop (in process) and through real 1- and 3-node clusters, validated by TraceKs.tla with read-back on every replica",
                text="Every argument vector of up to 2 (quick) / 3 (thorough) arguments over {a, A, space, CR, LF, 0xFF} (incl. empty arguments) must come back byte for byte through HandleCluster -> RaftProposal JSON -> apply loop -> executor; every branch label of every family's bounded model and random programmes with binary arguments are run through the same path and through real clusters, and must satisfy the same reference keyspace as the standalone server, on every replica.",
                note="Trusted: TLC, the Keyspace spec, the verif hook server/verif_cluster.go (replaces only the Raft transport). Real clusters are sampled (a few programmes per family and a sample of codec vectors) because every command costs a Raft round trip."),
    "C05": dict(cat="model_checking", ref="§C05", technique="concurrent histories recorded from the real code (verif lock/map hooks yield at seeded points) checked for linearizability by TLC against the TLA+ keyspace spec (TraceLin.tla, just-in-time linearization over candidate configurations); quiescent invariants (key counter, KEYS/EXISTS, structures, lock hygiene)",
                text="Hundreds (quick) to thousands (thorough) of short concurrent histories on keys that collide on lock stripes and map shards are decided exactly by TLC: a history is accepted iff some sequential order of its commands, consistent with real time, explains every reply under Keyspace.Exec, including a sequential read-back of every key. A churn workload with 8-16 clients targets the shared key counter and KEYS under write load.",
                note="Trusted: TLC, Keyspace spec, ticket ordering (taken before invoke / after return: can only make the check more permissive). Schedules are those the Go scheduler produces under seeded yields; the check is a sampled exploration of interleavings with an exact per-history decision."),
    "C13": dict(cat="model_checking", ref="§C13", technique="linearizability by TLC (TraceLin.tla) of concurrent histories with MSET/RENAME/LMOVE/SMOVE as atomic operations; deadlock watchdog over histories mixing all multi-key commands; lock programmes observed through the verif hooks model-checked for deadlock with a TLA+ RWMutex model (Locks.tla) and counterexample schedules replayed with gates on the real code",
                text="Atomicity: histories mixing the four atomic multi-key commands with single-key commands on colliding keys must be linearizable with those commands as single steps (nothing lost, duplicated or half-applied). Deadlock freedom: (a) stress under a watchdog; (b) the lock programme of every multi-key command form in every key/stripe configuration is observed on the real code, TLC checks every pair of observed programmes for deadlock on a model of Go's RWMutex, and any counterexample schedule is replayed on the real code with gates at the lock requests - only a reproduced real deadlock is a violation.",
                note="Trusted: TLC, Locks.tla's RWMutex semantics (writer preference), the verif lock hook. Observed programmes are per configuration (data-dependent locking is covered only for the configurations observed)."),
    "C19": dict(cat="model_checking", ref="§C19", technique="TLA+ PubSub.tla model-checked by TLC (MC_PubSub); sequential schedules, concurrent histories through Manager.Handle and over TCP on the real binary checked for linearizability against it by TLC (TracePubSub.tla)",
                text="Every recorded SUBSCRIBE / PUBLISH / close and every push read by a subscriber is replayed against the sequential Pub/Sub spec: a push must be the next message published to that channel while the connection was subscribed (exactly once, in order, intact incl. CR LF, to no one else), the PUBLISH reply must be the fan-out at its linearization point, and at quiescence nothing may remain undelivered; publishers are watched for blocking and the process for death.",
                note="Trusted: TLC, PubSub.tla, independent RESP decoder. Order is per channel; count leniency for closes overlapping a publish (and, over TCP, for closes the server has not yet noticed)."),
    "C06": dict(cat="model_checking", ref="§C06", technique="TLA+ keyspace model with explicit time (MC_Expire.tla: Tick action, deadline windows) model-checked by TLC; its transitions incl. Tick replayed on the real clock (ttltour) and random ttl programmes; recorded traces validated by TraceKs.tla",
                text="TLC checks the clauses of C06 on the model (nothing expires early, nothing survives its deadline window, keys without deadline never expire, EXPIRE NX/XX conditions, PERSIST/overwrite clear, KEEPTTL keeps) and emits every transition; about a thousand programmes (path + command + probes over the next two seconds, for every branch label x model second x deadline class) run concurrently on the real clock, each on its own server, and every reply is validated against the spec with the observed second.",
                note="Trusted: TLC, KsCore deadline-window semantics (one-second granularity as the property states), the wall clock of the host. Commands lacking a lazy expiry check are accepted as long as the active timer removes the key within the deadline second + 1."),
    "C03": dict(cat="model_checking", ref="§C03", technique="the TLC transition tables of every keyspace instance replayed at the wire level (pipelined batches through Manager.Handle, CR LF payload substitution, independent RESP decoder); random programmes pipelined over net.Pipe and TCP with PING-nonce alignment, validated by TraceKs.tla",
                text="For every branch label of every family's bounded model, setup + path + command are written as one pipelined batch into the real connection handler and the reply stream must split into exactly one well-formed reply per command with the expected content, with CR LF inside every payload position; random programmes are pipelined in random batch sizes and write chunks through Manager.Handle and to the real binary over TCP, each command followed by PING <nonce> whose echo pins count and order.",
                note="Trusted: harness/respcodec (independent decoder), TLC/TraceKs.tla for content. Only count/decodability/alignment/nil-result failures are C03 verdicts; content mismatches are left to the family properties. Pub/Sub pushes are outside (C19)."),
    "C01": dict(cat="model_checking", ref="§C01", technique="TLA+ reference model (KsString.tla, KsKeys.tla, Glob.tla) + TLC; B1 edge tours (case-twin keys, CR LF / empty values, 64-bit and exact-decimal arithmetic instance); B2 TLC trace validation of random string and key programmes",
                text="Every transition of two bounded instances (string/generic-key commands over keys k/K/l with values incl. empty and CR LF and every option combination; a numeric instance with int64 extremes and exact decimals) is replayed on the real executors with comparison of reply and stored state; random programmes with binary payloads are validated by TLC against the same spec.",
                note=KS_NOTE),
    "C04": dict(cat="fault_enumeration", ref="§C04", technique="input space defined in TLA+ (Robust.tla token alphabet and mutation operators, MC_* command sets, all printed by TLC); bounded-exhaustive execution on the real code under a server-life monitor; every anomaly reproduced on the real binary over TCP",
                text="Every registered command name x every argument vector up to length 2 (quick) / 3 (thorough) over a 50-token adversarial alphabet, plus every single-point mutation of ~1250 valid commands, is executed against a keyspace holding one key of each type; after each input: no panic, reply in time, every lock stripe free, probes answer. Crashes are confirmed by process exit / dead second connection on the real server binary.",
                note="Trusted: the harness monitor (recover, watchdog, TryLock on every stripe through the verif-tagged inspection file). The spec supplies the input space; the decision is enumeration plus observation. Legitimately blocking inputs are skipped and counted."),
    "C17": dict(cat="model_checking", ref="§C17", technique="TLA+ Match(p, s) (Glob.tla) evaluated by TLC for every pattern up to length 5/6 over the metacharacter alphabet x 85 subjects; every table row replayed on util.PattenMatch and on the KEYS command",
                text="The documented glob grammar is a total three-valued function in TLA+; TLC evaluates it exhaustively within the bound (66 430 patterns x 85 subjects in the quick tier) and checks meta-properties of the grammar; the real matcher and KEYS (on a keyspace that also holds deleted and expired keys) must agree with every settled entry and terminate without panic on the unsettled ones.",
                note="Trusted: the transcription of the grammar in Glob.tla; constructs the grammar leaves open are only checked for termination. Exhaustive up to the stated lengths, nothing beyond."),
    "C20": dict(cat="model_checking", ref="§C20", technique="TLA+ Select.tla (Isolation, SelectionIsPrivate, RejectKeeps checked by TLC); every transition replayed on one real Manager shared by Manager.Handle connections; model walks replayed over TCP on the real binary",
                text="All interleavings of two connections issuing SELECT (valid, out of range, negative, non-numeric, empty, wrong arity, lexical corners) and data commands over 1, 2 and 16 databases are model-checked and each transition is replayed on the real connection handler, comparing replies and the contents of every database.",
                note="Trusted: TLC, Select.tla, the independent RESP codecs. Two connections in B1; 16 databases label-sampled in the quick tier."),
    "C09": dict(cat="model_checking", ref="§C09", technique="TLA+ reference model (KsList.tla) checked by TLC; every transition of the bounded graph replayed on the real executors (B1) with structural dump comparison; random programmes trace-validated by TLC (B2)",
                text="TLC enumerates the bounded list keyspace (2 lists + a string key, elements {a,b}, all index/count/option arguments incl. beyond-either-end) and checks the model invariants; every one of its transitions is replayed on the real code through Manager.ExecCommand and reply + internal list structure (forward walk = backward walk = Len) are compared; seeded random programmes with binary payloads are validated line by line against the same spec by TLC.",
                note=KS_NOTE),
    "C10": dict(cat="model_checking", ref="§C10", technique="TLA+ reference model (KsHash.tla) + TLC; B1 edge tours on the real executors; B2 TLC trace validation of random programmes",
                text="Exhaustive replay of the bounded hash model's transitions (fields incl. the empty string in the thorough tier, values incl. empty/numeric/int64 extremes, all HRANDFIELD count forms with every legal random reply enumerated) plus TLC-validated random programmes.",
                note=KS_NOTE),
    "C11": dict(cat="model_checking", ref="§C11", technique="TLA+ reference model (KsSet.tla) + TLC; B1 edge tours; B2 TLC trace validation",
                text="Set algebra is defined with TLA+'s own union/intersection/difference; every transition of the bounded model (all operand tuples with missing, repeated and wrong-typed keys, STORE into fresh/existing/source/wrong-typed destinations, every legal SPOP/SRANDMEMBER outcome) is replayed on the real code; random programmes validated by TLC.",
                note=KS_NOTE),
    "C12": dict(cat="model_checking", ref="§C12", technique="TLA+ reference model (KsZset.tla) + TLC; B1 edge tours of an options/ties instance and a deep-tree instance with AVL/dict/len invariants evaluated on the implementation after every edge; B2 TLC trace validation",
                text="Two bounded instances: all ZADD option combinations x ties x rank windows (3 members), and trees of up to 5 (quick) / 7 (thorough) members covering rotations and rebalancing after deletions; after every replayed transition the real AVL tree must be a height-balanced BST whose len and member index agree with its contents.",
                note=KS_NOTE),
    "C18": dict(cat="model_checking", ref="§C18", technique="TLA+ reference model (KsStream.tla) + TLC; B1 edge tours; B2 TLC trace validation (auto IDs checked relationally)",
                text="Bounded stream model over an ID grid (explicit, partial ms-*, bare ms; MAXLEN/MINID with = and ~; NOMKSTREAM; every XRANGE bound pair) replayed exhaustively on the real code with comparison of the stored entries; random programmes validated by TLC.",
                note=KS_NOTE),
}

NA_REASON = "check not built yet in this round (see DESIGN.md for the plan); no claim is made"


def main():
    checks = []
    for p in props:
        pid = p["id"]
        if pid not in CHECKS:
            continue
        c = CHECKS[pid]
        checks.append({
            "property_id": pid,
            "quick_cmd": "bin/check %s quick" % pid,
            "thorough_cmd": "bin/check %s thorough" % pid,
            "evidence_file": "/verif/evidence/%s.json" % pid,
            "replay_cmd_template": c.get("replay", "cat {path}"),
            "engine": "tlc+harness",
            "level_claimed": {"category": c["cat"], "text": c["text"], "design_ref": c["ref"]},
            "level_note": c["note"],
            "technique": c["technique"],
        })
    commits = subprocess.check_output(["git", "-C", "/repo", "log", "--format=%h %s"], text=True).splitlines()
    hooks = [l.split()[0] for l in commits if "verif hook" in l]
    m = {
        "version": 1,
        "setup_cmd": "bin/setup",
        "hooks": {"guard": "verif", "enable": "go build -tags verif",
                  "baseline_off_cmd": "for m in . ./etcd ./etcd/api ./etcd/client/pkg ./etcd/client/v2 ./etcd/client/v3 ./etcd/pkg ./etcd/raft ./etcd/server; do (cd /repo/$m && go test -mod=mod -vet=off -count=1 -timeout 25m ./...); done",
                  "source_commits": hooks, "add_only": True},
        "engines": [{"name": "tlc+harness", "path": "/verif/bin/check", "serves_properties": sorted(CHECKS),
                     "kind_free_text": "TLA+ specifications in spec/ checked by TLC; Go conformance harnesses in harness/ (edge walker, trace generators), raftsim/, walsim/"}],
        "checks": checks,
        "not_applicable": [{"property_id": p["id"], "reason": NA_REASON} for p in props if p["id"] not in CHECKS],
        "notes": "Model-based verification with explicit TLA+ specifications (spec/), TLC, and conformance bindings. See DESIGN.md. Known findings and fixed defects: known_findings.json.",
    }
    json.dump(m, open(os.path.join(ROOT, "MANIFEST.json"), "w"), indent=1)
    print("manifest: %d checks, %d not_applicable" % (len(checks), len(m["not_applicable"])))


if __name__ == "__main__":
    main()
